/-!
# Model of the snapshot machinery (C02)   — core Lean only

Code-shaped model of
* `resource_informer.go`: `applyFilter`+`RemoveFullObject` (`mkEntry`), `loadExistedObjects`
  (`loadExisted`), the cache section of `handleWatchEvent` (`handleWatch`), `getCachedObjects`
  (the values of a Go map: any permutation of `cache`);
* `types.go`: `ByNamespaceAndName.Less` (`lessGo`, both branches);
* `monitor.go`: `CreateInformersForNamespace`, `CreateInformers`, the namespace add/delete
  callbacks, `Start`, `Snapshot`;
* `hook_controller.go`: `getIncludeSnapshotsFrom`, `UpdateSnapshots` (per-execution cache keyed by
  binding name, a cached `nil` is *not* read again, refresh of Synchronization `objects`);
* `config_v1.go` / `util.go`: `MergeArrays` and the group → includeSnapshotsFrom expansion.

Identifiers are `Nat`s (the harness interns strings; namespaces and names are interned
order-preservingly, `ridOf` is the rank of the rendered `ns/kind/name` string).
External behaviour enters as parameters: the jq/FilterFunc projection `flt`, the checksum `chk`,
`sort.Sort` as any function with the contract `SortContract`, Go map iteration order as an arbitrary
permutation, the list/watch machinery as the event lists handed to the informers.
-/
namespace ShellOp.Snapshot

/-- `namespace/kind/name` (what `resourceId` renders). -/
structure Key where
  ns : Nat
  kind : Nat
  name : Nat
deriving DecidableEq, Repr

/-- An object as list/watch delivers it. `content` interns the whole JSON (labels included);
`lbl` is the value of the one label the selectors of the generated bindings look at. -/
structure Obj where
  key : Key
  content : Nat
  lbl : Nat := 0
deriving DecidableEq, Repr

/-- `kemtypes.ObjectAndFilterResult`. -/
structure Entry where
  key : Key            -- Metadata.ResourceId
  obj : Option Nat     -- Object (`none` after RemoveFullObject)
  fr : Nat             -- FilterResult
  sum : Nat            -- Metadata.Checksum
deriving DecidableEq, Repr

inductive EvType | added | modified | deleted
deriving DecidableEq, Repr

/-- The parts of `MonitorConfig` read by the informer. -/
structure Cfg where
  keepFull : Bool
  flt : Nat → Nat                -- applyFilter: object ↦ filter result (jq / FilterFunc; opaque)
  chk : Nat → Nat                -- checksum (md5 of the JSON text; opaque)
  hasFilter : Bool := true       -- jqFilter != "" or FilterFunc != nil
  fires : EvType → Bool := fun _ => true   -- shouldFireEvent

/-- `applyFilter` (with a filter: result + checksum of the result; without: no result (0 = nil),
checksum of the whole object) followed by `RemoveFullObject` unless `KeepFullObjectsInMemory`. -/
def mkEntry (cfg : Cfg) (o : Obj) : Entry :=
  let e : Entry :=
    if cfg.hasFilter then
      { key := o.key, obj := some o.content, fr := cfg.flt o.content, sum := cfg.chk (cfg.flt o.content) }
    else { key := o.key, obj := some o.content, fr := 0, sum := cfg.chk o.content }
  if !cfg.keepFull then { e with obj := none } else e

/-! ### Go maps keyed by the resource id: association lists with the map's semantics -/

section KMap
variable {α : Type} (key : α → Key)

/-- `m[k] = v` -/
def kput (l : List α) (e : α) : List α := l.filter (fun x => key x ≠ key e) ++ [e]
/-- `delete(m, k)` -/
def kdel (l : List α) (k : Key) : List α := l.filter (fun x => key x ≠ k)
/-- `m[k]` -/
def kget (l : List α) (k : Key) : Option α := l.find? (fun x => key x = k)
/-- every key at most once -/
def KeysNodup (l : List α) : Prop := l.Pairwise (fun a b => key a ≠ key b)

end KMap

abbrev Cache := List Entry

/-- `loadExistedObjects`: the listed items go through `applyFilter` into the fresh map
`filteredObjects` (a later item with the same id overwrites), which is then copied into the cache. -/
def loadExisted (cfg : Cfg) (c : Cache) (items : List Obj) : Cache :=
  let filtered := (items.map (mkEntry cfg)).foldl (kput Entry.key) []
  filtered.foldl (kput Entry.key) c

/-- The cache section of `handleWatchEvent`; the second component says whether a KubeEvent is
produced (`skipEvent` / `shouldFireEvent`) — the cache update does not depend on it. -/
def handleWatch (cfg : Cfg) (c : Cache) (t : EvType) (o : Obj) : Cache × Bool :=
  let e := mkEntry cfg o
  match t with
  | .deleted => (kdel Entry.key c o.key, cfg.fires t)
  | _ =>
    let skip := match kget Entry.key c o.key with
      | some old => old.sum == e.sum
      | none => false
    (kput Entry.key c e, !skip && cfg.fires t)

abbrev WatchEv := EvType × Obj

/-- An informer's cache after its own initial list and a sequence of watch events. -/
def runInformer (cfg : Cfg) (items : List Obj) (evs : List WatchEv) : Cache :=
  evs.foldl (fun c ev => (handleWatch cfg c ev.1 ev.2).1) (loadExisted cfg [] items)

/-- The ordinary finite map "last write wins" the cache is supposed to be. -/
def specInit (items : List Obj) (k : Key) : Option Obj := items.reverse.find? (fun o => o.key = k)

def specStep (m : Key → Option Obj) (ev : WatchEv) : Key → Option Obj :=
  match ev.1 with
  | .deleted => fun k => if k = ev.2.key then none else m k
  | _ => fun k => if k = ev.2.key then some ev.2 else m k

def specAfter (items : List Obj) (evs : List WatchEv) : Key → Option Obj :=
  evs.foldl specStep (specInit items)

/-! ### `ByNamespaceAndName.Less` and `sort.Sort` -/

/-- `Less(i, j)` exactly as written: the resource-id string when either full object is gone,
(namespace, name) otherwise. `ridOf` = rank of the string `ns/kind/name`. -/
def lessGo (ridOf : Key → Nat) (p q : Entry) : Bool :=
  if p.obj.isNone || q.obj.isNone then
    ridOf p.key < ridOf q.key
  else if p.key.ns < q.key.ns then true
  else if p.key.ns > q.key.ns then false
  else p.key.name < q.key.name

/-- The contract assumed of `sort.Sort` (on lists whose elements all kept / all dropped the full
object — within one monitor `KeepFullObjectsInMemory` is one flag): a sorted permutation. -/
def SortContract (ridOf : Key → Nat) (srt : List Entry → List Entry) : Prop :=
  ∀ l : List Entry, (∀ a ∈ l, ∀ b ∈ l, a.obj.isSome = b.obj.isSome) →
    (srt l).Perm l ∧ (srt l).Pairwise (fun a b => lessGo ridOf b a = false)

/-- The executable stand-in used by the driver: insertion sort with `Less`. -/
def insertBy (lt : Entry → Entry → Bool) (a : Entry) : List Entry → List Entry
  | [] => [a]
  | b :: t => if lt a b then a :: b :: t else b :: insertBy lt a t

def modelSort (ridOf : Key → Nat) (l : List Entry) : List Entry :=
  l.foldr (insertBy (lessGo ridOf)) []

/-! ### The monitor -/

/-- One `resourceInformer`: bound to a namespace (`none` = all) and to a name (`none` = any). -/
structure Informer where
  ns : Option Nat
  name : Option Nat
  cache : Cache := []
  started : Bool := false
deriving Repr

def Informer.inScope (i : Informer) (k : Key) : Bool :=
  (match i.ns with | none => true | some n => k.ns == n) &&
  (match i.name with | none => true | some n => k.name == n)

structure Monitor where
  static : List Informer := []                  -- ResourceInformers
  varying : List (Nat × List Informer) := []    -- VaryingInformers (sync.Map: ns ↦ informers)
  staticNs : List Nat := []
deriving Repr

/-- `CreateInformersForNamespace`: one informer per entry of `names()` (as written: duplicates
are not removed by this function), one unnamed informer when there is none; each does its own
initial list (`list ns name` = what the API server returns for that scope right now). -/
def createForNs (cfg : Cfg) (names : List Nat) (list : Option Nat → Option Nat → List Obj)
    (ns : Option Nat) : List Informer :=
  let objNames : List (Option Nat) := if names.isEmpty then [none] else names.map some
  objNames.map (fun nm => { ns := ns, name := nm, cache := loadExisted cfg [] (list ns nm) })

/-- `nameSelector.matchNames` as handed to the monitor after the repair (`fix:` commit): each name
once, first occurrence kept. -/
def dedupNames : List Nat → List Nat
  | [] => []
  | n :: ns => n :: (dedupNames ns).filter (· ≠ n)

/-- Namespace informer "added" callback. -/
def nsAdded (cfg : Cfg) (names : List Nat) (list : Option Nat → Option Nat → List Obj)
    (m : Monitor) (n : Nat) : Monitor :=
  if m.staticNs.contains n then m
  else if (m.varying.find? (·.1 == n)).isSome then m
  else { m with varying := m.varying ++ [(n, (createForNs cfg names list (some n)).map ({ · with started := true }))] }

/-- Namespace informer "deleted" callback. -/
def nsDeleted (m : Monitor) (n : Nat) : Monitor :=
  if m.staticNs.contains n then m
  else { m with varying := m.varying.filter (·.1 != n) }

/-- All cached entries, in the order `Snapshot()` appends them (static informers first, then the
`sync.Map` range over the varying ones). -/
def Monitor.allEntries (m : Monitor) : List Entry :=
  (m.static.map (·.cache)).flatten ++ ((m.varying.map (fun p => (p.2.map (·.cache)).flatten))).flatten

/-- `Snapshot()`: append every informer's `getCachedObjects()`, then `sort.Sort`. -/
def Monitor.snapshot (srt : List Entry → List Entry) (m : Monitor) : List Entry :=
  srt m.allEntries

/-- All informers. -/
def Monitor.informers (m : Monitor) : List Informer :=
  m.static ++ (m.varying.map (·.2)).flatten

/-- No object can be cached by two informers: scopes differ in a fixed namespace or a fixed name. -/
def scopesApart (i j : Informer) : Bool :=
  (match i.ns, j.ns with | some a, some b => a != b | _, _ => false) ||
  (match i.name, j.name with | some a, some b => a != b | _, _ => false)

def ScopesDisjoint (m : Monitor) : Prop := m.informers.Pairwise (fun i j => scopesApart i j = true)

/-! ### `UpdateSnapshots` -/

inductive BType | kubernetes | schedule | validating | mutating | conversion | other
deriving DecidableEq, Repr

abbrev Snap := List Entry

structure BC where
  binding : Nat
  btype : BType
  isSync : Bool                          -- Type == Synchronization
  objects : Snap := []
  snapshots : List (Nat × Snap) := []    -- map binding name ↦ snapshot
  metaIncl : List Nat := []              -- Metadata.IncludeSnapshots: set by the controller that made the context
deriving Repr

/-- Bindings of one hook after config loading: per type, (name, effective includeSnapshotsFrom). -/
structure HookBindings where
  kube : List (Nat × List Nat) := []
  sched : List (Nat × List Nat) := []
  validating : List (Nat × List Nat) := []
  mutating : List (Nat × List Nat) := []
  conversion : List (Nat × List Nat) := []

/-- `getIncludeSnapshotsFrom`: first binding of that type with that name. -/
def getInclude (hb : HookBindings) (t : BType) (b : Nat) : List Nat :=
  let l := match t with
    | .kubernetes => hb.kube | .schedule => hb.sched | .validating => hb.validating
    | .mutating => hb.mutating | .conversion => hb.conversion | .other => []
  match l.find? (·.1 == b) with
  | some p => p.2
  | none => []

/-- The include list `UpdateSnapshots` works with (after the repair): the one the context carries
from its own binding (`Metadata.IncludeSnapshots`), the by-name lookup only when it carries none
(several bindings of one type may share a name — every unnamed schedule binding is `schedule`). -/
def inclOf (hb : HookBindings) (bc : BC) : List Nat :=
  if bc.metaIncl.isEmpty then getInclude hb bc.btype bc.binding else bc.metaIncl

/-- what `MapV1` renders: `snapshots` only when the context's own include list is not empty -/
def visibleSnapshots (bc : BC) : List (Nat × Snap) := if bc.metaIncl.isEmpty then [] else bc.snapshots

/-- map assignment on an association list keyed by binding name -/
def mput {β : Type} : List (Nat × β) → Nat → β → List (Nat × β)
  | [], k, v => [(k, v)]
  | p :: t, k, v => if p.1 = k then (k, v) :: t else p :: mput t k v

def mget {β : Type} : List (Nat × β) → Nat → Option β
  | [], _ => none
  | p :: t, k => if p.1 = k then some p.2 else mget t k

/-- State threaded through one `UpdateSnapshots` call: the per-execution cache (`nil` results are
stored too, so a binding is read at most once) and the number of reads done so far. -/
structure USt where
  cache : List (Nat × Option Snap) := []
  reads : Nat := 0

/-- `if _, has := cache[name]; !has { cache[name] = SnapshotsFor(name) }` -/
def ensure (read : Nat → Nat → Option Snap) (st : USt) (name : Nat) : USt :=
  match mget st.cache name with
  | some _ => st
  | none => { cache := mput st.cache name (read name st.reads), reads := st.reads + 1 }

def cached (st : USt) (name : Nat) : Option Snap := (mget st.cache name).join

/-- The inner loop over `includeSnapshotsFrom`. -/
def fillSnapshots (read : Nat → Nat → Option Snap) : USt → List (Nat × Snap) → List Nat → USt × List (Nat × Snap)
  | st, acc, [] => (st, acc)
  | st, acc, n :: ns =>
    let acc := mput acc n []
    let st := ensure read st n
    let acc := match cached st n with
      | some s => mput acc n s
      | none => acc
    fillSnapshots read st acc ns

def updateOne (hb : HookBindings) (read : Nat → Nat → Option Snap) (st : USt) (bc : BC) : USt × BC :=
  let r := fillSnapshots read st [] (inclOf hb bc)
  let bc' := { bc with snapshots := r.2 }
  if bc.btype = .kubernetes ∧ bc.isSync = true then
    let st2 := ensure read r.1 bc.binding
    (st2, { bc' with objects := (cached st2 bc.binding).getD [] })
  else (r.1, bc')

def updateLoop (hb : HookBindings) (read : Nat → Nat → Option Snap) : USt → List BC → USt × List BC
  | st, [] => (st, [])
  | st, bc :: rest =>
    let r1 := updateOne hb read st bc
    let r2 := updateLoop hb read r1.1 rest
    (r2.1, r1.2 :: r2.2)

/-- `UpdateSnapshots` (with a KubernetesController present). `read name n` is what the n-th call of
`SnapshotsFor` in this execution returns for `name` (`none` = nil): every call may see another
cluster. -/
def updateSnapshots (hb : HookBindings) (read : Nat → Nat → Option Snap) (ctx : List BC) : List BC :=
  (updateLoop hb read {} ctx).2

/-! ### group → includeSnapshotsFrom (config_v1.go) -/

/-- `MergeArrays(a1, a2)`: all of `a1`, then the elements of `a2` not seen so far, each once. -/
def mergeTail (seen : List Nat) : List Nat → List Nat
  | [] => []
  | a :: rest => if seen.contains a then mergeTail seen rest else a :: mergeTail (a :: seen) rest

def mergeArrays (a1 a2 : List Nat) : List Nat := a1 ++ mergeTail a1 a2

/-- A binding as declared: name, group (0 = none), declared includeSnapshotsFrom. -/
structure Decl where
  name : Nat
  group : Nat
  incl : List Nat

/-- `groupSnapshots[g]`: names of the kubernetes bindings of group `g`, in declaration order. -/
def groupNames (kube : List Decl) (g : Nat) : List Nat :=
  (kube.filter (fun d => d.group != 0 && d.group == g)).map (·.name)

/-- The effective include list of a binding of any type after config loading. -/
def effectiveInclude (kube : List Decl) (d : Decl) : List Nat :=
  if (kube.any (fun k => k.group != 0 && k.group == d.group)) then mergeArrays d.incl (groupNames kube d.group)
  else d.incl

/-! ### Cluster history seen by one informer (restart / quiet clause) -/

inductive COp
  | set (o : Obj)      -- create or replace
  | del (k : Key)
deriving Repr

abbrev Cluster := List Obj

def applyOp (c : Cluster) : COp → Cluster
  | .set o => kput Obj.key c o
  | .del k => kdel Obj.key c k

def applyOps (c : Cluster) (ops : List COp) : Cluster := ops.foldl applyOp c

/-- What a started watch with selector `p` reports for one cluster operation. -/
def watchOf (p : Obj → Bool) (c : Cluster) : COp → List WatchEv
  | .set o =>
    match kget Obj.key c o.key with
    | some old =>
      if p o then (if p old then [(.modified, o)] else [(.added, o)])
      else (if p old then [(.deleted, old)] else [])
    | none => if p o then [(.added, o)] else []
  | .del k =>
    match kget Obj.key c k with
    | some old => if p old then [(.deleted, old)] else []
    | none => []

def watchAll (p : Obj → Bool) : Cluster → List COp → List WatchEv
  | _, [] => []
  | c, op :: ops => watchOf p c op ++ watchAll p (applyOp c op) ops

/-- The life of one informer: its own `List` at creation (cluster = `c0`), then the cluster moves on
by `gap` while the informer is not yet registered (`AddMonitor` … `StartMonitor`), registration
replays `Added` for every matching object of the shared informer's store, then the watch follows
`later`. -/
def informerLife (cfg : Cfg) (p : Obj → Bool) (c0 : Cluster) (gap later : List COp) : Cache :=
  let c1 := applyOps c0 gap
  runInformer cfg (c0.filter p) (((c1.filter p).map (fun o => (EvType.added, o))) ++ watchAll p c1 later)

/-! ### A whole monitor against a changing cluster (executable: the driver runs this) -/

/-- The selectors of one binding (`MonitorConfig`). Label selectors of the generated bindings match
label value 1; the field selector is `metadata.name != n`. -/
structure MonCfg where
  cfg : Cfg
  kind : Nat
  names : List Nat := []          -- nameSelector.matchNames as configured (duplicates possible)
  nss : List Nat := []            -- namespace.nameSelector.matchNames as configured
  nsSel : Bool := false           -- namespace.labelSelector present
  lblSel : Bool := false          -- labelSelector present
  exclName : Option Nat := none   -- fieldSelector metadata.name != n

structure World where
  objs : Cluster := []
  nss : List (Nat × Nat) := []    -- existing namespaces with their label value

/-- `names()` after the repair: each name once. -/
def MonCfg.namesEff (mc : MonCfg) : List Nat := dedupNames mc.names

/-- `namespaces()`: nil when namespace.labelSelector is set, `[""]` when no names, else the
(de-duplicated, after the repair) names. -/
def MonCfg.namespaces (mc : MonCfg) : List (Option Nat) :=
  if mc.nsSel then [] else if mc.nss.isEmpty then [none] else (dedupNames mc.nss).map some

/-- what the API server lists / watches for one informer of this binding -/
def MonCfg.pred (mc : MonCfg) (ns : Option Nat) (nm : Option Nat) (o : Obj) : Bool :=
  o.key.kind == mc.kind &&
  (match ns with | none => true | some n => o.key.ns == n) &&
  (match nm with | none => true | some n => o.key.name == n) &&
  (!mc.lblSel || o.lbl == 1) &&
  (match mc.exclName with | none => true | some n => o.key.name != n)

def MonCfg.list (mc : MonCfg) (w : World) (ns nm : Option Nat) : List Obj := w.objs.filter (mc.pred ns nm)

def nsMatches (mc : MonCfg) (w : World) (n : Nat) : Bool :=
  mc.nsSel && (w.nss.any (fun p => p.1 == n && p.2 == 1))

/-- `CreateInformers` (the namespace informer lists the matching namespaces itself). -/
def createInformers (mc : MonCfg) (w : World) : Monitor :=
  let nsl := mc.namespaces
  let static := (nsl.map (fun ns => createForNs mc.cfg mc.namesEff (mc.list w) ns)).flatten
  let staticNs := nsl.filterMap id
  let existing := if mc.nsSel then dedupNames ((w.nss.filter (fun p => p.2 == 1)).map (·.1)) else []
  let varying := (existing.filter (fun n => !staticNs.contains n)).map
    (fun n => (n, createForNs mc.cfg mc.namesEff (mc.list w) (some n)))
  { static := static, varying := varying, staticNs := staticNs }

def feed (mc : MonCfg) (evsOf : Informer → List WatchEv) (i : Informer) : Informer :=
  if i.started then { i with cache := (evsOf i).foldl (fun c ev => (handleWatch mc.cfg c ev.1 ev.2).1) i.cache }
  else i

def Monitor.mapInformers (m : Monitor) (f : Informer → Informer) : Monitor :=
  { m with static := m.static.map f, varying := m.varying.map (fun p => (p.1, p.2.map f)) }

/-- `Start`: every informer registers with its shared informer and is replayed `Added` for the
matching objects of the store; the namespace informer starts and reports the matching namespaces. -/
def startMonitor (mc : MonCfg) (w : World) (m : Monitor) : Monitor :=
  let m := m.mapInformers (fun i =>
    feed mc (fun i => (mc.list w i.ns i.name).map (fun o => (EvType.added, o))) { i with started := true })
  let existing := if mc.nsSel then dedupNames ((w.nss.filter (fun p => p.2 == 1)).map (·.1)) else []
  existing.foldl (nsAdded mc.cfg mc.namesEff (mc.list w)) m

/-- one cluster operation on objects, delivered to every started informer -/
def objStep (mc : MonCfg) (w : World) (m : Monitor) (op : COp) : World × Monitor :=
  ({ w with objs := applyOp w.objs op },
   m.mapInformers (feed mc (fun i => watchOf (mc.pred i.ns i.name) w.objs op)))

/-- a namespace is created / relabelled (`lbl`) or deleted (`none`); the namespace informer (if
started) calls the add / delete callback on a change of "matches the label selector" -/
def nsStep (mc : MonCfg) (started : Bool) (w : World) (m : Monitor) (n : Nat) (lbl : Option Nat) : World × Monitor :=
  let was := nsMatches mc w n
  let nss' := match lbl with
    | some l => (w.nss.filter (·.1 != n)) ++ [(n, l)]
    | none => w.nss.filter (·.1 != n)
  let w' := { w with nss := nss' }
  let now := nsMatches mc w' n
  let m' := if !started || !mc.nsSel then m
    else if !was && now then nsAdded mc.cfg mc.namesEff (mc.list w') m n
    else if was && !now then nsDeleted m n
    else m
  (w', m')

/-- One step of a monitor's life after `AddMonitor`. -/
inductive MStep
  | start                              -- StartMonitor
  | obj (op : COp)                     -- an object is written / deleted in the cluster
  | ns (n : Nat) (lbl : Option Nat)    -- a namespace is created / relabelled / deleted
deriving Repr

structure MState where
  w : World
  m : Monitor
  started : Bool := false

def mstep (mc : MonCfg) (s : MState) : MStep → MState
  | .start => { s with m := startMonitor mc s.w s.m, started := true }
  | .obj op => let r := objStep mc s.w s.m op; { s with w := r.1, m := r.2 }
  | .ns n lbl => let r := nsStep mc s.started s.w s.m n lbl; { s with w := r.1, m := r.2 }

/-- `AddMonitor` on world `w0`, then any history. -/
def runMonitor (mc : MonCfg) (w0 : World) (steps : List MStep) : MState :=
  steps.foldl (mstep mc) { w := w0, m := createInformers mc w0 }

/-- **Spec**: the objects that currently match the binding — kind, namespaces (the named ones, or
the existing ones matching the namespace label selector, or all), names, label and field selector. -/
def specMatching (mc : MonCfg) (w : World) : List Obj :=
  w.objs.filter (fun o =>
    mc.pred none none o &&
    (mc.names.isEmpty || mc.names.contains o.key.name) &&
    (if mc.nsSel then nsMatches mc w o.key.ns
     else mc.nss.isEmpty || mc.nss.contains o.key.ns))

/-- **Spec-level predicate of C02 for one observed snapshot** (what the `oracle snap` line
evaluates on the implementation's output): exactly the matching objects, each once, in key order,
each carrying the filter result (and the full object iff kept) of the matching object. -/
def snapshotExact (ridOf : Key → Nat) (mc : MonCfg) (w : World) (got : List Entry) : Bool :=
  let want := specMatching mc w
  -- same set of keys, each once
  got.length == want.length &&
  want.all (fun o => got.any (fun e => e.key == o.key)) &&
  -- order: strictly increasing in the documented key
  (got.zip got.tail).all (fun p => lessGo ridOf p.1 p.2) &&
  -- every element is the filtered image of the matching object (the checksum is not observed)
  got.all (fun e => want.any (fun o =>
    let x := mkEntry mc.cfg o
    e.key == x.key && e.obj == x.obj && e.fr == x.fr))

/-! ### Concurrent change during one `Snapshot()` call -/

/-- Actions of the threads involved in one `Snapshot()` call: the watch thread of informer `i`
handles its next event (one `cacheLock` critical section), or the reader takes the next informer's
`getCachedObjects()` (one `cacheLock.RLock` critical section). -/
inductive CAct
  | w (i : Nat)
  | r
deriving Repr

/-- `caches i` / `pending i` / `handled i`: informer `i`'s cache, its not yet handled events, the
number it has handled; `next`: the informer the reader takes next; `acc`: `objects` so far;
`cut i`: how many events informer `i` had handled when it was read. -/
structure CState where
  caches : Nat → Cache
  pending : Nat → List WatchEv
  handled : Nat → Nat
  n : Nat
  next : Nat := 0
  acc : List Entry := []
  cut : Nat → Nat := fun _ => 0

def cstep (cfg : Cfg) (s : CState) : CAct → CState
  | .w i =>
    match s.pending i with
    | [] => s
    | ev :: rest =>
      { s with
        caches := fun j => if j = i then (handleWatch cfg (s.caches i) ev.1 ev.2).1 else s.caches j
        pending := fun j => if j = i then rest else s.pending j
        handled := fun j => if j = i then s.handled i + 1 else s.handled j }
  | .r =>
    if s.next < s.n then
      { s with acc := s.acc ++ s.caches s.next
               cut := fun j => if j = s.next then s.handled s.next else s.cut j
               next := s.next + 1 }
    else s

def crun (cfg : Cfg) (s : CState) (sched : List CAct) : CState := sched.foldl (cstep cfg) s

/-- informer `i`'s cache after its first `k` events -/
def cacheAt (cfg : Cfg) (init : Nat → Cache) (evs : Nat → List WatchEv) (i k : Nat) : Cache :=
  ((evs i).take k).foldl (fun c ev => (handleWatch cfg c ev.1 ev.2).1) (init i)

def cinit (init : Nat → Cache) (evs : Nat → List WatchEv) (n : Nat) : CState :=
  { caches := init, pending := evs, handled := fun _ => 0, n := n }

/-- restriction of an observed snapshot to the scope of one static informer (namespace `n`) and
the spec for that scope in a given world -/
def concExact (ridOf : Key → Nat) (mc : MonCfg) (worlds : List World) (got : List Entry) : Bool :=
  let scopes : List (Nat × Option Nat) :=
    (dedupNames mc.nss).flatMap (fun n =>
      if mc.names.isEmpty then [(n, none)] else (dedupNames mc.names).map (fun nm => (n, some nm)))
  (got.zip got.tail).all (fun p => lessGo ridOf p.1 p.2) &&
  got.all (fun e => scopes.any (fun sc => e.key.ns == sc.1 && (match sc.2 with | none => true | some nm => e.key.name == nm))) &&
  scopes.all (fun sc =>
    let part := got.filter (fun e => e.key.ns == sc.1 && (match sc.2 with | none => true | some nm => e.key.name == nm))
    let mc' := { mc with nss := [sc.1], names := match sc.2 with | none => [] | some nm => [nm] }
    worlds.any (fun w =>
      let want := specMatching mc' w
      part.length == want.length &&
      part.all (fun e => want.any (fun o =>
        let x := mkEntry mc.cfg o
        e.key == x.key && e.obj == x.obj && e.fr == x.fr))))

/-! ### Spec-level predicate for one observed execution (`oracle exec`) -/

/-- What the harness saw for one context after `UpdateSnapshots`: binding, type, Synchronization?,
`objects`, `snapshots`. Snapshots are compared by identity of their rendering. -/
structure ExecObs where
  binding : Nat
  btype : BType
  decl : Nat          -- index of the emitting binding among the declared bindings of its type
  isSync : Bool
  objects : Snap
  snapshots : List (Nat × Snap)

/-- Declared bindings per type. -/
structure HookDecl where
  kube : List Decl := []
  sched : List Decl := []
  validating : List Decl := []
  mutating : List Decl := []
  conversion : List Decl := []

def HookDecl.ofType (h : HookDecl) : BType → List Decl
  | .kubernetes => h.kube | .schedule => h.sched | .validating => h.validating
  | .mutating => h.mutating | .conversion => h.conversion | .other => []

/-- config loading: every binding's include list becomes `effectiveInclude` -/
def HookDecl.effective (h : HookDecl) : HookBindings :=
  let f := fun (l : List Decl) => l.map (fun d => (d.name, effectiveInclude h.kube d))
  { kube := f h.kube, sched := f h.sched, validating := f h.validating, mutating := f h.mutating,
    conversion := f h.conversion }

/-- **The property for one execution**: (1) the keys of `snapshots` of every context are exactly
the declared includeSnapshotsFrom of its binding plus the kubernetes bindings of its group, each
once; (2) a binding's snapshot is the same list wherever it appears in the execution, including as
the `objects` of its Synchronization context; (3) every such list is what a read of that binding's
monitor returned during this execution (`reads`; each read is judged against the cluster by its own
`oracle snap` line), the empty list when the monitor does not exist. -/
def execExact (h : HookDecl) (reads : List (Nat × Option Snap)) (obs : List ExecObs) : Bool :=
  let all : List (Nat × Snap) :=
    (obs.map (·.snapshots)).flatten ++
      (obs.filter (fun o => o.btype == .kubernetes && o.isSync)).map (fun o => (o.binding, o.objects))
  obs.all (fun o =>
    let want := match (h.ofType o.btype)[o.decl]? with
      | some d => d.incl ++ (if d.group != 0 then groupNames h.kube d.group else [])
      | none => []
    let keys := o.snapshots.map (·.1)
    keys.all (want.contains ·) && want.all (keys.contains ·) &&
    (keys.zipIdx.all (fun p => (keys.take p.2).all (· != p.1)))) &&
  all.all (fun p => all.all (fun q => p.1 != q.1 || p.2 == q.2)) &&
  all.all (fun p => reads.any (fun r => r.1 == p.1 && r.2.getD [] == p.2))

end ShellOp.Snapshot
