/-
Model of `kubernetesBindingsController.SnapshotsFor` (`pkg/hook/controller/kubernetes_bindings_controller.go`):
the glue that turns a binding NAME (a key of `snapshots`, the `binding` of a Synchronization context)
into the monitor whose `Snapshot()` is handed to the hook.

    for _, binding := range c.KubernetesBindings {
        if bindingName == binding.BindingName {
            monitorID := binding.Monitor.Metadata.MonitorId
            if c.kubeEventsManager.HasMonitor(monitorID) {
                return c.kubeEventsManager.GetMonitor(monitorID).Snapshot()
            }
        }
    }
    return nil

Names are values of an arbitrary type with decidable equality (Go strings: byte sequences); the
driver instantiates it with the hex rendering of the bytes. Core Lean only.
-/
namespace ShellOp.BindingLookup

/-- a kubernetes binding after config loading: `BindingName`, `Monitor.Metadata.MonitorId` -/
structure KBind (α : Type) where
  name : α
  monitor : Nat
  deriving Repr

/-- `SnapshotsFor` as written, up to the `Snapshot()` call: the monitor that is read (`none` = the
function returns nil). A binding whose monitor is not registered does not end the loop. -/
def snapshotsFor {α : Type} [DecidableEq α] (binds : List (KBind α)) (has : Nat → Bool) (name : α) : Option Nat :=
  match binds with
  | [] => none
  | b :: rest =>
    if name = b.name then
      if has b.monitor then some b.monitor else snapshotsFor rest has name
    else snapshotsFor rest has name

/-- Specification of one observed lookup (does not mention the loop): a monitor that was read belongs
to a binding carrying exactly the requested name and is registered; nothing was read only if no
binding with that name has a registered monitor. -/
def lookupExact {α : Type} [DecidableEq α] (binds : List (KBind α)) (has : Nat → Bool) (name : α) : Option Nat → Bool
  | some m => binds.any (fun b => decide (b.name = name) && b.monitor == m && has m)
  | none => binds.all (fun b => !(decide (b.name = name) && has b.monitor))

/-- Variant (not the code): names compared after a normalisation `norm` (lower-casing, case folding,
trimming, …). -/
def snapshotsForBy {α β : Type} [DecidableEq β] (norm : α → β) (binds : List (KBind α)) (has : Nat → Bool) (name : α) : Option Nat :=
  match binds with
  | [] => none
  | b :: rest =>
    if norm name = norm b.name then
      if has b.monitor then some b.monitor else snapshotsForBy norm rest has name
    else snapshotsForBy norm rest has name

end ShellOp.BindingLookup
