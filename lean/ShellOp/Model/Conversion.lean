/-!
# Model of the conversion chain search and of the step-by-step application (C15)

Code-shaped model of `pkg/webhook/conversion/chain.go` (`Chain.Put`, `FindConversionChain`,
`SearchPathForRule`, `RulesWithSimilarFromVersion`, `NextRules`, `HasTargetVersion`,
`VersionsMatched`, `TrimGroup`), of `ShellOperator.conversionEventHandler` (operator.go) and of
`WebhookHandler.handleReviewRequest` (handler.go). Core Lean only.

* A version is the string the user wrote (`v1` or `stable.example.com/v1`): `List Char`, because the
  property is about the spelling. `afterSlash` is `strings.IndexRune(v,'/')` + `v[idx+1:]`.
* `PathsCache` (a Go map) is an association list; every `range` over a map goes through an `Order`
  (an arbitrary permutation, a different one at every range site and iteration).
* Slices are lists: the repaired code copies the cached path before appending. The unrepaired
  `append(chain.PathsCache[k], next)` (shared backing array) is modelled in section `Unrepaired`
  with an explicit heap of backing arrays; it is only used by the witnesses.
-/
namespace ShellOp.Conversion

abbrev Ver := List Char

structure Rule where
  src : Ver
  dst : Ver
  deriving DecidableEq, Repr

abbrev Path := List Rule
abbrev Entry := Rule × Path

/-! ## version spellings (`string_helper.TrimGroup`, `VersionsMatched`) -/

/-- the part after the first `/`; `none` when `strings.IndexRune(v, '/') == -1` -/
def afterSlash : Ver → Option Ver
  | [] => none
  | c :: cs => if c = '/' then some cs else afterSlash cs

def trimGroup (v : Ver) : Ver :=
  match afterSlash v with
  | some s => s
  | none => v

def versionsMatched (v0 v1 : Ver) : Bool :=
  if v0 = v1 then true
  else match afterSlash v0, afterSlash v1 with
    | none, some s1 => v0 == s1
    | some s0, none => s0 == v1
    | _, _ => false

/-! ## map iteration order -/

/-- Go's map iteration order: some permutation, possibly a different one at every `range`
(the `Nat` identifies the range statement and the loop iteration). -/
structure Order where
  perm : Nat → {α : Type} → List α → List α
  isPerm : ∀ (n : Nat) {α : Type} (l : List α), (perm n l).Perm l

def Order.ident : Order := ⟨fun _ _ l => l, fun _ _ l => List.Perm.refl l⟩
def Order.rev : Order := ⟨fun _ _ l => l.reverse, fun _ _ l => List.reverse_perm l⟩

/-! ## the cache (`map[Rule][]Rule`) -/

def hasKey (cache : List Entry) (k : Rule) : Bool := cache.any (fun e => e.1 == k)

/-- `m[k] = p` -/
def cacheSet (cache : List Entry) (k : Rule) (p : Path) : List Entry :=
  if hasKey cache k then cache.map (fun e => if e.1 = k then (k, p) else e) else cache ++ [(k, p)]

/-- `for k, p := range np { m[k] = p }` -/
def mergeAll (cache : List Entry) (np : List Entry) : List Entry :=
  np.foldl (fun acc e => cacheSet acc e.1 e.2) cache

structure Chain where
  /-- `PathsCache` -/
  cache : List Entry := []
  /-- `BaseFromToIndex` (from → set of to), flattened -/
  base : List Rule := []

def Chain.put (c : Chain) (r : Rule) : Chain :=
  { cache := cacheSet c.cache r [r], base := if r ∈ c.base then c.base else c.base ++ [r] }

def Chain.ofRules (rules : List Rule) : Chain := rules.foldl Chain.put {}

/-! ## `SearchPathForRule` -/

def keyMatches (rule : Rule) (e : Entry) : Bool :=
  versionsMatched rule.dst e.1.dst && versionsMatched rule.src e.1.src

/-- the part of `SearchPathForRule` after the first loop: `pathKeys` are the similar keys in
iteration order -/
def pickPath (rule : Rule) (pathKeys : List Entry) : Path :=
  match pathKeys with
  | [] => []
  | [e] => e.2
  | e0 :: _ =>
    let isFrom := fun (e : Entry) => (afterSlash rule.src).isSome && e.1.src == rule.src
    let isTo := fun (e : Entry) => (afterSlash rule.dst).isSome && e.1.dst == rule.dst
    match pathKeys.find? (fun e => isFrom e && isTo e) with
    | some e => e.2                               -- `cc == 2`
    | none =>
      match pathKeys.filter isTo with
      | e :: _ => e.2                             -- `toMatches[0]`
      | [] =>
        match pathKeys.filter isFrom with
        | e :: _ => e.2                           -- `fromMatches[0]`
        | [] => e0.2                              -- `pathKeys[0]`

/-- `entries` = the cache in the iteration order of this call. The first loop returns from inside
the range at the exact key wherever it stands; otherwise it has collected every similar key. -/
def searchPath (entries : List Entry) (rule : Rule) : Path :=
  match entries.find? (fun e => e.1.dst == rule.dst && e.1.src == rule.src) with
  | some e => e.2
  | none => pickPath rule (entries.filter (keyMatches rule))

/-! ## `NextRules`, `HasTargetVersion`, `FindConversionChain` -/

/-- repaired `NextRules`: the base rules whose from-version is the same version as `fromVer` -/
def nextRules (base : List Rule) (fromVer : Ver) : List Rule :=
  base.filter (fun r => r.src == fromVer || versionsMatched r.src fromVer)

def hasTarget (base : List Rule) (t : Ver) : Bool := base.any (fun r => versionsMatched t r.dst)

/-- one pass of the body of the `for {}` loop: every `newPaths[newRule] = newPath` assignment, in
execution order (`SearchPathForRule` inside only reads `PathsCache`, which the pass does not touch). -/
def candidates (ord : Order) (n : Nat) (c : Chain) (rule : Rule) : List Entry :=
  ((ord.perm (4 * n + 1) c.cache).filter (fun e => versionsMatched e.1.src rule.src)).flatMap fun e =>
    if trimGroup e.1.dst = trimGroup rule.src then []
    else (nextRules (ord.perm (4 * n + 2) c.base) e.1.dst).filterMap fun nx =>
      if trimGroup nx.dst = trimGroup rule.src then none
      else if searchPath (ord.perm (4 * n + 3) c.cache) ⟨rule.src, nx.dst⟩ ≠ [] then none
      else some (⟨rule.src, nx.dst⟩, e.2 ++ [nx])

inductive Outcome where
  | found (p : Path)
  | notFound
  | outOfFuel
  deriving DecidableEq, Repr

def findLoop (ord : Order) (rule : Rule) : Nat → Chain → Chain × Outcome
  | 0, c => (c, .outOfFuel)
  | n + 1, c =>
    let p := searchPath (ord.perm (4 * n) c.cache) rule
    if p ≠ [] then (c, .found p)
    else
      let np := mergeAll [] (candidates ord n c rule)
      if np = [] then (c, .notFound)
      else findLoop ord rule n { c with cache := mergeAll c.cache np }

/-- `FindConversionChain` on an existing chain. The loop of the code has no bound; the bound used
here is shown to be never reached (`Props/C15.find_terminates`). -/
def find (ord : Order) (c : Chain) (rule : Rule) : Chain × Outcome :=
  if !hasTarget c.base rule.dst then (c, .notFound)
  else findLoop ord rule (c.base.length + 1) c

def Outcome.path : Outcome → Path
  | .found p => p
  | _ => []

/-! ## the same functions, loop by loop as they are written in chain.go

`searchPath`, `candidates` and `findLoop` above are the forms the proofs work with. The definitions
below follow the statements of the Go functions (ranges with `return`/`continue`, the `pathKeys`,
`fromMatches`, `toMatches` slices, the `newPaths` map filled inside the nested ranges); they are
proved equal to the forms above (`Proofs/Conversion`: `searchPathLoop_eq`, `passLoop_eq`,
`findCode_eq`), and they are what the driver runs. -/

/-- first range of `SearchPathForRule`: `inl` = returned from inside the range (exact key),
`inr` = `pathKeys` -/
def searchScan (rule : Rule) : List Entry → List Entry → Path ⊕ List Entry
  | [], pathKeys => .inr pathKeys
  | e :: es, pathKeys =>
    if e.1.dst == rule.dst && e.1.src == rule.src then .inl e.2
    else if keyMatches rule e then searchScan rule es (pathKeys ++ [e])
    else searchScan rule es pathKeys

/-- second range of `SearchPathForRule` (`cc` counts the two tests): `inl` = returned at `cc == 2`,
`inr` = (`fromMatches`, `toMatches`) -/
def pickScan (rule : Rule) : List Entry → List Entry → List Entry → Path ⊕ (List Entry × List Entry)
  | [], fromM, toM => .inr (fromM, toM)
  | k :: ks, fromM, toM =>
    let isFrom := (afterSlash rule.src).isSome && k.1.src == rule.src
    let isTo := (afterSlash rule.dst).isSome && k.1.dst == rule.dst
    if isFrom && isTo then .inl k.2
    else pickScan rule ks (if isFrom then fromM ++ [k] else fromM) (if isTo then toM ++ [k] else toM)

def searchPathLoop (entries : List Entry) (rule : Rule) : Path :=
  match searchScan rule entries [] with
  | .inl p => p
  | .inr pathKeys =>
    match pathKeys with
    | [] => []                                   -- `len(pathKeys) == 0`
    | [k] => k.2                                 -- `len(pathKeys) == 1`
    | k0 :: _ =>
      match pickScan rule pathKeys [] [] with
      | .inl p => p
      | .inr (fromM, toM) =>
        match toM with
        | k :: _ => k.2                          -- `len(toMatches) > 0`
        | [] =>
          match fromM with
          | k :: _ => k.2                        -- `len(fromMatches) > 0`
          | [] => k0.2

/-- the two nested ranges of the `for {}` body, filling `newPaths` -/
def passLoop (ord : Order) (n : Nat) (c : Chain) (rule : Rule) : List Entry :=
  ((ord.perm (4 * n + 1) c.cache).filter (fun e => versionsMatched e.1.src rule.src)).foldl
    (fun newPaths e =>
      if trimGroup e.1.dst = trimGroup rule.src then newPaths            -- "Ignore loops."
      else (nextRules (ord.perm (4 * n + 2) c.base) e.1.dst).foldl
        (fun newPaths nx =>
          if trimGroup nx.dst = trimGroup rule.src then newPaths         -- "Ignore loops."
          else
            let newPath := e.2 ++ [nx]                                   -- copy, then append
            if searchPathLoop (ord.perm (4 * n + 3) c.cache) ⟨rule.src, nx.dst⟩ ≠ [] then newPaths
            else cacheSet newPaths ⟨rule.src, nx.dst⟩ newPath) newPaths) []

def findLoopCode (ord : Order) (rule : Rule) : Nat → Chain → Chain × Outcome
  | 0, c => (c, .outOfFuel)
  | n + 1, c =>
    let p := searchPathLoop (ord.perm (4 * n) c.cache) rule
    if p ≠ [] then (c, .found p)
    else
      let newPaths := passLoop ord n c rule
      if newPaths = [] then (c, .notFound)
      else findLoopCode ord rule n { c with cache := mergeAll c.cache newPaths }

def findCode (ord : Order) (c : Chain) (rule : Rule) : Chain × Outcome :=
  if !hasTarget c.base rule.dst then (c, .notFound)
  else findLoopCode ord rule (c.base.length + 1) c

/-! ## the specification: what a valid chain is -/

/-- every step starts at (a spelling of) the version where the previous one ended; `x` = where we are -/
def linkedB (same : Ver → Ver → Bool) : Ver → Path → Bool
  | _, [] => true
  | x, r :: rs => same x r.src && linkedB same r.dst rs

def endOf : Ver → Path → Ver
  | x, [] => x
  | _, r :: rs => endOf r.dst rs

/-- the oracle: `p` is a non-empty sequence of declared rules that starts at `a`, ends at `b`, every
step starting where the previous one ended; `same` decides whether two spellings are one version -/
def isChainB (same : Ver → Ver → Bool) (rules : List Rule) (a b : Ver) (p : Path) : Bool :=
  !p.isEmpty && p.all (fun r => rules.contains r) && linkedB same a p && same (endOf a p) b

/-- reachability over declared rules (used by the driver to answer found / not found independently
of the search): breadth-first closure over rule indices, at most `rules.length` rounds. -/
def reachStep (same : Ver → Ver → Bool) (rules : List Rule) (seen : List Rule) : List Rule :=
  seen ++ rules.filter (fun r => !seen.contains r && seen.any (fun s => same s.dst r.src))

def reachFrom (same : Ver → Ver → Bool) (rules : List Rule) (a : Ver) : List Rule :=
  (List.range rules.length).foldl (fun seen _ => reachStep same rules seen)
    (rules.filter (fun r => same a r.src))

def chainExistsB (same : Ver → Ver → Bool) (rules : List Rule) (a b : Ver) : Bool :=
  (reachFrom same rules a).any (fun r => same r.dst b)

def Outcome.isFound : Outcome → Bool
  | .found _ => true
  | _ => false

/-- the decision procedure the driver uses for "a valid chain exists" (proved correct in
`Props/C15.chainExistsDec_iff`): the reachability closure, or the search itself on a fresh cache -/
def chainExistsDec (rules : List Rule) (a b : Ver) : Bool :=
  chainExistsB versionsMatched rules a b || (find Order.ident (Chain.ofRules rules) ⟨a, b⟩).2.isFound

/-! ## step-by-step application: `conversionEventHandler` + `handleReviewRequest` -/

structure Obj where
  id : Nat
  ver : Ver
  deriving DecidableEq, Repr

/-- what one hook run leaves behind -/
inductive HookOut where
  | exitFail                                  -- non-zero exit (task result `Fail`)
  | noResponse                                -- exit 0, response file empty: no `conversionResponse` prop
  | resp (msg : String) (objs : List Obj)     -- parsed response file
  deriving DecidableEq, Repr

/-- outcome of the `i`-th hook run of this request, given the rule it serves and its input objects -/
abbrev Script := Nat → Rule → List Obj → HookOut

structure Invocation where
  rule : Rule
  input : List Obj
  deriving DecidableEq, Repr

/-- failure texts, by origin (wording is not compared) -/
inductive Msg where
  | own (s : String)       -- the hook's own `failedMessage`
  | hookFailed             -- "Hook failed to convert to …"
  | notSuccessful          -- "Conversion to … was not successuful"
  | propError              -- "hook task prop error"
  | noHook                 -- "no hook found for …"
  | countMismatch          -- "hook returned %d objects instead of %d"
  deriving DecidableEq, Repr

/-- what `conversionEventHandler` returns: a Go error, or a `conversion.Response` -/
inductive HandlerRet where
  | err (m : Msg)
  | resp (failed : Option Msg) (objs : List Obj)
  deriving DecidableEq, Repr

/-- `ExtractAPIVersions`: distinct versions in order of first appearance -/
def extractVersions (objs : List Obj) : List Ver :=
  objs.foldl (fun acc o => if acc.contains o.ver then acc else acc ++ [o.ver]) []

/-- one element of `convertedObjects` as `json.Unmarshal(obj.Raw, &a)` sees it: `null` (the raw bytes
are empty, `Unmarshal` fails and the error is dropped) or a JSON object with or without an
`apiVersion` key (`id` = the number in its `metadata.name`, 0 = it has none, e.g. `{}`) -/
inductive RawObj where
  | null
  | obj (id : Nat) (apiVersion : Option Ver)
  deriving DecidableEq, Repr

/-- `json.Unmarshal(raw, &a)` on the `APIVersion` field of a `TypeMeta` that holds `a`: a failed decode
and an absent key both leave the field as it was -/
def unmarshalVer (a : Ver) : RawObj → Ver
  | .null => a
  | .obj _ none => a
  | .obj _ (some v) => v

/-- `ExtractAPIVersions` on the raw objects, as written: `var a metav1.TypeMeta` is declared inside
the loop, every object is decoded into a zero value -/
def extractVersionsRaw (objs : List RawObj) : List Ver :=
  objs.foldl (fun acc o =>
    let a := unmarshalVer [] o
    if acc.contains a then acc else acc ++ [a]) []

/-- the object the rest of the model computes with: `null`, `{}` and an object without `apiVersion`
are at the empty version (`Props/C15.extractVersionsRaw_eq`) -/
def RawObj.decode : RawObj → Obj
  | .null => ⟨0, []⟩
  | .obj id v => ⟨id, v.getD []⟩

inductive PathEnd where
  | done                   -- `done = true; break`
  | exhausted              -- the inner `for` ran out of rules
  | ret (r : HandlerRet)   -- `return` from inside the loop
  deriving DecidableEq, Repr

/-- the inner loop `for _, convRule := range convPath` (repaired: a response carrying a
`failedMessage` is returned as it is). `links r` = some hook registered rule `r` for this CRD. -/
def runPath (links : Rule → Bool) (script : Script) (desired : Ver) :
    Path → List Obj → List Invocation → PathEnd × List Obj × List Invocation
  | [], objs, inv => (.exhausted, objs, inv)
  | r :: rs, objs, inv =>
    if !links r then (.ret (.err .noHook), objs, inv)
    else
      let inv' := inv ++ [⟨r, objs⟩]
      match script inv.length r objs with
      | .exitFail => (.ret (.resp (some .hookFailed) []), objs, inv')
      | .noResponse => (.ret (.err .propError), objs, inv')
      | .resp msg out =>
        if msg ≠ "" then (.ret (.resp (some (.own msg)) out), objs, inv')
        else if extractVersions out = [desired] then (.done, out, inv')
        else runPath links script desired rs out inv'

/-- the outer loop `for _, srcVer := range sourceVersions` -/
def eventLoop (ord : Order) (links : Rule → Bool) (script : Script) (desired : Ver) :
    List Ver → Chain → List Obj → List Invocation → HandlerRet × List Invocation × Chain
  | [], c, _, inv => (.resp (some .notSuccessful) [], inv, c)
  | v :: vs, c, objs, inv =>
    match find ord c ⟨v, desired⟩ with
    | (c', .found p) =>
      match runPath links script desired p objs inv with
      | (.done, objs', inv') => (.resp none objs', inv', c')
      | (.ret r, _, inv') => (r, inv', c')
      | (.exhausted, objs', inv') => eventLoop ord links script desired vs c' objs' inv'
    | (c', _) => eventLoop ord links script desired vs c' objs inv

def eventHandler (ord : Order) (links : Rule → Bool) (script : Script) (c : Chain) (desired : Ver)
    (objs : List Obj) : HandlerRet × List Invocation × Chain :=
  eventLoop ord links script desired (extractVersions objs) c objs []

/-- the `result` of the ConversionReview -/
inductive Reply where
  | success (objs : List Obj)
  | failed (m : Msg)
  deriving DecidableEq, Repr

/-- `handleReviewRequest` + `serveReviewRequest` (repaired: `requested` is the number of objects of
the request as it arrived, remembered before the event handler runs) -/
def review (requested : Nat) : HandlerRet → Reply
  | .err m => .failed m
  | .resp (some m) _ => .failed m
  | .resp none objs => if requested ≠ objs.length then .failed .countMismatch else .success objs

def convert (ord : Order) (links : Rule → Bool) (script : Script) (c : Chain) (desired : Ver)
    (objs : List Obj) : Reply × List Invocation :=
  let r := eventHandler ord links script c desired objs
  (review objs.length r.1, r.2.1)

/-! ## the specification of the application phase, on an observed run -/

/-- the `i`-th run answered with converted objects and no `failedMessage` -/
def HookOut.okOut : HookOut → Option (List Obj)
  | .resp msg out => if msg = "" then some out else none
  | _ => none

/-- each run receives the previous run's output, and nothing runs after a run that did not succeed.
`i` = number of the run, `cur` = what it must receive. `none` = holds. -/
def pipeCheck (script : Script) : Nat → List Obj → List Invocation → Option String
  | _, _, [] => none
  | i, cur, t :: ts =>
    if t.input ≠ cur then some "a-step-did-not-receive-the-previous-output"
    else match (script i t.rule t.input).okOut with
      | some out => pipeCheck script (i + 1) out ts
      | none => if ts.isEmpty then none else some "a-later-step-ran-after-a-failed-step"

/-- outcome of the last run (`i` = number of the first run in the list) -/
def lastOutcome (script : Script) : Nat → List Invocation → Option HookOut
  | _, [] => none
  | i, [t] => some (script i t.rule t.input)
  | i, _ :: ts => lastOutcome script (i + 1) ts

/-- The application clause of C15 on one observed run (`inv` = the hook runs in the order they
happened, `reply` = the ConversionReview result). `none` = the property holds:
* the runs serve declared rules, in chain order starting at the source version `a`;
* each run receives the previous output; no run after a failed one;
* `Success` only if there was a run, every run succeeded, the objects are the last output, there are as
  many as requested, the chain was walked to the desired version (or the last output already
  consists of objects of exactly the desired apiVersion — the early exit of the handler), and every
  returned object, one by one, is at the desired apiVersion (a step that hands back `null`, `{}`, an
  object without apiVersion or an object left at an older version in any position has not succeeded);
* when the failing run gave its own message, `Failed` carries that message. -/
def applyCheck (rules : List Rule) (desired : Ver) (objs : List Obj) (script : Script)
    (inv : List Invocation) (reply : Reply) : Option String :=
  let a := (extractVersions objs).headD []
  let walk := inv.map (·.rule)
  if !(walk.all (fun r => rules.contains r)) then some "a-run-served-an-undeclared-rule"
  else if !(linkedB versionsMatched a walk) then some "hooks-not-invoked-in-chain-order"
  else match pipeCheck script 0 objs inv with
    | some w => some w
    | none =>
      match reply with
      | .success robjs =>
        match lastOutcome script 0 inv with
        | none => some "success-without-any-step"
        | some o =>
          match o.okOut with
          | none => some "success-though-the-last-step-failed"
          | some out =>
            if robjs ≠ out then some "success-objects-are-not-the-last-output"
            else if robjs.length ≠ objs.length then some "success-with-a-wrong-number-of-objects"
            else if !(versionsMatched (endOf a walk) desired) && extractVersions out ≠ [desired] then
              some "success-before-the-chain-reached-the-desired-version"
            else if !(robjs.all (fun o => o.ver == desired)) then
              some "success-though-a-returned-object-is-not-at-the-desired-version"
            else none
      | .failed m =>
        match lastOutcome script 0 inv with
        | some (.resp msg _) =>
          if msg ≠ "" && m ≠ .own msg then some "the-failing-hook's-message-is-not-relayed" else none
        | _ => none

/-- The clause "a request from A to B is served by a sequence of declared rules whenever such a
sequence exists" of C15 on one observed run: a `Failed` answer needs a reason that the observation
shows. With every declared rule registered by some hook (`linked`), objects of one source version `a`
and `a`, `desired` different versions, `Failed` is legitimate only if
* the last hook run did not succeed (non-zero exit, no/garbled response, its own `failedMessage`), or
* every run succeeded and the runs walked the chain to the desired version, or delivered objects of
  exactly the desired apiVersion, and the objects are not as requested (wrong number / wrong
  apiVersion after the last step), or
* no hook ran and no sequence of declared rules leads from `a` to `desired`.
`none` = the clause holds. What remains a violation: `Failed` without any run although a chain
exists, and `Failed` after only successful runs in the middle of the chain. -/
def servedCheck (rules : List Rule) (linked : Rule → Bool) (desired : Ver) (objs : List Obj)
    (script : Script) (inv : List Invocation) (reply : Reply) : Option String :=
  match reply, extractVersions objs with
  | .failed _, [a] =>
    if trimGroup a = trimGroup desired then none
    else if !(rules.all linked) then none
    else match lastOutcome script 0 inv with
      | none =>
        if chainExistsDec rules a desired then some "a-chain-of-declared-rules-exists-but-no-hook-was-run"
        else none
      | some o =>
        match o.okOut with
        | none => none
        | some out =>
          if extractVersions out = [desired] then
            if out.length ≠ objs.length then none
            else some "failed-though-the-last-step-delivered-the-requested-objects"
          else if versionsMatched (endOf a (inv.map (·.rule))) desired then none
          else some "failed-before-the-end-of-the-chain-though-every-run-succeeded"
  | _, _ => none

/-- NOT the code: `ExtractAPIVersions` with one `TypeMeta` shared by all objects (declared before the
loop). Only for `Props/C15.shared_decode_witness`: what the per-object zero value is needed for. -/
def extractVersionsShared (objs : List RawObj) : List Ver :=
  (objs.foldl (fun (st : Ver × List Ver) o =>
    let a := unmarshalVer st.1 o
    (a, if st.2.contains a then st.2 else st.2 ++ [a])) ([], [])).2

/-! ## the unrepaired variants (witnesses only) -/
namespace Unrepaired

/-- `strings.Index(k, shortVer) != -1` -/
def isInfix (needle : Ver) : Ver → Bool
  | [] => needle.isEmpty
  | c :: cs => needle.isPrefixOf (c :: cs) || isInfix needle cs

/-- `NextRules` before the repair: substring test -/
def nextRules (base : List Rule) (fromVer : Ver) : List Rule :=
  base.filter (fun r => r.src == fromVer || isInfix (trimGroup fromVer) r.src)

/-- a Go slice: backing array id, length (capacity = size of the backing array) -/
structure Slice where
  arr : Nat
  len : Nat
  deriving DecidableEq, Repr

abbrev Heap := List (List Rule)

def Heap.read (h : Heap) (s : Slice) : Path := (h.getD s.arr []).take s.len

/-- `append(s, x)`: in place when `len < cap`, else a new array of doubled capacity -/
def Heap.append (h : Heap) (s : Slice) (x : Rule) : Heap × Slice :=
  let a := h.getD s.arr []
  if s.len < a.length then (h.set s.arr (a.set s.len x), ⟨s.arr, s.len + 1⟩)
  else
    let cap := if a.length = 0 then 1 else 2 * a.length
    let a' := (a.take s.len ++ [x]) ++ List.replicate (cap - s.len - 1) x
    (h ++ [a'], ⟨h.length, s.len + 1⟩)

abbrev SEntry := Rule × Slice

def sSet (cache : List SEntry) (k : Rule) (s : Slice) : List SEntry :=
  if cache.any (fun e => e.1 == k) then cache.map (fun e => if e.1 = k then (k, s) else e)
  else cache ++ [(k, s)]

structure SChain where
  heap : Heap := []
  cache : List SEntry := []
  base : List Rule := []

def SChain.put (c : SChain) (r : Rule) : SChain :=
  { heap := c.heap ++ [[r]], cache := sSet c.cache r ⟨c.heap.length, 1⟩,
    base := if r ∈ c.base then c.base else c.base ++ [r] }

def SChain.view (c : SChain) : List Entry := c.cache.map (fun e => (e.1, c.heap.read e.2))

/-- one pass of the loop body with the aliasing `append` and a selectable `NextRules` -/
def pass (next : List Rule → Ver → List Rule) (c : SChain) (rule : Rule) : Heap × List SEntry :=
  let view := c.view
  (c.cache.filter (fun e => versionsMatched e.1.src rule.src)).foldl (fun acc e =>
    if trimGroup e.1.dst = trimGroup rule.src then acc
    else (next c.base e.1.dst).foldl (fun acc nx =>
      if trimGroup nx.dst = trimGroup rule.src then acc
      else
        let (h', s') := acc.1.append e.2 nx          -- executed before the "already discovered" test
        if searchPath view ⟨rule.src, nx.dst⟩ ≠ [] then (h', acc.2)
        else (h', sSet acc.2 ⟨rule.src, nx.dst⟩ s')) acc) (c.heap, [])

def findLoop (next : List Rule → Ver → List Rule) (rule : Rule) : Nat → SChain → Path
  | 0, _ => []
  | n + 1, c =>
    let p := searchPath c.view rule
    if p ≠ [] then p
    else
      let (h', np) := pass next c rule
      if np.isEmpty then []
      else findLoop next rule n
        { c with heap := h', cache := np.foldl (fun acc e => sSet acc e.1 e.2) c.cache }

def find (next : List Rule → Ver → List Rule) (rules : List Rule) (rule : Rule) : Path :=
  let c := rules.foldl SChain.put {}
  if !hasTarget c.base rule.dst then [] else findLoop next rule (rules.length + 1) c

/-- `conversionEventHandler` before the repair: `response.FailedMessage` is never read -/
def runPath (links : Rule → Bool) (script : Script) (desired : Ver) :
    Path → List Obj → List Invocation → PathEnd × List Obj × List Invocation
  | [], objs, inv => (.exhausted, objs, inv)
  | r :: rs, objs, inv =>
    if !links r then (.ret (.err .noHook), objs, inv)
    else
      let inv' := inv ++ [⟨r, objs⟩]
      match script inv.length r objs with
      | .exitFail => (.ret (.resp (some .hookFailed) []), objs, inv')
      | .noResponse => (.ret (.err .propError), objs, inv')
      | .resp _ out =>
        if extractVersions out = [desired] then (.done, out, inv')
        else runPath links script desired rs out inv'

/-- `handleReviewRequest` before the repair: `request.Objects` has been overwritten with the
converted objects by the time the lengths are compared -/
def review (_requested : Nat) : HandlerRet → Reply
  | .err m => .failed m
  | .resp (some m) _ => .failed m
  | .resp none objs => if objs.length ≠ objs.length then .failed .countMismatch else .success objs

end Unrepaired

end ShellOp.Conversion
