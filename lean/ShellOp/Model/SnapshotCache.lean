/-
Model of `HookController.UpdateSnapshots` (`pkg/hook/controller/hook_controller.go`): the glue
between a hook run and `Monitor.Snapshot()`. The binding contexts of ONE hook run are refreshed in
order; a per-run cache (`map[string][]ObjectAndFilterResult`) makes sure a binding is read at most
once per run — for a still-locked binding every read drops the informer's event buffer, so the
view handed to the hook must be the view of the LAST read (Props/C01 `delivered_since_last_read`).

`snap k b` is what the k-th call of `KubernetesController.SnapshotsFor` in this run returns when it
asks for binding `b` (the cluster may change between two calls). Views are lists of object ids.
Core Lean only.
-/
namespace ShellOp.SnapshotCache

abbrev View := List Nat

/-- What `UpdateSnapshots` reads of a binding context. -/
structure BC where
  binding : Nat
  includes : List Nat      -- includeSnapshotsFrom (a binding with a `group` includes itself)
  isSync : Bool            -- kubernetes binding, Type == Synchronization
  deriving DecidableEq, Repr

/-- The refreshed context: `snapshots` and (for a Synchronization) `objects`. -/
structure Out where
  binding : Nat
  snaps : List (Nat × View)
  objects : Option View
  deriving DecidableEq, Repr

structure St where
  cache : List (Nat × View) := []   -- the Go map `cache` (latest store first)
  calls : List Nat := []            -- bindings asked from SnapshotsFor, in call order
  deriving DecidableEq, Repr

def lookup (c : List (Nat × View)) (b : Nat) : Option View :=
  match c with
  | [] => none
  | (k, v) :: rest => if k = b then some v else lookup rest b

/-- `if _, has := cache[b]; !has { cache[b] = SnapshotsFor(b) }; … cache[b]` -/
def getCached (snap : Nat → Nat → View) (s : St) (b : Nat) : St × View :=
  match lookup s.cache b with
  | some v => (s, v)
  | none =>
    let v := snap s.calls.length b
    ({ cache := (b, v) :: s.cache, calls := s.calls ++ [b] }, v)

/-- the loop over `includeSnapshotsFrom` -/
def includeLoop (snap : Nat → Nat → View) (s : St) (names : List Nat) : St × List (Nat × View) :=
  names.foldl (fun (acc : St × List (Nat × View)) name =>
    let r := getCached snap acc.1 name
    (r.1, acc.2 ++ [(name, r.2)])) (s, [])

/-- one iteration of `for _, bc := range context` -/
def refresh (snap : Nat → Nat → View) (s : St) (bc : BC) : St × Out :=
  let r := includeLoop snap s bc.includes
  if bc.isSync then
    let o := getCached snap r.1 bc.binding
    (o.1, { binding := bc.binding, snaps := r.2, objects := some o.2 })
  else (r.1, { binding := bc.binding, snaps := r.2, objects := none })

def updateSnapshots (snap : Nat → Nat → View) (ctxs : List BC) : St × List Out :=
  ctxs.foldl (fun (acc : St × List Out) bc =>
    let r := refresh snap acc.1 bc
    (r.1, acc.2 ++ [r.2])) ({}, [])

end ShellOp.SnapshotCache
