import ShellOp.Generated.Facts
/-!
# Model of hook discovery and of the `--config` pass of `hook.Manager.Init` (C20). Core Lean only.

Code modelled (pkg/utils/file/file.go, pkg/hook/hook_manager.go):

* `RecursiveGetExecutablePaths(dir)` = `filepath.Walk(dir, cb)`; `cb` returns `SkipDir` for a directory
  other than the walk root whose name starts with `.` or is in `excludedDirs` (= `["lib"]`), and
  appends `path` for a non-directory that passes `checkExecutableHookFile`;
* `checkExecutableHookFile`: hidden → wrong extension (`filepath.Ext` ∈ table) → `mode & 0o111 == 0`;
* `Init`: `sort.Strings(paths)`, then for each path in order `loadHook` (run `<path> --config` once,
  `LoadConfig` of the output); the first error is returned and ends the loop.

Names and paths are byte strings (`List Nat`): Go compares and sorts strings bytewise. A directory is
given with its entries in the order `filepath.Walk` visits them (sorted `ReadDir` names — library
behaviour, assumed); no theorem depends on that order.
-/
namespace ShellOp.Discovery

abbrev Name := List Nat
abbrev Path := List Nat

/-- bytes of an (ASCII) string literal -/
def bytesOf (s : String) : List Nat := s.toList.map Char.toNat
def strOf (b : List Nat) : String := String.ofList (b.map Char.ofNat)

def dot : Nat := 46
def sep : Nat := 47

/-- what the file does when run with `--config`: prints a valid configuration, exits non-zero /
cannot be executed, prints something `LoadConfig` rejects. -/
inductive Outcome where
  | ok | fail | invalid
  deriving DecidableEq, Repr

inductive Tree where
  | file (name : Name) (mode : Nat) (out : Outcome)
  | dir (name : Name) (children : List Tree)

def Tree.name : Tree → Name
  | .file n _ _ => n
  | .dir n _ => n

/-- `strings.HasPrefix(name, prefix)` -/
def hasPrefix : Name → Name → Bool
  | _, [] => true
  | [], _ :: _ => false
  | c :: cs, p :: ps => c == p && hasPrefix cs ps

/-- `filepath.Ext(name)`: the suffix starting at the last dot, empty when there is none. -/
def ext : Name → Name
  | [] => []
  | c :: cs =>
    match ext cs with
    | [] => if c == dot then c :: cs else []
    | r => r

/-- `filepath.Join(dir, name)` for clean arguments. -/
def join (p : Path) (n : Name) : Path := p ++ sep :: n

/-! Tables regenerated from file.go -/
def hiddenPrefix : Name := bytesOf Facts.c20HiddenPrefix
def excludedExts : List Name := Facts.c20ExcludedExtensions.map bytesOf
def excludedDirs : List Name := Facts.c20ExcludedDirs.map bytesOf
def execMask : Nat := Facts.c20ExecMask

inductive FileCheck where
  | hidden | wrongExt | noExec | ok
  deriving DecidableEq, Repr

/-- `checkExecutableHookFile`, same order of tests. -/
def checkExecutableHookFile (n : Name) (mode : Nat) : FileCheck :=
  if hasPrefix n hiddenPrefix then .hidden
  else if excludedExts.contains (ext n) then .wrongExt
  else if mode &&& execMask == 0 then .noExec
  else .ok

/-- the directory test of the walk callback -/
def skipDir (n : Name) : Bool := hasPrefix n hiddenPrefix || excludedDirs.contains n

mutual
/-- `filepath.Walk` with the callback of `RecursiveGetExecutablePaths`; `top` is `path == dir`
(true exactly for the walk root, which `Walk` passes verbatim; every other path is a longer
`Join`). `exempt` = the callback guards its directory test with `path != dir`.
Result: `paths` in append order. -/
def walk (exempt top : Bool) (path : Path) : Tree → List Path
  | .file n m _ => if checkExecutableHookFile n m == .ok then [path] else []
  | .dir n cs => if !(exempt && top) && skipDir n then [] else walkList exempt path cs
def walkList (exempt : Bool) (dir : Path) : List Tree → List Path
  | [] => []
  | t :: ts => walk exempt false (join dir t.name) t ++ walkList exempt dir ts
end

/-- `RecursiveGetExecutablePaths(rootPath)` on the directory `root`. -/
def discover (rootPath : Path) (root : Tree) : List Path := walk Facts.c20RootExempt true rootPath root

/-- The code before the repair applied the directory test to the walk root as well. -/
def discoverUnrepaired (rootPath : Path) (root : Tree) : List Path := walk false true rootPath root

def pathLe (a b : Path) : Bool := decide (a ≤ b)

def insertPath (a : Path) : List Path → List Path
  | [] => [a]
  | b :: l => if pathLe a b then a :: b :: l else b :: insertPath a l

/-- `sort.Strings` (any sorting algorithm: equal strings are indistinguishable); structural, so that
concrete witnesses reduce in the kernel. -/
def sortPaths : List Path → List Path
  | [] => []
  | a :: l => insertPath a (sortPaths l)

/-- `sort.Strings(hooksRelativePaths)` -/
def loadOrder (rootPath : Path) (root : Tree) : List Path := sortPaths (discover rootPath root)

/-- `filepath.Rel(workingDir, hookPath)` for a path below the working directory. -/
def relName (rootPath : Path) (p : Path) : Name := p.drop (rootPath.length + 1)

/-! ## The `--config` pass of `Init` -/

structure InitState where
  asked : List Path := []     -- files run with `--config`, in run order
  loaded : List Name := []    -- hookNamesInOrder
  err : Option Path := none   -- the hook the returned error names
  deriving Repr

/-- the `for _, hookPath := range hooksRelativePaths` loop with its early return -/
def initLoop (rootPath : Path) (outcome : Path → Outcome) : InitState → List Path → InitState
  | st, [] => st
  | st, p :: ps =>
    let st := { st with asked := st.asked ++ [p] }           -- execCommandOutput(... "--config")
    match outcome p with
    | .fail => { st with err := some p }                     -- "cannot get config for hook '<path>'"
    | .invalid => { st with err := some p }                  -- "creating hook '<name>': …"
    | .ok => initLoop rootPath outcome { st with loaded := st.loaded ++ [relName rootPath p] } ps

def init (rootPath : Path) (root : Tree) (outcome : Path → Outcome) : InitState :=
  initLoop rootPath outcome {} (loadOrder rootPath root)

/-! ## The `--config` run of one hook (`execCommandOutput`, consumed by `loadHook`)

`execCommandOutput` runs `<path> --config` through `(*exec.Cmd).Output()` and hands the error on
unchanged (`if err != nil { return output, err }`); `loadHook` turns an error into
"cannot get config for hook '<path>'" and otherwise gives the output to `LoadConfig`. os/exec (modelled,
library): `Output()` returns a nil error exactly for a process that was started, ran to its end and
exited with status 0 — a start failure, every other exit status and death by a signal are errors
(`*exec.ExitError`, whose `ExitCode()` is -1 for a signal). -/

/-- how the `--config` process ended -/
inductive RunEnd where
  | notStarted                 -- exec format error, missing interpreter, permission denied …
  | exited (status : Nat)
  | signaled (signal : Nat)
  deriving DecidableEq, Repr

/-- `err != nil` for the error of `hookCmd.Output()` -/
def cmdErr : RunEnd → Bool
  | .exited 0 => false
  | _ => true

/-- `execCommandOutput` + `loadHook`: the error of the run wins whatever was printed; otherwise the
verdict of `LoadConfig` on the output (`validOutput`) decides. -/
def loadOutcome (e : RunEnd) (validOutput : Bool) : Outcome :=
  if cmdErr e then .fail else if validOutput then .ok else .invalid

/-! ## Symbolic links

`filepath.Walk` calls `Lstat`: a symbolic link below the hooks directory is reported to the callback as
a non-directory entry (never descended, whatever it points to) whose `Mode()` is `ModeSymlink | 0777`
(Linux: `lrwxrwxrwx`). `CheckExecutablePermissions` looks at `Mode() & 0o111` only, so for the callback a
link is a file with the permission bits 0777. -/

/-- permission bits `Lstat` reports for a symbolic link -/
def lstatLinkMode : Nat := 0o777

/-- a symbolic link as the walk sees it -/
def Tree.link (n : Name) (o : Outcome) : Tree := .file n lstatLinkMode o

/-! ## Specification side: every file of the tree with the directories above it -/

structure Entry where
  path : Path          -- root path joined with every component
  dirs : List Name     -- sub-directories of the root the file lies below, outermost first
  name : Name
  mode : Nat
  out : Outcome
  deriving Repr

mutual
def allFiles (path : Path) : Tree → List Entry
  | .file n m o => [{ path := path, dirs := [], name := n, mode := m, out := o }]
  | .dir n cs => (allFilesList path cs).map (fun e => { e with dirs := n :: e.dirs })
def allFilesList (dir : Path) : List Tree → List Entry
  | [] => []
  | t :: ts => allFiles (join dir t.name) t ++ allFilesList dir ts
end

/-- the files under the hooks directory (the root's own name is not a sub-directory) -/
def entries (rootPath : Path) : Tree → List Entry
  | .file .. => []
  | .dir _ cs => allFilesList rootPath cs

/-! The property's wording, with the documented literal values. -/
def docExts : List Name := [".yaml", ".json", ".md", ".txt"].map bytesOf
def docLib : Name := bytesOf "lib"

def startsWithDot (n : Name) : Bool := n.head? == some dot
def hasExecBit (m : Nat) : Bool := m.testBit 0 || m.testBit 3 || m.testBit 6
def endsIn (n sfx : Name) : Bool := sfx.isSuffixOf n

def isHookEntry (e : Entry) : Bool :=
  hasExecBit e.mode && !startsWithDot e.name && !docExts.any (endsIn e.name) &&
    e.dirs.all (fun d => d != docLib && !startsWithDot d)

def specPaths (rootPath : Path) (root : Tree) : List Path :=
  ((entries rootPath root).filter isHookEntry).map (·.path)

/-- the outcome of the file at a path (first match; paths are distinct in a well-formed tree) -/
def outcomeAt (rootPath : Path) (root : Tree) (p : Path) : Outcome :=
  match (entries rootPath root).find? (·.path == p) with
  | some e => e.out
  | none => .fail

/-! file-system well-formedness: no separator inside a name, sibling names distinct -/
mutual
def wf : Tree → Prop
  | .file n _ _ => sep ∉ n
  | .dir n cs => sep ∉ n ∧ wfList cs
def wfList : List Tree → Prop
  | [] => True
  | t :: ts => wf t ∧ (∀ t' ∈ ts, t'.name ≠ t.name) ∧ wfList ts
end

/-- a hooks directory: a directory (of any name) with well-formed contents -/
def wfRoot : Tree → Prop
  | .file .. => False
  | .dir _ cs => wfList cs

/-! ## Several starts in one process

A process can start a hook manager more than once on the same path (library users re-scan a module's
hooks; the harness process runs thousands of starts). What one start could leave behind for the next is
process state: the package-level variables mentioned by the scan and by `Init`. The extractor lists them
(`Facts.c20ProcessState`); the model threads exactly that state — a value per listed variable — from
start to start. The list is empty (`C20.discovery_stateless`), so nothing a start computes can depend on
an earlier tree. -/

/-- the process state: one slot per package-level variable the scan / Init mention -/
abbrev ProcState := List (String × List Path)

def procInit : ProcState := Facts.c20ProcessState.map (fun v => (v, []))

/-- one start on the tree as it is on disk now: the scan and `Init`; no variable is written because none
is mentioned, the state is handed on unchanged -/
def startOnce (rootPath : Path) (σ : ProcState) (t : Tree) : ProcState × List Path × InitState :=
  (σ, discover rootPath t, init rootPath t (outcomeAt rootPath t))

/-- successive starts, each on the tree of its time -/
def starts (rootPath : Path) : ProcState → List Tree → List (List Path × InitState)
  | _, [] => []
  | σ, t :: ts => let r := startOnce rootPath σ t; r.2 :: starts rootPath r.1 ts

end ShellOp.Discovery
