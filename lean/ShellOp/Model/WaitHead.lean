import ShellOp.Model.Queue
/-!
C03, "the task executed next is always the one at the head of that queue", on the retry path:
`waitForTask(sleepDelay)` of `task_queue.go` as a function of what the queue holds each time the code
looks at it. Between two looks anybody may change the queue (the consumer appends; users of the queue
package push meta-tasks to the head, remove, filter), so every look gets its own contents. Core-only.

    if !q.IsEmpty() && sleepDelay == 0 { return q.GetFirst() }          -- the shortcut: two looks
    for { …tick…; if elapsed >= waitUntil { if q.IsEmpty() {…} else { return q.GetFirst() } } }   -- two looks per check
-/
namespace ShellOp.WaitHead
open ShellOp.Queue (Id Items getFirst)

/-- one head check: was the delay over (`elapsed >= waitUntil`, or cancelled), what the queue held when
`IsEmpty()` looked, what it held when `GetFirst()` looked -/
structure Look where
  expired : Bool
  atEmpty : Items
  atGet : Items

/-- the wait loop over its successive ticks; `none`: still waiting after all of them -/
def waitLoop : List Look → Option (Option Id)
  | [] => none
  | k :: rest => if k.expired && !k.atEmpty.isEmpty then some (getFirst k.atGet) else waitLoop rest

/-- `waitForTask`: the shortcut (its two looks are `first`), then the loop -/
def waitForTask (sleep : Nat) (first : Look) (looks : List Look) : Option (Option Id) :=
  if !first.atEmpty.isEmpty && sleep == 0 then some (getFirst first.atGet) else waitLoop looks

/-- the variant that reads the head once, before the delay, and re-reads it only when it was nil -/
def staleLoop (head : Option Id) : List Look → Option (Option Id)
  | [] => none
  | k :: rest =>
    if k.expired then
      match (if head.isNone then getFirst k.atGet else head) with
      | none => staleLoop none rest
      | some t => some (some t)
    else staleLoop head rest

def staleWait (sleep : Nat) (first : Look) (looks : List Look) : Option (Option Id) :=
  let head := getFirst first.atGet
  if head.isSome && sleep == 0 then some head else staleLoop head looks

end ShellOp.WaitHead
