import ShellOp.Generated.Facts
/-!
C03, "a binding's tasks are placed in the queue named by its `queue` setting (`main` when absent)":
the code between a hook configuration and the task the events consumer places. Core-only.

* `convQueue` — the converters of `pkg/hook/config/config_v{0,1}.go`: version 1 copies the `queue` key,
  writing the default literal when the key is empty; version 0 has no such key and always writes the literal.
* `enable` — `scheduleBindingsController.EnableScheduleBindings`: one link per schedule binding in the
  Go map `ScheduleLinks`, modelled as an association list with Go's assignment semantics (`mapSet`:
  an existing key is overwritten). The key of a link is what the source uses (`Facts.c03_scheduleLinksKeys`).
* `handleEvent` — `scheduleBindingsController.HandleEvent`: a walk over the map (any order, see the
  theorems), one `BindingExecutionInfo` (binding name, queue name) per link with the tick's crontab.
  `ShellOperator.initHookManager`'s schedule callback turns each info into one task `WithQueueName(info.QueueName)`.
-/
namespace ShellOp.Routing

/-- the literal the converters write for a missing `queue` (read from the sources on every run) -/
def defaultQueue : String := Facts.c03_defaultQueueLiterals.headD ""

/-- `if cfg.Queue == "" { res.Queue = "main" } else { res.Queue = cfg.Queue }` (v1); `res.Queue = "main"` (v0) -/
def convQueue (v0 : Bool) (setting : String) : String :=
  if v0 then defaultQueue else if setting == "" then defaultQueue else setting

/-- the version-1 converter of a `kubernetes` binding, the two keys it reads next to each other
(`config_v1.go`, `ConvertAndCheck`): `if kubeCfg.Queue == "" { Queue = "main" } else { Queue = kubeCfg.Queue }`
and `WaitForSynchronization = true; if kubeCfg.WaitForSynchronization == "false" && kubeCfg.Queue != "" { … = false }`.
`queue`, `wfs` = the values as written ("" = key absent). -/
def convKube (queue wfs : String) : String × Bool :=
  let q := if queue == "" then defaultQueue else queue
  let w := if wfs == "false" && queue != "" then false else true
  (q, w)

/-- a schedule binding as written in a hook configuration, plus the entry id the loader makes up -/
structure SchedBinding where
  name : String
  entry : String
  crontab : String
  queue : String      -- "" = no `queue` key
deriving DecidableEq, Repr

structure Link where
  binding : String
  crontab : String
  queue : String
deriving DecidableEq, Repr

/-- Go's `m[k] = v` on a map kept as an association list: overwrite, or add -/
def mapSet (m : List (String × Link)) (k : String) (v : Link) : List (String × Link) :=
  match m with
  | [] => [(k, v)]
  | (k', v') :: rest => if k' = k then (k, v) :: rest else (k', v') :: mapSet rest k v

/-- the index expression of `c.ScheduleLinks[…] = &ScheduleBindingToCrontabLink{…}` in the source -/
def linkKey (b : SchedBinding) : String :=
  if Facts.c03_scheduleLinksKeys = ["config.ScheduleEntry.Crontab"] then b.crontab else b.entry

def linkOf (v0 : Bool) (b : SchedBinding) : Link := ⟨b.name, b.crontab, convQueue v0 b.queue⟩

/-- `EnableScheduleBindings`: `for _, config := range c.ScheduleBindings { c.ScheduleLinks[key] = link }` with any key -/
def enableBy (key : SchedBinding → String) (v0 : Bool) (bs : List SchedBinding) : List (String × Link) :=
  bs.foldl (fun m b => mapSet m (key b) (linkOf v0 b)) []

def enable (v0 : Bool) (bs : List SchedBinding) : List (String × Link) := enableBy linkKey v0 bs

/-- `HandleEvent`: `for _, link := range c.ScheduleLinks { if link.Crontab == crontab { res = append(res, info) } }` -/
def handleEvent (m : List (String × Link)) (crontab : String) : List (String × String) :=
  (m.filter (fun kv => kv.2.crontab = crontab)).map (fun kv => (kv.2.binding, kv.2.queue))

/-- what the property asks of one tick: one task per binding with that crontab, for the queue the
binding names, `main` when it names none (version 0 cannot name one) -/
def wanted (v0 : Bool) (bs : List SchedBinding) (crontab : String) : List (String × String) :=
  (bs.filter (fun b => b.crontab = crontab)).map
    (fun b => (b.name, if v0 = true ∨ b.queue = "" then "main" else b.queue))

end ShellOp.Routing
