/-
Prelude of the translated functions (`ShellOp/Generated/Trans.lean`, tie T4): the handful of
definitions the translator's output refers to. Core Lean only.
-/
import ShellOp.Model.Queue
namespace ShellOp.TransPrelude

abbrev TaskId := ShellOp.Queue.Id
abbrev Slot := ShellOp.Queue.Slot

/-- `t.GetId() == id`. For a nil slot Go panics; the translation says `false` (the queue never holds
a nil slot: `no_empty_slot`). -/
def hasId (t : Slot) (id : TaskId) : Bool := t == some id

/-- call of a function-typed parameter that may be nil -/
def callFn {α : Type} (f : Option (α → Bool)) (a : α) : Bool :=
  match f with
  | some g => g a
  | none => false

end ShellOp.TransPrelude
