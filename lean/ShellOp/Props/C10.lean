import ShellOp.Proofs.Config
/-!
# C10 — hook config: valid configs load faithfully, invalid ones are rejected

Property theorems over `Model/Config` — `convertV1` / `convertV0`, the code-shaped model of
`HookConfigV1.ConvertAndCheck` / `HookConfigV0.ConvertAndCheck` over the *typed* document — and the readable
`Spec` (documented defaults with literal values, order-preserving union). Quantifier: every typed document
(all option combinations, all list lengths, all parser verdicts). Decoding bytes and the OpenAPI schema are
not in the model; "all byte strings" / "unknown field" / "wrong type" are covered by the harness as tests.
-/
namespace ShellOp.Config.C10

open ShellOp ShellOp.Config

/-- **C10 (declared bindings, declared order)** On success every effective list is the declared list
converted item by item — same length, same order — with the group merge applied to the include lists. -/
theorem bindings_preserved (p : String) (d : DocV1) (e : Effective) (h : convertV1 p d = .ok e) :
    e.kubes.length = d.kubes.length ∧ e.scheds.length = d.scheds.length ∧
    e.validating.length = d.validating.length ∧ e.mutating.length = d.mutating.length ∧
    e.conversions.length = d.conversions.length ∧
    e.kubes.map (·.name) = d.kubes.map (fun k => if k.name == "" then "kubernetes" else k.name) ∧
    e.scheds.map (·.name) = d.scheds.map (fun s => if s.name == "" then "schedule" else s.name) ∧
    e.validating.map (·.name) = d.validating.map (·.name) ∧
    e.mutating.map (·.name) = d.mutating.map (·.name) ∧
    e.conversions.map (·.name) = d.conversions.map (·.name) := by
  obtain ⟨-, -, -, -, -, -, -, -, -, -, hk, hs, hv, hm, hc⟩ := convertV1Core_ok true p d e h
  rw [hk, hs, hv, hm, hc]
  refine ⟨by simp, by simp, by simp, by simp, by simp, ?_, ?_, ?_, ?_, ?_⟩
  · simp [List.map_map, Function.comp_def, KubeEff.merged, convertKube, Facts.c10DefaultKubeName]
  · simp only [List.map_map]
    apply List.map_congr_left
    intro s _
    simp only [Function.comp, SchedEff.merged, convertSched, Facts.c10DefaultSchedName]
    by_cases hn : s.name = "" <;> simp [hn]
  · simp [List.map_map, Function.comp_def, AdmEff.merged, convertAdm]
  · simp [List.map_map, Function.comp_def, AdmEff.merged, convertAdm]
  · simp [List.map_map, Function.comp_def, ConvEff.merged, convertConv]

/-- **C10 (documented defaults)** The per-binding conversion is the documented one: default names
`kubernetes` / `schedule`, queue `main`, all three watch events when neither list is given
(`executeHookOnEvent` has priority over `watchEvent`; `[]` means none), `executeHookOnSynchronization`,
`keepFullObjectsInMemory` and `waitForSynchronization` true unless `false` is written (the latter only for
a named queue), allowFailure as declared (false when absent), webhook defaults `None` / 10 s. The
left-hand sides use the constants extracted from the sources, the right-hand sides the literals. -/
theorem defaults_kube (k : KubeV1) : convertKube k = Spec.kubeDefaults k := by
  unfold convertKube Spec.kubeDefaults
  simp only [Facts.c10DefaultKubeName, Facts.c10DefaultEvents, Facts.c10DefaultExecOnSync,
    Facts.c10DefaultWaitForSync, Facts.c10DefaultKeepFull, Facts.c10DefaultQueueKube]
  congr 1
  · cases k.execEvents <;> cases k.watchEvents <;> rfl
  · cases (k.execOnSync == "false") <;> rfl
  · cases (k.waitForSync == "false" && k.queue != "") <;> rfl
  · cases (k.keepFull == "false") <;> rfl

theorem defaults_sched (s : SchedV1) : convertSched s = Spec.schedDefaults s := by
  unfold convertSched Spec.schedDefaults
  simp only [Facts.c10DefaultSchedName, Facts.c10DefaultQueueSched]
  by_cases hn : s.name = "" <;> simp [hn]

theorem defaults_admission (p : String) (a : AdmV1) :
    convertAdm p a = Spec.admDefaults p a ∧ Facts.c10DefaultMutatingPolicy = "Fail" := ⟨rfl, rfl⟩

/-- **C10 (defaults, whole document)** On success the effective kubernetes and schedule bindings are the
documented defaults of the declared ones, in order, up to the include lists (see `group_merge`). -/
theorem defaults (p : String) (d : DocV1) (e : Effective) (h : convertV1 p d = .ok e) :
    e.kubes.map (fun k => { k with includes := [] }) = d.kubes.map (fun k => { Spec.kubeDefaults k with includes := [] }) ∧
    e.scheds.map (fun s => { s with includes := [] }) = d.scheds.map (fun s => { Spec.schedDefaults s with includes := [] }) ∧
    e.validating.map (fun a => { a with includes := [] }) = d.validating.map (fun a => { Spec.admDefaults p a with includes := [] }) ∧
    e.mutating.map (fun a => { a with includes := [] }) = d.mutating.map (fun a => { Spec.admDefaults "Fail" a with includes := [] }) := by
  obtain ⟨-, -, -, -, -, -, -, -, -, -, hk, hs, hv, hm, -⟩ := convertV1Core_ok true p d e h
  rw [hk, hs, hv, hm]
  refine ⟨?_, ?_, ?_, ?_⟩
  · simp only [List.map_map]
    apply List.map_congr_left
    intro k _
    simp [Function.comp, KubeEff.merged, defaults_kube]
  · simp only [List.map_map]
    apply List.map_congr_left
    intro s _
    simp [Function.comp, SchedEff.merged, defaults_sched]
  · simp only [List.map_map]
    apply List.map_congr_left
    intro a _
    simp [Function.comp, AdmEff.merged, (defaults_admission p a).1]
  · simp only [List.map_map]
    apply List.map_congr_left
    intro a _
    simp [Function.comp, AdmEff.merged, (defaults_admission _ a).1, Facts.c10DefaultMutatingPolicy]

/-- **C10 (settings, onStartup)** -/
theorem settings_onStartup (p : String) (d : DocV1) (e : Effective) (h : convertV1 p d = .ok e) :
    (d.settings = none → e.settings = none) ∧
    (∀ i b, d.settings = some ⟨some i, some b⟩ → e.settings = some (i, b)) ∧
    (d.onStartup = .absent → e.onStartup = none) ∧ (∀ v, d.onStartup = .num v → e.onStartup = some v) := by
  obtain ⟨hs, ho, -⟩ := convertV1Core_ok true p d e h
  refine ⟨?_, ?_, ?_, ?_⟩
  · intro hd; rw [hd] at hs; simpa [convertSettings] using hs.symm
  · intro i b hd; rw [hd] at hs; simpa [convertSettings] using hs.symm
  · intro hd; rw [hd] at ho; simpa [convertOnStartup] using ho.symm
  · intro v hd; rw [hd] at ho; simpa [convertOnStartup] using ho.symm

/-- `MergeArrays`, modelled as written, is the order-preserving union: the first list unchanged, then
the elements of the second that are new, each once, in their order. -/
theorem mergeArrays_union (a b : List String) :
    mergeArrays a b = a ++ Spec.dedupFrom a b ∧
    (∀ x, x ∈ mergeArrays a b ↔ x ∈ a ∨ x ∈ b) ∧
    (Spec.dedupFrom a b).Nodup ∧ (∀ x ∈ Spec.dedupFrom a b, x ∉ a) ∧ (Spec.dedupFrom a b).Sublist b := by
  refine ⟨mergeArrays_eq_union a b, ?_, nodup_dedupFrom a b, ?_, sublist_dedupFrom a b⟩
  · intro x
    rw [mergeArrays_eq_union, Spec.union, List.mem_append, mem_dedupFrom]
    constructor
    · rintro (h | ⟨h, -⟩)
      · exact Or.inl h
      · exact Or.inr h
    · rintro (h | h)
      · exact Or.inl h
      · by_cases hx : x ∈ a
        · exact Or.inl hx
        · exact Or.inr ⟨h, hx⟩
  · intro x hx
    exact ((mem_dedupFrom a b x).1 hx).2

/-- **C10 (group merge)** On success, for every binding of every kind: its effective include list is its
declared list united (order preserving, no repeats added) with the names of the kubernetes bindings of its
group, in declared order; a binding without a group keeps its declared list. -/
theorem group_merge (p : String) (d : DocV1) (e : Effective) (h : convertV1 p d = .ok e) :
    let ks := d.kubes.map Spec.kubeDefaults
    e.kubes.map (·.includes) = d.kubes.map (fun k => Spec.groupIncludes ks k.group k.includes) ∧
    e.scheds.map (·.includes) = d.scheds.map (fun s => Spec.groupIncludes ks s.group s.includes) ∧
    e.validating.map (·.includes) = d.validating.map (fun a => Spec.groupIncludes ks a.group a.includes) ∧
    e.mutating.map (·.includes) = d.mutating.map (fun a => Spec.groupIncludes ks a.group a.includes) ∧
    e.conversions.map (·.includes) = d.conversions.map (fun c => Spec.groupIncludes ks c.group c.includes) := by
  obtain ⟨-, -, -, -, -, -, -, -, -, -, hk, hs, hv, hm, hc⟩ := convertV1Core_ok true p d e h
  have hks : d.kubes.map convertKube = d.kubes.map Spec.kubeDefaults :=
    List.map_congr_left (fun k _ => defaults_kube k)
  rw [hk, hs, hv, hm, hc, hks]
  refine ⟨?_, ?_, ?_, ?_, ?_⟩ <;> simp only [List.map_map] <;> apply List.map_congr_left <;> intro x _
  · simp [Function.comp, KubeEff.merged, mergeGroup_eq, Spec.kubeDefaults]
  · simp [Function.comp, SchedEff.merged, mergeGroup_eq, convertSched]
  · simp [Function.comp, AdmEff.merged, mergeGroup_eq, convertAdm]
  · simp [Function.comp, AdmEff.merged, mergeGroup_eq, convertAdm]
  · simp [Function.comp, ConvEff.merged, mergeGroup_eq, convertConv]

/-- **C10 (bindings sharing a group receive the snapshots of every kubernetes binding of that group)** -/
theorem group_receives_all (kubes : List KubeEff) (g : String) (declared : List String) (hg : g ≠ "")
    (k : KubeEff) (hk : k ∈ kubes) (hkg : k.group = g) : k.name ∈ Spec.groupIncludes kubes g declared := by
  have hg' : (g == "") = false := by simpa using hg
  simp only [Spec.groupIncludes, hg', Bool.false_eq_true, if_false, Spec.union, List.mem_append, mem_dedupFrom]
  by_cases hin : k.name ∈ declared
  · exact Or.inl hin
  · refine Or.inr ⟨?_, hin⟩
    simp only [Spec.groupNames, List.mem_map, List.mem_filter, beq_iff_eq]
    exact ⟨k, ⟨hk, hkg⟩, rfl⟩

theorem countName_merged (ks all : List KubeEff) (n : String) :
    countName (ks.map (KubeEff.merged all)) n = countName ks n := by
  unfold countName
  rw [List.filter_map, List.length_map]
  rfl

/-- **C10 (includeSnapshotsFrom checked, declared names)** A declared include name — in a binding of any
kind — that names no kubernetes binding or more than one makes the conversion fail. -/
theorem include_snapshots_checked (p : String) (d : DocV1) (n : String)
    (hbad : countName (d.kubes.map Spec.kubeDefaults) n ≠ 1)
    (hdecl : (∃ k ∈ d.kubes, n ∈ k.includes) ∨ (∃ s ∈ d.scheds, n ∈ s.includes) ∨
      (∃ a ∈ d.validating, n ∈ a.includes) ∨ (∃ a ∈ d.mutating, n ∈ a.includes) ∨
      (∃ c ∈ d.conversions, n ∈ c.includes)) :
    ∃ err, convertV1 p d = .error err := by
  cases hr : convertV1 p d with
  | error err => exact ⟨err, rfl⟩
  | ok e =>
    exfalso
    obtain ⟨-, -, -, hi, hs, hv, -, hm, hc, -⟩ := convertV1Core_ok true p d e hr
    have hks : d.kubes.map convertKube = d.kubes.map Spec.kubeDefaults :=
      List.map_congr_left (fun k _ => defaults_kube k)
    rw [hks] at hi hs hv hm hc
    have use : ∀ incl : List String, n ∈ incl → checkIncludes (d.kubes.map Spec.kubeDefaults) incl = true → False := by
      intro incl hn hchk
      simp only [checkIncludes, List.all_eq_true, beq_iff_eq] at hchk
      exact hbad (hchk n hn)
    have nonempty : ∀ incl : List String, n ∈ incl → (incl.length == 0) = false := by
      intro incl hn
      cases incl with
      | nil => simp at hn
      | cons a t => simp
    rcases hdecl with ⟨k, hk, hn⟩ | ⟨s, hs', hn⟩ | ⟨a, ha, hn⟩ | ⟨a, ha, hn⟩ | ⟨c, hc', hn⟩
    · refine use k.includes hn ?_
      have := hi (Spec.kubeDefaults k) (List.mem_map.2 ⟨k, hk, rfl⟩)
      simpa [Spec.kubeDefaults] using this
    · have := hs s hs'
      simp only [checkSched, Bool.and_eq_true, Bool.or_eq_true, nonempty _ hn, Bool.false_eq_true, false_or] at this
      exact use _ hn this.2
    · have := hv a ha
      simp only [checkAdm, Bool.and_eq_true, Bool.or_eq_true, nonempty _ hn, Bool.false_eq_true, false_or] at this
      exact use _ hn this.1.1
    · have := hm a ha
      simp only [checkAdm, Bool.and_eq_true, Bool.or_eq_true, nonempty _ hn, Bool.false_eq_true, false_or] at this
      exact use _ hn this.1.1
    · have := hc c hc'
      simp only [checkConv, Bool.or_eq_true, nonempty _ hn, Bool.false_eq_true, false_or] at this
      exact use _ hn this

theorem includesOK_union (ks : List KubeEff) (a b : List String)
    (ha : Spec.includesOK ks a = true) (hb : Spec.includesOK ks b = true) :
    Spec.includesOK ks (Spec.union a b) = true := by
  simp only [Spec.includesOK, List.all_eq_true, Spec.union, List.mem_append, mem_dedupFrom] at *
  rintro x (h | ⟨h, -⟩)
  · exact ha x h
  · exact hb x h

theorem groupSnapshots_some (ks : List KubeEff) (g : String) (snaps : List String)
    (h : groupSnapshots ks g = some snaps) :
    g ≠ "" ∧ snaps = Spec.groupNames ks g ∧ ∃ k ∈ ks, k.group = g := by
  unfold groupSnapshots at h
  by_cases hg : g = ""
  · simp [hg] at h
  · have hg' : (g == "") = false := by simpa using hg
    simp only [hg', Bool.false_eq_true, if_false] at h
    split at h
    · simp at h
    · rename_i hne
      simp only [Option.some.injEq] at h
      refine ⟨hg, h.symm, ?_⟩
      cases hf : ks.filter (fun k => k.group == g) with
      | nil => simp [hf] at hne
      | cons k t =>
        have : k ∈ ks.filter (fun k => k.group == g) := by simp [hf]
        simp only [List.mem_filter, beq_iff_eq] at this
        exact ⟨k, this.1, this.2⟩

theorem checkIncludes_nil_or (ks : List KubeEff) (incl : List String)
    (h : (incl.length == 0 || checkIncludes ks incl) = true) : checkIncludes ks incl = true := by
  cases incl with
  | nil => simp [checkIncludes]
  | cons a t => simpa using h

/-- **C10 (includeSnapshotsFrom checked, effective names)** On success every include name of the
*effective* configuration — the declared ones and the ones added by the group merge, in every binding
kind — names exactly one kubernetes binding. (False for the code before the repair:
`unrepaired_group_ambiguity_witness`.) -/
theorem effective_includes_unambiguous (p : String) (d : DocV1) (e : Effective) (h : convertV1 p d = .ok e) :
    Spec.effIncludesOK e = true := by
  obtain ⟨-, -, -, hi, hs, hv, -, hm, hc, hg, hke, hse, hve, hme, hce⟩ := convertV1Core_ok true p d e h
  have hg := hg rfl
  have hcnt : ∀ incl, Spec.includesOK e.kubes incl = checkIncludes (d.kubes.map convertKube) incl := by
    intro incl
    simp only [Spec.includesOK, checkIncludes, hke, countName_merged]
  -- the merged list of any binding is fine when its declared list is
  have key : ∀ (g : String) (incl : List String), checkIncludes (d.kubes.map convertKube) incl = true →
      Spec.includesOK e.kubes (mergeGroup (d.kubes.map convertKube) g incl) = true := by
    intro g incl hdecl
    rw [hcnt]
    unfold mergeGroup
    cases hgs : groupSnapshots (d.kubes.map convertKube) g with
    | none => exact hdecl
    | some snaps =>
      obtain ⟨-, -, k, hk, hkg⟩ := groupSnapshots_some _ _ _ hgs
      have hsn := hg k hk snaps (by rw [hkg]; exact hgs)
      simp only [mergeArrays_eq_union]
      exact includesOK_union _ _ _ hdecl hsn
  unfold Spec.effIncludesOK
  simp only [Bool.and_eq_true, List.all_eq_true]
  refine ⟨⟨⟨⟨?_, ?_⟩, ?_⟩, ?_⟩, ?_⟩
  · intro b hb
    rw [hke] at hb
    obtain ⟨k, hk, rfl⟩ := List.mem_map.1 hb
    exact key _ _ (hi k hk)
  · intro b hb
    rw [hse] at hb
    obtain ⟨s', hs', rfl⟩ := List.mem_map.1 hb
    obtain ⟨s, hsd, rfl⟩ := List.mem_map.1 hs'
    have := hs s hsd
    simp only [checkSched, Bool.and_eq_true] at this
    exact key _ _ (checkIncludes_nil_or _ _ this.2)
  · intro b hb
    rw [hve] at hb
    obtain ⟨a', ha', rfl⟩ := List.mem_map.1 hb
    obtain ⟨a, had, rfl⟩ := List.mem_map.1 ha'
    have := hv a had
    simp only [checkAdm, Bool.and_eq_true] at this
    exact key _ _ (checkIncludes_nil_or _ _ this.1.1)
  · intro b hb
    rw [hme] at hb
    obtain ⟨a', ha', rfl⟩ := List.mem_map.1 hb
    obtain ⟨a, had, rfl⟩ := List.mem_map.1 ha'
    have := hm a had
    simp only [checkAdm, Bool.and_eq_true] at this
    exact key _ _ (checkIncludes_nil_or _ _ this.1.1)
  · intro b hb
    rw [hce] at hb
    obtain ⟨c', hc', rfl⟩ := List.mem_map.1 hb
    obtain ⟨c, hcd, rfl⟩ := List.mem_map.1 hc'
    exact key _ _ (checkIncludes_nil_or _ _ (hc c hcd))

/-- Regression witness for the repaired defect (DESIGN §9 row 21): before the repair two unnamed
kubernetes bindings sharing a group were accepted although the group merge puts the ambiguous name
`kubernetes` into every include list of the group; the repaired conversion rejects the document. -/
theorem unrepaired_group_ambiguity_witness :
    let d : DocV1 := { kubes := [{ group := "g", passthru := "Pod" }, { group := "g", passthru := "ConfigMap" }],
                       scheds := [{ crontab := "* * * * *", group := "g" }] }
    (∃ e, convertV1Unrepaired "Fail" d = .ok e ∧ Spec.effIncludesOK e = false ∧
      e.scheds.map (·.includes) = [["kubernetes"]]) ∧
    convertV1 "Fail" d = .error (.groupAmbiguous 0) := by
  refine ⟨⟨_, rfl, ?_, ?_⟩, ?_⟩
  · decide
  · decide
  · rfl

/-- **C10 (rejects)** With the parsers as oracles: a bad crontab, an invalid label/field selector, an
invalid apiVersion, `metadata.name` in both selectors, unparsable settings, a non-numeric onStartup, an
invalid or repeated webhook — each makes the conversion fail, wherever it occurs. -/
theorem rejects (p : String) (d : DocV1)
    (hbad : (∃ s ∈ d.scheds, s.parseOK = false ∨ zeroStep s.crontab = true) ∨
      (∃ k ∈ d.kubes, k.labelSelOK = false ∨ k.fieldSelOK = false ∨ k.apiVersionOK = false ∨
        (k.nameSelNonEmpty = true ∧ k.fieldSelOnName = true)) ∨
      (∃ a ∈ d.validating, a.labelSelOK = false ∨ a.nsSelOK = false ∨ a.webhookOK = false) ∨
      (∃ a ∈ d.mutating, a.labelSelOK = false ∨ a.nsSelOK = false) ∨
      (∃ s, d.settings = some s ∧ (s.interval = none ∨ s.burst = none)) ∨ d.onStartup = .other) :
    ∃ err, convertV1 p d = .error err := by
  cases hr : convertV1 p d with
  | error err => exact ⟨err, rfl⟩
  | ok e =>
    exfalso
    obtain ⟨hs, ho, hk, -, hsc, hv, hw, hm, -⟩ := convertV1Core_ok true p d e hr
    rcases hbad with ⟨s, hsd, hb⟩ | ⟨k, hkd, hb⟩ | ⟨a, had, hb⟩ | ⟨a, had, hb⟩ | ⟨s, hsd, hb⟩ | hb
    · have := hsc s hsd
      rcases hb with hb | hb <;> simp [checkSched, parseCrontabOK, hb] at this
    · have := hk k hkd
      simp only [checkKube, Bool.and_eq_true, Bool.not_eq_true', Bool.and_eq_false_iff] at this
      rcases hb with hb | hb | hb | ⟨hb1, hb2⟩
      · simp [hb] at this
      · simp [hb] at this
      · simp [hb] at this
      · simp [hb1, hb2] at this
    · rcases hb with hb | hb | hb
      · have := hv a had
        simp [checkAdm, hb] at this
      · have := hv a had
        simp [checkAdm, hb] at this
      · simp only [validatingWebhooksOK, Bool.and_eq_true, List.all_eq_true] at hw
        have := hw.1.1 a had
        simp [hb] at this
    · have := hm a had
      rcases hb with hb | hb <;> simp [checkAdm, hb] at this
    · rw [hsd] at hs
      rcases hb with hb | hb
      · simp [convertSettings, hb] at hs
      · cases hi : s.interval <;> simp [convertSettings, hb, hi] at hs
    · rw [hb] at ho
      simp [convertOnStartup] at ho

/-- **C10 (bad crontab: zero step)** `ParseCrontab` recognises a step that is the number zero — written
`0`, `00`, `+0`, `-0` — in any field and any comma-separated expression, whatever the cron library would
say (it never returns on such a crontab); examples of both verdicts. -/
theorem zero_step_examples :
    zeroStep "*/0 * * * *" = true ∧ zeroStep "0-59/00 * * * * *" = true ∧ zeroStep "1,2-4/+0 * * * *" = true ∧
    zeroStep "*\t*/-0 * * *" = true ∧ zeroStep "0 0 1,2-3/0 * *" = true ∧ zeroStep "*/10 * * * *" = false ∧ zeroStep "0 0 * * 0" = false ∧
    zeroStep "*/1/0 * * * *" = false ∧ zeroStep "*/0x0 * * * *" = false ∧ zeroStep "@every 0s" = false := by
  decide

theorem rejects_zero_step (p : String) (d : DocV1) (s : SchedV1) (hs : s ∈ d.scheds) (hz : zeroStep s.crontab = true) :
    ∃ err, convertV1 p d = .error err :=
  rejects p d (Or.inl ⟨s, hs, Or.inr hz⟩)

/-- **C10 (rejected, as one predicate of the declared document)** `Spec.mustReject` — a bad crontab, an invalid
selector of a kubernetes binding, an invalid object `labelSelector` or `namespace.labelSelector` of a
validating **or mutating** binding, an unknown or ambiguous declared include in a binding of any kind — makes
the conversion fail. This is the predicate the driver's `oracle verdict` line evaluates on the declared
document against the verdict the implementation showed. -/
theorem rejects_spec (p : String) (d : DocV1) (h : Spec.mustReject d = true) :
    ∃ err, convertV1 p d = .error err := by
  have incl : ∀ l : List String, Spec.includesOK (d.kubes.map Spec.kubeDefaults) l = false →
      ∃ n ∈ l, countName (d.kubes.map Spec.kubeDefaults) n ≠ 1 := by
    intro l hl
    simp only [Spec.includesOK, List.all_eq_false, beq_iff_eq] at hl
    obtain ⟨n, hn, hc⟩ := hl
    exact ⟨n, hn, hc⟩
  simp only [Spec.mustReject, Bool.or_eq_true] at h
  rcases h with (((h | h) | h) | h) | h
  · simp only [Spec.badCrontab, List.any_eq_true, Bool.or_eq_true, Bool.not_eq_true'] at h
    obtain ⟨s, hs, hb⟩ := h
    exact rejects p d (Or.inl ⟨s, hs, hb⟩)
  · simp only [Spec.badKubeSelector, List.any_eq_true, Bool.or_eq_true, Bool.not_eq_true', Bool.and_eq_true] at h
    obtain ⟨k, hk, hb⟩ := h
    refine rejects p d (Or.inr (Or.inl ⟨k, hk, ?_⟩))
    rcases hb with (hb | hb) | hb
    · exact Or.inl hb
    · exact Or.inr (Or.inl hb)
    · exact Or.inr (Or.inr (Or.inr hb))
  · simp only [Spec.badAdmObjectSelector, List.any_eq_true, Bool.or_eq_true, Bool.not_eq_true'] at h
    rcases h with ⟨a, ha, hb⟩ | ⟨a, ha, hb⟩
    · exact rejects p d (Or.inr (Or.inr (Or.inl ⟨a, ha, Or.inl hb⟩)))
    · exact rejects p d (Or.inr (Or.inr (Or.inr (Or.inl ⟨a, ha, Or.inl hb⟩))))
  · simp only [Spec.badAdmNamespaceSelector, List.any_eq_true, Bool.or_eq_true, Bool.not_eq_true'] at h
    rcases h with ⟨a, ha, hb⟩ | ⟨a, ha, hb⟩
    · exact rejects p d (Or.inr (Or.inr (Or.inl ⟨a, ha, Or.inr (Or.inl hb)⟩)))
    · exact rejects p d (Or.inr (Or.inr (Or.inr (Or.inl ⟨a, ha, Or.inr hb⟩))))
  · simp only [Spec.badInclude, List.any_eq_true, Bool.or_eq_true, Bool.not_eq_true'] at h
    rcases h with (((⟨b, hb, hi⟩ | ⟨b, hb, hi⟩) | ⟨b, hb, hi⟩) | ⟨b, hb, hi⟩) | ⟨b, hb, hi⟩
    · obtain ⟨n, hn, hc⟩ := incl _ hi
      exact include_snapshots_checked p d n hc (Or.inl ⟨b, hb, hn⟩)
    · obtain ⟨n, hn, hc⟩ := incl _ hi
      exact include_snapshots_checked p d n hc (Or.inr (Or.inl ⟨b, hb, hn⟩))
    · obtain ⟨n, hn, hc⟩ := incl _ hi
      exact include_snapshots_checked p d n hc (Or.inr (Or.inr (Or.inl ⟨b, hb, hn⟩)))
    · obtain ⟨n, hn, hc⟩ := incl _ hi
      exact include_snapshots_checked p d n hc (Or.inr (Or.inr (Or.inr (Or.inl ⟨b, hb, hn⟩))))
    · obtain ⟨n, hn, hc⟩ := incl _ hi
      exact include_snapshots_checked p d n hc (Or.inr (Or.inr (Or.inr (Or.inr ⟨b, hb, hn⟩))))

/-- **C10 (a loaded configuration carries only good crontabs)** "bad crontabs are rejected", read on the
result: when a document loads, the crontab of every effective schedule is the declared text, character by
character (nothing is trimmed or rewritten between the check and the effective configuration), and each
declared text is a good crontab — no zero step, and the cron library (the one the schedule manager hands the
effective text to) parses that very text. So a check that validates another spelling than the one that is
stored (`TrimSpace`, case folding, …) cannot satisfy this. The driver's `oracle schedusable` line evaluates
`Spec.goodCrontab` on the effective text the implementation showed. -/
theorem loaded_crontabs_good (p : String) (d : DocV1) (e : Effective) (h : convertV1 p d = .ok e) :
    e.scheds.map (·.crontab) = d.scheds.map (·.crontab) ∧
    ∀ s ∈ d.scheds, Spec.goodCrontab s.crontab s.parseOK = true := by
  obtain ⟨-, -, -, -, hsc, -, -, -, -, -, -, hs, -, -, -⟩ := convertV1Core_ok true p d e h
  refine ⟨?_, ?_⟩
  · rw [hs]
    simp [List.map_map, Function.comp_def, SchedEff.merged, convertSched]
  · intro s hsd
    have := hsc s hsd
    simp only [checkSched, parseCrontabOK, Bool.and_eq_true] at this
    simp only [Spec.goodCrontab, Bool.and_eq_true]
    exact this.1

/-- **C10 (the validated crontab is the stored crontab — tie to the sources)** In the v1 and the v0 converter the
expression `CheckSchedule` hands to `ParseCrontab` and the expression `ConvertSchedule` stores in
`ScheduleEntry.Crontab` are the same field of the declared binding, untransformed (extracted from the sources on
every run): the model's single `crontab` per schedule — checked and stored — is the code's. -/
theorem crontab_checked_is_stored :
    Facts.c10CheckedCrontabV1 = "schV1.Crontab" ∧ Facts.c10StoredCrontabV1 = "schV1.Crontab" ∧
    Facts.c10CheckedCrontabV0 = "schV0.Crontab" ∧ Facts.c10StoredCrontabV0 = "schV0.Crontab" := by
  decide

/-- non-vacuity: a descriptor behind a blank is a text the cron library refuses (`parseOK := false` is its
verdict on `" @hourly"`): rejected; the same descriptor at the first character loads, text unchanged. -/
example :
    (∃ err, convertV1 "Fail" { scheds := [{ crontab := " @hourly", parseOK := false }] } = .error err) ∧
    (∃ e, convertV1 "Fail" { scheds := [{ crontab := "@hourly" }] } = .ok e ∧ e.scheds.map (·.crontab) = ["@hourly"]) ∧
    Spec.goodCrontab " @hourly" false = false ∧ Spec.goodCrontab "\t*/0 * * * *" true = false ∧
    Spec.goodCrontab " 0 * * * * " true = true := by
  refine ⟨⟨_, rfl⟩, ⟨_, rfl, by decide⟩, by decide, by decide, by decide⟩

/-- non-vacuity, and the very input a mutating binding needs: an invalid `namespace.labelSelector` next to a
valid object selector must be rejected; the same binding with a valid namespace selector loads. -/
example :
    Spec.mustReject { mutating := [{ name := "m.example.com", nsSelOK := false }] } = true ∧
    Spec.rejectReason { mutating := [{ name := "m.example.com", nsSelOK := false }] }
      = some "invalid-admission-namespace-labelSelector" ∧
    Spec.mustReject { mutating := [{ name := "m.example.com" }] } = false ∧
    (∃ e, convertV1 "Fail" { mutating := [{ name := "m.example.com" }] } = .ok e) := by
  refine ⟨by decide, by decide, by decide, _, rfl⟩

/-- **C10 (valid configs load)** Conversely to the reject theorems: when every check of the conversion
passes — parsers accept, every declared include names exactly one kubernetes binding, webhooks validate,
the names each group contributes are unambiguous — the conversion succeeds (and then all the theorems
above describe its result). -/
theorem valid_loads (p : String) (d : DocV1) (s : Option (Int × Int)) (o : Option Int)
    (hs : convertSettings d.settings = .ok s) (ho : convertOnStartup d.onStartup = .ok o)
    (hk : ∀ k ∈ d.kubes, checkKube k = true)
    (hi : ∀ k ∈ d.kubes.map convertKube, checkIncludes (d.kubes.map convertKube) k.includes = true)
    (hsc : ∀ s ∈ d.scheds, checkSched (d.kubes.map convertKube) s = true)
    (hv : ∀ a ∈ d.validating, checkAdm (d.kubes.map convertKube) a = true)
    (hw : validatingWebhooksOK d.validating (d.validating.map (convertAdm p)) = true)
    (hm : ∀ a ∈ d.mutating, checkAdm (d.kubes.map convertKube) a = true)
    (hc : ∀ c ∈ d.conversions, checkConv (d.kubes.map convertKube) c = true)
    (hg : ∀ k ∈ d.kubes.map convertKube, ∀ snaps, groupSnapshots (d.kubes.map convertKube) k.group = some snaps →
      checkIncludes (d.kubes.map convertKube) snaps = true) :
    ∃ e, convertV1 p d = .ok e :=
  convertV1_total p d s o hs ho hk hi hsc hv hw hm hc hg

/-- **C10 (versions)** No `configVersion` means v0; a value with a schema is that version; every other
value is unsupported. The versions with a schema are exactly `v0` and `v1`. -/
theorem version_detect (v : Option String) :
    Facts.c10SchemaVersions = ["v0", "v1"] ∧
    (v = none → detectVersion v = .ok "v0") ∧ (v = some "v1" → detectVersion v = .ok "v1") ∧
    (∀ s, v = some s → s ≠ "v0" → s ≠ "v1" → detectVersion v = .error .version) := by
  refine ⟨rfl, ?_, ?_, ?_⟩
  · rintro rfl; rfl
  · rintro rfl; rfl
  · rintro s rfl h0 h1
    simp [detectVersion, Facts.c10SchemaVersions, h0, h1]

theorem convertEventsV0_some (l evs : List String) (h : convertEventsV0 l = some evs) :
    (∀ ev ∈ l, ev = "add" ∨ ev = "update" ∨ ev = "delete") ∧
    evs = l.map (fun ev => if ev == "add" then "Added" else if ev == "update" then "Modified" else "Deleted") := by
  induction l generalizing evs with
  | nil => simp [convertEventsV0] at h; simp [h]
  | cons a t ih =>
    unfold convertEventsV0 at h
    cases ha : convertEventV0 a with
    | none => simp [ha] at h
    | some x =>
      simp only [ha, Option.map_eq_some_iff] at h
      obtain ⟨evs', he', rfl⟩ := h
      obtain ⟨h1, h2⟩ := ih evs' he'
      have hx : (a = "add" ∨ a = "update" ∨ a = "delete") ∧
          x = (if a == "add" then "Added" else if a == "update" then "Modified" else "Deleted") := by
        unfold convertEventV0 at ha
        by_cases c1 : a = "add"
        · simp [c1] at ha; simp [c1, ha]
        · by_cases c2 : a = "update"
          · simp [c2] at ha; simp [c2, ha]
          · by_cases c3 : a = "delete"
            · simp [c3] at ha; simp [c3, ha]
            · simp [c1, c2, c3] at ha
      refine ⟨?_, by simp [h2, hx.2]⟩
      intro ev hev
      simp only [List.mem_cons] at hev
      rcases hev with rfl | hev
      · exact hx.1
      · exact h1 ev hev

theorem schedLoopV0_ok (i : Nat) (ss : List SchedV0) (r : List SchedEff) (h : schedLoopV0 i ss = .ok r) :
    r = ss.map convertSchedV0 ∧ ∀ s ∈ ss, parseCrontabOK s.crontab s.parseOK = true := by
  induction ss generalizing i r with
  | nil => simp [schedLoopV0] at h; simp [h]
  | cons s ss ih =>
    unfold schedLoopV0 at h
    split at h
    · obtain ⟨r', hr', rfl⟩ := map_ok _ _ _ h
      obtain ⟨h1, h2⟩ := ih _ _ hr'
      subst h1
      refine ⟨rfl, ?_⟩
      intro s' hs'
      simp only [List.mem_cons] at hs'
      rcases hs' with rfl | hs'
      · assumption
      · exact h2 s' hs'
    · simp at h

theorem kubeLoopV0_ok (i : Nat) (ks : List KubeV0) (r : List KubeEff) (h : kubeLoopV0 i ks = .ok r) :
    r.map (fun k => (k.name, k.allowFailure, k.queue, k.passthru)) =
      ks.map (fun k => (if k.name == "" then "onKubernetesEvent" else k.name, k.allowFailure, "main", k.passthru)) ∧
    r.map (·.events) = ks.map (fun k => k.events.map (fun ev =>
      if ev == "add" then "Added" else if ev == "update" then "Modified" else "Deleted")) ∧
    ∀ k ∈ ks, ∀ ev ∈ k.events, ev = "add" ∨ ev = "update" ∨ ev = "delete" := by
  induction ks generalizing i r with
  | nil => simp [kubeLoopV0] at h; simp [h]
  | cons k ks ih =>
    unfold kubeLoopV0 at h
    cases he : convertEventsV0 k.events with
    | none => simp [he] at h
    | some evs =>
      simp only [he] at h
      obtain ⟨r', hr', rfl⟩ := map_ok _ _ _ h
      obtain ⟨h1, h2, h3⟩ := ih _ _ hr'
      obtain ⟨e1, e2⟩ := convertEventsV0_some _ _ he
      refine ⟨?_, ?_, ?_⟩
      · simp [h1, convertKubeV0, Facts.c10DefaultKubeNameV0, Facts.c10DefaultQueueV0Kube]
      · simp [h2, convertKubeV0, e2]
      · intro k' hk'
        simp only [List.mem_cons] at hk'
        rcases hk' with rfl | hk'
        · exact e1
        · exact h3 k' hk'

/-- **C10 (v0 analogue)** A v0 document converts binding by binding, in order: default names
`schedule` / `onKubernetesEvent`, queue `main`, events `add`/`update`/`delete` mapped to
`Added`/`Modified`/`Deleted`; an unknown event name or a bad crontab is rejected. -/
theorem v0_conversion (d : DocV0) (e : Effective) (h : convertV0 d = .ok e) :
    e.scheds.map (fun s => (s.name, s.crontab, s.allowFailure, s.queue)) =
      d.scheds.map (fun s => (if s.name == "" then "schedule" else s.name, s.crontab, s.allowFailure, "main")) ∧
    e.kubes.map (fun k => (k.name, k.allowFailure, k.queue, k.passthru)) =
      d.kubes.map (fun k => (if k.name == "" then "onKubernetesEvent" else k.name, k.allowFailure, "main", k.passthru)) ∧
    e.kubes.map (·.events) = d.kubes.map (fun k => k.events.map (fun ev =>
      if ev == "add" then "Added" else if ev == "update" then "Modified" else "Deleted")) ∧
    (∀ s ∈ d.scheds, s.parseOK = true ∧ zeroStep s.crontab = false) ∧
    (∀ k ∈ d.kubes, ∀ ev ∈ k.events, ev = "add" ∨ ev = "update" ∨ ev = "delete") := by
  unfold convertV0 at h
  simp only [bind, Except.bind] at h
  cases ho : convertOnStartup d.onStartup with
  | error x => simp [ho] at h
  | ok o =>
  cases hs : schedLoopV0 0 d.scheds with
  | error x => simp [ho, hs] at h
  | ok ss =>
  cases hk : kubeLoopV0 0 d.kubes with
  | error x => simp [ho, hs, hk] at h
  | ok ks =>
  simp only [ho, hs, hk, pure, Except.pure, Except.ok.injEq] at h
  subst h
  obtain ⟨rfl, hsc⟩ := schedLoopV0_ok _ _ _ hs
  obtain ⟨h1, h2, h3⟩ := kubeLoopV0_ok _ _ _ hk
  refine ⟨?_, h1, h2, ?_, h3⟩
  case refine_2 =>
    intro s hs'
    have := hsc s hs'
    simp only [parseCrontabOK, Bool.and_eq_true, Bool.not_eq_true'] at this
    exact ⟨this.2, this.1⟩
  simp only [List.map_map]
  apply List.map_congr_left
  intro s _
  simp only [Function.comp, convertSchedV0, Facts.c10DefaultSchedName, Facts.c10DefaultQueueV0Sched]
  by_cases hn : s.name = "" <;> simp [hn]

/-- **C10 (a loaded v0 configuration carries only good crontabs)** the v0 analogue of `loaded_crontabs_good`. -/
theorem loaded_crontabs_good_v0 (d : DocV0) (e : Effective) (h : convertV0 d = .ok e) :
    e.scheds.map (·.crontab) = d.scheds.map (·.crontab) ∧
    ∀ s ∈ d.scheds, Spec.goodCrontab s.crontab s.parseOK = true := by
  obtain ⟨h1, -, -, h4, -⟩ := v0_conversion d e h
  refine ⟨?_, ?_⟩
  · have := congrArg (List.map (fun (x : String × String × Bool × String) => x.2.1)) h1
    simpa [List.map_map, Function.comp_def] using this
  · intro s hs
    obtain ⟨a, b⟩ := h4 s hs
    simp [Spec.goodCrontab, a, b]

/-- Non-vacuity: a document exercising every kind, defaults, `[]` events, priorities, a group shared by
two kubernetes bindings and a schedule, an include declared and added. -/
example :
    let d : DocV1 :=
      { settings := some ⟨some 3000000000, some 5⟩, onStartup := .num 7
        kubes := [{ name := "a", group := "g", execEvents := some [], watchEvents := some ["Added"], keepFull := "false" },
                  { name := "b", group := "g", queue := "q", waitForSync := "false" }, { includes := ["a"] }]
        scheds := [{ crontab := "* * * * *", group := "g", includes := ["kubernetes", "a"] }, { crontab := "1 * * * *", name := "s" }]
        validating := [{ name := "v.example.com", group := "g" }]
        conversions := [{ name := "conv", includes := ["kubernetes"] }] }
    (match convertV1 "Fail" d with
      | .error _ => false
      | .ok e =>
        decide (e.kubes.map (fun k => (k.name, k.events, k.keepFull, k.waitForSync, k.queue, k.includes)) =
          [("a", [], false, true, "main", ["a", "b"]),
           ("b", ["Added", "Modified", "Deleted"], true, false, "q", ["a", "b"]),
           ("kubernetes", ["Added", "Modified", "Deleted"], true, true, "main", ["a"])]) &&
        decide (e.scheds.map (fun s => (s.name, s.queue, s.includes)) =
          [("schedule", "main", ["kubernetes", "a", "b"]), ("s", "main", [])]) &&
        decide (e.validating.map (fun a => (a.failurePolicy, a.sideEffects, a.timeout, a.includes)) =
          [("Fail", "None", 10, ["a", "b"])]) &&
        decide (e.settings = some (3000000000, 5)) && decide (e.onStartup = some 7) &&
        Spec.effIncludesOK e) = true := by
  decide

end ShellOp.Config.C10
