import ShellOp.Proofs.StartupSync
/-!
# C06 — startup order: onStartup by (ORDER, path), then Synchronization, then the rest

Property theorems over `Model/Startup` (the main-queue worker with `taskHandleHookRun`,
`taskHandleEnableKubernetesBindings`, `combineBindingContextForHook`, `bootstrapMainQueue`,
`GetHooksInOrder`). Quantifiers: every list of hooks in path order (`Pairwise name <`: any number,
any ORDER values incl. many equal, any kubernetes bindings with any groups and flags, v0 and v1,
with or without schedules) and every failure script `fails : hook → List Bool` (any finite number of
failing executions per hook).
-/
namespace ShellOp.Startup.C06

open ShellOp.Startup

/-- `GetHooksInOrder` sorts with `sort.SliceStable` and the less function compares ORDER. -/
theorem stable_sort_fact : Facts.c06StableSort = true ∧ Facts.c06OrderLess = true := ⟨rfl, rfl⟩

/-- `taskHandleHookRun` stops combining at a Synchronization that must not be executed. -/
theorem stop_combine_fact : stopFact = true := rfl

theorem facts_fresh : Facts.c06FactsStale = false := rfl

/-- `taskHandleHookRun` has the rule "no Synchronization for v0 hooks" (the model's `prepare` applies it iff
this regenerated fact says so; every theorem below needs it: without the rule a v0 binding whose
converted configuration carries the flag is executed). -/
theorem v0_rule_fact : Facts.c06V0SkipRule = true ∧ v0RuleFact = true := ⟨rfl, rfl⟩

/-- `hooks` is the list `Init` leaves: sorted by path, no path twice. -/
def PathSorted (hooks : List Hook) : Prop := hooks.Pairwise (fun a b => a.name < b.name)

/-- **C06.1 `onstartup_order`.** `GetHooksInOrder(OnStartup)` is the list of the onStartup hooks in
ascending ORDER, alphabetically by path among equal ORDER. After finitely many iterations of the
main-queue worker the log consists of exactly: for each of them in that order, its failing executions
(as many as its failure script says) followed by one successful execution with the single context
`onStartup` — and the queue then holds exactly the enable tasks, so every other execution comes later
(the log only grows). -/
theorem onstartup_order (hooks : List Hook) (hs : PathSorted hooks) (fails : Nat → List Bool) :
    (getHooksInOrder hooks).Perm (hooks.filter (·.onStartup.isSome)) ∧
    (getHooksInOrder hooks).Pairwise KeyLt ∧
    (∀ h ∈ getHooksInOrder hooks,
      okCtxs (retryLog (startupTask h) (fails h.name)) = [.onStartup] ∧
      ∀ c ∈ execCtxs (retryLog (startupTask h) (fails h.name)), c = .onStartup) ∧
    ∃ (n : Nat) (fails₁ : Nat → List Bool),
      runFuel stopFact hooks n (initSt hooks fails) =
        { queue := enableQueue hooks, fails := fails₁,
          log := (getHooksInOrder hooks).flatMap (fun h => retryLog (startupTask h) (fails h.name)) } ∧
      ∀ m, (getHooksInOrder hooks).flatMap (fun h => retryLog (startupTask h) (fails h.name)) <+:
        (runFuel stopFact hooks (n + m) (initSt hooks fails)).log := by
  refine ⟨getHooksInOrder_perm hooks, getHooksInOrder_sorted hooks hs, ?_, ?_⟩
  · intro h _
    refine ⟨okCtxs_retryLog _ _, ?_⟩
    intro c hc
    have := execCtxs_retryLog_mem _ _ c hc
    simpa [startupTask] using this
  · obtain ⟨n, fails₁, hn⟩ := run_reaches_enable stopFact hooks hs fails
    refine ⟨n, fails₁, hn, ?_⟩
    intro m
    rw [runFuel_add, hn]
    exact runFuel_log_prefix stopFact hooks m
      { queue := enableQueue hooks, fails := fails₁, log := startupLog hooks fails }

/-- stability is what makes the order alphabetical: sorting the already sorted list again (every call of
`GetHooksInOrder` sorts the stored slice in place) returns it unchanged -/
theorem getHooksInOrder_idempotent (hooks : List Hook) (hs : PathSorted hooks) :
    stableSortByOrder (getHooksInOrder hooks) = getHooksInOrder hooks := by
  apply stableSortByOrder_idem
  refine (getHooksInOrder_sorted hooks hs).imp ?_
  intro a b hab
  rcases hab with h | h
  · exact Int.le_of_lt h
  · exact Int.le_of_eq h.1

/-- **C06.4 `enable_order_alphabetical`.** The whole start: after the onStartup phase the hooks are
enabled one after the other in path order — the log is the concatenation over the hooks, in list
order, of one block per hook, and everything in the block of `h` concerns `h` alone. The run ends
(empty queue) after finitely many iterations whatever the failure scripts are. -/
theorem enable_order_alphabetical (hooks : List Hook) (hs : PathSorted hooks) (fails : Nat → List Bool) :
    bootstrap hooks = (getHooksInOrder hooks).map startupTask ++ enableQueue hooks ∧
    (∃ (n : Nat) (fails₁ fails₂ : Nat → List Bool), ∀ m, n ≤ m →
      runFuel stopFact hooks m (initSt hooks fails) =
        { queue := [], fails := fails₂,
          log := startupLog hooks fails ++ hooks.flatMap (fun h => hookPlan stopFact h (fails₁ h.name)) }) ∧
    ∀ (h : Hook) (sc : List Bool), ∀ e ∈ hookPlan stopFact h sc, e.hookOf = none ∨ e.hookOf = some h.name :=
  ⟨rfl, run_total stopFact hooks hs fails, fun h sc => hookPlan_hook stopFact h sc⟩

/-- **C06.2 `sync_before_events_and_schedules`.** In the block of a hook all its Synchronization
executions come before its `EnableScheduleBindings` (only from there on its schedules produce tasks);
the monitors of its bindings are unlocked in binding order, each exactly once, and an `unlock` is only
ever written directly behind the successful execution or the skip of the same worker iteration — so no
Event of a binding can be queued before its Synchronization is done. -/
theorem sync_before_events_and_schedules (h : Hook) (sc : List Bool) :
    (∃ pre, hookPlan stopFact h sc = pre ++ (if h.sched then [.enableSched h.name] else []) ∧
      execCtxs pre = execCtxs (hookPlan stopFact h sc) ∧
      unlocked pre = h.kube.map (·.name) ∧ Ev.enableSched h.name ∉ pre) ∧
    ∀ (hooks : List Hook) (s : St), ∃ new, (step stopFact hooks s).log = s.log ++ new ∧
      (new = [] ∨ (∃ h, new = [.enableSched h]) ∨ (∃ h, new = [.enableKube h] ∨ ∃ k, new = [.enableKubeFail h k]) ∨
       (∃ h cs ms, new = [.skip h cs, .unlock ms]) ∨ (∃ h cs, new = [.exec h true cs]) ∨
       (∃ h cs, new = [.exec h false cs]) ∨ (∃ h cs ms, new = [.exec h false cs, .unlock ms])) := by
  refine ⟨?_, fun hooks s => step_new_events stopFact hooks s⟩
  refine ⟨if h.kube.isEmpty then [] else enableFailLog h ++ .enableKube h.name :: (syncPlan stopFact h sc h.kube).1,
    rfl, ?_, ?_, ?_⟩
  · rw [hookPlan, execCtxs_append]
    by_cases hsch : h.sched <;> simp [hsch, execCtxs]
  · by_cases hk : h.kube.isEmpty
    · have : h.kube = [] := by simpa using hk
      simp [unlocked, this]
    · simp only [hk, Bool.false_eq_true, if_false, unlocked_append, unlocked_enableFailLog, List.nil_append, unlocked]
      exact (syncPlan_delivers h _ h.kube (Nat.le_refl _) sc).2.1
  · intro hmem
    by_cases hk : h.kube.isEmpty
    · simp [hk] at hmem
    · simp only [hk, Bool.false_eq_true, if_false, List.mem_append, List.mem_cons] at hmem
      rcases hmem with hmem | hmem | hmem
      · simp [enableFailLog] at hmem
      · cases hmem
      · -- syncPlan writes only exec / skip / unlock
        have : ∀ (n : Nat) (bs : List KBinding), bs.length ≤ n → ∀ (sc : List Bool),
            Ev.enableSched h.name ∉ (syncPlan stopFact h sc bs).1 := by
          intro n
          induction n with
          | zero =>
            intro bs hl sc he
            have : bs = [] := List.length_eq_zero_iff.mp (Nat.le_zero.mp hl)
            subst this; rw [syncPlan] at he; simp at he
          | succ n ih =>
            intro bs hl sc he
            rcases bs with _ | ⟨b, bs⟩
            · rw [syncPlan] at he; simp at he
            · have hl' : bs.length ≤ n := by simp at hl; omega
              have hret : ∀ (t : Task) (sc : List Bool), Ev.enableSched h.name ∉ retryLog t sc := by
                intro t sc hm
                simp only [retryLog] at hm
                rcases List.mem_append.mp hm with hm | hm
                · rcases List.mem_append.mp hm with hm | hm
                  · have := List.eq_of_mem_replicate hm; cases this
                  · simp at hm
                · by_cases hsy : t.isSync <;> simp [hsy] at hm
              rw [syncPlan] at he
              split at he
              · simp only [List.cons_append, List.nil_append, List.mem_cons] at he
                rcases he with he | he | he
                · cases he
                · cases he
                · exact ih bs hl' sc he
              · split at he
                · rcases List.mem_append.mp he with he | he
                  · exact hret _ _ he
                  · exact ih bs hl' _ he
                · have hlen : (bs.dropWhile (mergeable stopFact)).length ≤ n :=
                    Nat.le_trans (List.dropWhile_sublist (l := bs) (mergeable stopFact)).length_le hl'
                  rcases List.mem_append.mp he with he | he
                  · exact hret _ _ he
                  · exact ih _ hlen _ he
        exact this _ h.kube (Nat.le_refl _) sc hmem

/-- **C06.2b `unlock_only_finished_synchronizations`** ("… before any Event of that binding": the events of a
binding are held back until its monitor is unlocked). In EVERY state of the main-queue worker — any queue, also
one with Synchronization tasks of several executions still waiting — an iteration that unlocks monitors `ms`
handled a `HookRun` head task `t`, merged the tasks `merged` (a prefix of the rest of the queue, same hook)
into it, unlocks exactly the monitor IDs carried by `t` and by those merged tasks, in order, nothing else,
and `t` and all of `merged` have left the queue after the iteration (by `sync_before_events_and_schedules`
an unlock stands only behind a successful execution or a skip). A Synchronization task carries exactly the
monitor of its own binding (`syncTask_own_monitor`): the monitor of a binding whose Synchronization task is
still queued afterwards is not touched. -/
theorem unlock_only_finished_synchronizations (hooks : List Hook) (s : St) (ms : List Nat)
    (h : Ev.unlock ms ∈ (step stopFact hooks s).log.drop s.log.length) :
    ∃ t merged, t.typ = .hookRun ∧ s.queue = t :: merged ++ (step stopFact hooks s).queue ∧
      (∀ m ∈ merged, m.hook = t.hook ∧ m.typ = .hookRun) ∧ ms = (t :: merged).flatMap (·.mons) :=
  unlock_shape stopFact hooks s ms h

/-! Neither `taskHandleEnableKubernetesBindings` nor the glue `HookController.HandleEnableKubernetesBindings`
nor `EnableKubernetesBindings` itself lets Events through (regenerated from the three functions): enabling a
binding starts its monitor locked, whatever the options of the binding (`waitForSynchronization`, queue, …)
say — the step machine's `enableKube` iteration has no `unlock`, see `enable_iteration_never_unlocks`. -/
theorem enable_never_unlocks_fact : Facts.c06EnableUnlocks = false := rfl

/-- **the enabling itself never unlocks.** In every state of the worker an iteration whose head task is not a
`HookRun` — an `EnableKubernetesBindings` attempt (failed or successful, with any fault sequence, for bindings
of any configuration) or `EnableScheduleBindings` — writes no `unlock`: between the enabling of a binding and
the success/skip of its Synchronization task no Event of the binding is let through. -/
theorem enable_iteration_never_unlocks (hooks : List Hook) (s : St) (t : Task) (rest : List Task)
    (hq : s.queue = t :: rest) (ht : t.typ ≠ .hookRun) (ms : List Nat) :
    Ev.unlock ms ∉ (step stopFact hooks s).log.drop s.log.length := by
  intro h
  obtain ⟨t', merged, htyp, hq', _, _⟩ := unlock_only_finished_synchronizations hooks s ms h
  rw [hq] at hq'
  have : t = t' := by injection hq'
  exact ht (this ▸ htyp)

/-- non-vacuity: the successful enabling of two bindings queues both Synchronization tasks and writes
`enableKube` only; the first unlock is the one behind the first Synchronization. -/
example :
    let h : Hook := { name := 1, v1 := true, onStartup := none, sched := false, kube := [⟨1, 0, true⟩, ⟨2, 0, true⟩] }
    let s1 := runFuel stopFact [h] 1 (initSt [h] (fun _ => []))
    s1.log = [.enableKube 1] ∧ s1.queue = [syncTask 1 ⟨1, 0, true⟩, syncTask 1 ⟨2, 0, true⟩] ∧
    (runFuel stopFact [h] 1 s1).log = [.enableKube 1, .exec 1 false [.sync 1 0], .unlock [1]] := by decide

theorem syncTask_own_monitor (h : Nat) (b : KBinding) :
    (syncTask h b).mons = [b.name] ∧ (syncTask h b).ctxs = [.sync b.name b.group] ∧ (syncTask h b).hook = h :=
  ⟨rfl, rfl, rfl⟩

/-- non-vacuity: two bindings of group 1, a binding with the flag false (it stops the combination) and an
ungrouped binding. After the combined Group execution exactly the monitors 1 and 2 are unlocked — the
Synchronization tasks of bindings 3 and 4 are still queued with their monitors locked; the skip then unlocks
3, and only the execution of binding 4's own Synchronization unlocks 4. -/
example :
    let h : Hook := { name := 1, v1 := true, onStartup := none, sched := false,
                      kube := [⟨1, 1, true⟩, ⟨2, 1, true⟩, ⟨3, 0, false⟩, ⟨4, 0, true⟩] }
    let s2 := runFuel stopFact [h] 2 (initSt [h] (fun _ => [false, true]))
    s2.log = [.enableKube 1, .exec 1 false [.sync 2 1], .unlock [1, 2]] ∧
    s2.queue = [syncTask 1 ⟨3, 0, false⟩, syncTask 1 ⟨4, 0, true⟩] ∧
    (runFuel stopFact [h] 3 s2).log = s2.log ++ [.skip 1 [.sync 3 0], .unlock [3], .exec 1 true [.sync 4 0],
      .exec 1 false [.sync 4 0], .unlock [4]] := by decide

/-- **C06.3 under faults of the enabling itself, `sync_once_despite_enable_faults`.** The
`EnableKubernetesBindings` task of a hook may fail any finite number of times, each time at any of its
bindings (`h.kfail`, part of every `Hook` the theorems quantify over): the retried task ends with the
Synchronization task of EVERY binding at the head of the queue, in binding order, whatever the earlier
attempts had already set up — and the hook's whole block, failed attempts included, still delivers
exactly `deliveredSpec` and unlocks every monitor exactly once, in binding order. -/
theorem sync_once_despite_enable_faults (hooks : List Hook) (h : Hook) (hfind : findHook hooks h.name = h)
    (rest : List Task) (fails : Nat → List Bool) (log : List Ev) (sc : List Bool) :
    (∃ k, runFuel stopFact hooks k
        { queue := { typ := .enableKube, hook := h.name, kfail := h.kfail } :: rest, fails := fails, log := log } =
      { queue := h.kube.map (syncTask h.name) ++ rest, fails := fails,
        log := log ++ enableFailLog h ++ [.enableKube h.name] }) ∧
    okCtxs (hookPlan stopFact h sc) = deliveredSpec (fun b => h.v1 && b.execSync) h.kube ∧
    unlocked (hookPlan stopFact h sc) = h.kube.map (·.name) := by
  refine ⟨?_, ?_, ?_⟩
  · obtain ⟨k, hk⟩ := run_enable_retry stopFact hooks h.name rest fails h.kfail log
    rw [hfind] at hk
    exact ⟨k, hk⟩
  · by_cases hk : h.kube.isEmpty
    · have : h.kube = [] := by simpa using hk
      by_cases hsch : h.sched <;> simp [hookPlan, this, hsch, okCtxs, deliveredSpec]
    · have hd := (syncPlan_delivers h _ h.kube (Nat.le_refl _) sc).1
      rw [show stopFact = true from rfl]
      by_cases hsch : h.sched <;>
        simp [hookPlan, hk, hsch, okCtxs_append, okCtxs_enableFailLog, okCtxs, hd]
  · by_cases hk : h.kube.isEmpty
    · have : h.kube = [] := by simpa using hk
      by_cases hsch : h.sched <;> simp [hookPlan, this, hsch, unlocked]
    · have hd := (syncPlan_delivers h _ h.kube (Nat.le_refl _) sc).2.1
      rw [show stopFact = true from rfl]
      by_cases hsch : h.sched <;>
        simp [hookPlan, hk, hsch, unlocked_append, unlocked_enableFailLog, unlocked, hd]

/-- what `deliveredSpec` says, spelled out: a binding that must be skipped never appears; an
ungrouped deliverable binding appears -/
theorem deliveredSpec_mem (d : KBinding → Bool) : (bs : List KBinding) → ∀ c ∈ deliveredSpec d bs,
    ∃ b ∈ bs, c = ctxOf b ∧ d b = true
  | [], c, h => by simp [deliveredSpec] at h
  | [b], c, h => by
    by_cases hb : d b <;> simp [deliveredSpec, hb] at h
    exact ⟨b, List.mem_cons_self .., h, hb⟩
  | b :: b' :: bs, c, h => by
    have ih := deliveredSpec_mem d (b' :: bs) c
    simp only [deliveredSpec] at h
    split at h
    · rename_i hb
      split at h
      · obtain ⟨x, hx, hc⟩ := ih h; exact ⟨x, List.mem_cons_of_mem _ hx, hc⟩
      · rcases List.mem_cons.mp h with rfl | h
        · exact ⟨b, List.mem_cons_self .., rfl, hb⟩
        · obtain ⟨x, hx, hc⟩ := ih h; exact ⟨x, List.mem_cons_of_mem _ hx, hc⟩
    · obtain ⟨x, hx, hc⟩ := ih h; exact ⟨x, List.mem_cons_of_mem _ hx, hc⟩

/-- **C06.3 `sync_once_or_skipped`.** What a hook receives as Synchronization, for every hook, every
failure script: the contexts of its successful executions are exactly `deliveredSpec` — one context
per binding with configVersion v1 and executeHookOnSynchronization true (an ungrouped binding its own
Synchronization; adjacent bindings of one group share one Group context), nothing for the bindings
with the flag false and nothing at all for a v0 hook — in binding order; and no execution, failed or
successful, carries any other context. -/
theorem sync_once_or_skipped (h : Hook) (sc : List Bool) :
    okCtxs (syncPlan stopFact h sc h.kube).1 = deliveredSpec (fun b => h.v1 && b.execSync) h.kube ∧
    (∀ c ∈ execCtxs (syncPlan stopFact h sc h.kube).1,
      c ∈ deliveredSpec (fun b => h.v1 && b.execSync) h.kube) ∧
    (h.v1 = false → execCtxs (syncPlan stopFact h sc h.kube).1 = []) := by
  rw [show stopFact = true from rfl]
  have := syncPlan_delivers h _ h.kube (Nat.le_refl _) sc
  refine ⟨this.1, fun c hc => this.1 ▸ this.2.2 c hc, ?_⟩
  intro hv
  have hnil : deliveredSpec (fun b => h.v1 && b.execSync) h.kube = [] := by
    generalize h.kube = bs
    induction bs with
    | nil => rfl
    | cons b bs ih => rw [deliveredSpec_skip _ b bs (by simp [hv])]; exact ih
  rcases hx : execCtxs (syncPlan true h sc h.kube).1 with _ | ⟨c, cs⟩
  · rfl
  · have hc := this.2.2 c (by rw [hx]; exact List.mem_cons_self ..)
    rw [this.1, hnil] at hc
    simp at hc

/-- **C06.3 for configVersion v0.** Whatever `HookConfigV0.ConvertAndCheck` leaves in the flag of a v0
binding (`convertV0`: the regenerated default `v0FlagFact`, no groups), a v0 hook is never executed with a
Synchronization, and all its monitors are unlocked all the same. -/
theorem v0_never_synchronized (h : Hook) (hv : h.v1 = false) (sc : List Bool) :
    (convertV0 h).v1 = false ∧
    execCtxs (hookPlan stopFact (convertV0 h) sc) = [] ∧
    unlocked (hookPlan stopFact (convertV0 h) sc) = h.kube.map (·.name) := by
  have hv' : (convertV0 h).v1 = false := by simp [convertV0, hv]
  have hnames : (convertV0 h).kube.map (·.name) = h.kube.map (·.name) := by
    simp [convertV0, hv, List.map_map, Function.comp_def]
  refine ⟨hv', ?_, ?_⟩
  · have h1 := (sync_before_events_and_schedules (convertV0 h) sc).1
    obtain ⟨pre, hpre, hex, _, _⟩ := h1
    have h2 := (sync_once_or_skipped (convertV0 h) sc).2.2 hv'
    by_cases hk : (convertV0 h).kube.isEmpty
    · by_cases hsch : (convertV0 h).sched <;> simp [hookPlan, hk, hsch, execCtxs]
    · by_cases hsch : (convertV0 h).sched <;>
        simp [hookPlan, hk, hsch, execCtxs_append, execCtxs_enableFailLog, execCtxs, h2]
  · rw [← hnames]
    exact (sync_once_despite_enable_faults [convertV0 h] (convertV0 h)
      (by simp [findHook]) [] (fun _ => []) [] sc).2.2

/-- non-vacuity: a v0 hook whose converted bindings carry the flag (what a converter that fills in the v1
defaults would produce) is still skipped by the v0 rule -/
example :
    let h : Hook := { name := 1, v1 := false, onStartup := none, sched := false, kube := [⟨1, 0, true⟩, ⟨2, 0, true⟩] }
    (run [h] (fun _ => [])).log =
      [.enableKube 1, .skip 1 [.sync 1 0], .unlock [1], .skip 1 [.sync 2 0], .unlock [2]] := by decide

/-- Whenever a run has emptied the queue it has reached *the* final state of `enable_order_alphabetical`
(the driver runs `run` with the fuel `fuelBound` and reports the log only when the queue is empty). -/
theorem run_is_final (hooks : List Hook) (fails : Nat → List Bool) (m : Nat)
    (he : (runFuel stopFact hooks m (initSt hooks fails)).queue = []) :
    ∀ k, m ≤ k → runFuel stopFact hooks k (initSt hooks fails) = runFuel stopFact hooks m (initSt hooks fails) := by
  intro k hk
  obtain ⟨d, rfl⟩ := Nat.exists_eq_add_of_le hk
  rw [runFuel_add]
  exact runFuel_nil stopFact hooks d _ he

/-- **C06.1, second half.** In the final log every onStartup execution comes before every other hook
execution: the log splits into a part whose executions carry only the context onStartup and a part
whose executions carry only Synchronization/Group contexts. -/
theorem startup_before_everything (hooks : List Hook) (hs : PathSorted hooks) (fails : Nat → List Bool) :
    ∃ (n : Nat) (a b : List Ev), (∀ m, n ≤ m → (runFuel stopFact hooks m (initSt hooks fails)).log = a ++ b) ∧
      (∀ c ∈ execCtxs a, c = .onStartup) ∧ (∀ c ∈ execCtxs b, c.isSync = true) := by
  obtain ⟨n, fails₁, fails₂, hrun⟩ := run_total stopFact hooks hs fails
  refine ⟨n, startupLog hooks fails, hooks.flatMap (fun h => hookPlan stopFact h (fails₁ h.name)),
    fun m hm => by rw [hrun m hm], ?_, ?_⟩
  · intro c hc
    unfold startupLog at hc
    generalize getHooksInOrder hooks = L at hc
    induction L with
    | nil => simp [execCtxs] at hc
    | cons h L ih =>
      rw [List.flatMap_cons, execCtxs_append] at hc
      rcases List.mem_append.mp hc with hc | hc
      · have := execCtxs_retryLog_mem _ _ c hc
        simpa [startupTask] using this
      · exact ih hc
  · intro c hc
    generalize hooks = L at hc
    induction L with
    | nil => simp [execCtxs] at hc
    | cons h L ih =>
      rw [List.flatMap_cons, execCtxs_append] at hc
      rcases List.mem_append.mp hc with hc | hc
      · -- the block of hook h: contexts of its Synchronization phase only
        rw [hookPlan, execCtxs_append] at hc
        rcases List.mem_append.mp hc with hc | hc
        · by_cases hk : h.kube.isEmpty
          · simp [hk, execCtxs] at hc
          · simp only [hk, Bool.false_eq_true, if_false, execCtxs_append, execCtxs_enableFailLog,
              List.nil_append, execCtxs] at hc
            have hd := (sync_once_or_skipped h (fails₁ h.name)).2.1 c hc
            obtain ⟨b, _, hb, _⟩ := deliveredSpec_mem _ _ c hd
            rw [hb]; rfl
        · by_cases hsch : h.sched <;> simp [hsch, execCtxs] at hc
      · exact ih hc

/-! ### Non-vacuity and witnesses -/

def hA : Hook :=
  { name := 1, v1 := true, onStartup := some 5,
    kube := [⟨1, 1, true⟩, ⟨2, 0, false⟩, ⟨3, 1, true⟩, ⟨4, 1, true⟩, ⟨5, 0, true⟩], sched := true }
def hB : Hook := { name := 2, v1 := true, onStartup := some 1, kube := [], sched := false }
def hC : Hook := { name := 3, v1 := false, onStartup := some 5, kube := [⟨1, 0, true⟩], sched := true }
def sampleFails : Nat → List Bool := fun h => if h == 1 then [true, false, true] else []

example : PathSorted [hA, hB, hC] := by simp [PathSorted, hA, hB, hC]

example : (getHooksInOrder [hA, hB, hC]).map (·.name) = [2, 1, 3] := by decide

/-- the whole run of the sample: hook 1 fails once at onStartup and once at its first Group execution -/
example : (run [hA, hB, hC] sampleFails).queue = [] ∧
    (run [hA, hB, hC] sampleFails).log =
      [.exec 2 false [.onStartup], .exec 1 true [.onStartup], .exec 1 false [.onStartup], .exec 3 false [.onStartup],
       .enableKube 1, .exec 1 true [.sync 1 1], .exec 1 false [.sync 1 1], .unlock [1], .skip 1 [.sync 2 0], .unlock [2],
       .exec 1 false [.sync 4 1, .sync 5 0], .unlock [3, 4, 5],
       .enableSched 1, .enableKube 3, .skip 3 [.sync 1 0], .unlock [1], .enableSched 3] := by decide

/-- non-vacuity of `sync_once_despite_enable_faults`: the enabling of a hook with two bindings fails at its
second binding, then at its first, then succeeds (the entry 7 names no binding: that attempt succeeds); both
bindings get their Synchronization exactly once -/
example :
    let h : Hook := { name := 1, v1 := true, onStartup := none, sched := false,
                      kube := [⟨1, 0, true⟩, ⟨2, 0, true⟩], kfail := [1, 0, 7] }
    (run [h] (fun _ => [])).queue = [] ∧
    (run [h] (fun _ => [])).log =
      [.enableKubeFail 1 1, .enableKubeFail 1 0, .enableKube 1,
       .exec 1 false [.sync 1 0], .unlock [1], .exec 1 false [.sync 2 0], .unlock [2]] := by decide

/-- witness for the seeded defect "a retry skips the bindings whose monitor already exists": such an
attempt would return only the second binding's task; `enableBindings` starts from the first binding -/
example : enableBindings 1 none 0 [⟨1, 0, true⟩, ⟨2, 0, true⟩] =
    some [syncTask 1 ⟨1, 0, true⟩, syncTask 1 ⟨2, 0, true⟩] ∧
    enableBindings 1 (some 1) 0 [⟨1, 0, true⟩, ⟨2, 0, true⟩] = none := by decide

example : deliveredSpec (fun b => hA.v1 && b.execSync) hA.kube = [.sync 1 1, .sync 4 1, .sync 5 0] := by decide

/-- Regression witness for the repaired defect (combine without the stop condition): the hook receives
the Synchronization context of a binding with executeHookOnSynchronization=false. -/
theorem unrepaired_combine_witness :
    let h : Hook := { name := 1, v1 := true, onStartup := none, sched := false, kube := [⟨1, 1, true⟩, ⟨2, 0, false⟩] }
    (runFuel false [h] 5 (initSt [h] (fun _ => []))).log =
      [.enableKube 1, .exec 1 false [.sync 1 1, .sync 2 0], .unlock [1, 2]] ∧
    Ctx.sync 2 0 ∉ deliveredSpec (fun b => h.v1 && b.execSync) h.kube := by decide

/-- Regression witness for the repaired sort: an ORDER-sorted but not stable arrangement (what
`sort.Slice` may return for more than 12 elements) is not in (ORDER, path) order. -/
theorem unstable_sort_witness :
    let a : Hook := { name := 1, v1 := true, onStartup := some 5, kube := [], sched := false }
    let b : Hook := { name := 2, v1 := true, onStartup := some 5, kube := [], sched := false }
    [b, a].Pairwise (fun x y => orderOf x ≤ orderOf y) ∧ ¬ [b, a].Pairwise KeyLt ∧
    (getHooksInOrder [a, b]).map (·.name) = [1, 2] := by
  refine ⟨by decide, ?_, by decide⟩
  intro h
  have := List.rel_of_pairwise_cons h (List.mem_cons_self ..)
  rcases this with h | h
  · exact absurd h (by decide)
  · exact absurd h.2 (by decide)

end ShellOp.Startup.C06
