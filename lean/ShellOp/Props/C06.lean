import ShellOp.Model.Startup
namespace ShellOp.Startup.C06
open ShellOp.Startup

/-- `GetHooksInOrder` sorts with `sort.SliceStable` and the less function compares ORDER. -/
theorem stable_sort_fact : Facts.c06StableSort = true ∧ Facts.c06OrderLess = true := ⟨rfl, rfl⟩

/-- `taskHandleHookRun` stops combining at a Synchronization that must not be executed. -/
theorem stop_combine_fact : Facts.c06StopCombineOnSkippedSync = true := rfl

theorem facts_fresh : Facts.c06FactsStale = false := rfl

end ShellOp.Startup.C06
