import ShellOp.Proofs.RateLimit
/-!
# C18 — the execution rate limit from `settings` is respected

Theorems over `Model/RateLimit` (integer-nanosecond model of `CreateRateLimiter` and of
`rate.Limiter.reserveN` as used by `Hook.RateLimitWait`).
Quantifiers: every limiter (every interval `I > 0`, every burst `B ≥ 1`), every non-decreasing list
of request times (bursts, steady streams, anything), every window `(t, t+T]`.
Modelled, not verified: the library's float64 arithmetic (differential run, tolerance 1 µs) and real
sleeping (an execution starts *at or after* its grant time).
-/
namespace ShellOp.RateLimit.C18
open ShellOp ShellOp.RateLimit
open ShellOp.RateLimit.Spec (backSteps)

/-- **C18.1** `token_bucket_bound`: for a hook with `executionMinInterval = I` and
`executionBurst = B`, whatever the (non-decreasing) request times, the number of executions granted
in any window `(t, t+T]` is at most `B + ⌈T/I⌉`. -/
theorem token_bucket_bound (l : Lim) (hinf : l.inf = false) (hI : 0 < l.I) (hB : 1 ≤ l.B)
    (ts : List Int) (hsorted : ts.Pairwise (· ≤ ·)) (h0 : ∀ u ∈ ts, 0 ≤ u) (t T : Int) (hT : 0 ≤ T) :
    (Spec.countIn (grants l (init l) ts) t T : Int) ≤ l.B + ceilDiv T l.I := by
  have hspec := grantsD_spec l hinf hI hB ts (init l) (by simp [init]) hsorted (by simpa [init] using h0)
  -- the grants in the window, with their fill times
  let inW : Int × Int → Bool := fun p => decide (t < p.1 ∧ p.1 ≤ t + T)
  have hcount : Spec.countIn (grants l (init l) ts) t T = ((grantsD l (init l) ts).filter inW).length := by
    simp only [Spec.countIn, grants_eq, List.filter_map, List.length_map]
    rfl
  rw [hcount]
  generalize hf : (grantsD l (init l) ts).filter inW = f
  have hpw : f.Pairwise (Apart l.I) := by rw [← hf]; exact hspec.2.filter _
  have hmem : ∀ p ∈ f, (p.2 - l.B * l.I ≤ p.1 ∧ p.1 ≤ p.2 - l.I) ∧ t < p.1 ∧ p.1 ≤ t + T := by
    intro p hp
    rw [← hf] at hp
    have h1 := List.mem_filter.mp hp
    have h2 := hspec.1 p h1.1
    have h3 : t < p.1 ∧ p.1 ≤ t + T := by simpa [inW] using h1.2
    exact ⟨⟨h2.2.1, h2.2.2⟩, h3⟩
  have hceil : 0 ≤ ceilDiv T l.I := Int.ediv_nonneg (by omega) (Int.le_of_lt hI)
  cases hh : f.head? with
  | none =>
    have : f = [] := List.head?_eq_none_iff.mp hh
    subst this
    simp only [List.length_nil, Int.natCast_zero] at *
    omega
  | some a =>
    cases hl : f.getLast? with
    | none =>
      have : f = [] := List.getLast?_eq_none_iff.mp hl
      subst this; simp at hh
    | some b =>
      have hspan := apart_span l.I f hpw a b hh hl
      have ha := hmem a (List.mem_of_mem_head? (by simp [hh]))
      have hb := hmem b (List.mem_of_getLast? hl)
      -- (N - B) * I < T
      have key : ((f.length : Int) - l.B) * l.I < T := by
        have e1 : ((f.length : Int) - l.B) * l.I = (f.length : Int) * l.I - l.B * l.I := Int.sub_mul ..
        have e2 : ((f.length : Int) - 1) * l.I = (f.length : Int) * l.I - l.I := by
          rw [Int.sub_mul]; simp
        rw [e1]; rw [e2] at hspan
        generalize (f.length : Int) * l.I = NI at *
        generalize l.B * l.I = cap at *
        omega
      have : (f.length : Int) - l.B ≤ ceilDiv T l.I := by
        unfold ceilDiv
        rw [Int.le_ediv_iff_mul_le hI]
        omega
      omega

/-- **C18.1″** `token_bucket_bound_skew`: request times in *any* order (several queues read the
clock before they take the limiter's mutex, so a later reservation may carry an earlier time; the
library then moves `last` backwards and credits that stretch of time again). The bound holds with
the window stretched by the total size `S` of the backward steps: at most `B + ⌈(T + S)/I⌉` grants in
any window `(t, t+T]`. For non-decreasing request times `S = 0` and this is `token_bucket_bound`. -/
theorem token_bucket_bound_skew (l : Lim) (hinf : l.inf = false) (hI : 0 < l.I) (hB : 1 ≤ l.B)
    (ts : List Int) (t T : Int) (hT : 0 ≤ T) :
    (Spec.countIn (grants l (init l) ts) t T : Int) ≤ l.B + ceilDiv (T + backSteps 0 ts) l.I := by
  have hspec := grantsF_spec l hinf hI hB ts (init l) 0 (by simp [init])
  have hS := backSteps_nonneg 0 ts
  let inW : Int × Int × Int → Bool := fun p => decide (t < p.1 ∧ p.1 ≤ t + T)
  have hcount : Spec.countIn (grants l (init l) ts) t T = ((grantsF l (init l) 0 ts).filter inW).length := by
    simp only [Spec.countIn, grants_eq_F l (init l) 0, List.filter_map, List.length_map]
    rfl
  rw [hcount]
  generalize hf : (grantsF l (init l) 0 ts).filter inW = f
  have hpw : f.Pairwise (ApartF l.I) := by rw [← hf]; exact hspec.2.filter _
  have hmem : ∀ p ∈ f, (0 ≤ p.2.2 ∧ p.2.2 ≤ backSteps 0 ts ∧ p.2.1 - p.2.2 - l.B * l.I ≤ p.1 ∧
      p.1 ≤ p.2.1 - p.2.2 - l.I) ∧ t < p.1 ∧ p.1 ≤ t + T := by
    intro p hp
    rw [← hf] at hp
    have h1 := List.mem_filter.mp hp
    have h2 := hspec.1 p h1.1
    have h3 : t < p.1 ∧ p.1 ≤ t + T := by simpa [inW] using h1.2
    simp only [init, Int.zero_add] at h2
    exact ⟨⟨h2.2.1, h2.2.2.1, h2.2.2.2.1, h2.2.2.2.2⟩, h3⟩
  have hceil : 0 ≤ ceilDiv (T + backSteps 0 ts) l.I := Int.ediv_nonneg (by omega) (Int.le_of_lt hI)
  cases hh : f.head? with
  | none =>
    have : f = [] := List.head?_eq_none_iff.mp hh
    subst this
    simp only [List.length_nil, Int.natCast_zero] at *
    omega
  | some a =>
    cases hl : f.getLast? with
    | none =>
      have : f = [] := List.getLast?_eq_none_iff.mp hl
      subst this; simp at hh
    | some b =>
      have hspan := apartF_span l.I f hpw a b hh hl
      have ha := hmem a (List.mem_of_mem_head? (by simp [hh]))
      have hb := hmem b (List.mem_of_getLast? hl)
      have key : ((f.length : Int) - l.B) * l.I < T + backSteps 0 ts := by
        have e1 : ((f.length : Int) - l.B) * l.I = (f.length : Int) * l.I - l.B * l.I := Int.sub_mul ..
        have e2 : ((f.length : Int) - 1) * l.I = (f.length : Int) * l.I - l.I := by
          rw [Int.sub_mul]; simp
        rw [e1]; rw [e2] at hspan
        generalize (f.length : Int) * l.I = NI at *
        generalize l.B * l.I = cap at *
        omega
      have : (f.length : Int) - l.B ≤ ceilDiv (T + backSteps 0 ts) l.I := by
        unfold ceilDiv
        rw [Int.le_ediv_iff_mul_le hI]
        omega
      omega

/-- the skew bound specialises to the plain bound for request times that never go backwards. -/
example (ts : List Int) (hs : ts.Pairwise (· ≤ ·)) (h0 : ∀ u ∈ ts, 0 ≤ u) : backSteps 0 ts = 0 :=
  backSteps_sorted 0 ts hs h0

/-- the slack is needed: with a clock that keeps stepping back by 10 the library grants six
executions in a window of length 21 where `B + ⌈T/I⌉ = 4` (and `B + ⌈(T+S)/I⌉ = 7`). -/
theorem skew_slack_needed_witness :
    let l : Lim := { inf := false, I := 10, B := 1 }
    grants l (init l) [10, 0, 10, 0, 10, 0] = [10, 10, 20, 20, 30, 30] ∧
      Spec.countIn [10, 10, 20, 20, 30, 30] 9 21 = 6 ∧ (1 : Int) + ceilDiv 21 10 = 4 ∧
      backSteps 0 [10, 0, 10, 0, 10, 0] = 30 ∧ (1 : Int) + ceilDiv (21 + 30) 10 = 7 := by decide

/-! Non-vacuity: burst 2, one per 10 ns, a burst of six requests at time 5, two late ones. -/
example : grants { inf := false, I := 10, B := 2 } (init { inf := false, I := 10, B := 2 }) [5, 5, 5, 5, 5, 5, 100, 100]
    = [5, 5, 15, 25, 35, 45, 100, 100] := by decide

example : Spec.countIn [5, 5, 15, 25, 35, 45, 100, 100] 4 21 = 4 ∧ (2 : Int) + ceilDiv 21 10 = 5 := by decide

/-- The bound is attained: `B` at once, then one per `I` — `B + T/I` grants in a window of length
`T = k·I` that starts just before the burst. -/
theorem bound_is_tight_witness :
    Spec.countIn (grants { inf := false, I := 10, B := 3 } (init { inf := false, I := 10, B := 3 })
      [0, 0, 0, 0, 0, 0, 0, 0]) (-1) 31 = 6 ∧ (3 : Int) + ceilDiv 31 10 = 7 := by decide

/-- **C18.1′** hooks whose limiter is `Inf` are never delayed: every execution is granted at its
request time, whatever the pattern. -/
theorem inf_never_delays (l : Lim) (hinf : l.inf = true) (s : LState) (ts : List Int) :
    grants l s ts = ts := by
  induction ts generalizing s with
  | nil => rfl
  | cons t ts ih => simp [grants, reserve, hinf, ih]

/-- The shape of `CreateRateLimiter` the model was written against. -/
theorem create_shape : Facts.c18Stale = false ∧ Facts.c18DefaultLimit = "rate.Inf" ∧ Facts.c18DefaultBurst = "1" ∧
    Facts.c18IntervalGuard = "cfg.Settings.ExecutionMinInterval != 0" ∧
    Facts.c18IntervalSet = "rate.Every(cfg.Settings.ExecutionMinInterval)" ∧
    Facts.c18BurstGuard = "cfg.Settings.ExecutionBurst != 0" ∧ Facts.c18BurstSet = "cfg.Settings.ExecutionBurst" ∧
    Facts.c18Return = "rate.NewLimiter(limit, burst)" := by decide

/-- **C18.2** `limiter_of_settings`: no `settings` ⇒ not throttled; an interval `I > 0` ⇒ one
execution per `I`; a burst `B ≠ 0` ⇒ burst `B`, otherwise burst 1; an interval of 0 leaves the
limit at `Inf` (the burst is then irrelevant). -/
theorem limiter_of_settings :
    (createRateLimiter none).inf = true ∧
    (∀ i b, 0 < i → (createRateLimiter (some (i, b))).inf = false ∧ (createRateLimiter (some (i, b))).I = i) ∧
    (∀ i b, b ≠ 0 → (createRateLimiter (some (i, b))).B = b) ∧
    (∀ i, (createRateLimiter (some (i, 0))).B = 1) ∧
    (∀ i b, i ≤ 0 → (createRateLimiter (some (i, b))).inf = true) := by
  refine ⟨rfl, ?_, ?_, ?_, ?_⟩
  · intro i b hi
    have h1 : (i != 0) = true := by simp; omega
    have h2 : ¬ i ≤ 0 := by omega
    simp [createRateLimiter, h1, h2]
  · intro i b hb
    have h1 : (b != 0) = true := by simp; exact hb
    by_cases hi : (i != 0) = true <;> simp [createRateLimiter, h1, hi]
  · intro i
    by_cases hi : (i != 0) = true <;> simp [createRateLimiter, hi, Facts.c18DefaultBurstVal]
  · intro i b hi
    by_cases h0 : i = 0
    · subst h0; simp [createRateLimiter]
    · have h1 : (i != 0) = true := by simp; exact h0
      simp [createRateLimiter, h1, hi]

/-- **C18** for a configured hook: with `settings {executionMinInterval: I, executionBurst: B}`,
`I > 0`, `B ≥ 1` (or `B = 0`, meaning 1), the limiter built from the settings obeys the bound. -/
theorem settings_bound (i b : Int) (hi : 0 < i) (hb : 0 ≤ b)
    (ts : List Int) (hsorted : ts.Pairwise (· ≤ ·)) (h0 : ∀ u ∈ ts, 0 ≤ u) (t T : Int) (hT : 0 ≤ T) :
    let l := createRateLimiter (some (i, b))
    (Spec.countIn (grants l (init l) ts) t T : Int) ≤ (if b = 0 then 1 else b) + ceilDiv T i := by
  have hl := limiter_of_settings.2.1 i b hi
  by_cases hb0 : b = 0
  · subst hb0
    have hB := limiter_of_settings.2.2.2.1 i
    have := token_bucket_bound (createRateLimiter (some (i, 0))) hl.1 (by rw [hl.2]; exact hi) (by rw [hB]; decide)
      ts hsorted h0 t T hT
    simpa [hl.2, hB] using this
  · have hB := limiter_of_settings.2.2.1 i b hb0
    have := token_bucket_bound (createRateLimiter (some (i, b))) hl.1 (by rw [hl.2]; exact hi) (by rw [hB]; omega)
      ts hsorted h0 t T hT
    simpa [hl.2, hB, hb0] using this

/-- The shape of the code around the hook's limiter the model `hookLimiter` was written against
(closed world over pkg/ and cmd/): it is written once, in `Hook.LoadConfig`, from
`CreateRateLimiter(h.Config)`; it is used once, by `RateLimitWait`; no `SetLimit`/`SetBurst` anywhere. -/
theorem load_config_shape :
    Facts.c18LimiterUses = ["pkg/hook/hook.go:LoadConfig: h.RateLimiter = CreateRateLimiter(h.Config)",
                            "pkg/hook/hook.go:RateLimitWait: return h.RateLimiter.Wait(ctx)"] ∧
    Facts.c18LimiterTuners = [] := by decide

/-- **C18, "for a hook configured with … settings" means every such hook**: the limiter a loaded
hook waits on depends on its `settings` only — not on which other bindings the hook has (queued ones,
admission or conversion webhooks), nor on how many. -/
theorem hook_limiter_ignores_bindings (s : Option (Int × Int)) (bs bs' : List BindKind) :
    hookLimiter { settings := s, bindings := bs } = hookLimiter { settings := s, bindings := bs' } := rfl

/-- **C18 for a loaded hook**: a hook whose configuration has `settings {executionMinInterval: I,
executionBurst: B}`, `I > 0`, `B ≥ 0` (0 meaning 1) and ANY bindings obeys the window bound;
a hook without `settings` is never delayed, whatever its bindings. -/
theorem hook_settings_bound (i b : Int) (hi : 0 < i) (hb : 0 ≤ b) (bs : List BindKind)
    (ts : List Int) (hsorted : ts.Pairwise (· ≤ ·)) (h0 : ∀ u ∈ ts, 0 ≤ u) (t T : Int) (hT : 0 ≤ T) :
    let l := hookLimiter { settings := some (i, b), bindings := bs }
    (Spec.countIn (grants l (init l) ts) t T : Int) ≤ (if b = 0 then 1 else b) + ceilDiv T i :=
  settings_bound i b hi hb ts hsorted h0 t T hT

theorem hook_without_settings_unthrottled (bs : List BindKind) (s : LState) (ts : List Int) :
    grants (hookLimiter { settings := none, bindings := bs }) s ts = ts :=
  inf_never_delays _ limiter_of_settings.1 s ts

/-- non-vacuity: a hook with a schedule and a validating binding, I = 10, B = 2, six requests at once:
two start at once, the others 10 apart — and the unthrottled variant of the same hook (what a limiter
re-tuned to `Inf` would do) breaks the bound the oracle checks. -/
example :
    let l := hookLimiter { settings := some (10, 2), bindings := [.schedule, .validating] }
    grants l (init l) [0, 0, 0, 0, 0, 0] = [0, 0, 10, 20, 30, 40] ∧
    Spec.boundOK 10 2 [0, 0, 10, 20, 30, 40] = true ∧ Spec.boundOK 10 2 [0, 0, 0, 0, 0, 0] = false := by decide

/-- **The oracle decides the property.** `Spec.boundOK I B starts` (what the `oracle bound` line
evaluates on observed start times) holds exactly when the bound holds for *every* window `(t, t+T]`,
`T ≥ 0` — although it only looks at the windows that begin just before a start and end at a start. -/
theorem boundOK_iff_all_windows (I B : Int) (hI : 0 < I) (hB : 0 ≤ B) (gs : List Int) :
    Spec.boundOK I B gs = true ↔ ∀ t T : Int, 0 ≤ T → (Spec.countIn gs t T : Int) ≤ B + ceilDiv T I := by
  constructor
  · intro h t T hT; exact boundOK_sound I B hI hB gs h t T hT
  · intro h
    simp only [Spec.boundOK, List.all_eq_true]
    intro a _ b _
    by_cases hab : a ≤ b
    · simp only [hab, if_true, decide_eq_true_eq]
      exact h (a - 1) (b - a + 1) (by omega)
    · simp [hab]

/-- the stretched oracle (`oracle boundskew`) likewise decides the skew bound for every window. -/
theorem boundOKSkew_all_windows (I B S : Int) (hI : 0 < I) (hB : 0 ≤ B) (hS : 0 ≤ S) (gs : List Int)
    (h : Spec.boundOKSkew I B S gs = true) (t T : Int) (hT : 0 ≤ T) :
    (Spec.countIn gs t T : Int) ≤ B + ceilDiv (T + S) I := boundOKSkew_sound I B S hI hB hS gs h t T hT

example : Spec.boundOK 10 2 [5, 5, 15, 25] = true ∧ Spec.boundOK 10 2 [5, 5, 5, 6, 25] = false := by decide

/-- **C18.3** `interval_oracle_sound` — the wall-clock oracle (`oracle boundiv`, `S = 0`: a hook
that runs in one queue). Of every execution the harness knows an interval `[lo, hi]` that contains its
grant: `lo` = a moment before its `RateLimitWait` call, `hi` = the start time written by the hook
process (no assumption on how long a process takes to start). Whatever the request times were, the
observation of a hook that respects its limiter is accepted; so a rejected observation is a real
violation of the bound, never a timing artefact. Every execution counts — retries of a failed task too. -/
theorem interval_oracle_sound (l : Lim) (hinf : l.inf = false) (hI : 0 < l.I) (hB : 1 ≤ l.B)
    (ts : List Int) (hsorted : ts.Pairwise (· ≤ ·)) (h0 : ∀ u ∈ ts, 0 ≤ u)
    (tr : List (Int × Int × Int)) (hg : tr.map (·.2.1) = grants l (init l) ts)
    (hmem : ∀ p ∈ tr, p.1 ≤ p.2.1 ∧ p.2.1 ≤ p.2.2) :
    Spec.boundOKIv l.I l.B 0 (tr.map fun p => (p.1, p.2.2)) = true := by
  apply boundOKIv_of_windows l.I l.B 0 tr hmem
  intro t T hT
  rw [hg, Int.add_zero]
  exact token_bucket_bound l hinf hI hB ts hsorted h0 t T hT

/-- **C18.3′** the same for a hook that runs in several queues (request times in any order): the
observation is accepted with any allowance `S` that covers the total backward step of the request
times (the clock-read skew of `token_bucket_bound_skew`). All executions of the hook, from all of
its queues, are counted against the one bucket. -/
theorem interval_oracle_sound_skew (l : Lim) (hinf : l.inf = false) (hI : 0 < l.I) (hB : 1 ≤ l.B)
    (ts : List Int) (S : Int) (hS : backSteps 0 ts ≤ S)
    (tr : List (Int × Int × Int)) (hg : tr.map (·.2.1) = grants l (init l) ts)
    (hmem : ∀ p ∈ tr, p.1 ≤ p.2.1 ∧ p.2.1 ≤ p.2.2) :
    Spec.boundOKIv l.I l.B S (tr.map fun p => (p.1, p.2.2)) = true := by
  apply boundOKIv_of_windows l.I l.B S tr hmem
  intro t T hT
  rw [hg]
  have h1 := token_bucket_bound_skew l hinf hI hB ts t T hT
  have h2 : ceilDiv (T + backSteps 0 ts) l.I ≤ ceilDiv (T + S) l.I := by
    unfold ceilDiv
    exact Int.ediv_le_ediv hI (by omega)
  omega

/-- Non-vacuity / what the oracle rejects: `I = 400`, `B = 1`. Three executions from three queues
that all were queued at 0 and started by 12 (one bucket per queue), rejected even with an allowance
of 20; a task that fails and is retried after a back-off of 20 without taking a token (each retry is
called after the previous attempt started); and an observation of a limiter that is respected. -/
example : Spec.boundOKIv 400 1 20 [(0, 10), (0, 12), (0, 11)] = false ∧
    Spec.boundOKIv 400 1 0 [(0, 10), (10, 40), (40, 75), (75, 110)] = false ∧
    Spec.boundOKIv 400 1 0 [(0, 10), (0, 412), (0, 811), (10, 1215)] = true := by decide

/-- **C18.4** `handler_one_start_per_token` — the executions are what `taskHandleHookRun` starts:
for every list of queued `HookRun` tasks of a hook — of ANY kind (onStartup, schedule, kubernetes
event, Synchronization) and whatever the way their hook processes end (exit 0, exit code, killed by
a signal) — the process starts are exactly the grants of the hook's limiter at the moments the
handlers were entered: every task waits, one token starts one process. (Synchronizations of
bindings with `executeHookOnSynchronization: false` spend a token and start nothing:
`handler_starts_sublist`.) -/
theorem handler_one_start_per_token (l : Lim) (s : LState) (tks : List HookRunTask)
    (hrun : ∀ tk ∈ tks, ¬ (tk.kind = .synchronization ∧ tk.runOnSync = false)) :
    runTasks l s tks = grants l s (tks.map (·.t)) := runTasks_eq_grants l s tks hrun

theorem handler_starts_sublist (l : Lim) (s : LState) (tks : List HookRunTask) :
    (runTasks l s tks).Sublist (grants l s (tks.map (·.t))) := runTasks_sublist l s tks

/-- **C18 at the task handler**: the number of hook processes STARTED for the queued tasks of a hook
with `executionMinInterval = I`, `executionBurst = B` in any window `(t, t+T]` is at most `B + ⌈T/I⌉`
— for every mix of task kinds (a start-up burst of Synchronizations included), every outcome of the
processes (retries of killed or failed hooks are new tasks of the list) and every arrival pattern. -/
theorem handler_bound (l : Lim) (hinf : l.inf = false) (hI : 0 < l.I) (hB : 1 ≤ l.B)
    (tks : List HookRunTask) (hsorted : (tks.map (·.t)).Pairwise (· ≤ ·)) (h0 : ∀ u ∈ tks.map (·.t), 0 ≤ u)
    (t T : Int) (hT : 0 ≤ T) :
    (Spec.countIn (runTasks l (init l) tks) t T : Int) ≤ l.B + ceilDiv T l.I := by
  have h1 := countIn_sublist (runTasks_sublist l (init l) tks) t T
  have h2 := token_bucket_bound l hinf hI hB (tks.map (·.t)) hsorted h0 t T hT
  have : (Spec.countIn (runTasks l (init l) tks) t T : Int)
      ≤ (Spec.countIn (grants l (init l) (tks.map (·.t))) t T : Int) := by exact_mod_cast h1
  omega

/-- Non-vacuity. `I = 10`, `B = 1`: four Synchronization tasks queued at start-up (one of the
processes dies from a signal, one binding is not executed on Synchronization) start at 0, 10 and 30;
and what the interval oracle says about the two traces the fourth-wave variants produced
(Synchronizations that do not wait: `I = 700 ms`, `B = 1`, four starts 44 ms apart one after the
other in the main queue; a killed hook started again at once: `I = 400 ms`, `B = 2`, four starts
within 44 ms): rejected. -/
example :
    let l := createRateLimiter (some (10, 1))
    runTasks l (init l) [⟨.synchronization, 0, .ok, true⟩, ⟨.synchronization, 0, .signal, true⟩,
      ⟨.synchronization, 0, .ok, false⟩, ⟨.synchronization, 0, .exitCode, true⟩] = [0, 10, 30] ∧
    Spec.boundOKIv 700 1 0 [(0, 914), (914, 930), (930, 938), (938, 958)] = false ∧
    Spec.boundOKIv 400 2 0 [(0, 4), (4, 10), (10, 37), (37, 43)] = false := by decide

/-- **C18.5** `series_bound` — "however many events arrive", "all (I, B) values", at the task handler
with the wait's context and the combining spelled out (`handleHookRunQ`): for every list of handler
calls of a hook — each with ANY deadline on its wait (none, as in the code; or any bound, shorter or
longer than the interval), each followed by the combining of a series of ANY length into the task —
the hook processes started in any window `(t, t+T]` number at most `B + ⌈T/I⌉`. A wait that fails
returns `Repeat`: no process, no token; a series of hundreds of binding contexts is one execution. -/
theorem series_bound (l : Lim) (hinf : l.inf = false) (hI : 0 < l.I) (hB : 1 ≤ l.B)
    (qs : List QTask) (hsorted : (qs.map (·.task.t)).Pairwise (· ≤ ·)) (h0 : ∀ u ∈ qs.map (·.task.t), 0 ≤ u)
    (t T : Int) (hT : 0 ≤ T) :
    (Spec.countIn (runQTasks l (init l) qs) t T : Int) ≤ l.B + ceilDiv T l.I := by
  obtain ⟨ts, h1, h2⟩ := runQTasks_sublist l (init l) qs
  have h3 := countIn_sublist h2 t T
  have h4 := token_bucket_bound l hinf hI hB ts (hsorted.sublist h1) (fun u hu => h0 u (h1.subset hu)) t T hT
  have : (Spec.countIn (runQTasks l (init l) qs) t T : Int)
      ≤ (Spec.countIn (grants l (init l) ts) t T : Int) := by exact_mod_cast h3
  omega

/-- One token starts one process whatever the length of the combined series: the outcome of a handler
call does not depend on the number of tasks merged into it, and it never starts more than one process. -/
theorem series_length_irrelevant (l : Lim) (s : LState) (q : QTask) (n : Nat) :
    handleHookRunQ l s { q with combined := n } = handleHookRunQ l s q ∧ (handleHookRunQ l s q).2.length ≤ 1 := by
  refine ⟨rfl, ?_⟩
  unfold handleHookRunQ
  cases hw : waitCtx l s q.task.t q.deadline with
  | mk s' g =>
    cases g with
    | none => simp
    | some g =>
      by_cases hc : q.task.kind = .synchronization ∧ q.task.runOnSync = false
      · simp [hc]
      · simp [hc, handleRunHookN, hookRun]

/-- A failed wait — whatever the error — starts nothing and leaves the bucket as it was; and the wait
the code performs (`context.Background()`: no deadline) never fails for a throttled hook with `B ≥ 1`,
however long the interval. -/
theorem failed_wait_starts_nothing (l : Lim) (s s' : LState) (q : QTask)
    (h : waitCtx l s q.task.t q.deadline = (s', none)) : handleHookRunQ l s q = (s, []) := by
  have hs := waitCtx_none_state l s s' q.task.t q.deadline h
  subst hs
  simp [handleHookRunQ, h]

/-- The shape of the code the model's `deadline = none` was written against (closed world over pkg/
and cmd/): `Hook.RateLimitWait` hands its context to `rate.Limiter.Wait` unchanged — its body is that
one statement — and its only caller is `taskHandleHookRun`, with `context.Background()`. -/
theorem wait_context_shape :
    Facts.c18WaitBody = ["return h.RateLimiter.Wait(ctx)"] ∧
    Facts.c18WaitCalls =
      ["pkg/shell-operator/operator.go:taskHandleHookRun: err := taskHook.RateLimitWait(context.Background())"] := by
  decide

theorem background_wait_never_fails (l : Lim) (hB : 1 ≤ l.B) (s : LState) (t : Int) :
    ∃ s' g, waitCtx l s t none = (s', some g) := by
  by_cases hinf : l.inf = true
  · exact ⟨s, t, by simp [waitCtx, reserve, hinf]⟩
  · simp only [Bool.not_eq_true] at hinf
    simp [waitCtx, reserve, hinf, hB]

/-- Non-vacuity. `I = 10`, `B = 1`: a single event, then series of 450 and 320 events combined into the
tasks at the head of the queue: three starts, 10 apart. `I = 60`, waits bounded by 10: after the burst
every wait fails at once and nothing starts until a token is 10 away (the bucket loses nothing).
And the traces the two fifth-wave variants produced are rejected by the interval oracle (`I = 1 s`,
`B = 1`, in ms: one token paying for 4 and for 3 executions of a series passed on in batches;
`I = 1 h`, `B = 1`, two queues: four executions within 72 ms after waits that failed). -/
example :
    (let l := createRateLimiter (some (10, 1))
     runQTasks l (init l) [⟨⟨.schedule, 0, .ok, true⟩, none, 0⟩, ⟨⟨.schedule, 0, .ok, true⟩, none, 449⟩,
       ⟨⟨.schedule, 12, .ok, true⟩, none, 319⟩] = [0, 10, 20]) ∧
    (let l := createRateLimiter (some (60, 1))
     runQTasks l (init l) [⟨⟨.schedule, 0, .ok, true⟩, some 10, 0⟩, ⟨⟨.schedule, 1, .ok, true⟩, some 10, 0⟩,
       ⟨⟨.schedule, 2, .ok, true⟩, some 10, 7⟩, ⟨⟨.schedule, 55, .ok, true⟩, some 10, 0⟩] = [0, 60]) ∧
    Spec.boundOKIv 1000 1 0 [(0, 6), (6, 1007), (1007, 1015), (1015, 1024), (1024, 1036), (1036, 2005),
      (2005, 2015), (2015, 2029)] = false ∧
    Spec.boundOKIv 3600000 1 50 [(0, 8), (21, 40), (8, 52), (40, 72)] = false := by decide

/-- **C18.6** `hook_set_independent` — "for a hook configured with I and B …; hooks without settings are not
throttled" holds for EVERY hook of the operator: in a hooks directory with any number of hooks, whatever
their names (relative paths) and whatever the settings of the others, the executions of hook `j` are granted
by the limiter built from ITS configuration, fed with ITS requests only — the requests of the other hooks,
interleaved in any way, change nothing (`Manager.loadHook` keeps what `Hook.LoadConfig` built; no index of
limiters: `load_config_shape`). -/
theorem hook_set_independent (cfgs : List (String × HookCfg)) (j : Nat) (name : String) (cfg : HookCfg)
    (hj : cfgs[j]? = some (name, cfg)) (rs : List (Nat × Int)) :
    setGrants (loadHooks cfgs) j ((loadHooks cfgs).map init) rs
      = grants (hookLimiter cfg) (init (hookLimiter cfg)) ((rs.filter fun r => r.1 == j).map (·.2)) := by
  have hl : (loadHooks cfgs)[j]? = some (hookLimiter cfg) := by simp [loadHooks, hj]
  exact setGrants_eq _ j _ hl rs _ _ (by simp [hl])

/-- **C18 for every hook of a directory**: hook `j` has `settings {I, B}` (`I > 0`, `B ≥ 0`, 0 meaning 1) and any
bindings; the other hooks have any names and any settings (the same, others, none); requests of all hooks in
any interleaving, times non-decreasing: the executions of hook `j` in any window number at most `B + ⌈T/I⌉`. -/
theorem hook_set_bound (cfgs : List (String × HookCfg)) (j : Nat) (name : String) (i b : Int) (bs : List BindKind)
    (hj : cfgs[j]? = some (name, { settings := some (i, b), bindings := bs })) (hi : 0 < i) (hb : 0 ≤ b)
    (rs : List (Nat × Int)) (hsorted : (rs.map (·.2)).Pairwise (· ≤ ·)) (h0 : ∀ u ∈ rs.map (·.2), 0 ≤ u)
    (t T : Int) (hT : 0 ≤ T) :
    (Spec.countIn (setGrants (loadHooks cfgs) j ((loadHooks cfgs).map init) rs) t T : Int)
      ≤ (if b = 0 then 1 else b) + ceilDiv T i := by
  rw [hook_set_independent cfgs j name _ hj rs]
  have hsub : ((rs.filter fun r => r.1 == j).map (·.2)).Sublist (rs.map (·.2)) :=
    (List.filter_sublist (l := rs)).map _
  exact hook_settings_bound i b hi hb bs _ (hsorted.sublist hsub) (fun u hu => h0 u (hsub.subset hu)) t T hT

/-- … and a hook of the directory WITHOUT settings is never delayed, whatever limits its neighbours have. -/
theorem hook_set_unthrottled (cfgs : List (String × HookCfg)) (j : Nat) (name : String) (bs : List BindKind)
    (hj : cfgs[j]? = some (name, { settings := none, bindings := bs })) (rs : List (Nat × Int)) :
    setGrants (loadHooks cfgs) j ((loadHooks cfgs).map init) rs = (rs.filter fun r => r.1 == j).map (·.2) := by
  rw [hook_set_independent cfgs j name _ hj rs]
  exact hook_without_settings_unthrottled bs _ _

/-- **C18.7** `ops_bound` — "within ANY time window": the whole life of the operator, not only the moments the
`HookRun` handler is looked at. The tasks of a hook of every type, in any order and at any times —
`EnableKubernetesBindings` (which queues one Synchronization run per binding, any number), `EnableScheduleBindings`,
anything else, and `HookRun`s before, between and after them, after pauses of any length —: the handlers of the
other task types leave the limiter and its state alone (`ops_limiter_constant`; `load_config_shape`: no
`SetLimit` / `SetBurst` in the repository), so the window bound holds with the configured `B` for ever. -/
theorem ops_bound (l : Lim) (hinf : l.inf = false) (hI : 0 < l.I) (hB : 1 ≤ l.B) (os : List OpTask)
    (hsorted : ((os.filterMap OpTask.hookRun?).map (·.task.t)).Pairwise (· ≤ ·))
    (h0 : ∀ u ∈ (os.filterMap OpTask.hookRun?).map (·.task.t), 0 ≤ u) (t T : Int) (hT : 0 ≤ T) :
    (Spec.countIn (runOps l (init l) os) t T : Int) ≤ l.B + ceilDiv T l.I := by
  rw [runOps_eq_runQTasks]
  exact series_bound l hinf hI hB _ hsorted h0 t T hT

/-- Whatever the task, the hook's limiter after its handler is the one the hook was loaded with; and a task
that is not a `HookRun` leaves the limiter's state alone and starts nothing. -/
theorem ops_limiter_constant (l : Lim) (s : LState) (o : OpTask) :
    (opStep l s o).1.1 = l ∧
    ((∀ q, o ≠ .hookRun q) → (opStep l s o).1 = (l, s) ∧ (opStep l s o).2 = []) := by
  cases o with
  | hookRun q => exact ⟨rfl, fun h => absurd rfl (h q)⟩
  | enableKubernetesBindings n => exact ⟨rfl, fun _ => ⟨rfl, rfl⟩⟩
  | enableScheduleBindings => exact ⟨rfl, fun _ => ⟨rfl, rfl⟩⟩
  | other => exact ⟨rfl, fun _ => ⟨rfl, rfl⟩⟩

/-- Non-vacuity. Two hooks whose names differ in a separator only, `fast-a.sh` without settings and `fast_a.sh`
with `I = 10`, `B = 2`, requests alternating: the first is never delayed, the second gets `0, 0, 10, 20`; what a
shared limiter would show for the second (all at once) is rejected by the oracle. Start-up of a hook with four
kubernetes bindings (`I = 10`, `B = 1`): four Synchronization runs 10 apart, a pause of 60, then four events at
once: one starts at once, the others 10 apart — the bucket did not grow to four; the trace a burst raised to the
number of bindings produced (`I = 300 ms`, `B = 1`, six queues, in ms: six executions within 260 ms of the first
object) is rejected by the interval oracle. -/
example :
    (let cfgs : List (String × HookCfg) := [("fast-a.sh", ⟨none, [.onStartup]⟩), ("fast_a.sh", ⟨some (10, 2), [.onStartup]⟩)]
     let rs : List (Nat × Int) := [(0, 0), (1, 0), (0, 0), (1, 0), (0, 1), (1, 1), (0, 1), (1, 2)]
     setGrants (loadHooks cfgs) 0 ((loadHooks cfgs).map init) rs = [0, 0, 1, 1] ∧
     setGrants (loadHooks cfgs) 1 ((loadHooks cfgs).map init) rs = [0, 0, 10, 20]) ∧
    Spec.boundOK 10 2 [0, 0, 10, 20] = true ∧ Spec.boundOK 10 2 [0, 0, 1, 2] = false ∧
    (let l := createRateLimiter (some (10, 1))
     let sy (t : Int) : OpTask := .hookRun ⟨⟨.synchronization, t, .ok, true⟩, none, 0⟩
     let ev (t : Int) : OpTask := .hookRun ⟨⟨.kubeEvent, t, .ok, true⟩, none, 0⟩
     runOps l (init l) [.enableKubernetesBindings 4, sy 0, sy 0, sy 10, sy 20, .enableScheduleBindings, ev 90, ev 90, ev 90, ev 90]
       = [0, 10, 20, 30, 90, 100, 110, 120]) ∧
    Spec.boundOKIv 300 1 50 [(0, 110), (110, 410), (410, 710), (710, 1010), (1010, 1310), (1310, 1610),
      (3700, 3930), (3700, 3931), (3700, 3931), (3700, 3940), (3700, 3952), (3700, 3960)] = false := by decide

end ShellOp.RateLimit.C18
