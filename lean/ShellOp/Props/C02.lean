import ShellOp.Proofs.Snapshot
import ShellOp.Model.FactoryStore
import ShellOp.Proofs.SnapFilter
import ShellOp.Model.BindingLookup
/-!
# C02 — Synchronization objects and snapshots equal the set of matching objects

Property theorems over `Model/Snapshot` (code-shaped model of `resource_informer.go`, `monitor.go`,
`types.go: ByNamespaceAndName`, `hook_controller.go: UpdateSnapshots`, `config_v1.go` group
expansion). Quantifiers: every initial list, every sequence of watch events (cluster histories),
every Go-map / `sync.Map` iteration order, every sorting routine meeting the contract of
`sort.Sort`, every read oracle (each `SnapshotsFor` call may see a different cluster), every
binding/group topology.

Environment assumptions are hypotheses, never axioms:
* list/watch: the events handed to an informer are those of its own scope (`InScope`), a started
  watch reports cluster operations as `watchOf` says, registration replays `Added` for the store;
* `sort.Sort`: `SortContract`;
* jq / FilterFunc / md5: the opaque functions `cfg.flt`, `cfg.chk`.
-/
namespace ShellOp.Snapshot.C02

open ShellOp.Snapshot

/-! ## 1. the informer cache is the fold of its events -/

/-- **C02.1 `cache_tracks_events`** For every initial list and every sequence of watch events the
cache holds every key at most once and equals, key by key, the "last write wins" fold of the events
over the list, each object run through the binding's filter. -/
theorem cache_tracks_events (cfg : Cfg) (items : List Obj) (evs : List WatchEv) :
    KeysNodup Entry.key (runInformer cfg items evs) ∧
    ∀ k, kget Entry.key (runInformer cfg items evs) k = (specAfter items evs k).map (mkEntry cfg) :=
  tracks_runInformer cfg items evs

example : runInformer { keepFull := true, flt := fun c => c / 10, chk := id }
    [⟨⟨1, 1, 1⟩, 10, 0⟩, ⟨⟨1, 1, 2⟩, 20, 0⟩]
    [(.modified, ⟨⟨1, 1, 1⟩, 11, 0⟩), (.deleted, ⟨⟨1, 1, 2⟩, 20, 0⟩), (.added, ⟨⟨1, 1, 2⟩, 25, 0⟩)]
    = [⟨⟨1, 1, 1⟩, some 11, 1, 1⟩, ⟨⟨1, 1, 2⟩, some 25, 2, 2⟩] := by decide

/-- Membership form: the cached entries are exactly the filtered images of the objects the fold
holds. -/
theorem tracks_mem {cfg : Cfg} {c : Cache} {m : Key → Option Obj} (h : Tracks cfg c m) (e : Entry) :
    e ∈ c ↔ ∃ o, m e.key = some o ∧ e = mkEntry cfg o := by
  constructor
  · intro he
    have := h.2 e.key
    rw [kget_of_mem _ _ _ h.1 he] at this
    cases hm : m e.key with
    | none => simp [hm] at this
    | some o => exact ⟨o, rfl, by simpa [hm] using this⟩
  · rintro ⟨o, ho, rfl⟩
    have := h.2 (mkEntry cfg o).key
    rw [ho] at this
    exact (mem_of_kget _ _ _ _ this).1

/-- **C02.1 `suppressed_event_updates_cache`** An Added/Modified event puts the new filtered object
into the cache whether or not a KubeEvent is produced (unchanged checksum → `skipEvent`, event type
not in `executeHookOnEvent` → not fired): the cache component of `handleWatch` never looks at the
decision. -/
theorem suppressed_event_updates_cache (cfg : Cfg) (c : Cache) (t : EvType) (o : Obj) (ht : t ≠ .deleted) :
    (handleWatch cfg c t o).1 = kput Entry.key c (mkEntry cfg o) ∧
    kget Entry.key (handleWatch cfg c t o).1 o.key = some (mkEntry cfg o) := by
  cases t with
  | deleted => exact absurd rfl ht
  | added => exact ⟨rfl, by simp [handleWatch, kget_kput, mkEntry_key]⟩
  | modified => exact ⟨rfl, by simp [handleWatch, kget_kput, mkEntry_key]⟩

/-- non-vacuity: a Modified outside the projection (same checksum) is suppressed, yet the cached
full object is the new one. -/
example : let cfg : Cfg := { keepFull := true, flt := fun c => c / 10, chk := id }
    handleWatch cfg [mkEntry cfg ⟨⟨1, 1, 1⟩, 10, 0⟩] .modified ⟨⟨1, 1, 1⟩, 13, 0⟩
      = ([⟨⟨1, 1, 1⟩, some 13, 1, 1⟩], false) := by decide

/-- **C02.5 `init_cache_eq_list`** (restart) After `loadExistedObjects` the cache is the listed
objects: every key once, each with the filter applied (a key listed twice keeps the later item). -/
theorem init_cache_eq_list (cfg : Cfg) (items : List Obj) :
    KeysNodup Entry.key (loadExisted cfg [] items) ∧
    (∀ k, kget Entry.key (loadExisted cfg [] items) k = (specInit items k).map (mkEntry cfg)) ∧
    (KeysNodup Obj.key items → ∀ e, e ∈ loadExisted cfg [] items ↔ ∃ o ∈ items, e = mkEntry cfg o) := by
  have h := tracks_loadExisted cfg items
  refine ⟨h.1, h.2, fun hn e => ?_⟩
  rw [tracks_mem h]
  constructor
  · rintro ⟨o, ho, rfl⟩
    unfold specInit at ho
    exact ⟨o, List.mem_reverse.1 (List.mem_of_find?_eq_some ho), rfl⟩
  · rintro ⟨o, ho, rfl⟩
    refine ⟨o, ?_, rfl⟩
    unfold specInit
    rw [find?_reverse_of_nodup Obj.key items hn, mkEntry_key]
    exact kget_of_mem Obj.key items o hn ho

example : loadExisted { keepFull := false, flt := id, chk := id } [] [⟨⟨1, 1, 1⟩, 5, 0⟩, ⟨⟨2, 1, 1⟩, 6, 0⟩]
    = [⟨⟨1, 1, 1⟩, none, 5, 5⟩, ⟨⟨2, 1, 1⟩, none, 6, 6⟩] := by decide

/-- **C02.4 `filter_applied`** Every cached element carries the filter result of the very object
cached under its key (the last delivered version), the full object iff `keepFullObjectsInMemory`. -/
theorem filter_applied (cfg : Cfg) (items : List Obj) (evs : List WatchEv) (e : Entry)
    (he : e ∈ runInformer cfg items evs) :
    ∃ o, specAfter items evs e.key = some o ∧ o.key = e.key ∧
      e.fr = (if cfg.hasFilter then cfg.flt o.content else 0) ∧
      e.sum = (if cfg.hasFilter then cfg.chk (cfg.flt o.content) else cfg.chk o.content) ∧
      e.obj = (if cfg.keepFull then some o.content else none) := by
  obtain ⟨o, ho, rfl⟩ := (tracks_mem (tracks_runInformer cfg items evs) e).1 he
  exact ⟨o, ho, (mkEntry_key cfg o).symm, mkEntry_fr cfg o, mkEntry_sum cfg o, mkEntry_obj cfg o⟩

/-! ## 2. Snapshot() = sorted union, order by key only, no duplicates -/

/-- all entries of one monitor kept / dropped the full object alike -/
def Uniform (kf : Bool) (l : List Entry) : Prop := ∀ e ∈ l, e.obj.isSome = kf

theorem uniform_pair {kf : Bool} {l : List Entry} (h : Uniform kf l) :
    ∀ a ∈ l, ∀ b ∈ l, a.obj.isSome = b.obj.isSome := fun a ha b hb => (h a ha).trans (h b hb).symm

/-- The entries of an informer fed by `applyFilter` are uniform. -/
theorem uniform_runInformer (cfg : Cfg) (items : List Obj) (evs : List WatchEv) :
    Uniform cfg.keepFull (runInformer cfg items evs) := by
  intro e he
  obtain ⟨o, _, rfl⟩ := (tracks_mem (tracks_runInformer cfg items evs) e).1 he
  exact mkEntry_isSome cfg o

/-- **C02.2 `snapshot_eq_sorted_union`** `Snapshot()` is a permutation of the union of all informer
caches (static and varying), sorted by `Less`; its elements are exactly the cached entries. -/
theorem snapshot_eq_sorted_union (ridOf : Key → Nat) (srt : List Entry → List Entry)
    (hs : SortContract ridOf srt) (kf : Bool) (m : Monitor) (hu : Uniform kf m.allEntries) :
    (m.snapshot srt).Perm m.allEntries ∧
    (m.snapshot srt).Pairwise (fun a b => lessKey kf ridOf b.key a.key = false) ∧
    ∀ e, e ∈ m.snapshot srt ↔ ∃ i ∈ m.informers, e ∈ i.cache := by
  obtain ⟨hp, hsorted⟩ := hs m.allEntries (uniform_pair hu)
  refine ⟨hp, ?_, fun e => ?_⟩
  · refine hsorted.imp_of_mem ?_
    intro a b ha hb hab
    rw [← lessGo_eq_lessKey ridOf kf b a (hu b (hp.subset hb)) (hu a (hp.subset ha))]
    exact hab
  · unfold Monitor.snapshot
    rw [hp.mem_iff, allEntries_eq]
    simp only [cachesOf, List.mem_flatten, List.mem_map]
    constructor
    · rintro ⟨l, ⟨a, ha, rfl⟩, he⟩; exact ⟨a, ha, he⟩
    · rintro ⟨i, hi, he⟩; exact ⟨_, ⟨i, hi, rfl⟩, he⟩

theorem key_determines_of_nodup {l : List Entry} (h : KeysNodup Entry.key l) :
    ∀ a ∈ l, ∀ b ∈ l, a.key = b.key → a = b := by
  intro a ha b hb hab
  have h1 := kget_of_mem Entry.key l a h ha
  have h2 := kget_of_mem Entry.key l b h hb
  rw [hab, h2] at h1
  exact (Option.some.inj h1).symm

/-- **C02.2 `snapshot_perm_invariant`** Whatever order the Go maps (each informer's cache) and the
`sync.Map` of varying informers are iterated in, and whichever sorting routine meeting the contract
is used, `Snapshot()` returns the same list: the order is a function of (namespace, kind, name)
only — (namespace, name) when full objects are kept, the `ns/kind/name` string otherwise.
Hypotheses: one kind per monitor, the resource-id rendering is injective on the keys present, and a
key determines its entry (true when no key is cached twice, see `snapshot_nodup_partial`). -/
theorem snapshot_perm_invariant (ridOf : Key → Nat) (srt₁ srt₂ : List Entry → List Entry)
    (h₁ : SortContract ridOf srt₁) (h₂ : SortContract ridOf srt₂) (kf : Bool) (m : Monitor)
    (reads₁ reads₂ : List (List Entry)) (hr₁ : ReadOrder m reads₁) (hr₂ : ReadOrder m reads₂)
    (hu : Uniform kf m.allEntries)
    (hkind : ∀ a ∈ m.allEntries, ∀ b ∈ m.allEntries, a.key.kind = b.key.kind)
    (hinj : ∀ a ∈ m.allEntries, ∀ b ∈ m.allEntries, ridOf a.key = ridOf b.key → a.key = b.key)
    (hdet : ∀ a ∈ m.allEntries, ∀ b ∈ m.allEntries, a.key = b.key → a = b) :
    srt₁ reads₁.flatten = srt₂ reads₂.flatten := by
  have p₁ := readOrder_perm m reads₁ hr₁
  have p₂ := readOrder_perm m reads₂ hr₂
  have u₁ : Uniform kf reads₁.flatten := fun e he => hu e (p₁.subset he)
  have u₂ : Uniform kf reads₂.flatten := fun e he => hu e (p₂.subset he)
  obtain ⟨q₁, s₁⟩ := h₁ reads₁.flatten (uniform_pair u₁)
  obtain ⟨q₂, s₂⟩ := h₂ reads₂.flatten (uniform_pair u₂)
  refine List.Perm.eq_of_pairwise (le := fun a b => lessGo ridOf b a = false) ?_ s₁ s₂
    (q₁.trans (p₁.trans (p₂.symm.trans q₂.symm)))
  intro a b ha hb hab hba
  have ha' : a ∈ m.allEntries := p₁.subset (q₁.subset ha)
  have hb' : b ∈ m.allEntries := p₂.subset (q₂.subset hb)
  rw [lessGo_eq_lessKey ridOf kf b a (hu b hb') (hu a ha')] at hab
  rw [lessGo_eq_lessKey ridOf kf a b (hu a ha') (hu b hb')] at hba
  exact hdet a ha' b hb' (lessKey_antisymm kf ridOf a.key b.key (hkind a ha' b hb') (hinj a ha' b hb') hab hba)

/-- The canonical read order is one of the orders the theorem ranges over, and `Snapshot()` is the
sort of it. -/
theorem snapshot_is_a_read (srt : List Entry → List Entry) (m : Monitor) :
    ReadOrder m (m.informers.map (·.cache)) ∧ m.snapshot srt = srt (m.informers.map (·.cache)).flatten := by
  refine ⟨readOrder_canonical m, ?_⟩
  unfold Monitor.snapshot
  rw [allEntries_eq]; rfl

/-- every cached entry lies in its informer's scope (the list/watch machinery delivers to an
informer only objects of its namespace / field selector) -/
def InScope (m : Monitor) : Prop := ∀ i ∈ m.informers, ∀ e ∈ i.cache, i.inScope e.key = true

/-- **C02.2 `snapshot_nodup_partial`** Under `ScopesDisjoint` (no two informers of the monitor can
see the same object) no object appears twice in `Snapshot()`. The excluded point — duplicate
entries in `nameSelector.matchNames` / `namespace.nameSelector.matchNames` build two informers with
the same scope — is `dup_names_witness` below; the repaired `names()`/`namespaces()` remove it
(`static_scopes_disjoint`). -/
theorem snapshot_nodup_partial (ridOf : Key → Nat) (srt : List Entry → List Entry)
    (hs : SortContract ridOf srt) (kf : Bool) (m : Monitor) (hu : Uniform kf m.allEntries)
    (hd : ScopesDisjoint m) (hsc : InScope m) (hn : ∀ i ∈ m.informers, KeysNodup Entry.key i.cache) :
    KeysNodup Entry.key (m.snapshot srt) := by
  obtain ⟨hp, _⟩ := hs m.allEntries (uniform_pair hu)
  have h : KeysNodup Entry.key m.allEntries := by
    rw [allEntries_eq]; exact keysNodup_flatten_caches m.informers hd hsc hn
  unfold KeysNodup at *
  exact h.perm hp.symm (fun hab e => hab e.symm)

/-! ### the scopes built by `CreateInformers` -/

/-- **repaired code**: static informers are created for the de-duplicated namespaces × the
de-duplicated names, hence pairwise disjoint. -/
theorem static_scopes_disjoint (cfg : Cfg) (names nss : List Nat)
    (list : Option Nat → Option Nat → List Obj) :
    (((dedupNames nss).map (fun n => createForNs cfg (dedupNames names) list (some n))).flatten).Pairwise
      (fun i j => scopesApart i j = true) := by
  rw [List.pairwise_flatten]
  constructor
  · intro l hl
    obtain ⟨n, _, rfl⟩ := List.mem_map.1 hl
    exact createForNs_apart cfg _ (dedupNames_nodup names) list (some n)
  · rw [List.pairwise_map]
    refine (dedupNames_nodup nss).imp ?_
    intro a b hab i hi j hj
    have hia : i.ns = some a := by
      unfold createForNs at hi
      obtain ⟨x, _, rfl⟩ := List.mem_map.1 hi; rfl
    have hjb : j.ns = some b := by
      unfold createForNs at hj
      obtain ⟨x, _, rfl⟩ := List.mem_map.1 hj; rfl
    simp [scopesApart, hia, hjb, hab]

/-- **witness (defect, repaired by a `fix:` commit)**: with `nameSelector.matchNames: [a, a]` taken
as written, `CreateInformersForNamespace` builds two informers with the same scope, both list the
object, and `Snapshot()` contains it twice. -/
theorem dup_names_witness :
    let cfg : Cfg := { keepFull := true, flt := id, chk := id }
    let list : Option Nat → Option Nat → List Obj := fun _ _ => [⟨⟨1, 1, 7⟩, 5, 0⟩]
    let m : Monitor := { static := createForNs cfg [7, 7] list (some 1) }
    ¬ ScopesDisjoint m ∧
    m.snapshot (modelSort (fun k => k.name)) = [⟨⟨1, 1, 7⟩, some 5, 5, 5⟩, ⟨⟨1, 1, 7⟩, some 5, 5, 5⟩] ∧
    ({ static := createForNs cfg (dedupNames [7, 7]) list (some 1) } : Monitor).snapshot
      (modelSort (fun k => k.name)) = [⟨⟨1, 1, 7⟩, some 5, 5, 5⟩] := by
  refine ⟨?_, by decide, by decide⟩
  intro h
  simp [ScopesDisjoint, Monitor.informers, createForNs, scopesApart] at h

theorem pred_inScope (mc : MonCfg) (i : Informer) (o : Obj) (h : mc.pred i.ns i.name o = true) :
    i.inScope (mkEntry mc.cfg o).key = true := by
  rw [mkEntry_key]
  unfold MonCfg.pred at h
  unfold Informer.inScope
  simp only [Bool.and_eq_true] at h ⊢
  exact ⟨h.1.1.1.2, h.1.1.2⟩

/-- **C02.2 `snapshot_nodup`** (full strength, repaired code) For every binding configuration
(duplicates in `matchNames` included), every initial cluster and every history of StartMonitor,
object writes/deletes and namespace creations/relabellings/deletions, `Snapshot()` lists no object
twice, is ordered by the key, and every element is the binding's filter applied to an object of
the binding's kind and selectors. The `ScopesDisjoint` hypothesis of `snapshot_nodup_partial` is
discharged by the invariant `MInv` of reachable monitors. -/
theorem snapshot_nodup (ridOf : Key → Nat) (srt : List Entry → List Entry) (hs : SortContract ridOf srt)
    (mc : MonCfg) (w0 : World) (steps : List MStep) :
    KeysNodup Entry.key ((runMonitor mc w0 steps).m.snapshot srt) ∧
    ((runMonitor mc w0 steps).m.snapshot srt).Pairwise
      (fun a b => lessKey mc.cfg.keepFull ridOf b.key a.key = false) ∧
    ∀ e ∈ (runMonitor mc w0 steps).m.snapshot srt, ∃ o, e = mkEntry mc.cfg o ∧ mc.pred none none o = true := by
  have hinv := minv_run mc w0 steps
  generalize (runMonitor mc w0 steps).m = m at hinv
  have hmem : ∀ e ∈ m.allEntries, ∃ i ∈ m.informers, e ∈ i.cache := by
    intro e he
    rw [allEntries_eq] at he
    simp only [cachesOf, List.mem_flatten, List.mem_map] at he
    obtain ⟨l, ⟨i, hi, rfl⟩, hel⟩ := he
    exact ⟨i, hi, hel⟩
  have hu : Uniform mc.cfg.keepFull m.allEntries := by
    intro e he
    obtain ⟨i, hi, hei⟩ := hmem e he
    obtain ⟨o, rfl, _⟩ := (hinv.good i hi).2 e hei
    exact mkEntry_isSome _ _
  have hsc : InScope m := by
    intro i hi e he
    obtain ⟨o, rfl, hp⟩ := (hinv.good i hi).2 e he
    exact pred_inScope mc i o hp
  refine ⟨snapshot_nodup_partial ridOf srt hs _ m hu (minv_scopesDisjoint mc m hinv) hsc
      (fun i hi => (hinv.good i hi).1), (snapshot_eq_sorted_union ridOf srt hs _ m hu).2.1, ?_⟩
  intro e he
  obtain ⟨i, hi, hei⟩ := (snapshot_eq_sorted_union ridOf srt hs _ m hu).2.2 e |>.1 he
  obtain ⟨o, rfl, hp⟩ := (hinv.good i hi).2 e hei
  refine ⟨o, rfl, ?_⟩
  unfold MonCfg.pred at hp ⊢
  simp only [Bool.and_eq_true] at hp ⊢
  exact ⟨⟨⟨⟨hp.1.1.1.1, trivial⟩, trivial⟩, hp.1.2⟩, hp.2⟩

/-- … and for such a monitor the result does not depend on any iteration order or sorting routine
(the hypotheses of `snapshot_perm_invariant` other than the injectivity of the resource-id
rendering are discharged). -/
theorem snapshot_perm_invariant_reachable (ridOf : Key → Nat) (srt₁ srt₂ : List Entry → List Entry)
    (h₁ : SortContract ridOf srt₁) (h₂ : SortContract ridOf srt₂)
    (mc : MonCfg) (w0 : World) (steps : List MStep)
    (reads₁ reads₂ : List (List Entry))
    (hr₁ : ReadOrder (runMonitor mc w0 steps).m reads₁) (hr₂ : ReadOrder (runMonitor mc w0 steps).m reads₂)
    (hinj : ∀ a b : Key, ridOf a = ridOf b → a = b) :
    srt₁ reads₁.flatten = srt₂ reads₂.flatten := by
  have hinv := minv_run mc w0 steps
  generalize (runMonitor mc w0 steps).m = m at hinv hr₁ hr₂
  have hmem : ∀ e ∈ m.allEntries, ∃ i ∈ m.informers, e ∈ i.cache := by
    intro e he
    rw [allEntries_eq] at he
    simp only [cachesOf, List.mem_flatten, List.mem_map] at he
    obtain ⟨l, ⟨i, hi, rfl⟩, hel⟩ := he
    exact ⟨i, hi, hel⟩
  have hgood : ∀ e ∈ m.allEntries, ∃ o, e = mkEntry mc.cfg o ∧ o.key.kind = mc.kind := by
    intro e he
    obtain ⟨i, hi, hei⟩ := hmem e he
    obtain ⟨o, rfl, hp⟩ := (hinv.good i hi).2 e hei
    refine ⟨o, rfl, ?_⟩
    unfold MonCfg.pred at hp
    simp only [Bool.and_eq_true, beq_iff_eq] at hp
    exact hp.1.1.1.1
  have hu : Uniform mc.cfg.keepFull m.allEntries := by
    intro e he
    obtain ⟨o, rfl, _⟩ := hgood e he
    exact mkEntry_isSome _ _
  have hnd : KeysNodup Entry.key m.allEntries := by
    rw [allEntries_eq]
    refine keysNodup_flatten_caches m.informers (minv_scopesDisjoint mc m hinv) ?_ (fun i hi => (hinv.good i hi).1)
    intro i hi e he
    obtain ⟨o, rfl, hp⟩ := (hinv.good i hi).2 e he
    exact pred_inScope mc i o hp
  refine snapshot_perm_invariant ridOf srt₁ srt₂ h₁ h₂ _ m reads₁ reads₂ hr₁ hr₂ hu ?_ ?_
    (key_determines_of_nodup hnd)
  · intro a ha b hb
    obtain ⟨o, rfl, h1⟩ := hgood a ha
    obtain ⟨o', rfl, h2⟩ := hgood b hb
    rw [mkEntry_key, mkEntry_key, h1, h2]
  · intro a _ b _ h
    exact hinj _ _ h

example : (runMonitor { cfg := { keepFull := true, flt := id, chk := id }, kind := 1, names := [7, 7], nss := [1, 1] }
      { objs := [⟨⟨1, 1, 7⟩, 5, 0⟩], nss := [(1, 0)] }
      [.start, .obj (.set ⟨⟨1, 1, 7⟩, 6, 0⟩)]).m.snapshot (modelSort (fun k => k.name))
    = [⟨⟨1, 1, 7⟩, some 6, 6, 6⟩] := by decide

/-- The sorting routine the executable model uses meets the contract assumed of `sort.Sort` (so
the contract is satisfiable and the driver's answers are covered by the theorems above). -/
theorem model_sort_meets_contract (ridOf : Key → Nat) : SortContract ridOf (modelSort ridOf) :=
  modelSort_contract ridOf

/-- **C02.2 `snapshot_concurrent`** Changes arriving concurrently with the snapshot read.
`n` informers, informer `i` starts from `init i` and has the watch events `evs i` still to handle;
a schedule interleaves watch-thread steps (`w i`: one event of informer `i`, one `cacheLock`
section) with the reader's steps (`r`: `getCachedObjects()` of the next informer). For EVERY
schedule in which the reader gets through all informers, `Snapshot()` returns the sort of the
union of every informer's cache as it was after some prefix `cut i` of its events — a prefix
that informer had actually handled during the call (`cut i ≤ handled i ≤ |evs i|`): each informer's
cache at some instant inside the call, never a torn or invented state. -/
theorem snapshot_concurrent (cfg : Cfg) (init : Nat → Cache) (evs : Nat → List WatchEv) (n : Nat)
    (sched : List CAct) (srt : List Entry → List Entry)
    (hdone : (crun cfg (cinit init evs n) sched).next = n) :
    srt (crun cfg (cinit init evs n) sched).acc =
      srt ((List.range n).map (fun i => cacheAt cfg init evs i ((crun cfg (cinit init evs n) sched).cut i))).flatten ∧
    ∀ i, i < n → (crun cfg (cinit init evs n) sched).cut i ≤ (crun cfg (cinit init evs n) sched).handled i ∧
      (crun cfg (cinit init evs n) sched).handled i ≤ (evs i).length := by
  obtain ⟨hinv, _⟩ := cinv_run cfg init evs sched _ (cinv_init cfg init evs n)
  refine ⟨by rw [hinv.acc, hdone], fun i hi => ⟨hinv.cut i (by rw [hdone]; exact hi), hinv.handled i⟩⟩

/-- … and each of those per-informer states is the fold of that prefix over the informer's list
(`cache_tracks_events`), so the elements are filtered images of objects the informer was told
about. -/
theorem concurrent_state_tracks (cfg : Cfg) (items : Nat → List Obj) (evs : Nat → List WatchEv) (i k : Nat) :
    Tracks cfg (cacheAt cfg (fun j => loadExisted cfg [] (items j)) evs i k)
      (specAfter (items i) ((evs i).take k)) :=
  tracks_runInformer cfg (items i) ((evs i).take k)

/-- non-vacuity: two informers; the reader takes informer 0, then informer 0 and 1 each handle an
event, then the reader takes informer 1: informer 0 is seen before, informer 1 after its event. -/
example :
    let cfg : Cfg := { keepFull := false, flt := id, chk := id }
    let o (ns c : Nat) : Obj := ⟨⟨ns, 1, 1⟩, c, 0⟩
    let s := crun cfg (cinit (fun i => loadExisted cfg [] [o i 5]) (fun i => [(.modified, o i 6)]) 2)
      [.r, .w 0, .w 1, .r]
    s.next = 2 ∧ s.acc = [mkEntry cfg (o 0 5), mkEntry cfg (o 1 6)] ∧ s.cut 0 = 0 ∧ s.cut 1 = 1 := by decide

/-! ## 3. UpdateSnapshots -/

/-- **C02.3 `update_snapshots_keys`** For every context of an execution the keys of `snapshots` are
exactly the binding's (effective) includeSnapshotsFrom, each once. -/
theorem update_snapshots_keys (hb : HookBindings) (read : Nat → Nat → Option Snap) (ctx : List BC) :
    ∃ view, AllOk hb view ctx (updateSnapshots hb read ctx) ∧
    ∀ bc bc', BCok hb view bc bc' →
      (MKeys bc'.snapshots).Nodup ∧ ∀ n, n ∈ MKeys bc'.snapshots ↔ n ∈ inclOf hb bc := by
  obtain ⟨_, _, ok⟩ := updateLoop_spec hb read ctx {}
  refine ⟨viewOf (updateLoop hb read {} ctx).1, ok _ (Ext.refl _), ?_⟩
  intro bc bc' h
  refine ⟨h.2.2.2.1, fun n => ?_⟩
  rw [← mget_isSome_iff, h.2.2.2.2.1 n]
  by_cases hn : n ∈ inclOf hb bc <;> simp [hn]

/-- **C02.3 `update_snapshots_keys_own`** (repaired code) A context that carries the effective
include list of the binding that emitted it (as the kubernetes, schedule, admission and conversion
controllers set `Metadata.IncludeSnapshots`) gets exactly those keys — whatever other bindings of
the same type share its name. With `group_include_effective`: the declared names plus the kubernetes
bindings of the binding's group. -/
theorem update_snapshots_keys_own (hb : HookBindings) (view : Nat → Snap) (bc bc' : BC)
    (h : BCok hb view bc bc') (hne : bc.metaIncl ≠ []) :
    ∀ n, n ∈ MKeys bc'.snapshots ↔ n ∈ bc.metaIncl := by
  intro n
  rw [← mget_isSome_iff, h.2.2.2.2.1 n]
  have : inclOf hb bc = bc.metaIncl := by
    unfold inclOf
    cases hm : bc.metaIncl with
    | nil => exact absurd hm hne
    | cons a t => simp
  rw [this]
  by_cases hn : n ∈ bc.metaIncl <;> simp [hn]

/-- **witness (defect, repaired by a `fix:` commit)**: two schedule bindings share a name (both
unnamed = `schedule`); the first declares no includeSnapshotsFrom, the second declares `[7]`. The
by-name lookup of the unrepaired `UpdateSnapshots` resolves the second binding's context to the
first declaration: the hook gets `snapshots: {}`. With the context's own list it gets `{7: …}`. -/
theorem dup_binding_names_witness :
    let hb : HookBindings := { sched := [(5, []), (5, [7])] }
    let read : Nat → Nat → Option Snap := fun _ _ => some []
    -- unrepaired: lookup by name only
    getInclude hb .schedule 5 = [] ∧
    -- repaired: the second binding's context carries [7]
    ((updateSnapshots hb read [{ binding := 5, btype := .schedule, isSync := false, metaIncl := [7] }]).map
      (fun bc => bc.snapshots.map (·.1))) = [[7]] := by decide

/-- **C02.3 `update_snapshots_consistent`** With an arbitrary read oracle (each `SnapshotsFor` call
may see a different cluster) there is ONE view `binding ↦ snapshot` such that every occurrence of a
binding's snapshot in the execution — under `snapshots` of any context and as the refreshed
`objects` of a Synchronization context — equals that view; the view of a binding is the result of
the single read done for it (`nil` rendered as the empty list), and no binding is read twice. -/
theorem update_snapshots_consistent (hb : HookBindings) (read : Nat → Nat → Option Snap) (ctx : List BC) :
    ∃ (view : Nat → Snap) (st : USt),
      AllOk hb view ctx (updateSnapshots hb read ctx) ∧
      (MKeys st.cache).Nodup ∧ st.cache.length = st.reads ∧
      (∀ n, view n = [] ∨ ∃ t, t < st.reads ∧ read n t = some (view n)) := by
  obtain ⟨_, wf, ok⟩ := updateLoop_spec hb read ctx {}
  have hwf : WF read (updateLoop hb read {} ctx).1 :=
    wf ⟨by simp [MKeys], rfl, fun k v h => by simp [mget] at h⟩
  refine ⟨viewOf (updateLoop hb read {} ctx).1, (updateLoop hb read {} ctx).1, ok _ (Ext.refl _),
    hwf.1, hwf.2.1, fun n => ?_⟩
  unfold viewOf cached
  cases hm : mget (updateLoop hb read {} ctx).1.cache n with
  | none => left; rfl
  | some v =>
    obtain ⟨t, ht, hv⟩ := hwf.2.2 n v hm
    cases v with
    | none => left; rfl
    | some s => right; exact ⟨t, ht, by simp [← hv]⟩

/-- non-vacuity: a Synchronization context of binding 1 that includes itself and binding 2, followed
by an Event context including binding 1; the oracle answers differently at every call. -/
example :
    let hb : HookBindings := { kube := [(1, [1, 2]), (2, [1])] }
    let e (n : Nat) : Entry := ⟨⟨1, 1, n⟩, none, n, n⟩
    let read : Nat → Nat → Option Snap := fun b t => some [e (10 * b + t)]
    (updateSnapshots hb read [⟨1, .kubernetes, true, [], [], []⟩, ⟨2, .kubernetes, false, [], [], []⟩]).map
        (fun bc => (bc.objects, bc.snapshots))
      = [([e 10], [(1, [e 10]), (2, [e 21])]), ([], [(1, [e 10])])] := by decide

/-- **C02.3 `group_include_effective`** After config loading the include list of a binding is its
declared names plus the kubernetes bindings sharing its (non-empty) group. -/
theorem group_include_effective (kube : List Decl) (d : Decl) (n : Nat) :
    n ∈ effectiveInclude kube d ↔
      n ∈ d.incl ∨ (d.group ≠ 0 ∧ ∃ k ∈ kube, k.group = d.group ∧ k.name = n) := by
  unfold effectiveInclude
  by_cases hany : (kube.any (fun k => k.group != 0 && k.group == d.group)) = true
  · rw [if_pos hany, mem_mergeArrays]
    constructor
    · rintro (h | h)
      · exact Or.inl h
      · right
        unfold groupNames at h
        obtain ⟨k, hk, rfl⟩ := List.mem_map.1 h
        simp only [List.mem_filter, Bool.and_eq_true, bne_iff_ne, ne_eq, beq_iff_eq] at hk
        exact ⟨hk.2.2 ▸ hk.2.1, k, hk.1, hk.2.2, rfl⟩
    · rintro (h | ⟨hg, k, hk, hkg, rfl⟩)
      · exact Or.inl h
      · right
        unfold groupNames
        refine List.mem_map.2 ⟨k, ?_, rfl⟩
        simp only [List.mem_filter, Bool.and_eq_true, bne_iff_ne, ne_eq, beq_iff_eq]
        exact ⟨hk, by rw [hkg]; exact hg, hkg⟩
  · rw [if_neg hany]
    constructor
    · exact Or.inl
    · rintro (h | ⟨hg, k, hk, hkg, _⟩)
      · exact h
      · exfalso
        apply hany
        rw [List.any_eq_true]
        exact ⟨k, hk, by simp [hkg, hg]⟩

example : effectiveInclude [⟨1, 5, []⟩, ⟨2, 5, [3]⟩, ⟨3, 0, []⟩] ⟨2, 5, [3]⟩ = [3, 1, 2] := by decide

/-! ## 4. quiet cluster / restart -/

/-- **C02.5 `quiet_eq_cluster_partial`** One informer with selector `p`: it lists at creation
(cluster `c0`), the cluster moves on by `gap` before the informer is registered with the shared
informer, registration replays `Added` for the store, afterwards the watch reports `later`.
If every object that matched at list time still matches at registration time (`hgap`), then after
any `later` the cache equals the cluster's matching objects, key by key, each once, filtered.
The excluded point (an object deleted or unmatched inside the gap) is `ghost_witness`. -/
theorem quiet_eq_cluster_partial (cfg : Cfg) (p : Obj → Bool) (c0 : Cluster) (gap later : List COp)
    (hc0 : KeysNodup Obj.key c0)
    (hgap : ∀ k, (matching p c0 k).isSome = true → (matching p (applyOps c0 gap) k).isSome = true) :
    Tracks cfg (informerLife cfg p c0 gap later) (matching p (applyOps (applyOps c0 gap) later)) := by
  unfold informerLife runInformer
  simp only [List.foldl_append]
  have hc1 := keysNodup_applyOps gap c0 hc0
  -- after the own list
  have h0 : Tracks cfg (loadExisted cfg [] (c0.filter p)) (matching p c0) :=
    (tracks_loadExisted cfg (c0.filter p)).congr (specInit_filter p c0 hc0)
  -- after the registration replay
  have h1 := tracks_foldl_watch cfg (((applyOps c0 gap).filter p).map (fun o => (EvType.added, o))) _ _ h0
  have h1' := h1.congr (m' := matching p (applyOps c0 gap)) (fun k => by
    rw [foldl_adds, find?_reverse_of_nodup Obj.key _ (keysNodup_filter _ _ _ hc1)]
    have := kget_filter Obj.key p (applyOps c0 gap) k hc1
    unfold kget at this
    rw [this]
    show (match (matching p (applyOps c0 gap) k) with | some o => some o | none => matching p c0 k) = _
    cases h : matching p (applyOps c0 gap) k with
    | some o => rfl
    | none =>
      cases h' : matching p c0 k with
      | none => rfl
      | some o => have := hgap k (by simp [h']); simp [h] at this)
  -- the watch
  have h2 := tracks_foldl_watch cfg (watchAll p (applyOps c0 gap) later) _ _ h1'
  rw [watchAll_spec] at h2
  exact h2

/-- the filter predicate of `specMatching` -/
def specCond (mc : MonCfg) (w : World) (o : Obj) : Bool :=
  mc.pred none none o &&
  (mc.names.isEmpty || mc.names.contains o.key.name) &&
  (if mc.nsSel then nsMatches mc w o.key.ns else mc.nss.isEmpty || mc.nss.contains o.key.ns)

theorem specMatching_eq (mc : MonCfg) (w : World) : specMatching mc w = w.objs.filter (specCond mc w) := rfl

/-- The scopes of a started monitor's informers cover exactly the binding's selectors. -/
theorem informers_cover (mc : MonCfg) (s : MState) (h : MS mc s) (hinv : MInv mc s.m) (o : Obj) :
    (∃ i ∈ s.m.informers, mc.pred i.ns i.name o = true) ↔ specCond mc s.w o = true := by
  obtain ⟨_, hm, hv⟩ := h
  have hns : ∀ n : Nat, mc.pred (some n) none o = true ↔ (mc.pred none none o = true ∧ o.key.ns = n) := by
    intro n
    rw [pred_eq]
    simp [nsok, nmok]
  unfold specCond
  cases hsel : mc.nsSel with
  | true =>
    have hnil : mc.namespaces = [] := by simp [MonCfg.namespaces, hsel]
    simp only [if_true, Bool.and_eq_true]
    constructor
    · rintro ⟨i, hi, hp⟩
      rcases (mem_informers s.m i).1 hi with hi | ⟨p, hpv, hi⟩
      · have := (hm.scover o).1 ⟨i, hi, hp⟩
        rw [hnil] at this
        obtain ⟨⟨ns, hns', _⟩, _⟩ := this
        cases hns'
      · obtain ⟨h1, h2⟩ := (hm.vcover p hpv o).1 ⟨i, hi, hp⟩
        obtain ⟨h3, h4⟩ := (hns p.1).1 h1
        refine ⟨⟨h3, h2⟩, ?_⟩
        rw [h4]
        exact (hv hsel p.1).1 (List.mem_map.2 ⟨p, hpv, rfl⟩)
    · rintro ⟨⟨h1, h2⟩, h3⟩
      obtain ⟨p, hpv, hpn⟩ := List.mem_map.1 ((hv hsel o.key.ns).2 h3)
      obtain ⟨i, hi, hp⟩ := (hm.vcover p hpv o).2 ⟨(hns p.1).2 ⟨h1, hpn.symm⟩, h2⟩
      exact ⟨i, (mem_informers s.m i).2 (Or.inr ⟨p, hpv, hi⟩), hp⟩
  | false =>
    have hvar : s.m.varying = [] := hinv.varyingOnly hsel
    simp only [Bool.false_eq_true, if_false, Bool.and_eq_true]
    have hnsl : ∀ ns, ns ∈ mc.namespaces ↔
        (mc.nss.isEmpty = true ∧ ns = none) ∨ (mc.nss.isEmpty = false ∧ ∃ n ∈ mc.nss, ns = some n) := by
      intro ns
      unfold MonCfg.namespaces
      simp only [hsel, Bool.false_eq_true, if_false]
      cases he : mc.nss.isEmpty with
      | true => simp
      | false =>
        simp only [Bool.false_eq_true, if_false, List.mem_map, false_and, false_or, true_and]
        constructor
        · rintro ⟨n, hn, rfl⟩; exact ⟨n, (mem_dedupNames _ _).1 hn, rfl⟩
        · rintro ⟨n, hn, rfl⟩; exact ⟨n, (mem_dedupNames _ _).2 hn, rfl⟩
    constructor
    · rintro ⟨i, hi, hp⟩
      rcases (mem_informers s.m i).1 hi with hi | ⟨p, hpv, _⟩
      · obtain ⟨⟨ns, hns', hpn⟩, hok⟩ := (hm.scover o).1 ⟨i, hi, hp⟩
        rcases (hnsl ns).1 hns' with ⟨he, rfl⟩ | ⟨he, n, hn, rfl⟩
        · exact ⟨⟨hpn, hok⟩, by simp [he]⟩
        · obtain ⟨h3, h4⟩ := (hns n).1 hpn
          refine ⟨⟨h3, hok⟩, ?_⟩
          rw [h4, Bool.or_eq_true, List.contains_iff_mem]
          exact Or.inr hn
      · rw [hvar] at hpv; cases hpv
    · rintro ⟨⟨h1, h2⟩, h3⟩
      have : ∃ ns ∈ mc.namespaces, mc.pred ns none o = true := by
        cases he : mc.nss.isEmpty with
        | true => exact ⟨none, (hnsl none).2 (Or.inl ⟨he, rfl⟩), h1⟩
        | false =>
          rw [he, Bool.false_or, List.contains_iff_mem] at h3
          exact ⟨some o.key.ns, (hnsl _).2 (Or.inr ⟨he, _, h3, rfl⟩), (hns _).2 ⟨h1, rfl⟩⟩
      obtain ⟨i, hi, hp⟩ := (hm.scover o).2 ⟨this, h2⟩
      exact ⟨i, (mem_informers s.m i).2 (Or.inl hi), hp⟩

/-- **C02 `snapshot_eq_matching_partial`** (the headline, repaired code). The cluster may move on
between AddMonitor (the monitor's own Lists, world `w0`) and StartMonitor by any steps `gap` that lose
nothing (`GapSafe`: matching namespaces keep matching, matching objects stay under their key and keep
matching — creations, new namespaces, in-place modifications are free). Then for EVERY binding
configuration, every initial cluster and every later history of object writes/deletes (label flips,
delete+recreate, …), namespace creations, relabellings and deletions (and repeated Starts), with
every informer having handled the events of its own watch (quiet cluster): the elements of
`Snapshot()` are exactly the filtered images of the objects that currently match the binding — kind,
namespaces (named / selected by label / all), names, label and field selector. With
`snapshot_nodup`: each once, in key order. The excluded histories — something lost between the
monitor's own List and the registration — are `ghost_witness` / `ghost_monitor_witness`, the recorded
finding. -/
theorem snapshot_eq_matching_partial (ridOf : Key → Nat) (srt : List Entry → List Entry)
    (hs : SortContract ridOf srt) (mc : MonCfg) (w0 : World) (hw0 : KeysNodup Obj.key w0.objs)
    (gap rest : List MStep) (hg : ∀ st ∈ gap, st ≠ MStep.start)
    (hsafe : GapSafe mc w0 (runMonitor mc w0 gap).w) (e : Entry) :
    e ∈ (runMonitor mc w0 (gap ++ .start :: rest)).m.snapshot srt ↔
      ∃ o ∈ specMatching mc (runMonitor mc w0 (gap ++ .start :: rest)).w, e = mkEntry mc.cfg o := by
  have hms := ms_run_gap mc w0 hw0 gap rest hg hsafe
  have hinv := minv_run mc w0 (gap ++ .start :: rest)
  generalize runMonitor mc w0 (gap ++ .start :: rest) = s at hms hinv
  have hcov := informers_cover mc s hms hinv
  obtain ⟨_, hm, _⟩ := hms
  have hu : Uniform mc.cfg.keepFull s.m.allEntries := by
    intro x hx
    rw [allEntries_eq] at hx
    simp only [cachesOf, List.mem_flatten, List.mem_map] at hx
    obtain ⟨l, ⟨i, hi, rfl⟩, hxl⟩ := hx
    obtain ⟨o, rfl, _⟩ := (hinv.good i hi).2 x hxl
    exact mkEntry_isSome _ _
  rw [(snapshot_eq_sorted_union ridOf srt hs _ s.m hu).2.2 e, specMatching_eq]
  constructor
  · rintro ⟨i, hi, he⟩
    obtain ⟨o, ho, rfl⟩ := (tracks_mem (hm.synced i hi).2 e).1 he
    rw [mkEntry_key] at ho
    unfold matching at ho
    cases hk : kget Obj.key s.w.objs o.key with
    | none => simp [hk] at ho
    | some o' =>
      rw [hk] at ho
      have hp : mc.pred i.ns i.name o' = true ∧ o' = o := by
        by_cases hq : mc.pred i.ns i.name o' = true
        · simp [Option.filter, hq] at ho; exact ⟨hq, ho⟩
        · simp [Option.filter, hq] at ho
      obtain ⟨hp, rfl⟩ := hp
      exact ⟨o', List.mem_filter.2 ⟨(mem_of_kget _ _ _ _ hk).1, (hcov o').1 ⟨i, hi, hp⟩⟩, rfl⟩
  · rintro ⟨o, ho, rfl⟩
    obtain ⟨hmem, hc⟩ := List.mem_filter.1 ho
    obtain ⟨i, hi, hp⟩ := (hcov o).2 hc
    refine ⟨i, hi, ?_⟩
    have ht := (hm.synced i hi).2
    have := ht.2 o.key
    unfold matching at this
    rw [kget_of_mem Obj.key _ o hm.objsNodup hmem] at this
    simp only [Option.filter, hp, if_true, Option.map_some] at this
    exact (mem_of_kget _ _ _ _ this).1

theorem gapSafe_refl (mc : MonCfg) (w : World) : GapSafe mc w w :=
  ⟨fun _ h => h, fun _ o h hp => ⟨o, h, hp⟩⟩

/-- StartMonitor directly after AddMonitor (what `EnableKubernetesBindings` does): no hypothesis on
the history at all. -/
theorem snapshot_eq_matching_immediate_start (ridOf : Key → Nat) (srt : List Entry → List Entry)
    (hs : SortContract ridOf srt) (mc : MonCfg) (w0 : World) (hw0 : KeysNodup Obj.key w0.objs)
    (rest : List MStep) (e : Entry) :
    e ∈ (runMonitor mc w0 (.start :: rest)).m.snapshot srt ↔
      ∃ o ∈ specMatching mc (runMonitor mc w0 (.start :: rest)).w, e = mkEntry mc.cfg o :=
  snapshot_eq_matching_partial ridOf srt hs mc w0 hw0 [] rest (fun _ h => by cases h) (gapSafe_refl mc w0) e

/-- **witness at monitor level (recorded finding)**: one object, deleted between AddMonitor and
StartMonitor: `GapSafe` fails, and the started monitor shows the object although nothing matches. -/
theorem ghost_monitor_witness :
    let mc : MonCfg := { cfg := { keepFull := false, flt := id, chk := id }, kind := 1 }
    let w0 : World := { objs := [⟨⟨1, 1, 1⟩, 5, 0⟩], nss := [(1, 0)] }
    let s := runMonitor mc w0 [.obj (.del ⟨1, 1, 1⟩), .start]
    (s.m.snapshot (modelSort (fun k => k.name))).length = 1 ∧ specMatching mc s.w = [] ∧
    ¬ GapSafe mc w0 (runMonitor mc w0 [.obj (.del ⟨1, 1, 1⟩)]).w := by
  refine ⟨by decide, by decide, ?_⟩
  intro h
  obtain ⟨o', ho', _⟩ := h.2 ⟨1, 1, 1⟩ ⟨⟨1, 1, 1⟩, 5, 0⟩ (by decide) (by decide)
  have hnone : kget Obj.key
      (runMonitor { cfg := { keepFull := false, flt := id, chk := id }, kind := 1 }
        { objs := [⟨⟨1, 1, 1⟩, 5, 0⟩], nss := [(1, 0)] } [.obj (.del ⟨1, 1, 1⟩)]).w.objs ⟨1, 1, 1⟩ = none := by decide
  rw [hnone] at ho'
  cases ho'

theorem zip_tail_of_pairwise {α : Type} (R : α → α → Prop) (l : List α) (h : l.Pairwise R) :
    ∀ p ∈ l.zip l.tail, R p.1 p.2 := by
  induction l with
  | nil => intro p hp; simp at hp
  | cons a t ih =>
    rw [List.pairwise_cons] at h
    cases t with
    | nil => intro p hp; simp at hp
    | cons b u =>
      intro p hp
      simp only [List.tail_cons, List.zip_cons_cons, List.mem_cons] at hp
      rcases hp with rfl | hp
      · exact h.1 b List.mem_cons_self
      · exact ih h.2 p (by simpa using hp)

/-- **the oracle is the theorem**: what the driver's `oracle snap` line evaluates
(`snapshotExact`: same number of elements as matching objects, every matching key present, strictly
increasing in the documented key, every element the filtered image of a matching object) holds of
the model's `Snapshot()` in every state covered by `snapshot_eq_matching_partial` — so an `oracle`
line answering `false` on the implementation's output is a counterexample to the property the
theorems state, not to some other predicate. -/
theorem oracle_snap_sound (ridOf : Key → Nat) (hinj : ∀ a b : Key, ridOf a = ridOf b → a = b)
    (srt : List Entry → List Entry) (hs : SortContract ridOf srt)
    (mc : MonCfg) (w0 : World) (hw0 : KeysNodup Obj.key w0.objs)
    (gap rest : List MStep) (hg : ∀ st ∈ gap, st ≠ MStep.start)
    (hsafe : GapSafe mc w0 (runMonitor mc w0 gap).w) :
    snapshotExact ridOf mc (runMonitor mc w0 (gap ++ .start :: rest)).w
      ((runMonitor mc w0 (gap ++ .start :: rest)).m.snapshot srt) = true := by
  have hmem := snapshot_eq_matching_partial ridOf srt hs mc w0 hw0 gap rest hg hsafe
  obtain ⟨hnd, hsorted, hgood⟩ := snapshot_nodup ridOf srt hs mc w0 (gap ++ .start :: rest)
  have hobjs : KeysNodup Obj.key (runMonitor mc w0 (gap ++ .start :: rest)).w.objs :=
    (ms_run_gap mc w0 hw0 gap rest hg hsafe).2.1.objsNodup
  generalize (runMonitor mc w0 (gap ++ .start :: rest)).m.snapshot srt = got at hmem hnd hsorted hgood
  generalize (runMonitor mc w0 (gap ++ .start :: rest)).w = w at hmem hobjs
  have hwant : KeysNodup Obj.key (specMatching mc w) := by
    rw [specMatching_eq]; exact keysNodup_filter _ _ _ hobjs
  unfold snapshotExact
  simp only [Bool.and_eq_true, beq_iff_eq, List.all_eq_true, List.any_eq_true]
  refine ⟨⟨⟨?_, ?_⟩, ?_⟩, ?_⟩
  · -- same length: both lists are duplicate-free and have the same elements
    have h1 : got.Nodup := hnd.imp (fun {a b} hab (e : a = b) => hab (by rw [e]))
    have h2 : ((specMatching mc w).map (mkEntry mc.cfg)).Nodup := by
      rw [List.Nodup, List.pairwise_map]
      exact hwant.imp (fun {a b} hab (e : mkEntry mc.cfg a = mkEntry mc.cfg b) => hab (by rw [← mkEntry_key mc.cfg a, ← mkEntry_key mc.cfg b, e]))
    have hp := (List.perm_ext_iff_of_nodup h1 h2).2 (fun e => by
      rw [hmem e, List.mem_map]
      constructor
      · rintro ⟨o, ho, rfl⟩; exact ⟨o, ho, rfl⟩
      · rintro ⟨o, ho, rfl⟩; exact ⟨o, ho, rfl⟩)
    simpa using hp.length_eq
  · intro o ho
    exact ⟨mkEntry mc.cfg o, (hmem _).2 ⟨o, ho, rfl⟩, mkEntry_key _ _⟩
  · intro p hp
    -- strictly increasing: sorted, distinct keys, and `Less` separates distinct keys
    have hpair : got.Pairwise (fun a b => lessGo ridOf a b = true) := by
      have hboth : got.Pairwise (fun a b => a.key ≠ b.key ∧ lessKey mc.cfg.keepFull ridOf b.key a.key = false) :=
        hnd.and hsorted
      refine hboth.imp_of_mem ?_
      intro a b ha hb hab
      obtain ⟨oa, rfl, hpa⟩ := hgood a ha
      obtain ⟨ob, rfl, hpb⟩ := hgood b hb
      rw [lessGo_eq_lessKey ridOf mc.cfg.keepFull _ _ (mkEntry_isSome _ _) (mkEntry_isSome _ _)]
      cases hl : lessKey mc.cfg.keepFull ridOf (mkEntry mc.cfg oa).key (mkEntry mc.cfg ob).key with
      | true => rfl
      | false =>
        exfalso
        apply hab.1
        refine lessKey_antisymm mc.cfg.keepFull ridOf _ _ ?_ (hinj _ _) hab.2 hl
        rw [mkEntry_key, mkEntry_key]
        unfold MonCfg.pred at hpa hpb
        simp only [Bool.and_eq_true, beq_iff_eq] at hpa hpb
        rw [hpa.1.1.1.1, hpb.1.1.1.1]
    exact zip_tail_of_pairwise _ got hpair p hp
  · intro e he
    obtain ⟨o, ho, rfl⟩ := (hmem e).1 he
    exact ⟨o, ho, ⟨rfl, rfl⟩, rfl⟩

/-- non-vacuity: a namespace.labelSelector binding with a name selector; a namespace starts
matching, objects come and go, the namespace stops matching. -/
example :
    let mc : MonCfg := { cfg := { keepFull := false, flt := fun c => c / 10, chk := id }, kind := 1,
                         names := [1, 2], nsSel := true }
    let s := runMonitor mc { objs := [⟨⟨5, 1, 1⟩, 10, 0⟩, ⟨⟨6, 1, 1⟩, 20, 0⟩], nss := [(5, 1), (6, 0)] }
      [.start, .ns 6 (some 1), .obj (.set ⟨⟨6, 1, 2⟩, 30, 0⟩), .obj (.del ⟨5, 1, 1⟩), .ns 5 (some 0),
       .obj (.set ⟨⟨6, 1, 3⟩, 40, 0⟩)]
    (s.m.snapshot (modelSort (fun k => k.ns * 10 + k.name))).map (·.fr) = [2, 3] ∧
    (specMatching mc s.w).map (·.content) = [20, 30] := by decide

/-- **witness (recorded finding `ghost-after-gap-delete`)**: object `g` is listed by the informer's
own `List`, deleted before the informer is registered (`AddMonitor` … `StartMonitor`); the replay at
registration carries no `Deleted`, so the cache keeps `g` for ever although the cluster is empty. -/
theorem ghost_witness :
    let cfg : Cfg := { keepFull := false, flt := id, chk := id }
    let g : Obj := ⟨⟨1, 1, 1⟩, 5, 0⟩
    informerLife cfg (fun _ => true) [g] [.del g.key] [] = [mkEntry cfg g] ∧
    applyOps (applyOps [g] [.del g.key]) [] = [] := by decide

example : informerLife { keepFull := false, flt := id, chk := id } (fun o => o.lbl == 1)
    [⟨⟨1, 1, 1⟩, 5, 1⟩] [.set ⟨⟨1, 1, 2⟩, 6, 1⟩]
    [.set ⟨⟨1, 1, 1⟩, 7, 0⟩, .del ⟨1, 1, 2⟩, .set ⟨⟨1, 1, 2⟩, 8, 1⟩]
    = [⟨⟨1, 1, 2⟩, none, 8, 8⟩] := by decide

/-! ## 6. the shared-informer store keeps serving every binding that has not stopped

Theorems 1–5 take "every informer handles the watch events of its own scope" as the environment's
part. Between client-go and a `resourceInformer` sits the operator's own `FactoryStore`
(`factory.go`): informers of different bindings with the same kind / namespace / selectors hang on
ONE shared informer. The clause "once the cluster is quiet they equal the real cluster state" for
all configurations (several bindings) and all histories (namespaces deleted, monitors stopped)
therefore needs: whatever the other users of a factory do, an informer that was started and has
not itself been stopped stays registered with a running shared informer. -/

theorem fsServed_iff (s : FStore) (inf : Nat) (idx : Key) :
    fsServed s inf idx = true ↔ ∃ g, kget FEntry.idx s idx = some g ∧ inf ∈ g.regs := by
  unfold fsServed
  cases hg : kget FEntry.idx s idx with
  | none => simp
  | some g => simp

/-- `Start` serves the informer it is called for, in every store. -/
theorem factory_store_start_serves (s : FStore) (inf : Nat) (idx : Key) :
    fsServed (fsStart s inf idx) inf idx = true := by
  rw [fsServed_iff]
  unfold fsStart
  cases h : kget FEntry.idx s idx with
  | none => exact ⟨_, by rw [kget_kput]; exact if_pos rfl, by simp⟩
  | some f => exact ⟨_, by rw [kget_kput]; exact if_pos rfl, by simp⟩

/-- a `Start` (of any informer, on any index) ends nobody's service -/
theorem fsStart_keeps (s : FStore) (inf : Nat) (idx : Key) (i : Nat) (x : Key)
    (h : fsServed s inf idx = true) : fsServed (fsStart s i x) inf idx = true := by
  rw [fsServed_iff] at h ⊢
  obtain ⟨g, hg, hmem⟩ := h
  unfold fsStart
  by_cases hx : idx = x
  · subst hx
    simp only [hg]
    refine ⟨_, by rw [kget_kput]; exact if_pos rfl, ?_⟩
    by_cases hi : inf = i
    · simp [hi]
    · simp [List.mem_filter, hmem, hi]
  · cases hgx : kget FEntry.idx s x with
    | none => exact ⟨g, by rw [kget_kput]; simp [hx, hg], hmem⟩
    | some f => exact ⟨g, by rw [kget_kput]; simp [hx, hg], hmem⟩

/-- a `Stop` of another informer, or under another index, ends nobody's service: the factory is
cancelled and deleted only when no registration is left -/
theorem fsStop_keeps (s : FStore) (inf : Nat) (idx : Key) (i : Nat) (x : Key)
    (h : fsServed s inf idx = true) (hne : ¬ (i = inf ∧ x = idx)) :
    fsServed (fsStop s i x) inf idx = true := by
  rw [fsServed_iff] at h ⊢
  obtain ⟨g, hg, hmem⟩ := h
  unfold fsStop
  by_cases hx : idx = x
  · subst hx
    have hi : inf ≠ i := fun e => hne ⟨e.symm, rfl⟩
    have hfil : inf ∈ g.regs.filter (· != i) := by simp [List.mem_filter, hmem, hi]
    simp only [hg]
    by_cases hc : g.regs.contains i = true
    · rw [if_pos hc]
      have hemp : (g.regs.filter (· != i)).isEmpty = false := by
        cases hl : g.regs.filter (· != i) with
        | nil => rw [hl] at hfil; cases hfil
        | cons a t => rfl
      simp only [hemp, Bool.false_eq_true, if_false]
      exact ⟨_, by rw [kget_kput]; exact if_pos rfl, hfil⟩
    · rw [if_neg hc]; exact ⟨g, hg, hmem⟩
  · cases hgx : kget FEntry.idx s x with
    | none => exact ⟨g, hg, hmem⟩
    | some f =>
      simp only []
      by_cases hc : f.regs.contains i = true
      · rw [if_pos hc]
        by_cases he : (f.regs.filter (· != i)).isEmpty = true
        · simp only [he, if_true]
          exact ⟨g, by rw [kget_kdel]; simp [hx, hg], hmem⟩
        · simp only [he, Bool.false_eq_true, if_false]
          exact ⟨g, by rw [kget_kput]; simp [hx, hg], hmem⟩
      · rw [if_neg hc]; exact ⟨g, hg, hmem⟩

/-- No operation of the store other than the informer's own `Stop` ends its service: not the
`Start` of another (or the same) informer on any index, not the `Stop` of another informer on the
same index (the factory is cancelled only when no registration is left), not a `Stop` under another
index. -/
theorem factory_store_keeps_users (s : FStore) (inf : Nat) (idx : Key) (op : FOp)
    (h : fsServed s inf idx = true) (hop : op ≠ .stop inf idx) :
    fsServed (fsStep s op) inf idx = true := by
  cases op with
  | start i x => exact fsStart_keeps s inf idx i x h
  | stop i x =>
    refine fsStop_keeps s inf idx i x h ?_
    rintro ⟨rfl, rfl⟩
    exact hop rfl

/-- **C02.6 `factory_store_serves_users`** For every history of the process-wide store — any
informers of any bindings starting and stopping before (`pre`) and after (`post`) — an informer
that was started and whose own `Stop` has not happened since is registered with a running shared
informer: its cache keeps receiving the watch events theorems 1–5 assume. -/
theorem factory_store_serves_users (pre post : List FOp) (inf : Nat) (idx : Key)
    (hpost : FOp.stop inf idx ∉ post) :
    fsServed (fsRun [] (pre ++ [.start inf idx] ++ post)) inf idx = true := by
  unfold fsRun
  rw [List.foldl_append, List.foldl_append]
  simp only [List.foldl_cons, List.foldl_nil]
  generalize List.foldl fsStep [] pre = s0
  have h0 : fsServed (fsStep s0 (.start inf idx)) inf idx = true := factory_store_start_serves s0 inf idx
  generalize fsStep s0 (.start inf idx) = s1 at h0
  induction post generalizing s1 with
  | nil => exact h0
  | cons op t ih =>
    simp only [List.foldl_cons]
    apply ih
    · intro hm; exact hpost (List.mem_cons_of_mem _ hm)
    · exact factory_store_keeps_users s1 inf idx op h0 (fun e => hpost (e ▸ List.mem_cons_self ..))

/-- non-vacuity: bindings A (informer 1) and B (informer 2) share the factory of index `x`, A
leaves (namespace deleted), comes back as informer 3 and leaves again, a third index comes and
goes: B is served throughout; after its own `Stop` it is not. -/
example :
    let x : Key := ⟨1, 1, 0⟩
    let y : Key := ⟨2, 1, 0⟩
    let ops := [FOp.start 1 x, .start 2 x, .stop 1 x, .start 3 x, .start 4 y, .stop 3 x, .stop 4 y]
    fsServed (fsRun [] ops) 2 x = true ∧ fsServed (fsRun [] (ops ++ [.stop 2 x])) 2 x = false ∧
    fsRun [] (ops ++ [.stop 2 x]) = [] := by decide

/-- Witness that the "last user" test carries the theorem: with the usage counter kept on the value
copy `get` returns (`fsStopCounterOnCopy`), the first informer leaving a shared factory cancels it
for the sibling that is still there. -/
theorem factory_counter_on_copy_witness :
    let x : Key := ⟨1, 1, 0⟩
    let s := fsStart (fsStart [] 1 x) 2 x
    fsServed (fsStop s 1 x) 2 x = true ∧ fsServed (fsStopCounterOnCopy s 1 x) 2 x = false := by decide


/-! ## 7. the lists the informer loops run over name every requested entry exactly once -/

theorem noRepeat_iff (l : List Nat) : noRepeat l = true ↔ l.Nodup := by
  induction l with
  | nil => simp [noRepeat]
  | cons a t ih => simp [noRepeat, ih]

/-- **C02.7 `config_names_each_once`** For every `matchNames` list — repeats anywhere, adjacent or
not — `names()` / `namespaces()` (model `dedupNames`) hand each requested entry to the informer
loops exactly once; this is the predicate the driver evaluates on `oracle uniq` lines, there on the
lists the real `MonitorConfig.names()` / `namespaces()` returned. -/
theorem config_names_each_once (l : List Nat) : uniqExact l (dedupNames l) = true := by
  unfold uniqExact
  simp only [Bool.and_eq_true, List.all_eq_true, List.contains_iff_mem, noRepeat_iff]
  exact ⟨⟨dedupNames_nodup l, fun x hx => (mem_dedupNames l x).2 hx⟩, fun x hx => (mem_dedupNames l x).1 hx⟩

theorem config_names_each_once_cfg (mc : MonCfg) :
    uniqExact mc.names mc.namesEff = true ∧
    (mc.nsSel = false → mc.nss.isEmpty = false →
      mc.namespaces = (dedupNames mc.nss).map some ∧ uniqExact mc.nss (dedupNames mc.nss) = true) := by
  refine ⟨config_names_each_once _, fun h1 h2 => ⟨?_, config_names_each_once _⟩⟩
  simp [MonCfg.namespaces, h1, h2]

/-- non-vacuity: a non-adjacent repeat; dropping only *consecutive* repeats is not enough -/
example : dedupNames [1, 2, 1] = [1, 2] ∧ uniqExact [1, 2, 1] [1, 2] = true ∧
    uniqExact [1, 2, 1] [1, 2, 1] = false ∧ uniqExact [1, 1, 2] [1, 2] = true ∧
    uniqExact [1, 2] [1] = false ∧ uniqExact [1] [1, 3] = false := by decide

/-! ## 8. fifth wave: "each with the binding's filter applied" for programs with any number of
outputs, and "identical everywhere it appears" for a snapshot an execution keeps holding -/

section FifthWave
open ShellOp.Json ShellOp.SnapFilter

/-- **C02.8a `filter_result_documented`** For every list of outputs a jqFilter may have on an object
(none, one of any type, several of any types), what `ApplyFilterValue` (as written: `len == 1` →
the output, else `mergeObjects`) returns is the documented filter result: the single output as it is,
otherwise an object whose every key carries the value of the last member with that key among the
object-valued outputs, and no key besides. -/
theorem filter_result_documented (outs : List J) :
    frDocumented outs (applyFilterValue outs) = true := by
  unfold applyFilterValue
  by_cases h : outs.length = 1
  · match outs, h with
    | [v], _ => simp [frDocumented]
  · simp only [beq_iff_eq, h, if_false]
    exact frDocumented_merge outs h

/-- … in particular for every program of the fragment (terms joined by `,`, `empty`, `.path[]`) on
every object on which it does not fail. -/
theorem filter_result_documented_prog (p : List Term) (j : J) (outs : List J)
    (_h : runProg p j = some outs) : frDocumented outs (applyFilterValue outs) = true :=
  filter_result_documented outs

/-- non-vacuity: `{"a": .data.a}, .data.a, {"a": .data.b, "b": .data.b}, empty, .data[]` has five
outputs on this object; the result is the merge of the two objects (the later `a` wins). -/
example :
    let j : J := .obj [("data", .obj [("a", .str "3"), ("b", .str "4")])]
    let p : List Term := [.one (.mkObj [("a", .path ["data", "a"])]), .one (.path ["data", "a"]),
      .one (.mkObj [("a", .path ["data", "b"]), ("b", .path ["data", "b"])]), .empty, .iter ["data"]]
    runProg p j = some [.obj [("a", .str "3")], .str "3", .obj [("a", .str "4"), ("b", .str "4")], .str "3", .str "4"]
    ∧ (runProg p j).map applyFilterValue = some (.obj [("a", .str "4"), ("b", .str "4")])
    ∧ frDocumented [.obj [("a", .str "3")], .obj [("b", .str "4")]] (.obj [("a", .str "3")]) = false := by
  decide

/-- Witness (the variant `len(outputs) >= 1` is not the code): it returns the first of two object
outputs, which is not the documented result. -/
theorem first_output_witness :
    frDocumented [.obj [("a", .str "3")], .obj [("b", .str "4")]]
      (applyFilterValueFirst [.obj [("a", .str "3")], .obj [("b", .str "4")]]) = false
    ∧ frDocumented [.obj [("a", .str "3")], .obj [("b", .str "4")]]
      (applyFilterValue [.obj [("a", .str "3")], .obj [("b", .str "4")]]) = true := by
  decide

/-- **C02.8b `held_snapshot_stable`** The list one `Snapshot()` call returned reads the same —
the sorted union of the caches at the time of the call — after every later history of watch events
and further `Snapshot()` calls of any reader (for every sorting routine, every number of informers,
every cache content): `getCachedObjects` and `Snapshot` allocate per call, nothing writes to an
array that was handed out. This is "the snapshot of a binding is identical everywhere it appears
inside one execution" along the time the execution holds it. -/
theorem held_snapshot_stable {α : Type} (srt : List α → List α) (s : RState α) (ops : List (ROp α)) :
    (rrun srt (snapshotCall srt s).1 ops).heap.read (snapshotCall srt s).2 = srt s.caches.flatten := by
  rw [read_extends (extends_rrun srt _ ops) _ (snapshotCall_buf_lt srt s)]
  exact snapshotCall_read srt s

example : let s : RState Nat := { caches := [[1, 2, 3, 4]] }
    let r := snapshotCall id s
    (rrun id r.1 [.watch 0 [3, 4], .snapshot]).heap.read r.2 = [1, 2, 3, 4]
    ∧ (rrun id r.1 [.watch 0 [3, 4], .snapshot]).heap.bufs.length = 4 := by decide

/-- Witness (reused per-informer buffer returned by reference — not the code): after two of four
objects are deleted and another reader takes a snapshot, the list the first reader holds shows the
remaining objects twice. -/
theorem reused_buffer_witness :
    let s : RState Nat := { caches := [[1, 2, 3, 4]], heap := { bufs := [[]] } }
    let r := snapshotCallReuse id s
    r.1.heap.read r.2 = [1, 2, 3, 4]
    ∧ (snapshotCallReuse id { r.1 with caches := [[3, 4]] }).1.heap.read r.2 = [3, 4, 3, 4] := by
  decide

end FifthWave

/-! ## 9. sixth wave: binding name ↦ monitor (`SnapshotsFor`) -/
section SixthWave
open ShellOp.BindingLookup

theorem snapshotsFor_mem {α : Type} [DecidableEq α] (binds : List (KBind α)) (has : Nat → Bool) (name : α) (m : Nat)
    (h : snapshotsFor binds has name = some m) :
    ∃ b ∈ binds, b.name = name ∧ b.monitor = m ∧ has m = true := by
  induction binds with
  | nil => simp [snapshotsFor] at h
  | cons b rest ih =>
    unfold snapshotsFor at h
    by_cases hn : name = b.name
    · by_cases hh : has b.monitor = true
      · simp [hn, hh] at h
        exact ⟨b, by simp, hn.symm, h, h ▸ hh⟩
      · simp [hn, hh] at h
        obtain ⟨c, hc, h1, h2, h3⟩ := ih (by simpa [hn] using h)
        exact ⟨c, by simp [hc], h1, h2, h3⟩
    · simp [hn] at h
      obtain ⟨c, hc, h1, h2, h3⟩ := ih h
      exact ⟨c, by simp [hc], h1, h2, h3⟩

theorem snapshotsFor_none {α : Type} [DecidableEq α] (binds : List (KBind α)) (has : Nat → Bool) (name : α)
    (h : snapshotsFor binds has name = none) :
    ∀ b ∈ binds, b.name = name → has b.monitor = false := by
  induction binds with
  | nil => simp
  | cons b rest ih =>
    unfold snapshotsFor at h
    intro c hc hcn
    by_cases hn : name = b.name
    · by_cases hh : has b.monitor = true
      · simp [hn, hh] at h
      · simp [hn, hh] at h
        rcases List.mem_cons.mp hc with rfl | hc'
        · simpa using hh
        · exact ih (by simpa [hn] using h) c hc' hcn
    · simp [hn] at h
      rcases List.mem_cons.mp hc with rfl | hc'
      · exact absurd hcn.symm hn
      · exact ih h c hc' hcn

/-- **C02.9a `snapshots_for_that_binding`** For every list of kubernetes bindings whose names are
pairwise different (as byte strings — nothing else is assumed about them: they may be equal after
case mapping, trimming, normalising …), every set of registered monitors and every binding `b` of
the list whose monitor is registered: the list handed out under the name of `b` is read from the
monitor of `b` — "every list under `snapshots` contains the objects matching THAT binding". -/
theorem snapshots_for_that_binding {α : Type} [DecidableEq α] (binds : List (KBind α)) (has : Nat → Bool)
    (hnd : (binds.map (·.name)).Nodup) (b : KBind α) (hb : b ∈ binds) (hh : has b.monitor = true) :
    snapshotsFor binds has b.name = some b.monitor := by
  induction binds with
  | nil => simp at hb
  | cons c rest ih =>
    simp only [List.map_cons, List.nodup_cons] at hnd
    unfold snapshotsFor
    rcases List.mem_cons.mp hb with rfl | hb'
    · simp [hh]
    · have hne : b.name ≠ c.name := by
        intro he
        exact hnd.1 (he ▸ List.mem_map.mpr ⟨b, hb', rfl⟩)
      simp [hne]
      exact ih hnd.2 hb'

/-- **C02.9b `snapshots_for_unknown`** a name no binding carries (whatever it is similar to) reads
nothing: the key gets the empty list. -/
theorem snapshots_for_unknown {α : Type} [DecidableEq α] (binds : List (KBind α)) (has : Nat → Bool) (name : α)
    (h : ∀ b ∈ binds, b.name ≠ name) : snapshotsFor binds has name = none := by
  cases hs : snapshotsFor binds has name with
  | none => rfl
  | some m =>
    obtain ⟨b, hb, hn, _⟩ := snapshotsFor_mem binds has name m hs
    exact absurd hn (h b hb)

/-- **C02.9c `oracle_lookup_sound`** the predicate the driver evaluates on `oracle lookup` lines holds
of the model's `SnapshotsFor` for every configuration (no uniqueness needed). -/
theorem oracle_lookup_sound {α : Type} [DecidableEq α] (binds : List (KBind α)) (has : Nat → Bool) (name : α) :
    lookupExact binds has name (snapshotsFor binds has name) = true := by
  cases hs : snapshotsFor binds has name with
  | some m =>
    obtain ⟨b, hb, hn, hm, hh⟩ := snapshotsFor_mem binds has name m hs
    simp only [lookupExact, List.any_eq_true]
    exact ⟨b, hb, by simp [hn, hm, hh]⟩
  | none =>
    have h := snapshotsFor_none binds has name hs
    simp only [lookupExact, List.all_eq_true]
    intro b hb
    by_cases hn : b.name = name
    · simp [hn, h b hb hn]
    · simp [hn]

/-- **C02.9d `lookup_exact_determines`** with pairwise different names the oracle leaves no freedom:
an observation it accepts is the monitor of the one binding with that name. -/
theorem lookup_exact_determines {α : Type} [DecidableEq α] (binds : List (KBind α)) (has : Nat → Bool)
    (hnd : (binds.map (·.name)).Nodup) (name : α) (got : Option Nat)
    (h : lookupExact binds has name got = true) : got = snapshotsFor binds has name := by
  cases got with
  | some m =>
    simp only [lookupExact, List.any_eq_true] at h
    obtain ⟨b, hb, hc⟩ := h
    simp only [Bool.and_eq_true, decide_eq_true_eq, beq_iff_eq] at hc
    obtain ⟨⟨hn, hm⟩, hh⟩ := hc
    have := snapshots_for_that_binding binds has hnd b hb (hm ▸ hh)
    rw [← hn, this, hm]
  | none =>
    simp only [lookupExact, List.all_eq_true] at h
    cases hs : snapshotsFor binds has name with
    | none => rfl
    | some m =>
      obtain ⟨b, hb, hn, hm, hh⟩ := snapshotsFor_mem binds has name m hs
      have := h b hb
      simp [hn, hm, hh] at this

/-- **C02.9e `update_snapshots_that_binding`** the two pieces of glue composed: when each
`SnapshotsFor` call of one `UpdateSnapshots` resolves the name as the code does and reads that
monitor (`monSnap m t` = `Snapshot()` of monitor `m` at the time of call `t`), every non-empty list
the execution shows for a binding name — under `snapshots` of any context, as `objects` of a
Synchronization — is a snapshot of the monitor of THE binding with that name. -/
theorem update_snapshots_that_binding (hb : HookBindings) (binds : List (KBind Nat)) (has : Nat → Bool)
    (hnd : (binds.map (·.name)).Nodup) (monSnap : Nat → Nat → Snap) (ctx : List BC) :
    let read : Nat → Nat → Option Snap := fun n t => (snapshotsFor binds has n).map (fun m => monSnap m t)
    ∃ (view : Nat → Snap),
      AllOk hb view ctx (updateSnapshots hb read ctx) ∧
      ∀ n, view n = [] ∨ ∃ t, ∃ b ∈ binds, b.name = n ∧ has b.monitor = true ∧ view n = monSnap b.monitor t ∧
        ∀ b' ∈ binds, b'.name = n → b' = b := by
  intro read
  obtain ⟨view, st, hok, _, _, hv⟩ := update_snapshots_consistent hb read ctx
  refine ⟨view, hok, fun n => ?_⟩
  rcases hv n with h | ⟨t, _, ht⟩
  · left; exact h
  · right
    simp only [read] at ht
    cases hs : snapshotsFor binds has n with
    | none => simp [hs] at ht
    | some m =>
      simp [hs] at ht
      obtain ⟨b, hbm, hn, hm, hh⟩ := snapshotsFor_mem binds has n m hs
      refine ⟨t, b, hbm, hn, hm ▸ hh, by rw [hm]; exact ht.symm, fun b' hb' hn' => ?_⟩
      -- pairwise different names: the binding is unique
      have key : ∀ (l : List (KBind Nat)), (l.map (·.name)).Nodup → ∀ x ∈ l, ∀ y ∈ l, x.name = y.name → x = y := by
        intro l
        induction l with
        | nil => intro _ x hx; simp at hx
        | cons c rest ih =>
          intro hnd x hx y hy hxy
          simp only [List.map_cons, List.nodup_cons] at hnd
          rcases List.mem_cons.mp hx with rfl | hx' <;> rcases List.mem_cons.mp hy with rfl | hy'
          · rfl
          · exact absurd (List.mem_map.mpr ⟨y, hy', hxy.symm⟩) hnd.1
          · exact absurd (List.mem_map.mpr ⟨x, hx', hxy⟩) hnd.1
          · exact ih hnd.2 x hx' y hy' hxy
      exact key binds hnd b' hb' b hbm (hn'.trans hn.symm)

/-- non-vacuity: two bindings whose names differ only in case, both registered: each name reads its
own monitor, a third spelling reads nothing. -/
example :
    let binds : List (KBind String) := [⟨"settings", 1⟩, ⟨"Settings", 2⟩]
    snapshotsFor binds (fun _ => true) "settings" = some 1 ∧
    snapshotsFor binds (fun _ => true) "Settings" = some 2 ∧
    snapshotsFor binds (fun _ => true) "SETTINGS" = none ∧
    (binds.map (·.name)).Nodup := by decide

/-- ASCII lower-casing of a name given as its bytes -/
def lowerBytes (l : List Nat) : List Nat := l.map (fun c => if 65 ≤ c ∧ c ≤ 90 then c + 32 else c)

/-- Witness (names compared after lower-casing — not the code): of the two bindings `set` and `Set`
(bytes) the later one is handed the other binding's monitor; the oracle rejects that observation. -/
theorem folded_lookup_witness :
    let binds : List (KBind (List Nat)) := [⟨[115, 101, 116], 1⟩, ⟨[83, 101, 116], 2⟩]
    snapshotsForBy lowerBytes binds (fun _ => true) [83, 101, 116] = some 1 ∧
    snapshotsFor binds (fun _ => true) [83, 101, 116] = some 2 ∧
    lookupExact binds (fun _ => true) [83, 101, 116] (some 1) = false ∧
    lookupExact binds (fun _ => true) [83, 101, 116] (some 2) = true := by
  decide

/-- **C02.9f `restart_late_cleanup_serves`** a restarted informer — same binding, same factory index,
a fresh informer id, as `newResourceInformer` draws it — is served for EVERY order of the two
goroutines involved: the clean-up of the old informer (`FactoryStore.Stop old`) may run at any
point, before or after the new informer has registered, any number of other informers come and go. -/
theorem restart_late_cleanup_serves (pre mid post : List FOp) (old new : Nat) (idx : Key)
    (hne : old ≠ new) (hmid : FOp.stop new idx ∉ mid) (hpost : FOp.stop new idx ∉ post) :
    fsServed (fsRun [] (pre ++ [.start new idx] ++ (mid ++ [.stop old idx] ++ post))) new idx = true := by
  apply factory_store_serves_users
  intro hm
  simp only [List.mem_append, List.mem_cons, List.not_mem_nil, or_false] at hm
  rcases hm with (hm | hm) | hm
  · exact hmid hm
  · injection hm with h1 _; exact hne h1.symm
  · exact hpost hm

/-- Witness (the informer id is a function of monitor id, namespace and name — not the code): the
restarted informer carries the id of the one it replaces; when the old clean-up runs after the new
registration it removes the new handler and the factory with it. In the other order nothing shows. -/
theorem same_id_restart_witness :
    let x : Key := ⟨1, 1, 0⟩
    fsServed (fsRun [] [.start 7 x, .start 7 x, .stop 7 x]) 7 x = false ∧
    fsServed (fsRun [] [.start 7 x, .stop 7 x, .start 7 x]) 7 x = true ∧
    fsServed (fsRun [] [.start 7 x, .start 8 x, .stop 7 x]) 8 x = true := by decide


end SixthWave

end ShellOp.Snapshot.C02
