import ShellOp.Proofs.Informer
import ShellOp.Proofs.InformerReplay
import ShellOp.Proofs.MonitorEnable
import ShellOp.Props.C07
import ShellOp.Proofs.SnapshotCache
import ShellOp.Generated.Trans
import ShellOp.Model.Retry
import ShellOp.Proofs.EventFlow
/-!
# C01 — no cluster change is lost between Synchronization and later Events

Theorems over `Model/Informer` (hand-over protocol of one `resourceInformer`, repaired locking
discipline `fx = true`), for EVERY binding configuration (`types`), initial cache, watch history and
EVERY schedule of the watch thread, any number of snapshot readers and the unlock.
-/
namespace ShellOp.Informer.C01

open ShellOp.Informer

/-- **C01 (last sentence).** No Event of a binding is handed over before the unlock that follows
its successful Synchronization. -/
theorem no_event_before_unlock (types : List Kind) (c : Cache) (w : List Ev) (sched : List Action) :
    (run true (init types c w) sched).enabled = false →
    (run true (init types c w) sched).delivered = [] := by
  intro h
  exact ((good_run _ sched (good_init types c w)).locked h).2

/-- **C01 (order).** What is handed over is, at every moment, a contiguous run of the changes that
passed the filters, in the order they happened — hence per object in the order of the changes. -/
theorem delivered_in_order (types : List Kind) (c : Cache) (w : List Ev) (sched : List Action) :
    InOrder (run true (init types c w) sched) := by
  have g := good_run _ sched (good_init types c w)
  generalize run true (init types c w) sched = s at g
  unfold InOrder
  cases he : s.enabled
  · rw [(g.locked he).2]; exact List.nil_infix
  · have := (g.unlocked he).1
    exact List.IsInfix.trans ⟨[], inflight s, by simpa using this⟩ (List.drop_suffix _ _).isInfix

theorem delivered_per_object_order (types : List Kind) (c : Cache) (w : List Ev) (sched : List Action)
    (o : Nat) :
    ((run true (init types c w) sched).delivered.filter (·.id == o)).Sublist
      ((run true (init types c w) sched).fired.filter (·.id == o)) :=
  (delivered_in_order types c w sched).sublist.filter _

/-- **C01 (no loss), universal form.** In every quiescent final state, every change that passed the
filters after the LAST snapshot copy taken while the binding was still locked has been handed over. -/
theorem delivered_since_last_read (types : List Kind) (c : Cache) (w : List Ev) (sched : List Action) :
    Quiescent (run true (init types c w) sched) →
    (run true (init types c w) sched).fired.drop (run true (init types c w) sched).anyMark
      <:+ (run true (init types c w) sched).delivered := by
  have g := good_run _ sched (good_init types c w)
  generalize run true (init types c w) sched = s at g
  rintro ⟨_, hw, _, he⟩
  have h := (g.unlocked he).1
  simp only [inflight, hw, List.append_nil] at h
  rw [h]
  have : s.fired.drop s.anyMark = (s.fired.drop s.base).drop (s.anyMark - s.base) := by
    rw [List.drop_drop]; congr 1; have := g.base_le; omega
  rw [this]; exact List.drop_suffix _ _

/-- **C01 (no loss) — partial.** When the last snapshot copy taken while the binding was locked is
the one the Synchronization run showed to the hook, nothing that happened after that view is lost.
The hypothesis excludes exactly the recorded finding `foreign-snapshot-while-locked`
(witness `r3_foreign_reader_loses_event` below). -/
theorem noLoss_partial (types : List Kind) (c : Cache) (w : List Ev) (sched : List Action) :
    Quiescent (run true (init types c w) sched) →
    (run true (init types c w) sched).syncMark = (run true (init types c w) sched).anyMark →
    NoLoss (run true (init types c w) sched) := by
  intro q hm
  unfold NoLoss
  rw [hm]; exact delivered_since_last_read types c w sched q

/-- A schedule-level sufficient condition for the hypothesis of `noLoss_partial`: no other reader
touches this binding at all. -/
theorem marks_eq_of_no_foreign (fx : Bool) (s : St) (sched : List Action)
    (h0 : s.syncMark = s.anyMark) (hf : ∀ a ∈ sched, a ≠ Action.s1 Tag.foreign) :
    (run fx s sched).syncMark = (run fx s sched).anyMark := by
  unfold run
  induction sched generalizing s with
  | nil => exact h0
  | cons a rest ih =>
    simp only [List.foldl_cons]
    apply ih
    · cases h : step fx s a with
      | none => simpa using h0
      | some s' =>
        simp only [Option.getD_some]
        cases a with
        | w1 =>
          simp only [step, stepW1] at h
          split at h <;> simp at h
          subst h; split <;> exact h0
        | w2 =>
          simp only [step] at h
          repeat' split at h
          all_goals first | (simp at h; done) | (simp only [Option.some.injEq] at h; subst h; exact h0)
        | w3 =>
          simp only [step] at h
          repeat' split at h
          all_goals first | (simp at h; done) | (simp only [Option.some.injEq] at h; subst h; exact h0)
        | s1 t =>
          have ht : t = Tag.sync := by
            cases t with
            | sync => rfl
            | foreign => exact absurd rfl (hf _ (List.mem_cons_self))
          subst ht
          simp only [step] at h
          repeat' split at h
          all_goals first | (simp at h; done) | (simp only [Option.some.injEq] at h; subst h; first | exact h0 | rfl | (exfalso; simp_all))
        | s2 t =>
          simp only [step] at h
          repeat' split at h
          all_goals first | (simp at h; done) | (simp only [Option.some.injEq] at h; subst h; exact h0)
        | e =>
          simp only [step] at h
          repeat' split at h
          all_goals first | (simp at h; done) | (simp only [Option.some.injEq] at h; subst h; exact h0)
    · intro a ha; exact hf a (List.mem_cons_of_mem _ ha)

/-- **C01 (no loss) for a binding nobody else reads.** -/
theorem noLoss_no_foreign (types : List Kind) (c : Cache) (w : List Ev) (sched : List Action)
    (hf : ∀ a ∈ sched, a ≠ Action.s1 Tag.foreign) :
    Quiescent (run true (init types c w) sched) → NoLoss (run true (init types c w) sched) :=
  fun q => noLoss_partial types c w sched q (marks_eq_of_no_foreign true _ sched rfl hf)

/-- **C01 (replay).** For a binding firing all three event types (with any jqFilter: a suppressed
change is exactly one that leaves the binding's projection of the object unchanged): applying the
delivered Events, in order, on top of the Synchronization view reproduces the final matching state
(as known to the operator), for every watch history and every schedule — duplicates of changes the
view already reflects are harmless. Same hypothesis as `noLoss_partial`. -/
theorem replay_reproduces_final_partial (c : Cache) (w : List Ev) (sched : List Action) :
    let s := run true (init [.added, .modified, .deleted] c w) sched
    Quiescent s → s.syncMark = s.anyMark →
    Cache.Same (s.delivered.foldl applyEv s.syncView) s.cache := by
  intro s q hm
  have g : Good s := good_run _ sched (good_init _ c w)
  have t : Tracks c s := tracks_run c _ sched
    ⟨by intro id; rfl, by intro id; simp [init], by simp [init], by intro k; cases k <;> rfl⟩
  obtain ⟨_, hw, _, he⟩ := q
  have hdel : s.delivered = s.fired.drop s.base := by
    have := (g.unlocked he).1
    simpa [inflight, hw] using this
  have hbs : s.base ≤ s.syncMark := by rw [hm]; exact g.base_le
  have hsl : s.syncMark ≤ s.fired.length := t.mark_le
  -- fired = A ++ P ++ Q with A = take base, P = the stale part, Q = after the view
  have hsplit : s.fired.drop s.base = (s.fired.take s.syncMark).drop s.base ++ s.fired.drop s.syncMark := by
    have e1 : s.fired.drop s.base = (s.fired.take s.syncMark ++ s.fired.drop s.syncMark).drop s.base := by
      rw [List.take_append_drop]
    rw [e1, List.drop_append_of_le_length (by simp; omega)]
  have htake : s.fired.take s.syncMark = s.fired.take s.base ++ (s.fired.take s.syncMark).drop s.base := by
    have : s.fired.take s.base = (s.fired.take s.syncMark).take s.base := by
      rw [List.take_take]; congr 1; omega
    rw [this, List.take_append_drop]
  intro id
  rw [hdel, hsplit, List.foldl_append]
  have h1 := same_foldl (s.fired.drop s.syncMark) _ _
    (same_foldl ((s.fired.take s.syncMark).drop s.base) _ _ t.view)
  rw [h1 id]
  have h2 : Cache.Same
      (List.foldl applyEv ((s.fired.take s.syncMark).foldl applyEv c) ((s.fired.take s.syncMark).drop s.base))
      ((s.fired.take s.syncMark).foldl applyEv c) := by
    have := replay_suffix_same c (s.fired.take s.base) ((s.fired.take s.syncMark).drop s.base)
    rw [← htake] at this; exact this
  rw [same_foldl (s.fired.drop s.syncMark) _ _ h2 id, ← List.foldl_append, List.take_append_drop]
  exact (t.cache id).symm

/-! ## Non-vacuity: a concrete run meeting the hypotheses with a non-trivial outcome -/

def demoWatch : List Ev := [⟨1, .added, 10⟩, ⟨2, .added, 20⟩, ⟨1, .modified, 11⟩, ⟨1, .modified, 11⟩, ⟨2, .deleted, 0⟩]
def demoSched : List Action :=
  [.w1, .w2, .s1 .sync, .w1, .s2 .sync, .w2, .w1, .w2, .e, .w1, .w1, .w2]

example : Quiescent (run true (init [.added, .modified, .deleted] [] demoWatch) demoSched)
    ∧ (run true (init [.added, .modified, .deleted] [] demoWatch) demoSched).syncMark = 1
    ∧ (run true (init [.added, .modified, .deleted] [] demoWatch) demoSched).delivered
        = [⟨2, .added, 20⟩, ⟨1, .modified, 11⟩, ⟨2, .deleted, 0⟩]
    ∧ NoLoss (run true (init [.added, .modified, .deleted] [] demoWatch) demoSched) := by decide

/-! ## Witnesses -/

/-- R1 (repaired, commit in known_findings.txt): with the flag read and the append in two critical
sections, the unlock can slip in between and the event stays in the buffer for ever. -/
theorem r1_unrepaired_flag_window_loses_event :
    let s := run false (init [.added, .modified, .deleted] [] [⟨1, .added, 10⟩])
      [.s1 .sync, .s2 .sync, .w1, .w2, .e, .w3]
    Quiescent s ∧ ¬ NoLoss s := by decide

/-- R2 (repaired): with the cache copy outside `eventBufLock`, an event cached and buffered between
the copy and the reset is neither in the view nor delivered. -/
theorem r2_unrepaired_copy_reset_window_loses_event :
    let s := run false (init [.added, .modified, .deleted] [] [⟨1, .added, 10⟩])
      [.s1 .sync, .w1, .w2, .w3, .s2 .sync, .e]
    Quiescent s ∧ ¬ NoLoss s := by decide

/-- The same two schedules are harmless under the repaired discipline. -/
theorem r1_r2_schedules_repaired :
    NoLoss (run true (init [.added, .modified, .deleted] [] [⟨1, .added, 10⟩])
      [.s1 .sync, .s2 .sync, .w1, .w2, .e, .w3]) ∧
    NoLoss (run true (init [.added, .modified, .deleted] [] [⟨1, .added, 10⟩])
      [.s1 .sync, .w1, .w2, .w3, .s2 .sync, .w2, .e]) := by decide

/-- R3 (recorded finding `foreign-snapshot-while-locked`, still in the code): another reader's
`Snapshot()` between the Synchronization view and the unlock drops the buffered event. -/
theorem r3_foreign_reader_loses_event :
    let s := run true (init [.added, .modified, .deleted] [] [⟨1, .added, 10⟩])
      [.s1 .sync, .s2 .sync, .w1, .w2, .s1 .foreign, .s2 .foreign, .e]
    Quiescent s ∧ ¬ NoLoss s := by decide

end ShellOp.Informer.C01

/-! # Monitor level: namespaces that appear after start (namespace.labelSelector bindings) -/
namespace ShellOp.MonitorEnable.C01

open ShellOp.MonitorEnable

/-- **C01 (namespaces appearing after start).** For every interleaving of `EnableKubeEventCb` with
any number of namespace-added callbacks (and whatever the range over the varying informers happens
to visit besides the keys stored before it began): once the unlock has finished and no callback is
in flight, every informer of the monitor is unlocked — static ones, those of namespaces stored
before, during and after the unlock. With `Props/C01` (informer level) no event of such a namespace
stays buffered for ever. -/
theorem every_informer_enabled (st : List Bool) (v : List (Nat × Bool)) (sched : List MAct) :
    Settled (run true { statics := st, varying := v } sched) →
    AllEnabled (run true { statics := st, varying := v } sched) := by
  have g := good_run _ sched (good_init st v)
  generalize run true { statics := st, varying := v } sched = s at g
  rintro ⟨hd, hi⟩
  refine ⟨g.statics (by simp [hd]), fun p hp => ?_⟩
  rcases g.finished hd p hp with h | h
  · exact h
  · rw [hi] at h; simp at h

/-- Non-vacuity: a namespace stored while the range is running, missed by it, is still unlocked. -/
example :
    let s := run true { statics := [false], varying := [(1, false)] }
      [.ea, .ea, .ea, .nsStore 2, .ea, .ea, .nsRead 2, .nsStore 3, .nsRead 3]
    Settled s ∧ AllEnabled s ∧ s.varying.length = 3 := by decide

/-- R4 (repaired, commit in known_findings.txt): with the flag written after the range, a namespace
that appears between the range and the flag write stays locked for ever. -/
theorem r4_unrepaired_flag_after_range_leaves_namespace_locked :
    let s := run false { statics := [false], varying := [] }
      [.ea, .ea, .ea, .nsStore 1, .nsRead 1, .ea]
    Settled s ∧ ¬ AllEnabled s := by decide

/-- **C01 (namespaces that go away and come back).** `live` is the set of matching namespaces that
exist according to the namespace informer's own Added/Deleted events (a ghost: it is updated by the
cluster's history alone, never by the guards of the callbacks). For every interleaving of the
unlock with namespace add callbacks (two steps each) and namespace delete callbacks, over every
history of namespaces appearing, disappearing and re-appearing under the same name: once
everything has come to rest, every live namespace has informers registered in `VaryingInformers`
and they are unlocked — so (informer level) every later change there reaches the hook. -/
theorem live_namespaces_watched (st : List Bool) (nss : List Nat) (sched : List MAct) :
    Settled (run true (initial st nss) sched) → LiveWatched (run true (initial st nss) sched) := by
  have g := good_run _ sched (good_of_start (initial st nss) rfl rfl)
  have t := tracks_run true _ sched (tracks_initial st nss)
  generalize run true (initial st nss) sched = s at g t
  rintro ⟨hd, hi⟩ n hn
  have hk := t.watched n hn
  simp only [keys, List.mem_map] at hk
  obtain ⟨p, hp, rfl⟩ := hk
  refine ⟨p, hp, rfl, ?_⟩
  rcases g.finished hd p hp with h | h
  · exact h
  · rw [hi] at h; simp at h

/-- The ghost is honest: an Added namespace is live whatever the callback decides to do … -/
theorem added_namespace_is_live (fx : Bool) (s : MSt) (ns : Nat) :
    ∃ s', step fx s (.nsStore ns) = some s' ∧ ns ∈ s'.live := by
  by_cases h : s.varying.any (·.1 == ns) <;> simp [step, h]

/-- … and a Deleted one is not, whatever the callback decides to do. -/
theorem deleted_namespace_is_not_live (fx : Bool) (s s' : MSt) (ns : Nat)
    (h : step fx s (.nsDel ns) = some s') : ns ∉ s'.live := by
  simp only [step] at h
  split at h
  · simp at h
  · split at h <;> (simp only [Option.some.injEq] at h; subst h; simp)

/-- Non-vacuity: a namespace that existed at start is deleted after the unlock and created again
under the same name (then another one appears): both are watched, unlocked. -/
example :
    let s := run true (initial [] [1])
      [.ea, .ea, .ea, .ea, .ea, .nsDel 1, .nsStore 1, .nsRead 1, .nsStore 2, .nsRead 2, .nsDel 2]
    Settled s ∧ LiveWatched s ∧ s.live = [1] ∧ s.varying = [(1, true)] ∧ s.cancel = [1] := by decide

/-- What the invariant `Tracks` excludes: were the add callback to consult the cancel index and the
delete callback to leave its entry behind (state reached: informers gone, cancel entry still there),
a namespace that comes back would be ignored. Shown on a model state, not a schedule of the code. -/
example : ¬ Tracks { varying := [], cancel := [1], live := [1] } := by
  intro t; have := t.watched 1 (by simp); simp [keys] at this

/-- Every informer of the monitor is locked and `eventsEnabled` is unset — as long as the unlock has not begun. -/
def LockedBefore (s : MSt) : Prop :=
  s.ea = .start → s.flag = false ∧ (∀ b ∈ s.statics, b = false) ∧ (∀ p ∈ s.varying, p.2 = false)

theorem lockedBefore_step (s s' : MSt) (a : MAct) (h : step true s a = some s')
    (g : LockedBefore s) : LockedBefore s' := by
  intro he
  cases a with
  | ea =>
    simp only [step] at h
    split at h <;> first
      | (simp only [if_true, Option.some.injEq] at h; subst h; simp at he)
      | simp at h
  | visitExtra ns =>
    simp only [step] at h
    split at h
    · rename_i hea
      simp only [Option.some.injEq] at h; subst h
      simp [hea] at he
    · simp at h
  | nsStore ns =>
    simp only [step] at h
    split at h
    · simp only [Option.some.injEq] at h; subst h
      exact g he
    · simp only [Option.some.injEq] at h; subst h
      obtain ⟨hf, hs, hv⟩ := g he
      refine ⟨hf, hs, fun p hp => ?_⟩
      rcases List.mem_append.mp hp with hp | hp
      · exact hv p hp
      · simp at hp; subst hp; rfl
  | nsRead ns =>
    simp only [step] at h
    split at h
    · simp only [Option.some.injEq] at h; subst h
      obtain ⟨hf, hs, hv⟩ := g he
      refine ⟨hf, hs, fun p hp => ?_⟩
      simp only [hf] at hp
      exact hv p (by simpa using hp)
    · simp at h
  | nsDel ns =>
    simp only [step] at h
    split at h
    · simp at h
    · split at h
      · simp only [Option.some.injEq] at h; subst h
        obtain ⟨hf, hs, hv⟩ := g he
        exact ⟨hf, hs, fun p hp => hv p (List.mem_filter.mp hp).1⟩
      · simp only [Option.some.injEq] at h; subst h
        exact g he

/-- **C01 ("No Event of a binding is handed to the hook before that binding's Synchronization step
has completed successfully"), monitor level.** From the state `CreateInformers` + `Start` leave
behind — every static informer locked, `nss` the matching namespaces that existed, INCLUDING NONE
(`nss = []`: the monitor starts without a single informer) — over every history of namespaces
appearing, disappearing and coming back and every interleaving of their callbacks: as long as
`EnableKubeEventCb` (called only after the successful Synchronization, `unlock_only_combined`) has
not begun, `eventsEnabled` is unset and every informer the monitor has, old or new, is locked — so
(informer level, `no_event_before_unlock`) it hands nothing to the hook. -/
theorem locked_until_unlock (st : List Bool) (nss : List Nat) (sched : List MAct)
    (hst : ∀ b ∈ st, b = false) :
    LockedBefore (run true (initial st nss) sched) := by
  have h0 : LockedBefore (initial st nss) := by
    intro _
    refine ⟨rfl, hst, fun p hp => ?_⟩
    simp only [initial, List.mem_map] at hp
    obtain ⟨n, _, rfl⟩ := hp
    rfl
  generalize initial st nss = s at h0
  induction sched generalizing s with
  | nil => exact h0
  | cons a rest ih =>
    simp only [run, List.foldl_cons]
    cases hs : step true s a with
    | none => simpa [run, hs] using ih s h0
    | some s' => simpa [run, hs] using ih s' (lockedBefore_step s s' a hs h0)

/-- Non-vacuity, the boundary: no namespace matches at start; two appear (callbacks complete) before
the unlock has begun — both have informers, all of them locked, the flag unset; after the unlock
both are unlocked. -/
example :
    let s := run true (initial [] []) [.nsStore 1, .nsRead 1, .nsStore 2, .nsRead 2]
    s.ea = .start ∧ s.varying = [(1, false), (2, false)] ∧ s.flag = false ∧
    AllEnabled (run true s [.ea, .ea, .ea, .ea, .ea, .ea]) := by decide

/-- What `locked_until_unlock` excludes: were the monitor to start with `eventsEnabled` already set
(here: put into the state by hand), the informers of the first namespace that appears would pass
events on before the unlock — i.e. before the Synchronization has completed. -/
example :
    let s := run true { (initial [] []) with flag := true } [.nsStore 1, .nsRead 1]
    s.ea = .start ∧ s.varying = [(1, true)] := by decide

end ShellOp.MonitorEnable.C01


/-! # Operator level: which bindings the success of a (combined) Synchronization run unlocks

`taskHandleHookRun` unlocks the monitors named by `hookMeta.MonitorIDs`, which it takes from the
result of `combineBindingContextForHook` (model: `Model/Combine`, proved equal to the list
specification in `Props/C07`). -/
namespace ShellOp.Combine.C01

open ShellOp.Combine ShellOp.Combine.Spec

/-- Every task carries its own monitors (each kubernetes binding has a monitor of its own). -/
def OwnMonitors (l : List Task) : Prop :=
  ∀ a ∈ l, ∀ b ∈ l, a.id ≠ b.id → ∀ m ∈ a.mons, m ∉ b.mons

/-- **C01 (no unlock before the binding's own Synchronization).** Whatever the queue behind the
Synchronization task `t` looks like, whatever the stop-combine predicate and whatever other
goroutines append meanwhile: the monitor ids the combined run returns — the ones that are unlocked
when the run succeeds — contain no monitor of a task that stays in the queue. A binding whose
Synchronization task was not merged into this run (combining stopped at it or before it) is still
locked after it. -/
theorem unlock_only_combined (qs : QSet) (t : Task) (rest : List Task) (f : Option (Task → Bool))
    (apps : List (Nat × List Task))
    (hq : qs.get t.queue = some (t :: rest)) (hm : t.hasMeta = true)
    (nd : ((t :: rest).map (·.id)).Nodup)
    (fresh : ∀ a ∈ appsFor apps t.queue, a.id ∉ (t :: rest).map (·.id))
    (own : OwnMonitors (t :: rest))
    (ctxs : List Ctx) (mons : List Nat) (qs' : QSet)
    (h : combineGo qs (some t.queue) t f (appendEnv apps) = (.res ctxs mons, qs')) :
    ∀ tsk ∈ rest.dropWhile (combinable t f), ∀ m ∈ tsk.mons, m ∉ mons := by
  rw [C07.concurrent_append_safe qs t rest f apps hq hm nd fresh] at h
  simp only [C07.specOutcome, Prod.mk.injEq] at h
  by_cases he : merged t f rest = []
  · simp [he] at h
  · simp only [he, if_false, Outcome.res.injEq] at h
    obtain ⟨⟨_, hmons⟩, _⟩ := h
    intro tsk htsk m hm' hin
    have hsplit := List.takeWhile_append_dropWhile (p := combinable t f) (l := rest)
    have htr : tsk ∈ rest := by rw [← hsplit]; exact List.mem_append_right _ htsk
    simp only [List.map_cons, List.nodup_cons, List.mem_map, not_exists, not_and] at nd
    rw [← hmons] at hin
    simp only [monitors, List.mem_append, List.mem_flatMap] at hin
    rcases hin with hin | ⟨x, hx, hin⟩
    · -- a monitor of the head task itself
      have hne : t.id ≠ tsk.id := fun e => nd.1 tsk htr e.symm
      exact own t (List.mem_cons_self) tsk (List.mem_cons_of_mem _ htr) hne m hin hm'
    · -- a monitor of a merged task: it stands in the prefix, `tsk` in the rest
      have hxr : x ∈ rest := by rw [← hsplit]; exact List.mem_append_left _ hx
      have hnd2 : ((List.takeWhile (combinable t f) rest ++ List.dropWhile (combinable t f) rest).map (·.id)).Nodup := by
        rw [hsplit]; exact nd.2
      rw [List.map_append, List.nodup_append] at hnd2
      have hne : x.id ≠ tsk.id :=
        hnd2.2.2 x.id (List.mem_map.mpr ⟨x, hx, rfl⟩) tsk.id (List.mem_map.mpr ⟨tsk, htsk, rfl⟩)
      exact own x (List.mem_cons_of_mem _ hxr) tsk (List.mem_cons_of_mem _ htr) hne m hin hm'

/-- Non-vacuity: two bindings of one group, then a binding with `allowFailure: true` at which
combining stops: monitors 7 and 8 are returned, 9 (the task that stays in the queue) is not. -/
example : combineGo [(0, [{ id := 1, ctxs := [⟨1, 0, 5⟩], mons := [7], group := 5, btype := 2 },
      { id := 2, ctxs := [⟨2, 0, 5⟩], mons := [8], group := 5, btype := 2 },
      { id := 3, ctxs := [⟨3, 0, 0⟩], mons := [9], allowFailure := true, btype := 2 }])] (some 0)
      { id := 1, ctxs := [⟨1, 0, 5⟩], mons := [7], group := 5, btype := 2 }
      (some fun tsk => tsk.allowFailure != false) id
    = (.res [⟨2, 0, 5⟩] [7, 8],
       [(0, [{ id := 1, ctxs := [⟨1, 0, 5⟩], mons := [7], group := 5, btype := 2 },
             { id := 3, ctxs := [⟨3, 0, 0⟩], mons := [9], allowFailure := true, btype := 2 }])]) := by
  decide

/-! ## The retried Synchronization run is still a Synchronization

`taskHandleHookRun` decides `isSynchronization := hookMeta.IsSynchronization()` (first context is a
kubernetes Synchronization) when it is entered, and unlocks `hookMeta.MonitorIDs` after a successful
run only if that was true. The combined contexts and monitor ids are written back into the task
(`t.UpdateMetadata`), so a run that FAILED is retried with the task as it was executed: the decision
is taken again, on the combined contexts. -/

/-- A Synchronization task: kubernetes binding, at least one context, every context a Synchronization. -/
def SyncTask (t : Task) : Prop := t.btype = 2 ∧ t.ctxs ≠ [] ∧ ∀ c ∈ t.ctxs, c.typ = 0

theorem compact_mem {x : Ctx} {l : List Ctx} (h : x ∈ Spec.compact l) : x ∈ l := by
  induction l using Spec.compact.induct with
  | case1 => simp [Spec.compact] at h
  | case2 c => simpa [Spec.compact] using h
  | case3 c d rest hc ih =>
    have e : Spec.compact (c :: d :: rest) = Spec.compact (d :: rest) := by simp [Spec.compact, hc]
    rw [e] at h
    exact List.mem_cons_of_mem _ (ih h)
  | case4 c d rest hc ih =>
    have e : Spec.compact (c :: d :: rest) = c :: Spec.compact (d :: rest) := by simp [Spec.compact, hc]
    rw [e] at h
    rcases List.mem_cons.mp h with rfl | h
    · exact List.mem_cons_self
    · exact List.mem_cons_of_mem _ (ih h)

theorem SyncTask.isSync {t : Task} (h : SyncTask t) : t.isSync = true := by
  obtain ⟨hb, hne, hall⟩ := h
  cases hc : t.ctxs with
  | nil => exact absurd hc hne
  | cons c rest =>
    have := hall c (by rw [hc]; exact List.mem_cons_self)
    simp [Task.isSync, hc, hb, this]

/-- Tie T4: `HookMetadata.IsSynchronization` as translated from the Go source on every run
(`len(m.BindingContext) > 0 && m.BindingContext[0].IsSynchronization()`) is the model's
`Task.isSync`, for every task — however many contexts it carries. -/
theorem translated_isSynchronization_eq_model (t : Task) :
    ShellOp.Trans.hookMetaIsSynchronization t.btype t.ctxs = t.isSync := by
  cases h : t.ctxs with
  | nil => simp [ShellOp.Trans.hookMetaIsSynchronization, Task.isSync, h, Id.run]; rfl
  | cons c rest => simp [ShellOp.Trans.hookMetaIsSynchronization, Task.isSync, h, Id.run]; rfl

/-- The task that is written back is a Synchronization task whenever everything merged into it
carries Synchronization contexts only — for any stop predicate, hook version, queue, concurrent
appends. -/
theorem prepared_is_synchronization_of_sync_merged (stopOf : Task → Option (Task → Bool)) (version : Nat)
    (qs : QSet) (t : Task) (rest : List Task) (apps : List (Nat × List Task))
    (hq : qs.get t.queue = some (t :: rest)) (hm : t.hasMeta = true)
    (nd : ((t :: rest).map (·.id)).Nodup)
    (fresh : ∀ a ∈ appsFor apps t.queue, a.id ∉ (t :: rest).map (·.id))
    (ht : SyncTask t)
    (hmerged : ∀ x ∈ Spec.merged t (stopOf t) rest, ∀ c ∈ x.ctxs, c.typ = 0)
    (t' : Task) (qs' : QSet)
    (h : prepareRun stopOf version qs t (appendEnv apps) = (some t', qs')) :
    SyncTask t' ∧ t'.isSync = true ∧ ∀ m ∈ t.mons, m ∈ t'.mons := by
  suffices hs : SyncTask t' ∧ ∀ m ∈ t.mons, m ∈ t'.mons from ⟨hs.1, hs.1.isSync, hs.2⟩
  have self : SyncTask t ∧ ∀ m ∈ t.mons, m ∈ t.mons := ⟨ht, fun _ h => h⟩
  simp only [prepareRun] at h
  split at h
  · split at h
    · rw [C07.concurrent_append_safe qs t rest (stopOf t) apps hq hm nd fresh] at h
      simp only [C07.specOutcome] at h
      by_cases he : Spec.merged t (stopOf t) rest = []
      · simp only [he, if_true, Prod.mk.injEq, Option.some.injEq] at h
        obtain ⟨rfl, _⟩ := h; exact self
      · simp only [he, if_false, Prod.mk.injEq, Option.some.injEq] at h
        obtain ⟨rfl, _⟩ := h
        obtain ⟨hb, hne, hall⟩ := ht
        refine ⟨⟨hb, ?_, ?_⟩, ?_⟩
        · -- the combined contexts are not empty
          show Spec.contexts t _ ≠ []
          cases hc : t.ctxs with
          | nil => exact absurd hc hne
          | cons c cs =>
            simp only [Spec.contexts, hc, List.cons_append]
            exact compact_ne_nil c _
        · -- every combined context is a Synchronization
          intro c hc
          have hc := compact_mem (show c ∈ Spec.compact _ from hc)
          rcases List.mem_append.mp hc with hc | hc
          · exact hall c hc
          · obtain ⟨x, hx, hcx⟩ := List.mem_flatMap.mp hc
            exact hmerged x hx c hcx
        · -- the monitor ids of `t` come first
          intro m hm'
          show m ∈ (if (Spec.monitors t _).length > 0 then Spec.monitors t _ else t.mons)
          split
          · exact List.mem_append_left _ hm'
          · exact hm'
    · simp only [Prod.mk.injEq, Option.some.injEq] at h
      obtain ⟨rfl, _⟩ := h; exact self
  · simp only [Prod.mk.injEq, Option.some.injEq] at h
    obtain ⟨rfl, _⟩ := h; exact self

/-- Tasks behind the executed one are as they were created (only the executed head task is ever
rewritten by combining; `HandleEnableKubernetesBindings` creates one context per task): a task
whose FIRST context is a Synchronization carries Synchronization contexts only. -/
def AsCreated (rest : List Task) : Prop := ∀ x ∈ rest, x.isSync = true → ∀ c ∈ x.ctxs, c.typ = 0

/-- **C01 (Synchronization that succeeds on a retry)** — for the stop predicate of the code as it is
(after the repair of this wave: a Synchronization task is merged with Synchronization tasks only).
`t` is the Synchronization task at the head of its queue; behind it ANY tasks (Events of bindings of
the same hook and group that are already unlocked, Schedule tasks, …), other goroutines append
more meanwhile; any hook version, any groups, any `allowFailure` / `executeHookOnSynchronization`.
The task that is written back and executed — and RETRIED after a failed run — is again a
Synchronization task: `IsSynchronization()` answers `true` for it however many contexts it
carries now, and it carries every monitor id of `t`. So whichever attempt succeeds takes the
unlock branch for all of them (`unlock_only_combined`: and for nothing that stays queued). -/
theorem retried_synchronization_is_synchronization (version : Nat)
    (qs : QSet) (t : Task) (rest : List Task) (apps : List (Nat × List Task))
    (hq : qs.get t.queue = some (t :: rest)) (hm : t.hasMeta = true)
    (nd : ((t :: rest).map (·.id)).Nodup)
    (fresh : ∀ a ∈ appsFor apps t.queue, a.id ∉ (t :: rest).map (·.id))
    (ht : SyncTask t) (hrest : AsCreated rest)
    (t' : Task) (qs' : QSet)
    (h : prepareRun stopOnAllowFailureChangeOrSkippedSync version qs t (appendEnv apps) = (some t', qs')) :
    SyncTask t' ∧ t'.isSync = true ∧ ∀ m ∈ t.mons, m ∈ t'.mons := by
  refine prepared_is_synchronization_of_sync_merged _ version qs t rest apps hq hm nd fresh ht ?_ t' qs' h
  intro x hx c hc
  have hxr : x ∈ rest := (List.takeWhile_sublist _).subset hx
  have hcomb := (takeWhile_mem hx).2
  have hts := ht.isSync
  simp only [Spec.combinable, stopOnAllowFailureChangeOrSkippedSync, hts, Bool.true_and,
    Bool.and_eq_true, Bool.not_eq_true', Bool.or_eq_false_iff, Bool.not_eq_false'] at hcomb
  exact hrest x hxr hcomb.2.1.1 c hc

/-- Non-vacuity (the layout of the harness' fixed case 6): two bindings of group 5 and a binding
without a group in one hook; the run that combines them carries TWO contexts and three monitors and
is a Synchronization task; retried (combined again with nothing), it still is. -/
example :
    let q : List Task := [{ id := 1, ctxs := [⟨1, 0, 5⟩], mons := [7], group := 5, btype := 2 },
                          { id := 2, ctxs := [⟨2, 0, 5⟩], mons := [8], group := 5, btype := 2 },
                          { id := 3, ctxs := [⟨3, 0, 0⟩], mons := [9], btype := 2 }]
    let r := prepareRun stopOnAllowFailureChangeOrSkippedSync 1 [(0, q)] q.head! id
    (r.1.map (·.ctxs)) = some [⟨2, 0, 5⟩, ⟨3, 0, 0⟩] ∧ (r.1.map (·.mons)) = some [7, 8, 9] ∧
    (r.1.map (·.isSync)) = some true ∧
    ((r.1.bind fun t1 => (prepareRun stopOnAllowFailureChangeOrSkippedSync 1 r.2 t1 id).1).map (·.isSync)) = some true := by
  decide

/-- The defect this wave found on the unchanged tree (repaired, commit in the notes): before the
repair the Synchronization task of a grouped binding (monitor 7) was merged with a following Event
task of the same group (a binding of that group whose Synchronization is not executed is unlocked
at once and its Events queue up behind). Group compaction kept the Event context only; that run
failed; the retry is no Synchronization any more: it succeeds and unlocks NOTHING — monitor 7 stays
locked for the life of the process. (Harness: fixed case 850012.) -/
theorem sync_boundary_unrepaired_retry_unlocks_nothing :
    let t : Task := { id := 1, ctxs := [⟨1, 0, 5⟩], mons := [7], group := 5, btype := 2 }
    let e : Task := { id := 2, ctxs := [⟨2, 1, 5⟩], mons := [8], group := 5, btype := 2 }
    let cfg : Retry.Cfg := { stopOf := stopBeforeSyncBoundaryRepair, version := fun _ => 1, backoff := fun _ _ => 0 }
    let h1 := Retry.taskHandleHookRun cfg [t, e] t false
    let h2 := Retry.taskHandleHookRun cfg h1.items h1.items.head! true
    h1.status = .fail ∧ h1.items.head!.ctxs = [⟨2, 1, 5⟩] ∧ h1.items.head!.isSync = false ∧
    h2.status = .success ∧ h2.unlocked = [] := by decide

/-- The same queue with the repaired predicate: the Event stays queued, the retry unlocks monitor 7. -/
theorem sync_boundary_repaired_retry_unlocks :
    let t : Task := { id := 1, ctxs := [⟨1, 0, 5⟩], mons := [7], group := 5, btype := 2 }
    let e : Task := { id := 2, ctxs := [⟨2, 1, 5⟩], mons := [8], group := 5, btype := 2 }
    let cfg : Retry.Cfg := { stopOf := stopOnAllowFailureChangeOrSkippedSync, version := fun _ => 1, backoff := fun _ _ => 0 }
    let h1 := Retry.taskHandleHookRun cfg [t, e] t false
    let h2 := Retry.taskHandleHookRun cfg h1.items h1.items.head! true
    h1.status = .fail ∧ h1.items = [t, e] ∧ h2.status = .success ∧ h2.unlocked = [7] := by decide

end ShellOp.Combine.C01


/-! # Hook-run level: the snapshot reads of the Synchronization run itself

Quantifier item (b): "snapshot reads by the Synchronization run itself". Every read of a still-locked
binding drops the informer's event buffer; by `delivered_since_last_read` the events delivered after
the unlock are those fired since the LAST such read. So the view the hook is given must be the view
of the last read the run made. `UpdateSnapshots` (model `Model/SnapshotCache`) guarantees more: one
read per binding per run, and every view handed out is that read's. -/
namespace ShellOp.SnapshotCache.C01

open ShellOp.SnapshotCache

/-- **C01 (one read per binding per hook run).** For any list of binding contexts refreshed for one
hook run (combined Synchronizations, groups, self-includes, includes of other bindings) and whatever
the cluster does between two reads (`snap k b` is what the k-th read returns): no binding is read
twice. -/
theorem run_reads_each_binding_once (snap : Nat → Nat → View) (ctxs : List BC) :
    (updateSnapshots snap ctxs).1.calls.Nodup :=
  (updateSnapshots_spec snap ctxs {} [] (ok_init snap) (by simp)).1.nodup

/-- **C01 (the hook sees the view of that one read).** Every view of binding `b` handed to the hook
in this run — `snapshots[b]` of any context, `objects` of a Synchronization context of `b` — is
what the single read number `k` of `b` returned; `k` is the only position of `b` in the read log.
In particular it is the LAST read of `b` by this run, the one `delivered_since_last_read` counts
from. -/
theorem run_hands_out_the_single_read (snap : Nat → Nat → View) (ctxs : List BC) :
    let r := updateSnapshots snap ctxs
    ∀ o ∈ r.2,
      (∀ p ∈ o.snaps, ∃ k, r.1.calls[k]? = some p.1 ∧ p.2 = snap k p.1 ∧
          ∀ j, r.1.calls[j]? = some p.1 → j = k) ∧
      (∀ v, o.objects = some v → ∃ k, r.1.calls[k]? = some o.binding ∧ v = snap k o.binding ∧
          ∀ j, r.1.calls[j]? = some o.binding → j = k) := by
  intro r o ho
  obtain ⟨hok, hout⟩ := updateSnapshots_spec snap ctxs {} [] (ok_init snap) (by simp)
  have uniq : ∀ (b k : Nat), r.1.calls[k]? = some b → ∀ j, r.1.calls[j]? = some b → j = k := by
    intro b k hk j hj
    obtain ⟨hkl, hkv⟩ := List.getElem?_eq_some_iff.mp hk
    obtain ⟨hjl, hjv⟩ := List.getElem?_eq_some_iff.mp hj
    exact (List.getElem_inj (h₀ := hjl) (h₁ := hkl) hok.nodup).mp (by rw [hjv, hkv])
  constructor
  · intro p hp
    obtain ⟨k, hk, hv⟩ := hok.fromCall p.1 p.2 ((hout o ho).1 p hp)
    exact ⟨k, hk, hv, uniq p.1 k hk⟩
  · intro v hv
    obtain ⟨k, hk, hvv⟩ := hok.fromCall o.binding v ((hout o ho).2 v hv)
    exact ⟨k, hk, hvv, uniq o.binding k hk⟩

/-- Non-vacuity: a grouped binding (includes itself) whose first read is EMPTY while the cluster
changes right after it: one read, `snapshots` and `objects` both show that read. -/
example :
    updateSnapshots (fun k _ => if k = 0 then [] else [1]) [⟨7, [7], true⟩]
      = ({ cache := [(7, [])], calls := [7] }, [⟨7, [(7, [])], some []⟩]) := by decide

/-- … and two combined contexts that include each other's bindings: two reads, shared views. -/
example :
    (updateSnapshots (fun k b => [10 * k + b]) [⟨1, [1, 2], true⟩, ⟨2, [1, 2], true⟩]).1.calls = [1, 2] := by
  decide

end ShellOp.SnapshotCache.C01


/-!
## From the event to the run, and the shared informer behind the bindings (fifth wave)

`Model/EventFlow`: the single consumer (`ManagerEventsHandler.Start`) appends one tail task per event
with `AddLast` — unconditionally —, the worker's run reads its snapshots when it starts and its task
stays in the queue until the run has succeeded; the shared informer of a `FactoryStore` entry runs on
the factory's context. Tied to the code by the skeletons `ManagerEventsHandler.Start`,
`c02.FactoryStore.Start`, `c02.FactoryStore.Stop` (T3) and by the operator / manager suites of the
harness (held later executions; monitors joining and leaving one shared informer).
-/
namespace ShellOp.EventFlow.C01

open ShellOp.EventFlow

/-- **C01 (group form: "is followed by a Group execution whose snapshots reflect it").** For every
interleaving of informer callbacks (`change`), the consumer of the event channel (`consume`) and
the queue worker (`begin` with any number of merged followers, `finish`, `fail` + retry): when
nothing is on its way and the queue is empty, the run that started last read its snapshots after the
last change — every change has been followed by a run that reflects it, also a change that arrived
while a run of the same group was being executed and was the only task of its queue. -/
theorem every_change_followed_by_a_run (sched : List Tail.Act) :
    Tail.AtRest (Tail.run Tail.addLast {} sched) →
    (Tail.run Tail.addLast {} sched).seen = (Tail.run Tail.addLast {} sched).ver := by
  have g := Tail.covered_run {} sched Tail.covered_init
  generalize Tail.run Tail.addLast {} sched = s at g
  rintro ⟨hp, hq⟩
  rcases g.cov with h | h | h
  · exact h
  · exact absurd hp h
  · exfalso; apply h; unfold Tail.waiting; rw [hq]; simp

/-- non-vacuity: a change arrives while the run for the previous one is being executed and is the
only task of the queue; rest is reached, two changes, the last run has seen both -/
example :
    let s := Tail.run Tail.addLast {} [.change 7, .consume, .begin 0, .change 7, .consume, .finish, .begin 0, .finish]
    Tail.AtRest s ∧ s.ver = 2 ∧ s.seen = 2 := by decide

/-- the same with a failing run in between and a run that merges its follower -/
example :
    let s := Tail.run Tail.addLast {} [.change 7, .consume, .change 7, .begin 0, .consume, .fail, .begin 5, .finish]
    Tail.AtRest s ∧ s.ver = 2 ∧ s.seen = 2 := by decide

/-- **Witness (not the code).** "Do not queue a task when the queue already ends with a task of the
same hook and group": the last task may be the one that is being executed and has read its snapshots
already — the change is never followed by a run. -/
theorem skipping_behind_the_running_task_loses_the_change :
    let s := Tail.run Tail.addUnlessLastHasKey {} [.change 7, .consume, .begin 0, .change 7, .consume, .finish]
    Tail.AtRest s ∧ s.ver = 2 ∧ s.seen = 1 := by decide

/-- **C01 ("every later change … reaches the hook", all binding configurations: bindings with equal
kind / namespace / selectors share one informer).** For every sequence of resource informers of one
factory index starting and stopping (StopMonitor, namespace deleted, restart): an informer whose
handler is registered is served by a RUNNING shared informer — whichever informer started it and
whichever of its siblings have gone. -/
theorem shared_informer_runs_while_served (ops : List Shared.Op) (i : Nat) :
    Shared.served (Shared.run Shared.bindFactory {} ops) i = true →
    Shared.running (Shared.run Shared.bindFactory {} ops) = true := by
  have g := Shared.bound_run {} ops (by intro f h; simp at h)
  generalize Shared.run Shared.bindFactory {} ops = s at g
  unfold Shared.served Shared.running
  cases hf : s.fac with
  | none => simp
  | some f => intro _; simp [g f hf]

/-- non-vacuity: the informer that started the shared informer leaves, the other one is still served -/
example :
    let s := Shared.run Shared.bindFactory {} [.start 1, .start 2, .stop 1]
    Shared.served s 2 = true ∧ Shared.served s 1 = false ∧ Shared.running s = true := by decide

/-- **Witness (not the code).** `Run` bound to the context of the caller of `Start`: when the informer
that happened to start the shared informer stops, its sibling stays registered with a shared informer
that has stopped — it never hears of a change again. Stopping the one that joined is harmless. -/
theorem run_bound_to_first_starter_goes_deaf :
    (let s := Shared.run Shared.bindCaller {} [.start 1, .start 2, .stop 1]
     Shared.served s 2 = true ∧ Shared.running s = false) ∧
    (let s := Shared.run Shared.bindCaller {} [.start 1, .start 2, .stop 2]
     Shared.served s 1 = true ∧ Shared.running s = true) := by decide

end ShellOp.EventFlow.C01
