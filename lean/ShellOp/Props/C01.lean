import ShellOp.Proofs.Informer
import ShellOp.Proofs.InformerReplay
import ShellOp.Proofs.MonitorEnable
/-!
# C01 — no cluster change is lost between Synchronization and later Events

Theorems over `Model/Informer` (hand-over protocol of one `resourceInformer`, repaired locking
discipline `fx = true`), for EVERY binding configuration (`types`), initial cache, watch history and
EVERY schedule of the watch thread, any number of snapshot readers and the unlock.
-/
namespace ShellOp.Informer.C01

open ShellOp.Informer

/-- **C01 (last sentence).** No Event of a binding is handed over before the unlock that follows
its successful Synchronization. -/
theorem no_event_before_unlock (types : List Kind) (c : Cache) (w : List Ev) (sched : List Action) :
    (run true (init types c w) sched).enabled = false →
    (run true (init types c w) sched).delivered = [] := by
  intro h
  exact ((good_run _ sched (good_init types c w)).locked h).2

/-- **C01 (order).** What is handed over is, at every moment, a contiguous run of the changes that
passed the filters, in the order they happened — hence per object in the order of the changes. -/
theorem delivered_in_order (types : List Kind) (c : Cache) (w : List Ev) (sched : List Action) :
    InOrder (run true (init types c w) sched) := by
  have g := good_run _ sched (good_init types c w)
  generalize run true (init types c w) sched = s at g
  unfold InOrder
  cases he : s.enabled
  · rw [(g.locked he).2]; exact List.nil_infix
  · have := (g.unlocked he).1
    exact List.IsInfix.trans ⟨[], inflight s, by simpa using this⟩ (List.drop_suffix _ _).isInfix

theorem delivered_per_object_order (types : List Kind) (c : Cache) (w : List Ev) (sched : List Action)
    (o : Nat) :
    ((run true (init types c w) sched).delivered.filter (·.id == o)).Sublist
      ((run true (init types c w) sched).fired.filter (·.id == o)) :=
  (delivered_in_order types c w sched).sublist.filter _

/-- **C01 (no loss), universal form.** In every quiescent final state, every change that passed the
filters after the LAST snapshot copy taken while the binding was still locked has been handed over. -/
theorem delivered_since_last_read (types : List Kind) (c : Cache) (w : List Ev) (sched : List Action) :
    Quiescent (run true (init types c w) sched) →
    (run true (init types c w) sched).fired.drop (run true (init types c w) sched).anyMark
      <:+ (run true (init types c w) sched).delivered := by
  have g := good_run _ sched (good_init types c w)
  generalize run true (init types c w) sched = s at g
  rintro ⟨_, hw, _, he⟩
  have h := (g.unlocked he).1
  simp only [inflight, hw, List.append_nil] at h
  rw [h]
  have : s.fired.drop s.anyMark = (s.fired.drop s.base).drop (s.anyMark - s.base) := by
    rw [List.drop_drop]; congr 1; have := g.base_le; omega
  rw [this]; exact List.drop_suffix _ _

/-- **C01 (no loss) — partial.** When the last snapshot copy taken while the binding was locked is
the one the Synchronization run showed to the hook, nothing that happened after that view is lost.
The hypothesis excludes exactly the recorded finding `foreign-snapshot-while-locked`
(witness `r3_foreign_reader_loses_event` below). -/
theorem noLoss_partial (types : List Kind) (c : Cache) (w : List Ev) (sched : List Action) :
    Quiescent (run true (init types c w) sched) →
    (run true (init types c w) sched).syncMark = (run true (init types c w) sched).anyMark →
    NoLoss (run true (init types c w) sched) := by
  intro q hm
  unfold NoLoss
  rw [hm]; exact delivered_since_last_read types c w sched q

/-- A schedule-level sufficient condition for the hypothesis of `noLoss_partial`: no other reader
touches this binding at all. -/
theorem marks_eq_of_no_foreign (fx : Bool) (s : St) (sched : List Action)
    (h0 : s.syncMark = s.anyMark) (hf : ∀ a ∈ sched, a ≠ Action.s1 Tag.foreign) :
    (run fx s sched).syncMark = (run fx s sched).anyMark := by
  unfold run
  induction sched generalizing s with
  | nil => exact h0
  | cons a rest ih =>
    simp only [List.foldl_cons]
    apply ih
    · cases h : step fx s a with
      | none => simpa using h0
      | some s' =>
        simp only [Option.getD_some]
        cases a with
        | w1 =>
          simp only [step, stepW1] at h
          split at h <;> simp at h
          subst h; split <;> exact h0
        | w2 =>
          simp only [step] at h
          repeat' split at h
          all_goals first | (simp at h; done) | (simp only [Option.some.injEq] at h; subst h; exact h0)
        | w3 =>
          simp only [step] at h
          repeat' split at h
          all_goals first | (simp at h; done) | (simp only [Option.some.injEq] at h; subst h; exact h0)
        | s1 t =>
          have ht : t = Tag.sync := by
            cases t with
            | sync => rfl
            | foreign => exact absurd rfl (hf _ (List.mem_cons_self))
          subst ht
          simp only [step] at h
          repeat' split at h
          all_goals first | (simp at h; done) | (simp only [Option.some.injEq] at h; subst h; first | exact h0 | rfl | (exfalso; simp_all))
        | s2 t =>
          simp only [step] at h
          repeat' split at h
          all_goals first | (simp at h; done) | (simp only [Option.some.injEq] at h; subst h; exact h0)
        | e =>
          simp only [step] at h
          repeat' split at h
          all_goals first | (simp at h; done) | (simp only [Option.some.injEq] at h; subst h; exact h0)
    · intro a ha; exact hf a (List.mem_cons_of_mem _ ha)

/-- **C01 (no loss) for a binding nobody else reads.** -/
theorem noLoss_no_foreign (types : List Kind) (c : Cache) (w : List Ev) (sched : List Action)
    (hf : ∀ a ∈ sched, a ≠ Action.s1 Tag.foreign) :
    Quiescent (run true (init types c w) sched) → NoLoss (run true (init types c w) sched) :=
  fun q => noLoss_partial types c w sched q (marks_eq_of_no_foreign true _ sched rfl hf)

/-- **C01 (replay).** For a binding firing all three event types (with any jqFilter: a suppressed
change is exactly one that leaves the binding's projection of the object unchanged): applying the
delivered Events, in order, on top of the Synchronization view reproduces the final matching state
(as known to the operator), for every watch history and every schedule — duplicates of changes the
view already reflects are harmless. Same hypothesis as `noLoss_partial`. -/
theorem replay_reproduces_final_partial (c : Cache) (w : List Ev) (sched : List Action) :
    let s := run true (init [.added, .modified, .deleted] c w) sched
    Quiescent s → s.syncMark = s.anyMark →
    Cache.Same (s.delivered.foldl applyEv s.syncView) s.cache := by
  intro s q hm
  have g : Good s := good_run _ sched (good_init _ c w)
  have t : Tracks c s := tracks_run c _ sched
    ⟨by intro id; rfl, by intro id; simp [init], by simp [init], by intro k; cases k <;> rfl⟩
  obtain ⟨_, hw, _, he⟩ := q
  have hdel : s.delivered = s.fired.drop s.base := by
    have := (g.unlocked he).1
    simpa [inflight, hw] using this
  have hbs : s.base ≤ s.syncMark := by rw [hm]; exact g.base_le
  have hsl : s.syncMark ≤ s.fired.length := t.mark_le
  -- fired = A ++ P ++ Q with A = take base, P = the stale part, Q = after the view
  have hsplit : s.fired.drop s.base = (s.fired.take s.syncMark).drop s.base ++ s.fired.drop s.syncMark := by
    have e1 : s.fired.drop s.base = (s.fired.take s.syncMark ++ s.fired.drop s.syncMark).drop s.base := by
      rw [List.take_append_drop]
    rw [e1, List.drop_append_of_le_length (by simp; omega)]
  have htake : s.fired.take s.syncMark = s.fired.take s.base ++ (s.fired.take s.syncMark).drop s.base := by
    have : s.fired.take s.base = (s.fired.take s.syncMark).take s.base := by
      rw [List.take_take]; congr 1; omega
    rw [this, List.take_append_drop]
  intro id
  rw [hdel, hsplit, List.foldl_append]
  have h1 := same_foldl (s.fired.drop s.syncMark) _ _
    (same_foldl ((s.fired.take s.syncMark).drop s.base) _ _ t.view)
  rw [h1 id]
  have h2 : Cache.Same
      (List.foldl applyEv ((s.fired.take s.syncMark).foldl applyEv c) ((s.fired.take s.syncMark).drop s.base))
      ((s.fired.take s.syncMark).foldl applyEv c) := by
    have := replay_suffix_same c (s.fired.take s.base) ((s.fired.take s.syncMark).drop s.base)
    rw [← htake] at this; exact this
  rw [same_foldl (s.fired.drop s.syncMark) _ _ h2 id, ← List.foldl_append, List.take_append_drop]
  exact (t.cache id).symm

/-! ## Non-vacuity: a concrete run meeting the hypotheses with a non-trivial outcome -/

def demoWatch : List Ev := [⟨1, .added, 10⟩, ⟨2, .added, 20⟩, ⟨1, .modified, 11⟩, ⟨1, .modified, 11⟩, ⟨2, .deleted, 0⟩]
def demoSched : List Action :=
  [.w1, .w2, .s1 .sync, .w1, .s2 .sync, .w2, .w1, .w2, .e, .w1, .w1, .w2]

example : Quiescent (run true (init [.added, .modified, .deleted] [] demoWatch) demoSched)
    ∧ (run true (init [.added, .modified, .deleted] [] demoWatch) demoSched).syncMark = 1
    ∧ (run true (init [.added, .modified, .deleted] [] demoWatch) demoSched).delivered
        = [⟨2, .added, 20⟩, ⟨1, .modified, 11⟩, ⟨2, .deleted, 0⟩]
    ∧ NoLoss (run true (init [.added, .modified, .deleted] [] demoWatch) demoSched) := by decide

/-! ## Witnesses -/

/-- R1 (repaired, commit in known_findings.txt): with the flag read and the append in two critical
sections, the unlock can slip in between and the event stays in the buffer for ever. -/
theorem r1_unrepaired_flag_window_loses_event :
    let s := run false (init [.added, .modified, .deleted] [] [⟨1, .added, 10⟩])
      [.s1 .sync, .s2 .sync, .w1, .w2, .e, .w3]
    Quiescent s ∧ ¬ NoLoss s := by decide

/-- R2 (repaired): with the cache copy outside `eventBufLock`, an event cached and buffered between
the copy and the reset is neither in the view nor delivered. -/
theorem r2_unrepaired_copy_reset_window_loses_event :
    let s := run false (init [.added, .modified, .deleted] [] [⟨1, .added, 10⟩])
      [.s1 .sync, .w1, .w2, .w3, .s2 .sync, .e]
    Quiescent s ∧ ¬ NoLoss s := by decide

/-- The same two schedules are harmless under the repaired discipline. -/
theorem r1_r2_schedules_repaired :
    NoLoss (run true (init [.added, .modified, .deleted] [] [⟨1, .added, 10⟩])
      [.s1 .sync, .s2 .sync, .w1, .w2, .e, .w3]) ∧
    NoLoss (run true (init [.added, .modified, .deleted] [] [⟨1, .added, 10⟩])
      [.s1 .sync, .w1, .w2, .w3, .s2 .sync, .w2, .e]) := by decide

/-- R3 (recorded finding `foreign-snapshot-while-locked`, still in the code): another reader's
`Snapshot()` between the Synchronization view and the unlock drops the buffered event. -/
theorem r3_foreign_reader_loses_event :
    let s := run true (init [.added, .modified, .deleted] [] [⟨1, .added, 10⟩])
      [.s1 .sync, .s2 .sync, .w1, .w2, .s1 .foreign, .s2 .foreign, .e]
    Quiescent s ∧ ¬ NoLoss s := by decide

end ShellOp.Informer.C01

/-! # Monitor level: namespaces that appear after start (namespace.labelSelector bindings) -/
namespace ShellOp.MonitorEnable.C01

open ShellOp.MonitorEnable

/-- **C01 (namespaces appearing after start).** For every interleaving of `EnableKubeEventCb` with
any number of namespace-added callbacks (and whatever the range over the varying informers happens
to visit besides the keys stored before it began): once the unlock has finished and no callback is
in flight, every informer of the monitor is unlocked — static ones, those of namespaces stored
before, during and after the unlock. With `Props/C01` (informer level) no event of such a namespace
stays buffered for ever. -/
theorem every_informer_enabled (st : List Bool) (v : List (Nat × Bool)) (sched : List MAct) :
    Settled (run true { statics := st, varying := v } sched) →
    AllEnabled (run true { statics := st, varying := v } sched) := by
  have g := good_run _ sched (good_init st v)
  generalize run true { statics := st, varying := v } sched = s at g
  rintro ⟨hd, hi⟩
  refine ⟨g.statics (by simp [hd]), fun p hp => ?_⟩
  rcases g.finished hd p hp with h | h
  · exact h
  · rw [hi] at h; simp at h

/-- Non-vacuity: a namespace stored while the range is running, missed by it, is still unlocked. -/
example :
    let s := run true { statics := [false], varying := [(1, false)] }
      [.ea, .ea, .ea, .nsStore 2, .ea, .ea, .nsRead 2, .nsStore 3, .nsRead 3]
    Settled s ∧ AllEnabled s ∧ s.varying.length = 3 := by decide

/-- R4 (repaired, commit in known_findings.txt): with the flag written after the range, a namespace
that appears between the range and the flag write stays locked for ever. -/
theorem r4_unrepaired_flag_after_range_leaves_namespace_locked :
    let s := run false { statics := [false], varying := [] }
      [.ea, .ea, .ea, .nsStore 1, .nsRead 1, .ea]
    Settled s ∧ ¬ AllEnabled s := by decide

/-- **C01 (namespaces that go away and come back).** `live` is the set of matching namespaces that
exist according to the namespace informer's own Added/Deleted events (a ghost: it is updated by the
cluster's history alone, never by the guards of the callbacks). For every interleaving of the
unlock with namespace add callbacks (two steps each) and namespace delete callbacks, over every
history of namespaces appearing, disappearing and re-appearing under the same name: once
everything has come to rest, every live namespace has informers registered in `VaryingInformers`
and they are unlocked — so (informer level) every later change there reaches the hook. -/
theorem live_namespaces_watched (st : List Bool) (nss : List Nat) (sched : List MAct) :
    Settled (run true (initial st nss) sched) → LiveWatched (run true (initial st nss) sched) := by
  have g := good_run _ sched (good_of_start (initial st nss) rfl rfl)
  have t := tracks_run true _ sched (tracks_initial st nss)
  generalize run true (initial st nss) sched = s at g t
  rintro ⟨hd, hi⟩ n hn
  have hk := t.watched n hn
  simp only [keys, List.mem_map] at hk
  obtain ⟨p, hp, rfl⟩ := hk
  refine ⟨p, hp, rfl, ?_⟩
  rcases g.finished hd p hp with h | h
  · exact h
  · rw [hi] at h; simp at h

/-- The ghost is honest: an Added namespace is live whatever the callback decides to do … -/
theorem added_namespace_is_live (fx : Bool) (s : MSt) (ns : Nat) :
    ∃ s', step fx s (.nsStore ns) = some s' ∧ ns ∈ s'.live := by
  by_cases h : s.varying.any (·.1 == ns) <;> simp [step, h]

/-- … and a Deleted one is not, whatever the callback decides to do. -/
theorem deleted_namespace_is_not_live (fx : Bool) (s s' : MSt) (ns : Nat)
    (h : step fx s (.nsDel ns) = some s') : ns ∉ s'.live := by
  simp only [step] at h
  split at h
  · simp at h
  · split at h <;> (simp only [Option.some.injEq] at h; subst h; simp)

/-- Non-vacuity: a namespace that existed at start is deleted after the unlock and created again
under the same name (then another one appears): both are watched, unlocked. -/
example :
    let s := run true (initial [] [1])
      [.ea, .ea, .ea, .ea, .ea, .nsDel 1, .nsStore 1, .nsRead 1, .nsStore 2, .nsRead 2, .nsDel 2]
    Settled s ∧ LiveWatched s ∧ s.live = [1] ∧ s.varying = [(1, true)] ∧ s.cancel = [1] := by decide

/-- What the invariant `Tracks` excludes: were the add callback to consult the cancel index and the
delete callback to leave its entry behind (state reached: informers gone, cancel entry still there),
a namespace that comes back would be ignored. Shown on a model state, not a schedule of the code. -/
example : ¬ Tracks { varying := [], cancel := [1], live := [1] } := by
  intro t; have := t.watched 1 (by simp); simp [keys] at this

end ShellOp.MonitorEnable.C01
