import ShellOp.Proofs.WorkerC03
import ShellOp.Generated.Facts
import ShellOp.Model.SetLock
import ShellOp.Proofs.Routing
import ShellOp.Proofs.LockOrder
import ShellOp.Proofs.WaitHead
import ShellOp.Model.Compact
/-!
# C03 — a queue runs one task at a time, head first; queues do not block each other

Property theorems over `Model/Worker`. Quantifier: every schedule — any number of named queues, any
interleaving of worker steps, handler durations (the handler's return is a step of the environment,
it may never come) and results (Success / Fail / Repeat / Keep with head, after and tail tasks, any
delay), any arrival order of events and ticks through the consumer, repeated Start() calls from the
thread that starts the queues.
-/
namespace ShellOp.Worker.C03

open ShellOp.Worker

/-- **C03.1 one_worker_per_queue.** Whatever sequence of Start() calls the starting thread makes
(repeated `Start()`, `StartMain` followed by `initAndStartHookQueues`, Start() long after the queue was
created, …), a queue never has more than one worker goroutine. -/
theorem one_worker_per_queue (cfg : Cfg) (hfix : cfg.fix = true) (ls : List Label) (hs : SingleStarter ls)
    (s : State) (h : run cfg init ls = some s) (q : QName) (qs : QState) (hq : s.qs q = some qs) :
    qs.workers.length ≤ 1 :=
  QInv_len _ _ _ _ ((run_inv cfg hfix ls hs init s init_inv h).queues q qs hq)

/-- **C03.1 mutual_exclusion.** In every schedule the executions of one queue never overlap: a handler
of the queue is entered only while no handler of that queue is open (`noOverlap`, the predicate the
harness evaluates on the start/end markers of the real code). -/
theorem mutual_exclusion (cfg : Cfg) (hfix : cfg.fix = true) (ls : List Label) (hs : SingleStarter ls)
    (s : State) (h : run cfg init ls = some s) (q : QName) : noOverlap q s.log = true :=
  log_facts s (run_inv cfg hfix ls hs init s init_inv h) q

/-- **C03.2 runs_head.** In every schedule every task handed to a handler is, at that moment, the head
of its queue. -/
theorem runs_head (cfg : Cfg) (hfix : cfg.fix = true) (ls : List Label) (hs : SingleStarter ls)
    (s : State) (h : run cfg init ls = some s) : headFirst s.log = true :=
  (run_inv cfg hfix ls hs init s init_inv h).heads

/-- **C03.2, state form.** From the moment the worker has taken a task until it has applied the
handler's result, that task stays the head of the queue — whatever arrives meanwhile, and although the
handler may compact the queue. -/
theorem head_stays (cfg : Cfg) (hfix : cfg.fix = true) (ls : List Label) (hs : SingleStarter ls)
    (s : State) (h : run cfg init ls = some s) (q : QName) (qs : QState) (hq : s.qs q = some qs)
    (pc : Pc) (hpc : pc ∈ qs.workers) (t : Queue.Id) (ht : holds pc = some t) :
    Queue.getFirst qs.items = some t := by
  have hQ := (run_inv cfg hfix ls hs init s init_inv h).queues q qs hq
  unfold QInv at hQ
  split at hQ
  · rename_i hw; rw [hw] at hpc; simp at hpc
  · rename_i pc0 hw
    rw [hw] at hpc; simp at hpc; subst hpc
    exact hQ.head t ht
  · exact absurd hQ (by simp)

/-- the tasks of `ts` addressed to queue `q`, in order -/
def routed (q : QName) (ts : List (QName × Queue.Id)) : List Queue.Id :=
  (ts.filter (fun x => x.1 == q)).map (·.2)

/-- **C03.3 routing.** One pass of the consumer over the tasks of an event (`DoWithLock { for … AddLast }`)
leaves every existing queue with its old tasks followed by exactly the tasks addressed to it, in the
order they were received; nothing else about the queue changes. -/
theorem routing (ts : List (QName × Queue.Id)) : ∀ (s : State) (q : QName) (qs : QState),
    s.qs q = some qs →
    ∃ qs', (deliverAll s ts).qs q = some qs' ∧
      qs'.items = qs.items ++ (routed q ts).map some ∧
      qs'.workers = qs.workers ∧ qs'.started = qs.started ∧ qs'.status = qs.status := by
  induction ts with
  | nil => intro s q qs h; exact ⟨qs, h, by simp [routed], rfl, rfl, rfl⟩
  | cons x rest ih =>
    intro s q qs h
    simp only [deliverAll, List.foldl_cons]
    by_cases hx : x.1 = q
    · have h1 : (deliver1 s x).qs q = some { qs with items := Queue.addLast qs.items x.2 } := by
        unfold deliver1
        rw [hx, h]
        simp [upd]
      obtain ⟨qs', a, b, c, d, e⟩ := ih (deliver1 s x) q _ h1
      refine ⟨qs', a, ?_, c, d, e⟩
      rw [b]
      simp [routed, hx, Queue.addLast]
    · have h1 : (deliver1 s x).qs q = some qs := by rw [deliver1_other s x q hx]; exact h
      obtain ⟨qs', a, b, c, d, e⟩ := ih (deliver1 s x) q qs h1
      refine ⟨qs', a, ?_, c, d, e⟩
      rw [b]
      have : (x.1 == q) = false := by simpa using hx
      simp [routed, this]

/-- **C03.3, absent queue.** Tasks addressed to a queue that does not exist are dropped (the code's
"Possible bug!!!" branch); `initAndStartHookQueues` creates every queue named in a hook configuration
before the consumer is started, which is why this branch is not reached by the operator. -/
theorem routing_absent (ts : List (QName × Queue.Id)) : ∀ (s : State) (q : QName), s.qs q = none →
    (deliverAll s ts).qs q = none := by
  induction ts with
  | nil => intro s q h; exact h
  | cons x rest ih =>
    intro s q h
    simp only [deliverAll, List.foldl_cons]
    apply ih
    unfold deliver1
    split
    · exact h
    · rename_i qs0 hq0
      simp only [upd]
      split
      · rename_i hq; subst hq; rw [h] at hq0; simp at hq0
      · exact h

/-- **C03.2/3, execution order.** What the worker does to the queue when a handler that adds no tasks
returns: `Success` removes exactly the task that was handled — the head (`head_stays`) — so the next
task taken is the one placed right after it; `Fail` and `Repeat` leave the queue as it is, so the same
task is taken again. With `routing` (tasks are appended in receive order) the tasks of a queue are
therefore executed in the order the events were received. -/
theorem plain_result_on_head (l : List Queue.Id) (t : Queue.Id) :
    Queue.applyResult ((t :: l).map some) t .success [] [] [] = l.map some ∧
    Queue.applyResult ((t :: l).map some) t .fail [] [] [] = (t :: l).map some ∧
    Queue.applyResult ((t :: l).map some) t .repeat [] [] [] = (t :: l).map some := by
  refine ⟨?_, rfl, rfl⟩
  rw [Queue.applyResult_map]
  simp [Queue.Spec.applyResult]

/-! ### queues do not block each other -/

/-- the queue a label belongs to (`none` for the consumer and the global steps) -/
def Label.queue? : Label → Option QName
  | .newQueue q _ | .startRead _ q | .startSpawn _ q | .startWrite _ q | .w q _ _
  | .handlerReturn q _ _ | .handlerFilter q _ _ | .cancelDelay q => some q
  | _ => none

/-- **Non-interference, one step.** A step that does not belong to queue `A` — a step of another
queue's worker or handler, a Start() of another queue, a delivery by the consumer (even of tasks for
`A`), the stop request — is enabled or not, and has the same effect on everything but `A`, whatever
state `A` is in: no step of another queue reads anything queue `A` writes. -/
theorem step_agree (cfg : Cfg) (A : QName) (s₁ s₂ s₁' : State) (l : Label) (hl : Label.queue? l ≠ some A)
    (h : AgreeExcept A s₁ s₂) (hs : step cfg s₁ l = some s₁') :
    ∃ s₂', step cfg s₂ l = some s₂' ∧ AgreeExcept A s₁' s₂' := by
  have h0 := h
  obtain ⟨h1, h2, h3, h4, h5, h6, h7⟩ := h
  cases l <;> simp only [Label.queue?, ne_eq, Option.some.injEq] at hl <;> simp only [step] at hs ⊢
  case deliver ts =>
    simp at hs; subst hs
    exact ⟨_, rfl, deliverAll_agree A ts s₁ s₂ h0⟩
  case cronFire ts =>
    rw [← h5]
    split at hs <;> simp at hs
    subst hs
    rename_i hc; simp [hc]
    exact deliverAll_agree A ts s₁ s₂ h0
  case kubeEvent ts =>
    rw [← h7]
    split at hs <;> simp at hs
    subst hs
    rename_i hc; simp [hc]
    exact deliverAll_agree A ts s₁ s₂ h0
  case schedStop => simp at hs; subst hs; exact ⟨_, rfl, ⟨h1, h2, h3, h4, h5, rfl, h7⟩⟩
  case schedStopper =>
    rw [← h6]
    split at hs <;> simp at hs
    subst hs
    rename_i hc; simp [hc]
    exact ⟨h1, h2, h3, h4, rfl, by simp_all, h7⟩
  case kubePause => simp at hs; subst hs; exact ⟨_, rfl, ⟨h1, h2, h3, h4, h5, h6, rfl⟩⟩
  case stop =>
    rw [← h3]
    split at hs <;> simp at hs <;> subst hs <;> rename_i hc <;> simp [hc]
    · exact h0
    · exact ⟨h1, h2, rfl, h4, h5, h6, h7⟩
  case newQueue q hh =>
    rw [← h1 q hl]
    split at hs <;> simp at hs
    subst hs
    rename_i hq; simp
    exact agree_upd' A q s₁ s₂ _ hl h0 _ _ _ _ _ _ (by first | exact h4 | rfl | simp [h4]) _ _ (by first | exact h3 | rfl)
  case startRead c q =>
    rw [← h1 q hl, ← h4]
    split at hs
    · rename_i qs0 hc hq
      split at hs
      · rename_i hst; simp at hs; subst hs; simp [hst]; exact h0
      · rename_i hst
        split at hs
        · rename_i hh; simp at hs; subst hs; simp [hst, hh]
          exact agree_upd' A q s₁ s₂ _ hl h0 _ _ _ _ _ _ (by first | exact h4 | rfl | simp [h4]) _ _ (by first | exact h3 | rfl)
        · rename_i hh; simp at hs; subst hs; simp [hst, hh]
          exact ⟨h1, h2, h3, by simp [h4], h5, h6, h7⟩
    · simp at hs
  case startSpawn c q =>
    rw [← h4]
    split at hs
    · rename_i q' hc
      split at hs
      · simp at hs
      · rename_i hqq
        simp at hqq; subst hqq
        simp
        rw [← h1 q' hl]
        split at hs <;> simp at hs
        subst hs
        rename_i qs0 hq; simp
        exact agree_upd' A q' s₁ s₂ _ hl h0 _ _ _ _ _ _ (by first | exact h4 | rfl | simp [h4]) _ _ (by first | exact h3 | rfl)
    all_goals simp at hs
  case startWrite c q =>
    rw [← h4]
    split at hs
    · rename_i q' hc
      split at hs
      · simp at hs
      · rename_i hqq
        simp at hqq; subst hqq
        simp
        rw [← h1 q' hl]
        split at hs <;> simp at hs
        subst hs
        rename_i qs0 hq; simp
        exact agree_upd' A q' s₁ s₂ _ hl h0 _ _ _ _ _ _ (by first | exact h4 | rfl | simp [h4]) _ _ (by first | exact h3 | rfl)
    all_goals simp at hs
  case w q i a =>
    rw [← h1 q hl, ← h3]
    split at hs
    · simp at hs
    · rename_i qs0 hq
      split at hs
      · simp at hs
      · rename_i pc hpc
        split at hs
        · simp at hs
        · rename_i qs1 pc1 evs hw
          simp at hs; subst hs
          exact ⟨_, rfl, agree_upd' A q s₁ s₂ _ hl h0 _ _ _ _ _ _ (by first | exact h4 | rfl | simp [h4]) _ _ (by first | exact h3 | rfl)⟩
  case handlerReturn q i r =>
    rw [← h1 q hl]
    split at hs
    · simp at hs
    · rename_i qs0 hq
      split at hs
      · rename_i t hpc
        simp at hs; subst hs
        exact ⟨_, rfl, agree_upd' A q s₁ s₂ _ hl h0 _ _ _ _ _ _ (by first | exact h4 | rfl | simp [h4]) _ _ (by first | exact h3 | rfl)⟩
      · simp at hs
  case handlerFilter q i keep =>
    rw [← h1 q hl]
    split at hs
    · simp at hs
    · rename_i qs0 hq
      split at hs
      · rename_i t hpc
        simp only [Option.some.injEq] at hs; subst hs
        exact ⟨_, rfl, agree_upd' A q s₁ s₂ _ hl h0 _ _ _ _ _ _ (by first | exact h4 | rfl | simp [h4]) _ _ (by first | exact h3 | rfl)⟩
      · simp at hs
  case cancelDelay q =>
    rw [← h1 q hl]
    split at hs
    · simp at hs
    · rename_i qs0 hq
      simp at hs; subst hs
      exact ⟨_, rfl, agree_upd' A q s₁ s₂ _ hl h0 _ _ _ _ _ _ (by first | exact h4 | rfl | simp [h4]) _ _ (by first | exact h3 | rfl)⟩

/-- **C03.4 independent_progress.** Let queue `A` be in any state whatever — its worker inside a handler
that never returns, sleeping in a back-off after a failing hook, its queue arbitrarily long. Every
schedule of the rest of the system (other queues' workers and handlers, the consumer delivering events
and ticks for every queue including `A`, Start() calls, the stop request) that is executable from a
state is executable, step for step and with the same effect on everything but `A`, from any state that
differs only in `A`: a stalled queue takes no step away from, and delays no step of, another queue. -/
theorem independent_progress (cfg : Cfg) (A : QName) (ls : List Label)
    (hls : ∀ l ∈ ls, Label.queue? l ≠ some A) :
    ∀ (s₁ s₂ s₁' : State), AgreeExcept A s₁ s₂ → run cfg s₁ ls = some s₁' →
      ∃ s₂', run cfg s₂ ls = some s₂' ∧ AgreeExcept A s₁' s₂' := by
  induction ls with
  | nil => intro s₁ s₂ s₁' h hr; simp [run] at hr; subst hr; exact ⟨s₂, rfl, h⟩
  | cons l rest ih =>
    intro s₁ s₂ s₁' h hr
    simp only [run] at hr ⊢
    split at hr
    · simp at hr
    · rename_i t₁ ht₁
      obtain ⟨t₂, ht₂, hag⟩ := step_agree cfg A s₁ s₂ t₁ l (hls l (by simp)) h ht₁
      rw [ht₂]
      exact ih (fun l hl => hls l (by simp [hl])) t₁ t₂ s₁' hag hr

/-- A step that does not belong to queue `A` leaves `A`'s worker where it is (in particular: inside
its handler), whatever else it does. -/
theorem other_steps_keep_worker (cfg : Cfg) (A : QName) (s s' : State) (l : Label)
    (hl : Label.queue? l ≠ some A) (h : step cfg s l = some s') (qs : QState) (hq : s.qs A = some qs) :
    ∃ qs', s'.qs A = some qs' ∧ qs'.workers = qs.workers := by
  cases l <;> simp only [Label.queue?, ne_eq, Option.some.injEq] at hl <;> simp only [step] at h
  case deliver ts =>
    simp at h; subst h
    obtain ⟨qs', a, _, c, _⟩ := routing ts s A qs hq; exact ⟨qs', a, c⟩
  case cronFire ts =>
    split at h <;> simp at h; subst h
    obtain ⟨qs', a, _, c, _⟩ := routing ts s A qs hq; exact ⟨qs', a, c⟩
  case kubeEvent ts =>
    split at h <;> simp at h; subst h
    obtain ⟨qs', a, _, c, _⟩ := routing ts s A qs hq; exact ⟨qs', a, c⟩
  all_goals (repeat' split at h) <;> (try simp at h) <;> (try subst h) <;>
    first
    | exact ⟨qs, hq, rfl⟩
    | (refine ⟨qs, ?_, rfl⟩; simp only [upd]; split <;> simp_all)
    | (rename_i hqq; simp at hqq; subst hqq; refine ⟨qs, ?_, rfl⟩; simp only [upd]; split <;> simp_all)

/-! ### facts read from the sources on every run (tie T1) -/

/-- **C03.3, the queue name.** Every converter of a hook configuration (`config_v0.go`, `config_v1.go`)
that fills in a missing `queue` writes the literal `"main"`, which is the name of the main queue of the
queue set and the name the operator creates and starts first. -/
theorem default_queue_is_main :
    Facts.c03_defaultQueueLiterals = ["main"] ∧ Facts.c03_defaultQueueSites = 4 ∧
    Facts.c03_mainQueueName = "main" ∧
    Facts.c03_operatorQueueLiterals = ["NewNamedQueue:main", "WithMainName:main", "WithQueueName:main"] := by
  decide

/-- **C03.4, locks.** The task handler reaches the queues only through `GetByName` (a read lock on the
set, released at once) and, when it combines binding contexts, `Iterate` / `Filter` on its own queue;
it never calls `DoWithLock` and never holds a queue lock while the hook runs (the lock skeleton of
`TaskQueue.Start` shows `Handler(t)` outside `withLock`). -/
theorem handler_takes_no_queue_lock :
    Facts.c03_queueCalls_taskHandler = [] ∧ Facts.c03_queueCalls_taskHandleHookRun = ["GetByName"] ∧
    Facts.c03_queueCalls_taskHandleEnableKubernetesBindings = [] ∧ Facts.c03_queueCalls_handleRunHook = [] ∧
    Facts.c03_queueCalls_combineBindingContextForHook = ["Filter", "GetByName", "Iterate"] := by
  decide

/-! ### the lock of the queue set -/

/-- **C03.3/4, the set lock (repaired code).** `Iterate` holding the read lock once and a concurrent
`DoWithLock` (the consumer placing an event's tasks) never block each other for good: in every state
reachable by any interleaving of the two, some thread can move until both have finished. (Complete
finite exploration: the two programs have 2 + 3 steps.) -/
theorem iterate_and_consumer_never_deadlock :
    (SetLock.reach 6 { rprog := SetLock.iterateFlat, wprog := SetLock.doWithLock }).all
      (fun s => !SetLock.stuck s) = true := by
  decide

/-- both programs do finish on some schedule, and on every maximal schedule (6 steps suffice) -/
example :
    ((SetLock.reach 6 { rprog := SetLock.iterateFlat, wprog := SetLock.doWithLock }).any SetLock.finished) = true := by
  decide

/-- **Witness (unrepaired code).** `Iterate` as it was took the read lock a second time through
`GetMain()`: reader takes the lock, the consumer's `DoWithLock` announces itself, the reader's second
`RLock` waits behind the writer, the writer waits for the reader — nothing moves any more: no event is
placed in any queue, every handler that looks a queue up blocks. Replayed on the real code through the
yield point `queueset.iterate.locked` (corpus case 1 of suite c03). -/
theorem nested_rlock_deadlocks :
    (do let s1 ← SetLock.step { rprog := SetLock.iterateNested, wprog := SetLock.doWithLock } .reader
        let s2 ← SetLock.step s1 .writerAnnounce
        pure (SetLock.stuck s2)) = some true := by
  decide

/-! ### Non-vacuity and witnesses -/

/-- Two queues; queue 1's handler is entered and never returns; queue 2 executes its two tasks to
completion meanwhile; no overlap, heads first. -/
example :
    ((run {} init [.newQueue 1 true, .newQueue 2 true,
      .startRead 0 1, .startSpawn 0 1, .startWrite 0 1, .startRead 0 2, .startSpawn 0 2, .startWrite 0 2,
      .deliver [(1, 10), (2, 20), (2, 21), (1, 11)],
      .w 1 0 .step, .w 1 0 .step, .w 1 0 .step, .w 1 0 .step,          -- queue 1 is inside Handler(10)
      .w 2 0 .step, .w 2 0 .step, .w 2 0 .step, .w 2 0 .step, .handlerReturn 2 0 {},
      .w 2 0 .step, .w 2 0 .step,
      .w 2 0 .step, .w 2 0 .step, .w 2 0 .step, .w 2 0 .step, .handlerReturn 2 0 {},
      .w 2 0 .step, .w 2 0 .step]).map fun s =>
      (starts 2 s.log == [20, 21] && busy 1 s.log && !busy 2 s.log && noOverlap 1 s.log && noOverlap 2 s.log &&
       headFirst s.log && arrivals 1 s.log == [10, 11] && arrivals 2 s.log == [20, 21]))
      = some true := by
  decide

/-- The schedule above satisfies the hypotheses of `independent_progress` for `A = 1` from the moment
queue 1 is inside its handler. -/
example : ∀ l ∈ ([.w 2 0 .step, .handlerReturn 2 0 {}, .deliver [(1, 12)], .stop] : List Label),
    Label.queue? l ≠ some 1 := by decide

/-- **Witness: the `started` flag is not a lock.** `started` is read at the top of Start() and written
after `go func()`, without synchronisation. Two Start() calls of the same queue made *concurrently* (two
caller threads: both read `started == false` before either writes it) spawn two workers, and the two
workers run two tasks of the queue at the same time. shell-operator itself calls Start() for every
queue from one goroutine (`operator.go: Start`), which is the hypothesis `SingleStarter` of the
theorems above; the witness shows the hypothesis is needed. -/
theorem concurrent_start_breaks_exclusion :
    ((run {} init [.newQueue 1 true, .deliver [(1, 10), (1, 11)],
      .startRead 0 1, .startRead 1 1, .startSpawn 0 1, .startSpawn 1 1, .startWrite 0 1, .startWrite 1 1,
      .w 1 0 .step, .w 1 0 .step, .w 1 0 .step, .w 1 0 .step,
      .w 1 1 .step, .w 1 1 .step, .w 1 1 .step, .w 1 1 .step]).map fun s =>
      (((s.qs 1).map fun qs => qs.workers.length), noOverlap 1 s.log))
      = some (some 2, false) := by
  decide

/-- Sequentially repeated Start() calls are harmless. -/
example :
    ((run {} init [.newQueue 1 true, .startRead 0 1, .startSpawn 0 1, .startWrite 0 1, .startRead 0 1,
      .startRead 0 1]).map fun s => (s.qs 1).map fun qs => qs.workers.length) = some (some 1) := by
  decide

example : SingleStarter [.newQueue 1 true, .startRead 0 1, .startSpawn 0 1, .startWrite 0 1, .stop] := by
  intro l hl; simp at hl; rcases hl with rfl | rfl | rfl | rfl | rfl <;> rfl

/-! ### third wave: from the hook configuration to the queue a task is made for

`Model/Routing`: the `queue` key through the converters (`convQueue`), the per-hook schedule links
(`enable`, a Go map with assignment semantics) and the fan-out of one tick (`handleEvent`). -/

/-- **C03.3, `main` when absent.** The queue a binding is given by the configuration converters: the one
it names; `main` when it names none; always `main` for a version-0 configuration (no `queue` option). -/
theorem queue_of_binding (v0 : Bool) (setting : String) :
    Routing.convQueue v0 setting = if v0 = true ∨ setting = "" then "main" else setting := by
  have hd : Routing.defaultQueue = "main" := by decide
  unfold Routing.convQueue
  rw [hd]
  cases v0 <;> by_cases h : setting = "" <;> simp [h]

example : Routing.convQueue false "" = "main" ∧ Routing.convQueue false "slow" = "slow" ∧
    Routing.convQueue true "" = "main" := by decide

/-- **facts (tie T1).** The per-hook schedule links are indexed by the unique entry id the loader makes
up for every schedule binding (assignment and delete), not by anything two bindings can share. -/
theorem links_keyed_by_entry_id : Facts.c03_scheduleLinksKeys = ["config.ScheduleEntry.Id"] := by
  decide

/-- **C03.3, every binding gets its task.** One tick of crontab `c`: whatever order Go walks the links
map in, the infos the schedule controller hands out — one task each, made `WithQueueName(info.QueueName)`
— are, up to that order, exactly one per schedule binding of the hook with crontab `c`, each for the
queue the binding names (`main` when it names none). Bindings sharing a crontab, a queue or a name are
all served; the only hypothesis is that the loader's entry ids are pairwise distinct (uuids). -/
theorem schedule_fanout (v0 : Bool) (bs : List Routing.SchedBinding) (c : String)
    (hid : (bs.map (·.entry)).Nodup) (order : List (String × Routing.Link))
    (hperm : order.Perm (Routing.enable v0 bs)) :
    (Routing.handleEvent order c).Perm (Routing.wanted v0 bs c) := by
  have hkey : Routing.linkKey = fun b => b.entry := by
    funext b
    unfold Routing.linkKey
    rw [if_neg (by decide)]
  have h1 := Routing.handleEvent_perm _ _ hperm c
  unfold Routing.enable at h1
  rw [hkey, Routing.enableBy_eq _ v0 bs hid, Routing.handleEvent_map] at h1
  have h2 : (fun b : Routing.SchedBinding => (b.name, Routing.convQueue v0 b.queue)) =
      (fun b => (b.name, if v0 = true ∨ b.queue = "" then "main" else b.queue)) := by
    funext b; rw [queue_of_binding]
  rw [h2] at h1
  exact h1

/-- non-vacuity: two bindings of one hook on the same crontab, one in `q-fast`, one without `queue` -/
example : Routing.handleEvent (Routing.enable false
      [⟨"fast", "e1", "* * * * *", "q-fast"⟩, ⟨"slow", "e2", "* * * * *", ""⟩, ⟨"other", "e3", "5 * * * *", "q-fast"⟩])
      "* * * * *" = [("fast", "q-fast"), ("slow", "main")] := by decide

/-- witness: links indexed by the crontab (two bindings can share it) lose the first binding's task —
its queue never receives it. This is why `schedule_fanout` needs keys that are unique per binding. -/
theorem crontab_keyed_links_lose_a_binding :
    Routing.handleEvent (Routing.enableBy (·.crontab) false
      [⟨"fast", "e1", "* * * * *", "q-fast"⟩, ⟨"slow", "e2", "* * * * *", "q-slow"⟩]) "* * * * *"
      = [("slow", "q-slow")] := by decide

/-- **C03.4, facts (tie T1).** No function between the queue worker and the hook process — `taskHandler`,
`taskHandleHookRun`, `handleRunHook`, `Hook.Run`, `Hook.RateLimitWait`, `Executor.RunAndLogLines` / `Output` —
takes a lock, and `Hook` has no mutex field: two executions of one hook in two queues share nothing they
could wait for (the rate limiter aside, which is by design). With `step_agree` (the handler's return is
an environment step nobody else's step depends on) a hook hanging in one queue cannot hold up its own
executions in another. -/
theorem hook_execution_takes_no_lock : Facts.c03_hookExecutionLocks = [] := by decide

/-- **C03.3, from the tick to the queues.** The tasks of one tick (one per info, any ids) placed by one
pass of the consumer: every existing queue keeps its old tasks and receives, behind them, as many tasks
as the hook has bindings with that crontab whose `queue` setting (`main` when absent) is that queue's name. -/
theorem tick_fills_the_configured_queues (v0 : Bool) (bs : List Routing.SchedBinding) (c : String)
    (hid : (bs.map (·.entry)).Nodup) (order : List (String × Routing.Link))
    (hperm : order.Perm (Routing.enable v0 bs)) (qid : String → QName) (ids : List Queue.Id)
    (hids : (Routing.handleEvent order c).length ≤ ids.length)
    (s : State) (q : QName) (qs : QState) (hq : s.qs q = some qs) :
    ∃ (qs' : QState) (new : List Queue.Id), (deliverAll s (((Routing.handleEvent order c).map (fun i => qid i.2)).zip ids)).qs q = some qs' ∧
      qs'.items = qs.items ++ new.map some ∧
      new.length = ((Routing.wanted v0 bs c).filter (fun w => qid w.2 == q)).length := by
  obtain ⟨qs', h1, h2, _⟩ := routing (((Routing.handleEvent order c).map (fun i => qid i.2)).zip ids) s q qs hq
  refine ⟨qs', _, h1, h2, ?_⟩
  unfold routed
  rw [List.length_map, Routing.zip_filter_fst_length _ q ids (by simpa using hids)]
  have hp := schedule_fanout v0 bs c hid order hperm
  have := ((hp.map (fun i => qid i.2)).filter (· == q)).length_eq
  rw [this, List.filter_map, List.length_map]
  rfl

/-! ## Fourth wave: lock order of the queue package; the head on the retry path -/

/-- **C03.4, lock nesting (fact, tie T1).** On the paths of the queue worker (`Start`, `waitForTask`), of
the events consumer (`ManagerEventsHandler.Start`: `DoWithLock { AddLast }`), of `AddLast` and of
`CancelTaskDelay`, following the calls into the methods of `TaskQueue` and `TaskQueueSet`, exactly one lock
is ever taken while another is held: a queue's lock under the set's lock (the consumer). `waitMu` is
never held together with anything. Read from the sources on every run. -/
theorem lock_nesting_of_the_code : Facts.c03_lockNesting = [("TaskQueueSet.m", "TaskQueue.m")] := by decide

/-- Every nesting the code has goes up in the rank set < queue < waitMu. -/
theorem code_takes_locks_in_rank_order : Facts.c03_lockNesting.all LockOrder.nestingRanked = true := by decide

/-- **C03.4, queues do not block each other through their locks.** Any number of goroutines (workers of any
number of queues, the consumer, handlers looking queues up, `CancelTaskDelay` callers) and any number of
locks: when every goroutine takes locks in increasing rank — which is what the nesting table of the code
says — and some goroutine waits for a lock, there is a goroutine that holds a lock and does not wait: it
finishes its critical section. The worker, the consumer and the other queues are never all waiting for
each other, whatever the arrival times of events and the moments of the periodic head checks. -/
theorem queue_locks_never_deadlock (ts : List LockOrder.Thread) (hord : ∀ t ∈ ts, LockOrder.Ordered t)
    (t : LockOrder.Thread) (ht : t ∈ ts) (hb : LockOrder.Blocked ts t) :
    ∃ u ∈ ts, u.held ≠ [] ∧ ¬ LockOrder.Blocked ts u :=
  LockOrder.ordered_never_all_blocked ts hord t ht hb

/-- Non-vacuity: the consumer holds the set's lock and a queue's lock, that queue's worker wants the
queue's lock for its head check: it waits, the consumer does not. -/
example : ∃ ts : List LockOrder.Thread, (∀ t ∈ ts, LockOrder.Ordered t) ∧
    (∃ t ∈ ts, LockOrder.Blocked ts t) ∧ ∃ u ∈ ts, u.held ≠ [] ∧ ¬ LockOrder.Blocked ts u := by
  refine ⟨[{ held := [0, 1], next := none }, { held := [], next := some 1 }], ?_, ?_, ?_⟩
  · intro t ht l hn h hh
    simp at ht
    rcases ht with rfl | rfl
    · simp at hn
    · simp at hh
  · exact ⟨{ held := [], next := some 1 }, by simp, 1, rfl, { held := [0, 1], next := none }, by simp, by simp⟩
  · refine ⟨{ held := [0, 1], next := none }, by simp, by simp, ?_⟩
    rintro ⟨l, hn, _⟩
    simp at hn

/-- Witness (the excluded variant): the head check done while `waitMu` is held (waitMu → queue lock)
together with an `AddLast` that wakes the worker under the queue's lock (queue lock → waitMu): the worker
of an idle queue and the consumer wait for each other, and the consumer holds the set's lock — no queue
receives a task any more. Both goroutines are blocked; nobody who holds a lock can move. -/
theorem waitmu_around_the_head_check_deadlocks :
    let worker : LockOrder.Thread := { held := [2], next := some 1 }
    let consumer : LockOrder.Thread := { held := [0, 1], next := some 2 }
    LockOrder.Blocked [worker, consumer] worker ∧ LockOrder.Blocked [worker, consumer] consumer := by
  refine ⟨⟨1, rfl, { held := [0, 1], next := some 2 }, by simp, by simp⟩,
          ⟨2, rfl, { held := [2], next := some 1 }, by simp, by simp⟩⟩

/-- **C03.2, head first after a back-off.** `waitForTask` as a function of what the queue holds at each of
its looks (anybody may change the queue between two looks): the task it returns is the head of what the
queue held at its LAST look — the `GetFirst()` of the shortcut when no delay was asked for, else the
`GetFirst()` of the first head check after the delay at which the queue was not empty. -/
theorem wait_returns_the_head_of_the_last_look (sleep : Nat) (first : WaitHead.Look) (looks : List WaitHead.Look)
    (r : Option Queue.Id) (h : WaitHead.waitForTask sleep first looks = some r) :
    (sleep = 0 ∧ first.atEmpty.isEmpty = false ∧ r = Queue.getFirst first.atGet) ∨
    ∃ pre k post, looks = pre ++ k :: post ∧ k.expired = true ∧ k.atEmpty.isEmpty = false ∧
      r = Queue.getFirst k.atGet ∧ WaitHead.waitLoop pre = none := by
  unfold WaitHead.waitForTask at h
  by_cases hc : (!first.atEmpty.isEmpty && sleep == 0) = true
  · rw [if_pos hc] at h
    left
    simp only [Bool.and_eq_true, Bool.not_eq_true', beq_iff_eq] at hc
    injection h with h
    exact ⟨hc.2, hc.1, h.symm⟩
  · rw [if_neg hc] at h
    exact Or.inr (WaitHead.waitLoop_some looks r h)

/-- After a failure (or a repeat, or a requested delay: `sleepDelay ≠ 0`) what the queue held BEFORE the
back-off plays no part in what is executed next. -/
theorem backoff_ignores_what_the_queue_held_before (sleep : Nat) (hs : sleep ≠ 0) (f1 f2 : WaitHead.Look)
    (looks : List WaitHead.Look) :
    WaitHead.waitForTask sleep f1 looks = WaitHead.waitForTask sleep f2 looks := by
  have : (sleep == 0) = false := by simp [hs]
  simp [WaitHead.waitForTask, this]

/-- Non-vacuity + witness: task 1 fails, is removed during the back-off, task 2 is the head when the delay
is over: the code returns 2; the variant that reads the head once before the delay returns 1, a task that
is not in the queue any more. -/
example :
    WaitHead.waitForTask 5 ⟨true, [some 1, some 2], [some 1, some 2]⟩
      [⟨false, [some 1, some 2], [some 1, some 2]⟩, ⟨true, [some 2], [some 2]⟩] = some (some 2) ∧
    WaitHead.staleWait 5 ⟨true, [some 1, some 2], [some 1, some 2]⟩
      [⟨false, [some 1, some 2], [some 1, some 2]⟩, ⟨true, [some 2], [some 2]⟩] = some (some 1) := by
  decide


/-! ## Sixth wave: the converter's two neighbouring keys; compaction while the consumer appends -/

/-- **C03.3, `main` when absent — whatever else the binding says.** The queue the version-1 converter gives
a `kubernetes` binding depends on its `queue` key only: the name written, `main` when there is none —
for every value of `waitForSynchronization` (the key the converter reads right next to it). -/
theorem kube_queue_ignores_wait_for_synchronization (queue wfs : String) :
    (Routing.convKube queue wfs).1 = if queue = "" then "main" else queue := by
  have hd : Routing.defaultQueue = "main" := by decide
  unfold Routing.convKube
  simp only [hd]
  by_cases h : queue = "" <;> simp [h]

/-- … and `waitForSynchronization` is switched off only by the literal `false` on a binding that names a queue. -/
theorem wait_for_synchronization_of_binding (queue wfs : String) :
    (Routing.convKube queue wfs).2 = false ↔ (wfs = "false" ∧ queue ≠ "") := by
  unfold Routing.convKube
  by_cases h1 : wfs = "false" <;> by_cases h2 : queue = "" <;> simp [h1, h2]

example : Routing.convKube "" "false" = ("main", true) ∧ Routing.convKube "slow" "false" = ("slow", false) ∧
    Routing.convKube "" "" = ("main", true) := by decide

theorem foldl_addLast_eq (l : List Queue.Id) (items : Queue.Items) :
    l.foldl Queue.addLast items = items ++ l.map some := by
  induction l generalizing items with
  | nil => simp
  | cons a l ih => simp [List.foldl, ih, Queue.addLast, List.append_assoc]

theorem filter_new_kept (drop : List Queue.Id) (l : List Queue.Id) (h : ∀ t ∈ l, t ∉ drop) :
    Queue.filter (l.map some) (Compact.keepFn drop) = l.map some := by
  induction l with
  | nil => rfl
  | cons a l ih =>
    have ha : Compact.keepFn drop a = true := by
      simp [Compact.keepFn, h a (by simp)]
    have ih' := ih (fun t ht => h t (by simp [ht]))
    unfold Queue.filter at ih' ⊢
    simp [ha, ih']

/-- **C03.2/3, compaction keeps the receive order.** The handler of a queue drops tasks from its queue
(`Filter`) while the consumer appends the tasks `new` of later events — for EVERY schedule `k` (how many of
the appends get the queue lock before the `Filter` does): the queue then holds its old tasks that were not
dropped, in their old order, followed by the new tasks in receive order. (Hypothesis: the handler drops
only tasks it has seen — the new ids are not in `drop`.) -/
theorem compaction_keeps_receive_order (drop : List Queue.Id) (items : Queue.Items) (new : List Queue.Id)
    (k : Nat) (hnew : ∀ t ∈ new, t ∉ drop) :
    Compact.compact drop items new k = Queue.filter items (Compact.keepFn drop) ++ new.map some := by
  unfold Compact.compact
  rw [foldl_addLast_eq, foldl_addLast_eq]
  have hsplit : Queue.filter (items ++ (new.take k).map some) (Compact.keepFn drop)
      = Queue.filter items (Compact.keepFn drop) ++ Queue.filter ((new.take k).map some) (Compact.keepFn drop) := by
    unfold Queue.filter; simp [List.filter_append]
  rw [hsplit, filter_new_kept drop (new.take k) (fun t ht => hnew t (List.mem_of_mem_take ht))]
  rw [List.append_assoc, ← List.map_append, List.take_append_drop]

/-- … so the task being executed (kept by its own handler) is still the head, whatever arrived meanwhile. -/
theorem compaction_keeps_the_running_head (drop : List Queue.Id) (t : Queue.Id) (rest : Queue.Items)
    (new : List Queue.Id) (k : Nat) (hnew : ∀ x ∈ new, x ∉ drop) (ht : t ∉ drop) :
    Queue.getFirst (Compact.compact drop (some t :: rest) new k) = some t := by
  rw [compaction_keeps_receive_order drop _ new k hnew]
  have hk : Compact.keepFn drop t = true := by simp [Compact.keepFn, ht]
  unfold Queue.filter Queue.getFirst
  simp [List.filter, hk]

/-- non-vacuity: A runs, B is dropped, E arrives — before or after the `Filter` — and ends up last -/
example : Compact.compact [2] [some 1, some 2, some 3, some 4] [5] 0 = [some 1, some 3, some 4, some 5] ∧
    Compact.compact [2] [some 1, some 2, some 3, some 4] [5] 1 = [some 1, some 3, some 4, some 5] := by decide

/-- witness: a `Filter` that works on a snapshot and puts what was appended meanwhile in front of the kept
tasks makes the LATEST event's task the head — in front of the task being executed and of every earlier
event's task. -/
theorem snapshot_filter_prepending_breaks_the_order :
    Compact.snapshotPrepend [2] [some 1, some 2, some 3, some 4] [5] = [some 5, some 1, some 3, some 4] ∧
    Queue.getFirst (Compact.snapshotPrepend [2] [some 1, some 2, some 3, some 4] [5]) ≠ some 1 := by decide

end ShellOp.Worker.C03
