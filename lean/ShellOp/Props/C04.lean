import ShellOp.Proofs.Backoff
import ShellOp.Model.Retry
import ShellOp.Generated.Facts
namespace ShellOp.Retry.C04
theorem placeholder : True := trivial
end ShellOp.Retry.C04
