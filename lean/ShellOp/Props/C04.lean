import ShellOp.Proofs.Backoff
import ShellOp.Proofs.Retry
import ShellOp.Proofs.HookOutput
import ShellOp.Proofs.Wait
import ShellOp.Proofs.Payload
import ShellOp.Proofs.TransMetrics
import ShellOp.Proofs.MetricsText
/-!
# C04 — failed runs are retried until success and block the queue unless allowFailure

Property theorems over `Model/Backoff` (integer model of `CalculateDelayWithMax`, constants
regenerated from `delay.go` / `task_queue.go`) and `Model/Retry` (worker loop of `TaskQueue.Start`
+ `taskHandleHookRun`, which embeds the C07 model of combining). Quantifiers: every retry count and
random draw; every queue content (tasks of bindings with different `allowFailure` values, groups,
binding kinds), every event sequence (appends, failing and succeeding runs), no size bound.
-/
set_option linter.unusedSimpArgs false
namespace ShellOp.Retry.C04

open ShellOp.Combine ShellOp.Combine.Spec ShellOp.Retry ShellOp.Backoff

/-! ## C04.1 the back-off delay -/

/-- The constants the source holds today are the documented ones (a changed constant breaks this
proof, and with it the bounds below are re-examined). -/
theorem facts_documented :
    Facts.c04MaxDelayNs = 32000000000 ∧ Facts.c04Factor = 2 ∧ Facts.c04RandomMs = 1000 ∧
    Facts.c04ExpCount = 5 ∧ Facts.c04TruncNs = 100000000 ∧ Facts.c04InitialDelayNs = 5000000000 ∧
    Facts.c04FactsStale = false := by decide

/-- **C04.1 `delay_bounds`**: for every retry count and every random part, `CalculateDelay(initial,
k)` is at least the initial delay and at most 32 s (for `initial ≤ 32 s`). -/
theorem delay_bounds (initial k rnd : Nat) (h : initial ≤ 32000000000) :
    initial ≤ calcDelay realParams initial k rnd ∧ calcDelay realParams initial k rnd ≤ 32000000000 := by
  have hmax : realParams.maxDelayNs = 32000000000 := by decide
  unfold calcDelay
  rw [hmax]
  exact calc_bounds realParams initial 32000000000 k rnd h (by decide) (by decide) (by decide)

example : calcDelay realParams 5000000000 3 999 = 9900000000 := by decide

/-- `delay_bounds` for the delay function every queue is created with
(`CalculateDelay(DefaultInitialDelayOnFailedTask, failureCount)`): never shorter than 5 s. -/
theorem queue_delay_bounds (k rnd : Nat) :
    5000000000 ≤ queueBackoff k rnd ∧ queueBackoff k rnd ≤ 32000000000 := by
  have hi : Facts.c04InitialDelayNs = 5000000000 := by decide
  unfold queueBackoff
  rw [hi]
  exact delay_bounds 5000000000 k _ (by decide)

/-- Retry 0 waits exactly the initial delay. -/
theorem delay_zero (initial rnd : Nat) : calcDelay realParams initial 0 rnd = initial := by
  simp [calcDelay, calc_zero]

/-- `delay_bounds_partial`'s excluded point `initial > max` on the model: retry 0 returns the
(larger) initial delay, later retries the maximum — i.e. *less* than the initial delay. The harness
runs the real function there too (`init=40s`, correspondence only). -/
theorem delay_initial_above_max_witness :
    calcDelay realParams 40000000000 0 0 = 40000000000 ∧ calcDelay realParams 40000000000 1 0 = 32000000000 := by
  decide

/-! ## C04.2–4 the worker and the handler -/

theorem succeeded_snoc (log : List Exec) (e : Exec) :
    succeeded (log ++ [e]) = succeeded log ++ (if e.ok then e.ctxs else []) := by
  unfold succeeded
  rw [List.filter_append, List.flatMap_append]
  cases h : e.ok <;> simp [h]

/-- One worker iteration for a hook-run head task, in list terms (`ranTask`/`restAfter` are the C07
specification of what is merged). -/
theorem step_run_head (cfg : Cfg) (s : State) (t : Task) (rest : List Task) (ok : Bool) (rnd : Nat)
    (hs : s.items = t :: rest) (ht : t.typ = 0) (hm : t.hasMeta = true)
    (nd : ((t :: rest).map (·.id)).Nodup) :
    step cfg s (.run ok rnd) =
      if shouldRunHook (cfg.version t.hook) t && !ok && !t.allowFailure then
        { items := ranTask cfg t rest :: restAfter cfg t rest, fc := bump s.fc t.id,
          sleep := cfg.backoff (s.fc t.id) rnd, clock := s.clock + s.sleep,
          log := s.log ++ [⟨t.id, t.hook, (ranTask cfg t rest).ctxs, ok, s.clock + s.sleep⟩],
          skipped := s.skipped }
      else
        { items := restAfter cfg t rest, fc := s.fc, sleep := 0, clock := s.clock + s.sleep,
          log := if shouldRunHook (cfg.version t.hook) t
                 then s.log ++ [⟨t.id, t.hook, (ranTask cfg t rest).ctxs, ok, s.clock + s.sleep⟩] else s.log,
          skipped := if shouldRunHook (cfg.version t.hook) t then s.skipped else s.skipped ++ t.ctxs } := by
  have hid := ranTask_id cfg t rest
  simp only [step, hs, ht, hm, handle_head cfg t rest ok hm nd]
  by_cases hr : shouldRunHook (cfg.version t.hook) t = true
  · cases ok
    · by_cases ha : t.allowFailure = true
      · simp [hr, ha, removeById, hid]
      · have ha' : t.allowFailure = false := by simpa using ha
        simp [hr, ha']
    · simp [hr, removeById, hid]
  · have hr' : shouldRunHook (cfg.version t.hook) t = false := by simpa using hr
    simp [hr', removeById, hid]

/-- **C04.2 `fail_keeps_head`**: a failed run of a task that does not allow failure leaves the task
at the head of the queue — carrying exactly the contexts it was executed with —, increments its
failure counter, and the worker sleeps `ExponentialBackoffFn(failureCount)` before the next pick;
the tasks behind it are only those that were not merged. -/
theorem fail_keeps_head (cfg : Cfg) (s : State) (t : Task) (rest : List Task) (rnd : Nat)
    (hs : s.items = t :: rest) (ht : t.typ = 0) (hm : t.hasMeta = true)
    (nd : ((t :: rest).map (·.id)).Nodup)
    (hr : shouldRunHook (cfg.version t.hook) t = true) (ha : t.allowFailure = false) :
    let s' := step cfg s (.run false rnd)
    s'.items = ranTask cfg t rest :: restAfter cfg t rest ∧
    (ranTask cfg t rest).id = t.id ∧
    s'.fc t.id = s.fc t.id + 1 ∧
    s'.sleep = cfg.backoff (s.fc t.id) rnd ∧
    s'.log = s.log ++ [⟨t.id, t.hook, (ranTask cfg t rest).ctxs, false, s.clock + s.sleep⟩] := by
  simp [step_run_head cfg s t rest false rnd hs ht hm nd, hr, ha, ranTask_id, bump]

example : (step (repaired (fun _ => 1) (fun k _ => 5 + k)) { items := [{ id := 1, ctxs := [⟨1, 3, 0⟩] },
      { id := 2, ctxs := [⟨2, 3, 0⟩] }, { id := 3, hook := 1 }] } (.run false 0)).items
    = [{ id := 1, ctxs := [⟨1, 3, 0⟩, ⟨2, 3, 0⟩] }, { id := 3, hook := 1 }] := by decide

/-- **C04.4 `allow_failure_drops`**: a failed run of a task that allows failure is dropped: the task
(with everything merged into it) leaves the queue, no back-off, the counter is untouched, and the
next pick takes the next task. -/
theorem allow_failure_drops (cfg : Cfg) (s : State) (t : Task) (rest : List Task) (rnd : Nat)
    (hs : s.items = t :: rest) (ht : t.typ = 0) (hm : t.hasMeta = true)
    (nd : ((t :: rest).map (·.id)).Nodup)
    (hr : shouldRunHook (cfg.version t.hook) t = true) (ha : t.allowFailure = true) :
    let s' := step cfg s (.run false rnd)
    s'.items = restAfter cfg t rest ∧ t.id ∉ s'.items.map (·.id) ∧ s'.sleep = 0 ∧ s'.fc = s.fc := by
  have hrest : ∀ x ∈ restAfter cfg t rest, x.id ≠ t.id := by
    intro x hx
    apply head_not_in_rest t rest nd
    unfold restAfter at hx
    split at hx
    · exact dropWhile_mem hx
    · exact hx
  simp only [step_run_head cfg s t rest false rnd hs ht hm nd, hr, ha]
  refine ⟨by simp, ?_, by simp, by simp⟩
  simp only [Bool.not_true, Bool.and_false, Bool.false_eq_true, if_false, List.mem_map, not_exists, not_and]
  intro x hx heq
  exact hrest x hx heq

/-- A successful run removes the task (and what was merged into it) and resets the delay. -/
theorem success_removes (cfg : Cfg) (s : State) (t : Task) (rest : List Task) (rnd : Nat)
    (hs : s.items = t :: rest) (ht : t.typ = 0) (hm : t.hasMeta = true)
    (nd : ((t :: rest).map (·.id)).Nodup) :
    let s' := step cfg s (.run true rnd)
    s'.items = restAfter cfg t rest ∧ s'.sleep = 0 := by
  simp [step_run_head cfg s t rest true rnd hs ht hm nd]

/-! ### every "k failures then success" script -/

/-- Appended task ids are new with respect to the queue at that moment (uuid). -/
def FreshEv (s : State) : Ev → Prop
  | .append t => t.id ∉ s.items.map (·.id)
  | .run _ _ => True

def AppendsFresh (cfg : Cfg) : State → List Ev → Prop
  | _, [] => True
  | s, e :: evs => FreshEv s e ∧ AppendsFresh cfg (step cfg s e) evs

def isAppendOrFailedRun : Ev → Bool
  | .append _ => true
  | .run ok _ => !ok

def runCount : List Ev → Nat
  | [] => 0
  | .append _ :: evs => runCount evs
  | .run _ _ :: evs => runCount evs + 1

/-- The head of the queue is (an updated copy of) the hook-run task `t0` that does not allow failure
and always runs its hook (v1 hook, `executeHookOnSynchronization` not switched off). -/
def HeadIs (cfg : Cfg) (t0 : Task) (s : State) : Prop :=
  ∃ t rest, s.items = t :: rest ∧ t.id = t0.id ∧ t.hook = t0.hook ∧ t.typ = 0 ∧ t.hasMeta = true ∧
    t.allowFailure = false ∧ t.execOnSync = true ∧ cfg.version t.hook = 1 ∧
    ((t :: rest).map (·.id)).Nodup

theorem shouldRun_v1 (t : Task) (h : t.execOnSync = true) : shouldRunHook 1 t = true := by
  unfold shouldRunHook
  cases t.isSync <;> simp [h]

theorem ranTask_static (cfg : Cfg) (t : Task) (rest : List Task) :
    (ranTask cfg t rest).hook = t.hook ∧ (ranTask cfg t rest).typ = t.typ ∧
    (ranTask cfg t rest).hasMeta = t.hasMeta ∧ (ranTask cfg t rest).execOnSync = t.execOnSync := by
  unfold ranTask; split <;> exact ⟨rfl, rfl, rfl, rfl⟩

theorem restAfter_sublist (cfg : Cfg) (t : Task) (rest : List Task) :
    (restAfter cfg t rest).Sublist rest := by
  unfold restAfter
  split
  · exact List.dropWhile_sublist _
  · exact List.Sublist.refl _

theorem nodup_after (cfg : Cfg) (t : Task) (rest : List Task) (nd : ((t :: rest).map (·.id)).Nodup) :
    ((ranTask cfg t rest :: restAfter cfg t rest).map (·.id)).Nodup := by
  rw [List.map_cons, ranTask_id]
  have hsub : ((restAfter cfg t rest).map (·.id)).Sublist (rest.map (·.id)) :=
    (restAfter_sublist cfg t rest).map _
  rw [List.map_cons] at nd
  exact List.Nodup.sublist (List.Sublist.cons₂ _ hsub) nd

/-- **C04.2/3 `blocks_queue`**: while the head task keeps failing — whatever is appended meanwhile —
it stays the head of the queue, every hook execution of this queue is an execution of that task (no
later task runs), and its failure counter counts the attempts. -/
theorem blocks_queue (cfg : Cfg) (t0 : Task) (evs : List Ev) :
    ∀ (s : State), HeadIs cfg t0 s → (∀ e ∈ evs, isAppendOrFailedRun e = true) → AppendsFresh cfg s evs →
      HeadIs cfg t0 (run cfg s evs) ∧
      (run cfg s evs).fc t0.id = s.fc t0.id + runCount evs ∧
      ∃ new, (run cfg s evs).log = s.log ++ new ∧ new.length = runCount evs ∧
        ∀ e ∈ new, e.task = t0.id ∧ e.ok = false := by
  induction evs with
  | nil => intro s h _ _; exact ⟨h, by simp [run, runCount], [], by simp [run], rfl, by simp⟩
  | cons e evs ih =>
    intro s hh hall hfresh
    obtain ⟨t, rest, hs, hid, hhook, ht, hm, ha, he, hv, nd⟩ := hh
    have hall' : ∀ e ∈ evs, isAppendOrFailedRun e = true := fun x hx => hall x (by simp [hx])
    obtain ⟨hf1, hf2⟩ := hfresh
    cases e with
    | append a =>
      have hstep : step cfg s (.append a) = { s with items := s.items ++ [a] } := rfl
      have hh' : HeadIs cfg t0 (step cfg s (.append a)) := by
        refine ⟨t, rest ++ [a], by simp [hstep, hs], hid, hhook, ht, hm, ha, he, hv, ?_⟩
        simp only [FreshEv] at hf1
        rw [hs] at hf1
        have : (t :: (rest ++ [a])) = (t :: rest) ++ [a] := by simp
        rw [this, List.map_append, List.nodup_append]
        refine ⟨nd, by simp, ?_⟩
        intro x hx y hy
        simp only [List.map_cons, List.map_nil, List.mem_singleton] at hy
        rw [hy]
        intro hxa
        exact hf1 (by rw [← hxa]; exact hx)
      obtain ⟨r1, r2, new, r3, r4, r5⟩ := ih _ hh' hall' hf2
      refine ⟨by simpa [run] using r1, ?_, new, ?_, ?_, r5⟩
      · simpa [run, runCount, hstep] using r2
      · simpa [run, hstep] using r3
      · simpa [runCount] using r4
    | run ok rnd =>
      have hok : ok = false := by
        have := hall (.run ok rnd) (by simp)
        simpa [isAppendOrFailedRun] using this
      subst hok
      have hr : shouldRunHook (cfg.version t.hook) t = true := by rw [hv]; exact shouldRun_v1 t he
      obtain ⟨k1, k2, k3, k4, k5⟩ := fail_keeps_head cfg s t rest rnd hs ht hm nd hr ha
      obtain ⟨st1, st2, st3, st4⟩ := ranTask_static cfg t rest
      have hh' : HeadIs cfg t0 (step cfg s (.run false rnd)) :=
        ⟨ranTask cfg t rest, restAfter cfg t rest, k1, by rw [k2, hid], by rw [st1, hhook], by rw [st2, ht],
          by rw [st3, hm], by rw [ranTask_af, ha], by rw [st4, he], by rw [st1, hv], nodup_after cfg t rest nd⟩
      obtain ⟨r1, r2, new, r3, r4, r5⟩ := ih _ hh' hall' hf2
      refine ⟨by simpa [run] using r1, ?_, ⟨t.id, t.hook, (ranTask cfg t rest).ctxs, false, s.clock + s.sleep⟩ :: new, ?_, ?_, ?_⟩
      · have : (run cfg s (.run false rnd :: evs)).fc t0.id = (run cfg (step cfg s (.run false rnd)) evs).fc t0.id := rfl
        rw [this, r2, ← hid, k3]
        simp [runCount]; omega
      · have : (run cfg s (.run false rnd :: evs)).log = (run cfg (step cfg s (.run false rnd)) evs).log := rfl
        rw [this, r3, k5]; simp
      · simp [runCount, r4]
      · intro e he'
        rcases List.mem_cons.mp he' with rfl | he'
        · exact ⟨hid, rfl⟩
        · exact r5 e he'

/-- **C04.3 `retry_until_success`**: for every script "k failed runs (with arbitrary arrivals in
between), then a successful run" the executions of the queue are k+1 executions of the same task,
the last one succeeds and removes it; nothing else ran in between. -/
theorem retry_until_success (cfg : Cfg) (t0 : Task) (evs : List Ev) (s : State) (rnd : Nat)
    (h : HeadIs cfg t0 s) (hall : ∀ e ∈ evs, isAppendOrFailedRun e = true)
    (hfresh : AppendsFresh cfg s evs) :
    let s' := run cfg s (evs ++ [.run true rnd])
    ∃ new last, s'.log = s.log ++ new ++ [last] ∧ new.length = runCount evs ∧
      (∀ e ∈ new, e.task = t0.id ∧ e.ok = false) ∧ last.task = t0.id ∧ last.ok = true ∧
      t0.id ∉ s'.items.map (·.id) ∧ s'.sleep = 0 := by
  obtain ⟨hh, _, new, hlog, hlen, hnew⟩ := blocks_queue cfg t0 evs s h hall hfresh
  obtain ⟨t, rest, hs, hid, hhook, ht, hm, ha, he, hv, nd⟩ := hh
  have hr : shouldRunHook (cfg.version t.hook) t = true := by rw [hv]; exact shouldRun_v1 t he
  have hrun : run cfg s (evs ++ [.run true rnd]) = step cfg (run cfg s evs) (.run true rnd) := by
    simp [run, List.foldl_append]
  have hstep := step_run_head cfg (run cfg s evs) t rest true rnd hs ht hm nd
  have hrest : ∀ x ∈ restAfter cfg t rest, x.id ≠ t.id := by
    intro x hx
    exact head_not_in_rest t rest nd x ((restAfter_sublist cfg t rest).subset hx)
  refine ⟨new, ⟨t.id, t.hook, (ranTask cfg t rest).ctxs, true, (run cfg s evs).clock + (run cfg s evs).sleep⟩, ?_, hlen, hnew, hid, rfl, ?_, ?_⟩
  · simp only [hrun, hstep, hr]; simp [hlog]
  · simp only [hrun, hstep, hr]
    simp only [Bool.not_true, Bool.and_false, Bool.false_and, Bool.false_eq_true, if_false, List.mem_map, not_exists, not_and]
    intro x hx heq
    exact hrest x hx (by rw [heq, hid])
  · simp only [hrun, hstep, hr]; simp

example : HeadIs (repaired (fun _ => 1) (fun k _ => 5 + k)) { id := 1 }
    { items := [{ id := 1, ctxs := [⟨1, 3, 0⟩] }, { id := 2 }] } :=
  ⟨{ id := 1, ctxs := [⟨1, 3, 0⟩] }, [{ id := 2 }], rfl, rfl, rfl, rfl, rfl, rfl, rfl, rfl, by decide⟩

/-- **C04.3 (contexts)**: re-combining a task that already carries compacted contexts with the tasks
that arrived meanwhile gives the compaction of everything: attempt j+1 executes the contexts of
attempt j plus the new arrivals, modulo group compaction. -/
theorem retry_contexts (prev arrived : List Ctx) (orig : List Ctx) (h : prev = compact orig) :
    compact (prev ++ arrived) = compact (orig ++ arrived) := by
  rw [h, compact_append_compact]

/-- **C04 (timing)**: between a failed attempt and the next pick of that queue the model clock
advances by the back-off delay, which is never shorter than the initial delay when the queue uses
a back-off function with that lower bound (the default one has it: `queue_delay_bounds`). -/
theorem retry_spacing (cfg : Cfg) (initial : Nat) (hb : ∀ k r, initial ≤ cfg.backoff k r)
    (s : State) (t : Task) (rest : List Task) (rnd : Nat) (apps : List Task) (ok2 : Bool) (rnd2 : Nat)
    (hs : s.items = t :: rest) (ht : t.typ = 0) (hm : t.hasMeta = true)
    (nd : ((t :: rest).map (·.id)).Nodup)
    (hr : shouldRunHook (cfg.version t.hook) t = true) (ha : t.allowFailure = false) :
    let s1 := step cfg s (.run false rnd)
    let s2 := run cfg s1 (apps.map .append)
    s2.sleep = s1.sleep ∧ s2.clock = s1.clock ∧
    (step cfg s2 (.run ok2 rnd2)).clock ≥ s1.clock + initial := by
  have hsl := (fail_keeps_head cfg s t rest rnd hs ht hm nd hr ha).2.2.2.1
  have happ : ∀ (l : List Task) (s : State), (run cfg s (l.map .append)).sleep = s.sleep ∧
      (run cfg s (l.map .append)).clock = s.clock ∧
      ((run cfg s (l.map .append)).items = [] → s.items = []) := by
    intro l
    induction l with
    | nil => intro s; simp [run]
    | cons a as ih =>
      intro s
      have := ih (step cfg s (.append a))
      simp only [List.map_cons, run, List.foldl_cons] at this ⊢
      refine ⟨by simpa [step] using this.1, by simpa [step] using this.2.1, ?_⟩
      intro h
      have := this.2.2 h
      simp [step] at this
  obtain ⟨h1, h2, h3⟩ := happ apps (step cfg s (.run false rnd))
  refine ⟨h1, h2, ?_⟩
  have hclock : ∀ (s : State) (ok : Bool) (r : Nat), s.items ≠ [] →
      (step cfg s (.run ok r)).clock = s.clock + s.sleep := by
    intro s ok r hne
    cases hi : s.items with
    | nil => exact absurd hi hne
    | cons x xs =>
      simp only [step, hi]
      split
      · rfl
      · split <;> rfl
  have hne : (run cfg (step cfg s (.run false rnd)) (apps.map .append)).items ≠ [] := by
    intro h
    have := h3 h
    rw [(fail_keeps_head cfg s t rest rnd hs ht hm nd hr ha).1] at this
    simp at this
  rw [hclock _ ok2 rnd2 hne, h1, h2, hsl]
  have := hb (s.fc t.id) rnd
  omega

/-! ## C04.5 `no_discard` -/

/-- Everything the bookkeeping knows about: waiting (non-allow-failure), succeeded, skipped. -/
def total (s : State) : List Ctx := pendingNF s.items ++ succeeded s.log ++ s.skipped

theorem safe_eq (s : State) (c : Ctx) : safe s c = covered c (total s) := rfl

/-- One step of the repaired code keeps every tracked context covered. -/
theorem step_covers (cfg : Cfg) (hst : StopsOnAfChange cfg.stopOf) (s : State) (ev : Ev)
    (nd : (s.items.map (·.id)).Nodup) :
    ∀ x ∈ total s, covered x (total (step cfg s ev)) = true := by
  intro x hx
  cases ev with
  | append a =>
    apply covered_of_mem
    simp only [total, step, pendingNF_append, List.mem_append] at hx ⊢
    rcases hx with (hx | hx) | hx
    · simp [hx, succeeded_snoc]
    · simp [hx, succeeded_snoc]
    · simp [hx, succeeded_snoc]
  | run ok rnd =>
    cases hi : s.items with
    | nil => simp only [step, hi]; exact covered_of_mem (by simpa [total, hi] using hx)
    | cons t rest =>
      rw [hi] at nd
      by_cases hty : (t.typ != 0 || !t.hasMeta) = true
      · -- a task of another type
        apply covered_of_mem
        simp only [total, hi, pendingNF_cons, List.mem_append] at hx
        simp only [step, hi, hty, if_true, total, removeById_head, List.mem_append]
        rcases hx with ((hx | hx) | hx) | hx
        · split at hx
          · simp at hx
          · simp [hx, succeeded_snoc]
        · simp [hx, succeeded_snoc]
        · simp [hx, succeeded_snoc]
        · simp [hx, succeeded_snoc]
      · have hty' : t.typ = 0 ∧ t.hasMeta = true := by
          simp only [Bool.or_eq_true, bne_iff_ne, ne_eq, Bool.not_eq_true', not_or, Decidable.not_not,
            Bool.not_eq_false] at hty
          exact hty
        rw [step_run_head cfg s t rest ok rnd hi hty'.1 hty'.2 nd]
        -- shape of the old waiting list
        have hsplit : rest = merged t (cfg.stopOf t) rest ++ rest.dropWhile (combinable t (cfg.stopOf t)) := by
          simp [merged]
        have hmaf := merged_same_af cfg.stopOf hst t rest
        simp only [total, hi, pendingNF_cons, List.mem_append] at hx
        by_cases hc : combines cfg t rest = true
        · -- followers are merged into the head
          have hrun : shouldRunHook (cfg.version t.hook) t = true := by
            simp only [combines, Bool.and_eq_true] at hc; exact hc.1.1.1
          have hra : restAfter cfg t rest = rest.dropWhile (combinable t (cfg.stopOf t)) := by
            simp [restAfter, hc]
          have hctx : (ranTask cfg t rest).ctxs
              = compact (t.ctxs ++ (merged t (cfg.stopOf t) rest).flatMap (·.ctxs)) := by
            simp [ranTask, hc, contexts]
          have hpr : pendingNF rest = pendingNF (merged t (cfg.stopOf t) rest) ++
              pendingNF (rest.dropWhile (combinable t (cfg.stopOf t))) := by
            conv => lhs; rw [hsplit]
            exact pendingNF_append _ _
          rw [hpr] at hx
          by_cases ha : t.allowFailure = true
          · -- everything merged allows failure: nothing of it is tracked
            have hnone : pendingNF (merged t (cfg.stopOf t) rest) = [] :=
              pendingNF_all_af _ (fun o ho => by rw [hmaf o ho, ha])
            rw [hnone] at hx
            apply covered_of_mem
            simp only [ha, if_true, List.not_mem_nil, false_or, List.mem_append, List.nil_append] at hx
            simp only [hrun, ha, Bool.not_true, Bool.and_false, Bool.false_eq_true, if_false, if_true, total,
              hra, succeeded_snoc, List.mem_append]
            rcases hx with (hx | hx) | hx
            · simp [hx, succeeded_snoc]
            · simp [hx, succeeded_snoc]
            · simp [hx, succeeded_snoc]
          · have ha' : t.allowFailure = false := by simpa using ha
            have hall : pendingNF (merged t (cfg.stopOf t) rest) = (merged t (cfg.stopOf t) rest).flatMap (·.ctxs) :=
              pendingNF_none_af _ (fun o ho => by rw [hmaf o ho, ha'])
            rw [hall] at hx
            simp only [ha', Bool.false_eq_true, if_false, List.mem_append] at hx
            have hcov : ∀ y ∈ t.ctxs ++ (merged t (cfg.stopOf t) rest).flatMap (·.ctxs),
                covered y (ranTask cfg t rest).ctxs = true := by
              rw [hctx]; exact compact_covers _
            cases ok
            · -- failed: the task stays, carrying the compacted contexts
              simp only [hrun, ha', Bool.not_false, Bool.and_self, if_true, total, pendingNF_cons, ranTask_af,
                Bool.false_eq_true, if_false, hra]
              rcases hx with ((hx | (hx | hx)) | hx) | hx
              · exact covered_mono (hcov x (by simp [hx])) (by intro y hy; simp [hy])
              · exact covered_mono (hcov x (List.mem_append.mpr (Or.inr hx))) (by intro y hy; simp [hy])
              · exact covered_of_mem (by simp [hx, succeeded_snoc])
              · exact covered_of_mem (by simp [hx, succeeded_snoc])
              · exact covered_of_mem (by simp [hx, succeeded_snoc])
            · -- succeeded: the contexts were part of a successful execution
              simp only [hrun, Bool.not_true, Bool.and_false, Bool.false_and, Bool.false_eq_true, if_false,
                if_true, total, hra, succeeded_snoc]
              rcases hx with ((hx | (hx | hx)) | hx) | hx
              · exact covered_mono (hcov x (by simp [hx])) (by intro y hy; simp [hy])
              · exact covered_mono (hcov x (List.mem_append.mpr (Or.inr hx))) (by intro y hy; simp [hy])
              · exact covered_of_mem (by simp [hx, succeeded_snoc])
              · exact covered_of_mem (by simp [hx, succeeded_snoc])
              · exact covered_of_mem (by simp [hx, succeeded_snoc])
        · -- nothing merged: the task is handled alone
          have hc' : combines cfg t rest = false := by simpa using hc
          have hra : restAfter cfg t rest = rest := by simp [restAfter, hc']
          have hrt : ranTask cfg t rest = t := by simp [ranTask, hc']
          apply covered_of_mem
          rw [hra, hrt]
          by_cases hrun : shouldRunHook (cfg.version t.hook) t = true
          · cases ok
            · by_cases ha : t.allowFailure = true
              · simp only [ha, if_true, List.not_mem_nil, false_or] at hx
                simp only [hrun, ha, Bool.not_true, Bool.and_false, Bool.false_eq_true, if_false, if_true, total,
                  succeeded_snoc, List.mem_append]
                rcases hx with (hx | hx) | hx
                · simp [hx, succeeded_snoc]
                · simp [hx, succeeded_snoc]
                · simp [hx, succeeded_snoc]
              · have ha' : t.allowFailure = false := by simpa using ha
                simp only [ha', Bool.false_eq_true, if_false] at hx
                simp only [hrun, ha', Bool.not_false, Bool.and_self, if_true, total, pendingNF_cons,
                  Bool.false_eq_true, if_false, succeeded_snoc, List.mem_append]
                rcases hx with ((hx | hx) | hx) | hx
                · simp [hx, succeeded_snoc]
                · simp [hx, succeeded_snoc]
                · simp [hx, succeeded_snoc]
                · simp [hx, succeeded_snoc]
            · simp only [hrun, Bool.not_true, Bool.and_false, Bool.false_and, Bool.false_eq_true, if_false,
                if_true, total, succeeded_snoc, List.mem_append]
              rcases hx with ((hx | hx) | hx) | hx
              · split at hx
                · simp at hx
                · simp [hx, succeeded_snoc]
              · simp [hx, succeeded_snoc]
              · simp [hx, succeeded_snoc]
              · simp [hx, succeeded_snoc]
          · have hrun' : shouldRunHook (cfg.version t.hook) t = false := by simpa using hrun
            simp only [hrun', Bool.false_and, Bool.false_eq_true, if_false, total, List.mem_append]
            rcases hx with ((hx | hx) | hx) | hx
            · split at hx
              · simp at hx
              · simp [hx, succeeded_snoc]
            · simp [hx, succeeded_snoc]
            · simp [hx, succeeded_snoc]
            · simp [hx, succeeded_snoc]

theorem step_nodup (cfg : Cfg) (s : State) (ev : Ev) (nd : (s.items.map (·.id)).Nodup)
    (hf : FreshEv s ev) :
    ((step cfg s ev).items.map (·.id)).Nodup := by
  cases ev with
  | append a =>
    simp only [step, List.map_append, List.nodup_append]
    refine ⟨nd, by simp, ?_⟩
    intro x hx y hy
    simp only [List.map_cons, List.map_nil, List.mem_singleton] at hy
    rw [hy]
    intro hxa
    simp only [FreshEv] at hf
    exact hf (by rw [← hxa]; exact hx)
  | run ok rnd =>
    cases hi : s.items with
    | nil => simp [step, hi]
    | cons t rest =>
      rw [hi] at nd
      by_cases hty : (t.typ != 0 || !t.hasMeta) = true
      · simp only [step, hi, hty, if_true, removeById_head]
        rw [List.map_cons, List.nodup_cons] at nd
        exact nd.2
      · have hty' : t.typ = 0 ∧ t.hasMeta = true := by
          simp only [Bool.or_eq_true, bne_iff_ne, ne_eq, Bool.not_eq_true', not_or, Decidable.not_not,
            Bool.not_eq_false] at hty
          exact hty
        rw [step_run_head cfg s t rest ok rnd hi hty'.1 hty'.2 nd]
        have h1 := nodup_after cfg t rest nd
        split
        · exact h1
        · rw [List.map_cons, List.nodup_cons] at h1
          exact h1.2

/-- **C04.5 `no_discard`** (for every stop-combine predicate that stops at a differing
`AllowFailure` — the repaired code's, and any stricter one): along every event sequence — arrivals with new ids,
failing and succeeding runs in any pattern — a binding context that is tracked (it waits in a task
that does not allow failure, or was executed successfully, or is not to be run by configuration)
stays tracked: it is never discarded after a failed run. Grouped contexts are tracked up to group
compaction (`covered`: a context of the same group survives). -/
theorem no_discard_of (cfg : Cfg) (hst : StopsOnAfChange cfg.stopOf) (evs : List Ev) :
    ∀ (s : State), (s.items.map (·.id)).Nodup → AppendsFresh cfg s evs →
      ∀ c, safe s c = true → safe (run cfg s evs) c = true := by
  induction evs with
  | nil => intro s _ _ c h; exact h
  | cons e evs ih =>
    intro s nd hf c h
    have hstep : safe (step cfg s e) c = true := by
      rw [safe_eq] at h ⊢
      exact covered_trans h (step_covers cfg hst s e nd)
    exact ih _ (step_nodup _ s e nd hf.1) hf.2 c hstep

/-- `no_discard` for the code in the repository (`taskHandleHookRun` passes
`stopCombineFn = AllowFailure differs`). -/
theorem no_discard (version : Nat → Nat) (backoff : Nat → Nat → Nat) (evs : List Ev) (s : State)
    (nd : (s.items.map (·.id)).Nodup) (hf : AppendsFresh (repaired version backoff) s evs) :
    ∀ c, safe s c = true → safe (run (repaired version backoff) s evs) c = true :=
  no_discard_of (repaired version backoff) stopsOnAfChange_withSkippedSync evs s nd hf

/-- Every context of an arriving task that does not allow failure is tracked from its arrival. -/
theorem arrival_is_tracked (cfg : Cfg) (s : State) (t : Task) (h : t.allowFailure = false) :
    ∀ c ∈ t.ctxs, safe (step cfg s (.append t)) c = true := by
  intro c hc
  rw [safe_eq]
  apply covered_of_mem
  simp only [total, step, pendingNF_append, List.mem_append]
  refine Or.inl (Or.inl (Or.inr ?_))
  simp [pendingNF, h, hc]

/-- **C04.5 (the sentence of the property)**: after a failed run, every context of every queued task
that does not allow failure is still covered by the queued tasks that do not allow failure. -/
theorem failed_run_discards_nothing (version : Nat → Nat) (backoff : Nat → Nat → Nat) (s : State)
    (rnd : Nat) (nd : (s.items.map (·.id)).Nodup)
    (hlog : succeeded s.log = []) (hsk : s.skipped = [])
    (hrun : ∀ t ∈ s.items.head?, t.typ = 0 ∧ t.hasMeta = true ∧ shouldRunHook (version t.hook) t = true) :
    ∀ b ∈ s.items, b.allowFailure = false → ∀ c ∈ b.ctxs,
      covered c (pendingNF (step (repaired version backoff) s (.run false rnd)).items) = true := by
  intro b hb haf c hc
  have hmem : c ∈ total s := by
    simp only [total, hlog, hsk, List.append_nil, pendingNF, List.mem_flatMap, List.mem_filter]
    exact ⟨b, ⟨hb, by simp [haf]⟩, hc⟩
  have := step_covers (repaired version backoff) stopsOnAfChange_withSkippedSync s (.run false rnd) nd c hmem
  cases hi : s.items with
  | nil => rw [hi] at hb; simp at hb
  | cons t rest =>
    obtain ⟨ht, hm, hr⟩ := hrun t (by simp [hi])
    rw [hi] at nd
    have hr' : shouldRunHook ((repaired version backoff).version t.hook) t = true := hr
    rw [step_run_head _ s t rest false rnd hi ht hm nd] at this ⊢
    by_cases ha : t.allowFailure = true
    · simp only [hr', ha, Bool.not_true, Bool.and_false, Bool.false_eq_true, if_false, if_true, total, hlog,
        hsk, succeeded_snoc, List.append_nil] at this ⊢
      exact this
    · have ha' : t.allowFailure = false := by simpa using ha
      simp only [hr', ha', Bool.not_false, Bool.and_self, if_true, total, hlog, hsk, succeeded_snoc,
        Bool.false_eq_true, if_false, List.append_nil] at this ⊢
      exact this

/-- **The defect found on the unrepaired tree** (`combineBindingContextForHook(…, t, nil)`): head
task of a binding with `allowFailure: true`, next task of the same hook from a binding with
`allowFailure: false`, the hook fails — both contexts are gone. -/
theorem no_discard_unrepaired_witness :
    let cfg := unrepaired (fun _ => 1) (fun k _ => 5 + k)
    let s : State := { items := [{ id := 1, allowFailure := true, ctxs := [⟨1, 3, 0⟩] },
                                 { id := 2, allowFailure := false, ctxs := [⟨2, 3, 0⟩] }] }
    safe s ⟨2, 3, 0⟩ = true ∧ safe (step cfg s (.run false 0)) ⟨2, 3, 0⟩ = false ∧
    (step cfg s (.run false 0)).items = [] := by decide

/-- The same layout on the repaired code: the strict task is not merged, stays queued, and is
retried on its own. -/
theorem no_discard_repaired_witness :
    let cfg := repaired (fun _ => 1) (fun k _ => 5 + k)
    let s : State := { items := [{ id := 1, allowFailure := true, ctxs := [⟨1, 3, 0⟩] },
                                 { id := 2, allowFailure := false, ctxs := [⟨2, 3, 0⟩] }] }
    (step cfg s (.run false 0)).items = [{ id := 2, allowFailure := false, ctxs := [⟨2, 3, 0⟩] }] ∧
    (step cfg (step cfg s (.run false 0)) (.run false 0)).items
      = [{ id := 2, allowFailure := false, ctxs := [⟨2, 3, 0⟩] }] ∧
    (step cfg (step cfg s (.run false 0)) (.run false 0)).sleep = 5 := by decide

/-! ## C04.6 "… or its patch/metric/response output cannot be parsed or applied"

`HookOutput` models how `Hook.Run` / `handleRunHook` turn what the hook left behind into the
handler's error: exit code, the metrics file through `MetricOperationsFromReader` +
`ValidateOperations`, the patch file as an outcome. -/

open ShellOp.HookOutput in
/-- **C04.6 `unparsable_output_is_failed_run`**: whatever the exit code and the patch outcome, a run
whose metrics file is not a well-formed stream of valid metric operations (or whose exit code is
not 0, or whose patch cannot be parsed/applied) is a *failed* run: for a head task that does not
allow failure the task stays at the head with the contexts it was executed with, its failure
counter grows, the worker sleeps the back-off — nothing else of the queue runs. -/
theorem unparsable_output_is_failed_run (cfg : Cfg) (s : State) (t : Task) (rest : List Task) (rnd : Nat)
    (exit : Nat) (metrics : List Char) (patchOk : Bool)
    (hbad : exit ≠ 0 ∨ metricsOk metrics = false ∨ patchOk = false)
    (hs : s.items = t :: rest) (ht : t.typ = 0) (hm : t.hasMeta = true)
    (nd : ((t :: rest).map (·.id)).Nodup)
    (hr : shouldRunHook (cfg.version t.hook) t = true) (ha : t.allowFailure = false) :
    let s' := step cfg s (.run (hookOk exit metrics patchOk) rnd)
    s'.items = ranTask cfg t rest :: restAfter cfg t rest ∧
    (ranTask cfg t rest).id = t.id ∧
    s'.fc t.id = s.fc t.id + 1 ∧
    s'.sleep = cfg.backoff (s.fc t.id) rnd ∧
    s'.log = s.log ++ [⟨t.id, t.hook, (ranTask cfg t rest).ctxs, false, s.clock + s.sleep⟩] := by
  have hok : hookOk exit metrics patchOk = false := by
    unfold hookOk
    rcases hbad with h | h | h
    · have : (exit == 0) = false := by simpa using h
      simp [this]
    · simp [h]
    · simp [h]
  rw [hok]
  exact fail_keeps_head cfg s t rest rnd hs ht hm nd hr ha

open ShellOp.HookOutput in
/-- **C04.6 `stray_closer_is_failed_run`**: a metrics file in which — after any number of good
documents and blanks — the next byte is a closing brace or bracket (or `,` / `:`) is unparsable as a
whole, so the run is a failed one (with `unparsable_output_is_failed_run`: retried, queue blocked). -/
theorem stray_closer_is_failed_run (file rest ws r : List Char) (c : Char) (exit : Nat) (patchOk : Bool)
    (hr : Reaches file rest) (hrest : rest = ws ++ c :: r) (hws : ws.all isWs = true)
    (hc : c = '}' ∨ c = ']' ∨ c = ',' ∨ c = ':') :
    hookOk exit file patchOk = false := by
  simp [hookOk, stray_closer_unparsable file rest ws r c hr hrest hws hc]

open ShellOp.HookOutput in
/-- **C04.6 `accepted_metrics_fully_read`**: a run counts as successful only if the whole metrics
file was read: it is a stream of decodable documents followed by blanks only. -/
theorem accepted_metrics_fully_read (exit : Nat) (file : List Char) (patchOk : Bool)
    (h : hookOk exit file patchOk = true) : exit = 0 ∧ IsStream file ∧ patchOk = true := by
  simp only [hookOk, Bool.and_eq_true, beq_iff_eq] at h
  exact ⟨h.1.1, metricsOk_stream file h.1.2, h.2⟩

open ShellOp.HookOutput in
example : hookOk 0 "{\"name\":\"m\",\"set\":1}}".toList true = false
    ∧ hookOk 0 "{\"name\":\"m\",\"set\":1}\n".toList true = true
    ∧ hookOk 0 "{\"name\":\"m\",\"set\":1}\n]\n{\"name\":\"m\",\"set\":1}".toList true = false
    ∧ hookOk 0 "{\"name\":\"m\",\"se".toList true = false
    ∧ hookOk 1 [] true = false := by decide

open ShellOp.HookOutput in
/-- The hypotheses of `stray_closer_is_failed_run` are satisfiable: one good document, then `}`. -/
example : Reaches "{\"name\":\"m\",\"set\":1}}".toList "}".toList :=
  .doc _ (.obj [("name".toList, .str "m".toList), ("set".toList, .num)]) "}".toList _ rfl (by decide) rfl
    (.refl _)

/-! ## C04.7 "non-zero exit": a process that did not exit at all

`os.ProcessState.ExitCode()` is -1 for a process terminated by a signal; `cmd.Run()` reports every end
other than "exited with status 0" as an error (`ProcEnd.success`). -/

open ShellOp.HookOutput in
/-- `runOk` for a process that exited is `hookOk` of its status code. -/
theorem runOk_exited (code : Nat) (metrics : List Char) (patchOk : Bool) :
    runOk (.exited code) metrics patchOk = hookOk code metrics patchOk := by
  cases code <;> simp [runOk, hookOk, ProcEnd.success]

open ShellOp.HookOutput in
/-- **C04.7 `abnormal_end_is_failed_run`**: a hook process that ended in any way other than
"exited with status 0" — every non-zero status, every terminating signal (SIGKILL by the OOM killer,
SIGTERM, a crash with SIGSEGV …), whatever it had written to its output files before — is a *failed*
run: for a head task that does not allow failure the task stays at the head with the contexts it
was executed with, its failure counter grows, the worker sleeps the back-off. -/
theorem abnormal_end_is_failed_run (cfg : Cfg) (s : State) (t : Task) (rest : List Task) (rnd : Nat)
    (p : ProcEnd) (metrics : List Char) (patchOk : Bool) (hp : p ≠ .exited 0)
    (hs : s.items = t :: rest) (ht : t.typ = 0) (hm : t.hasMeta = true)
    (nd : ((t :: rest).map (·.id)).Nodup)
    (hr : shouldRunHook (cfg.version t.hook) t = true) (ha : t.allowFailure = false) :
    let s' := step cfg s (.run (runOk p metrics patchOk) rnd)
    s'.items = ranTask cfg t rest :: restAfter cfg t rest ∧
    (ranTask cfg t rest).id = t.id ∧
    s'.fc t.id = s.fc t.id + 1 ∧
    s'.sleep = cfg.backoff (s.fc t.id) rnd ∧
    s'.log = s.log ++ [⟨t.id, t.hook, (ranTask cfg t rest).ctxs, false, s.clock + s.sleep⟩] := by
  have hok : runOk p metrics patchOk = false := by
    cases p with
    | exited code =>
      cases code with
      | zero => exact absurd rfl hp
      | succ n => simp [runOk, ProcEnd.success]
    | signaled sig => simp [runOk, ProcEnd.success]
  rw [hok]
  exact fail_keeps_head cfg s t rest rnd hs ht hm nd hr ha

open ShellOp.HookOutput in
/-- **C04.7 `killed_run_is_failed_run`**: the instance for a terminating signal. -/
theorem killed_run_is_failed_run (sig : Nat) (metrics : List Char) (patchOk : Bool) :
    runOk (.signaled sig) metrics patchOk = false := by
  simp [runOk, ProcEnd.success]

open ShellOp.HookOutput in
example : runOk (.signaled 9) [] true = false ∧ runOk (.exited 255) [] true = false
    ∧ runOk (.exited 0) [] true = true
    ∧ runOk (.signaled 15) "{\"name\":\"m\",\"set\":1}\n".toList true = false := by decide

/-! ## C04.10 "… or its … metric … output cannot be … applied": accepted ⇒ applied

`SendBatch` validates, then applies: ungrouped operations through `sendBatchV0`, grouped ones through
`applyGroupOperations`, whose loop has no branch (and no error) for an action it does not know
(`HookOutput.applyOp`). A run may count as successful only if every operation of its metrics file
took a branch with an effect — the validation must reject whatever nothing would apply. -/

open ShellOp.HookOutput in
/-- **C04.10 `accepted_operation_is_applied`**: every operation the validation accepts is applied
by a branch with an effect (never the error of the ungrouped path, never dropped silently by the
grouped loop), and unless it is an expire it names the series it is applied to. -/
theorem accepted_operation_is_applied (op : MetricOp) (h : validOp op = true) :
    applyOp op = .effect ∧ (op.action ≠ "expire".toList → op.name ≠ []) :=
  ⟨validOp_applied op h, validOp_named op h⟩

open ShellOp.HookOutput in
/-- **C04.10 `accepted_metrics_all_applied`**: a run that counts as successful has applied EVERY
operation of its (non-empty) metrics file. -/
theorem accepted_metrics_all_applied (p : ProcEnd) (file : List Char) (patchOk : Bool) (hne : file ≠ [])
    (h : runOk p file patchOk = true) :
    ∃ ops, fromReader file = some ops ∧ ∀ op ∈ ops, applyOp op = .effect := by
  simp only [runOk, Bool.and_eq_true] at h
  exact metricsOk_all_applied file hne h.1.2

open ShellOp.HookOutput in
/-- **C04.10 `unapplicable_output_is_failed_run`**: a run whose metrics file — however the process
ended, whatever the patch outcome — contains an operation that nothing applies (`applyOp ≠ effect`:
e.g. a grouped `observe`) is a *failed* run: for a head task that does not allow failure the task
stays at the head with the contexts it was executed with, its failure counter grows, the worker
sleeps the back-off — no later task of the queue runs. -/
theorem unapplicable_output_is_failed_run (cfg : Cfg) (s : State) (t : Task) (rest : List Task) (rnd : Nat)
    (p : ProcEnd) (file : List Char) (patchOk : Bool) (ops : List MetricOp) (op : MetricOp)
    (hf : fromReader file = some ops) (hop : op ∈ ops) (hn : applyOp op ≠ .effect)
    (hs : s.items = t :: rest) (ht : t.typ = 0) (hm : t.hasMeta = true)
    (nd : ((t :: rest).map (·.id)).Nodup)
    (hr : shouldRunHook (cfg.version t.hook) t = true) (ha : t.allowFailure = false) :
    let s' := step cfg s (.run (runOk p file patchOk) rnd)
    s'.items = ranTask cfg t rest :: restAfter cfg t rest ∧
    (ranTask cfg t rest).id = t.id ∧
    s'.fc t.id = s.fc t.id + 1 ∧
    s'.sleep = cfg.backoff (s.fc t.id) rnd ∧
    s'.log = s.log ++ [⟨t.id, t.hook, (ranTask cfg t rest).ctxs, false, s.clock + s.sleep⟩] := by
  have hok : runOk p file patchOk = false := by
    simp [runOk, unapplied_not_ok file ops hf op hop hn]
  rw [hok]
  exact fail_keeps_head cfg s t rest rnd hs ht hm nd hr ha

open ShellOp.HookOutput in
/-- **C04.10 `grouped_observe_is_dropped`**: the grouped loop has no branch for `observe` (nor for any
action other than expire / add / set without the deprecated pointers): such an operation satisfies
the hypothesis of `unapplicable_output_is_failed_run`. -/
theorem grouped_observe_is_dropped (op : MetricOp) (hg : op.group ≠ []) (ha : op.action = "observe".toList)
    (hS : op.set = false) (hA : op.add = false) : applyOp op = .nothing := by
  have hg' : (op.group == ([] : List Char)) = false := by simpa using hg
  simp [applyOp, hg', ha, hS, hA]

open ShellOp.HookOutput in
/-- **Witness** (kernel-checked): with the two action tables merged into one switch ("set, add, observe
are common actions") a grouped observe with every member in place is accepted although nothing applies
it; the code's table rejects it. -/
theorem merged_action_table_witness :
    let op : MetricOp := { group := "g".toList, name := "h".toList, action := "observe".toList, value := true, buckets := true }
    validOpMergedTable op = true ∧ applyOp op = .nothing ∧ validOp op = false := by decide

open ShellOp.HookOutput in
/-- Non-vacuity: the grouped observe as a file (rejected: failed run), a grouped add and an ungrouped
observe (accepted), an ungrouped expire (rejected); the hypotheses of `unapplicable_output_is_failed_run`
hold for the first text. -/
example : runOk (.exited 0) "{\"group\":\"g\",\"name\":\"h\",\"action\":\"observe\",\"value\":1,\"buckets\":[1,2]}".toList true = false
    ∧ runOk (.exited 0) "{\"group\":\"g\",\"name\":\"c\",\"action\":\"add\",\"value\":1}".toList true = true
    ∧ runOk (.exited 0) "{\"name\":\"h\",\"action\":\"observe\",\"value\":1,\"buckets\":[1,2]}".toList true = true
    ∧ runOk (.exited 0) "{\"name\":\"h\",\"action\":\"expire\"}".toList true = false
    ∧ (fromReader "{\"group\":\"g\",\"name\":\"h\",\"action\":\"observe\",\"value\":1,\"buckets\":[1,2]}".toList).map
        (·.map applyOp) = some [.nothing] := by decide

/-- **C04.10 tie T4 `translated_validation_accepts_only_applied`**: `ValidateMetricOperation` as
TRANSLATED from the Go source on every run (`Generated/Trans.lean`, number of errors appended) accepts
only operations that `sendBatchV0` / `applyGroupOperations` apply with an effect: for every decoded
document `m` and every typed reading `op` of it (same presence of the members, same action), no
error from the translated function ⇒ `applyOp m = effect`. -/
theorem translated_validation_accepts_only_applied (m : ShellOp.HookOutput.MetricOp) (op : ShellOp.Metrics.Op)
    (h : ShellOp.MetricsText.abstracts m op = true) (hv : Trans.validateMetricOperation op = 0) :
    ShellOp.HookOutput.applyOp m = .effect := by
  have hu : Facts.c16UngroupedActions = ["set", "add", "observe"] := by decide
  have hg : Facts.c16GroupedActions = ["expire", "set", "add"] := by decide
  have hvalid := (ShellOp.Proofs.TransMetrics.validate_op_iff op hu hg).mp hv
  rw [← ShellOp.MetricsText.validOp_of_abstracts m op h hu hg] at hvalid
  exact ShellOp.HookOutput.validOp_applied m hvalid

/-- Non-vacuity: a grouped add is a reading the translated validation accepts; the grouped observe is
a reading it rejects. -/
example :
    ShellOp.MetricsText.abstracts { group := "g".toList, name := "c".toList, action := "add".toList, value := true }
      { group := 1, name := 2, action := "add", value := some 2 } = true
    ∧ Trans.validateMetricOperation { group := 1, name := 2, action := "add", value := some 2 } = 0
    ∧ Trans.validateMetricOperation { group := 1, name := 2, action := "observe", value := some 2, buckets := true } ≠ 0 := by
  decide

/-! ## C04.8 "a back-off delay never shorter than the initial delay": `CancelTaskDelay`

`CancelTaskDelay()` (public; embedding operators wake a queue with it) breaks the wait loop that is
*in progress*. A request that arrives while no wait is in progress — the worker is inside the
handler — leaves nothing behind, and the back-off that starts after a failure of that very run
lasts its full length. (A request during the back-off itself ends it: that is what the call is for;
`cancel_during_wait_witness`.) -/

open ShellOp.Wait in
/-- **C04.8 `earlier_cancel_does_not_cut_backoff`**: whatever number of `CancelTaskDelay()` calls
arrived while the handler was running (`f0.inProgress = false`), they change nothing, and the
`waitForTask(sleepDelay)` that follows with `sleepDelay ≠ 0` returns the head task only on a tick
whose elapsed time has reached `sleepDelay` — for every tick sequence and queue content. It holds
for *every* value of the flags at the start of the wait: the wait resets them. -/
theorem earlier_cancel_does_not_cut_backoff (emptyDelay sleepDelay n : Nat) (nonEmpty : Bool) (f0 : Flags)
    (evs : List WEv) (e : Nat) (hidle : f0.inProgress = false) (hd : sleepDelay ≠ 0)
    (hno : ∀ ev ∈ evs, ev ≠ WEv.cancel)
    (h : (waitForTask emptyDelay sleepDelay nonEmpty (cancels n f0) evs).1 = some e) :
    cancels n f0 = f0 ∧ sleepDelay ≤ e := by
  refine ⟨cancels_noop_outside_wait n f0 hidle, ?_⟩
  have hd' : (sleepDelay == 0) = false := by simpa using hd
  simp only [waitForTask, hd', Bool.and_false, Bool.false_eq_true, if_false, bne, Bool.not_false, if_true] at h
  cases hl : (loop emptyDelay sleepDelay { inProgress := true, cancel := false } evs).1 with
  | none => rw [hl] at h; simp at h
  | some e' =>
    rw [hl] at h
    simp only [Option.some.injEq] at h
    subst h
    exact loop_full emptyDelay evs sleepDelay _ _ rfl hno hl

open ShellOp.Wait in
/-- **C04.8 `wait_whatever_was_pending`**: the same bound for arbitrary flags at the start of the
wait (in particular a stale `cancelDelay = true`): `waitForTask` starts from clean flags. -/
theorem wait_whatever_was_pending (emptyDelay sleepDelay : Nat) (nonEmpty : Bool) (f : Flags)
    (evs : List WEv) (e : Nat) (hd : sleepDelay ≠ 0) (hno : ∀ ev ∈ evs, ev ≠ WEv.cancel)
    (h : (waitForTask emptyDelay sleepDelay nonEmpty f evs).1 = some e) :
    sleepDelay ≤ e ∧ (waitForTask emptyDelay sleepDelay nonEmpty f evs).2 = {} := by
  have hd' : (sleepDelay == 0) = false := by simpa using hd
  simp only [waitForTask, hd', Bool.and_false, Bool.false_eq_true, if_false, bne, Bool.not_false, if_true] at h ⊢
  cases hl : (loop emptyDelay sleepDelay { inProgress := true, cancel := false } evs).1 with
  | none => rw [hl] at h; simp at h
  | some e' =>
    rw [hl] at h
    simp only [Option.some.injEq] at h
    subst h
    exact ⟨loop_full emptyDelay evs sleepDelay _ _ rfl hno hl, rfl⟩

open ShellOp.Wait in
/-- Non-vacuity: two cancels while the handler runs, then a 30 ms back-off with ticks every 2 ms … -/
example : (waitForTask 4 30 true (cancels 2 {}) [.tick 2 false, .tick 28 false, .tick 30 false, .tick 32 false]).1
    = some 30 := by decide

open ShellOp.Wait in
/-- The hypothesis "no cancel during the wait" is needed: a cancel during the back-off ends it on
the next tick (the purpose of the call). -/
theorem cancel_during_wait_witness :
    (waitForTask 4 30 true {} [.tick 2 false, .cancel, .tick 4 false]).1 = some 4 := by decide

/-! ## C04.5 again: bindings that share a name

Binding names are not unique (unnamed schedule bindings are all called `schedule`): contexts of two
tasks can be equal as values while their tasks differ in `allowFailure`. `no_discard` quantifies
over all contexts, equal ones included; this is the layout as a witness. -/
theorem no_discard_same_binding_name_witness :
    let cfg := repaired (fun _ => 1) (fun k _ => 5 + k)
    let s : State := { items := [{ id := 1, allowFailure := true, ctxs := [⟨7, 3, 0⟩] },
                                 { id := 2, allowFailure := false, ctxs := [⟨7, 3, 0⟩] }] }
    (step cfg s (.run false 0)).items = [{ id := 2, allowFailure := false, ctxs := [⟨7, 3, 0⟩] }] ∧
    (step cfg (step cfg s (.run false 0)) (.run false 0)).items
      = [{ id := 2, allowFailure := false, ctxs := [⟨7, 3, 0⟩] }] ∧
    (step (unrepaired (fun _ => 1) (fun k _ => 5 + k)) s (.run false 0)).items = [] := by decide

/-! ## C04.9 "the same binding contexts are executed again": what the hook RECEIVES on the retry

`Model/Payload`: the path `Hook.Run` → `UpdateSnapshots` → `MapV1` → context file, with the slices of
the task's metadata as addresses in a heap. The contexts of the failed run stay in the task
(`fail_keeps_head`: same task, the executed contexts written back); this part says what the hook is
then SHOWN for them: Event members (`watchEvent`, `object`, `filterResult`) identical, `objects` of a
Synchronization and every `snapshots` entry re-read from the monitors — nothing that the failed run
saw and the monitors still hold is missing. -/

open ShellOp.Payload in
/-- **C04.9 `run_leaves_task_contexts`**: a run of `Hook.Run` (any monitors, any heap) does not change
the array the queued task points to; the file it writes is the refreshed COPY. -/
theorem run_leaves_task_contexts (mon : Nat → List Nat) (h : Heap) (a : Nat) (ha : a < h.length) :
    (hookRunH mon h a).1.arr a = h.arr a ∧ (hookRunH mon h a).2 = contextFile mon (h.arr a) :=
  hookRunH_spec mon h a ha

open ShellOp.Payload in
/-- **C04.9 `retry_shows_same_contexts`**: failed run on the contexts at address `a`, then (monitors
may have gained objects, `arrived` contexts were merged behind, no compaction) the retry: every
context of the failed run is in the retry's file with what it carried, and every ungrouped Event
context as often as before. All heaps, monitors, context lists. -/
theorem retry_shows_same_contexts (mon mon' : Nat → List Nat) (hm : ∀ k x, x ∈ mon k → x ∈ mon' k)
    (h : Heap) (a : Nat) (ha : a < h.length) (arrived : List BC) :
    let failed := hookRunH mon h a
    let retry := contextFile mon' (failed.1.arr a ++ arrived)
    shownAgain failed.2 retry = true ∧ eventsKept failed.2 retry = true := by
  intro failed retry
  have hs := hookRunH_spec mon h a ha
  simp only [failed, retry, hs.1, hs.2]
  refine ⟨shownAgain_of_covered mon mon' hm _ _ (fun x hx => Or.inl (List.mem_append_left _ hx)),
    eventsKept_of_sublist mon mon' _ _ ?_⟩
  rw [List.filter_append]
  exact List.sublist_append_left _ _

open ShellOp.Payload in
/-- **C04.9 `retry_shows_same_contexts_compacted`**: the same for any later list `l'` that keeps the
ungrouped contexts of `l` in order and, for a grouped one, at least a context of its group whose
binding includes the same snapshots (what group compaction leaves: `retry_contexts`,
`Proofs/Retry.compact_covers`; the bindings of a group share the group's snapshot list). -/
theorem retry_shows_same_contexts_compacted (mon mon' : Nat → List Nat) (hm : ∀ k x, x ∈ mon k → x ∈ mon' k)
    (l l' : List BC)
    (hcov : ∀ x, x ∈ l → x ∈ l' ∨ (x.ctx.group ≠ 0 ∧ x.ctx.typ ≠ 4 ∧
      ∃ y, y ∈ l' ∧ y.ctx.group = x.ctx.group ∧ y.ctx.typ ≠ 4 ∧ ∀ k, k ∈ x.incl → k ∈ y.incl))
    (hsub : (l.filter (·.ctx.group == 0)).Sublist (l'.filter (·.ctx.group == 0))) :
    shownAgain (contextFile mon l) (contextFile mon' l') = true ∧
    eventsKept (contextFile mon l) (contextFile mon' l') = true :=
  ⟨shownAgain_of_covered mon mon' hm l l' hcov, eventsKept_of_sublist mon mon' l l' hsub⟩

open ShellOp.Payload in
/-- Non-vacuity: an Event with its object (binding 2, snapshots of bindings 2 and 3), a schedule
context with snapshots and a Synchronization; an object of binding 3 appears before the retry. -/
example :
    let l : List BC := [{ ctx := ⟨2, 1, 0⟩, watchEvent := 1, objects := [11], incl := [2, 3] },
                        { ctx := ⟨5, 3, 0⟩, incl := [2] }, { ctx := ⟨3, 0, 0⟩ }]
    let mon : Nat → List Nat := fun k => if k == 2 then [11] else []
    let mon' : Nat → List Nat := fun k => if k == 2 then [11] else if k == 3 then [12] else []
    contextFile mon l = [(⟨2, 1, 0⟩, { ev := [1, 11], snaps := [11] }), (⟨5, 3, 0⟩, { snaps := [11] }),
                         (⟨3, 0, 0⟩, {})] ∧
    contextFile mon' l = [(⟨2, 1, 0⟩, { ev := [1, 11], snaps := [11, 12] }), (⟨5, 3, 0⟩, { snaps := [11] }),
                          (⟨3, 0, 0⟩, { objs := [12] })] ∧
    shownAgain (contextFile mon l) (contextFile mon' l) = true := by decide

open ShellOp.Payload in
/-- The copy matters (kernel-checked witness about a variant that is NOT the code): with the contexts
refreshed in place and objects / snapshots "released" once the file is written, the first run is
right and the retry of a failed Event task is shown `"object": null` — the clause fails. -/
theorem in_place_release_witness :
    let h : Heap := [[{ ctx := ⟨2, 1, 0⟩, watchEvent := 1, objects := [11] }]]
    let mon : Nat → List Nat := fun _ => []
    let failed := hookRunInPlaceReleasing mon h 0
    let retry := hookRunInPlaceReleasing mon failed.1 0
    failed.2 = [(⟨2, 1, 0⟩, { ev := [1, 11] })] ∧ retry.2 = [(⟨2, 1, 0⟩, { ev := [1] })] ∧
    shownAgain failed.2 retry.2 = false ∧
    -- the code: same heap, same monitors
    shownAgain (hookRunH mon h 0).2 (hookRunH mon (hookRunH mon h 0).1 0).2 = true := by decide

end ShellOp.Retry.C04
