import ShellOp.Model.HookRun
import ShellOp.Generated.Facts
/-!
# C12 — hook execution contract: inputs via files, outputs read back, temp files gone

Property theorems over `Model/HookRun`. Quantifier: every exit code, every content of the four
output files (through the parsers: empty / valid / malformed / unreadable, valid-but-rejected batch,
valid-but-failing patch), every temp directory, every interleaving of concurrently running
executions. Process spawning, the environment and the file system are observed by the harness, not
modelled (level note: partial).
-/
namespace ShellOp.HookRun.C12

open ShellOp.HookRun

theorem prepare_all_ok (ns : List Name) :
    ∀ (oks : List Bool) (dir : List Name), (∀ b ∈ oks, b = true) →
      prepare ns oks dir = (ns.reverse ++ dir, true) := by
  induction ns with
  | nil => intro oks dir _; simp [prepare]
  | cons n ns ih =>
    intro oks dir h
    cases oks with
    | nil => simp [prepare, ih [] (n :: dir) (by simp)]
    | cons b bs =>
      have hb : b = true := h b (by simp)
      subst hb
      simp [prepare, ih bs (n :: dir) (fun x hx => h x (by simp [hx]))]

/-- **C12.1 (`Run` outcome, in the code's order)** When the five files could be created, `Run`
fails iff exit ≠ 0 ∨ metrics unparsable ∨ admission response unparsable ∨ conversion response
unparsable ∨ patch file unreadable, and the reported stage is the first of these that holds; the
process is started in every case. -/
theorem run_outcome (keep : Bool) (names : Names) (oks : List Bool) (out : Outputs) (dir : List Name)
    (hok : ∀ b ∈ oks, b = true) :
    let r := run keep names oks out dir
    (r.failed = true ↔ out.exit ≠ 0 ∨ out.metrics = .err ∨ out.admission = .err ∨
        out.conversion = .err ∨ out.patch = .unreadable) ∧
    r.stage = runBody out ∧ r.started = true ∧
    (out.exit ≠ 0 → r.stage = .exit) ∧
    (out.exit = 0 → out.metrics = .err → r.stage = .metrics) ∧
    (out.exit = 0 → out.metrics ≠ .err → out.admission = .err → r.stage = .admission) ∧
    (out.exit = 0 → out.metrics ≠ .err → out.admission ≠ .err → out.conversion = .err →
        r.stage = .conversion) := by
  simp only [run, prepare_all_ok names.created oks dir hok]
  by_cases h0 : out.exit = 0 <;> by_cases h1 : out.metrics = .err <;>
    by_cases h2 : out.admission = .err <;> by_cases h3 : out.conversion = .err <;>
    by_cases h4 : out.patch = .unreadable <;>
    simp [runBody, RunResult.failed, h0, h1, h2, h3, h4]

/-- **C12.1 (`handleRunHook` outcome and effects)** The execution fails iff the exit code is
non-zero or an output is malformed or cannot be applied (`Spec.fails`); the patch is executed, the
metrics are sent and the admission / conversion responses are relayed exactly as the contract says. -/
theorem handle_outcome (keep : Bool) (names : Names) (oks : List Bool) (out : Outputs) (dir : List Name)
    (hok : ∀ b ∈ oks, b = true) :
    let h := handle (run keep names oks out dir)
    h.failed = Spec.fails out ∧
    h.patchExecuted = Spec.patchApplied out ∧
    h.metricsSent = Spec.metricsApplied out ∧
    h.admissionProp = Spec.admissionRelayed out ∧
    h.conversionProp = Spec.conversionRelayed out := by
  obtain ⟨e, m, a, c, p⟩ := out
  simp only [run, prepare_all_ok names.created oks dir hok]
  by_cases h0 : e = 0
  · subst h0
    cases m with
    | err => simp [handle, runBody, RunResult.failed, HandleResult.failed, Spec.fails, Spec.malformed,
        Spec.patchApplied, Spec.metricsApplied, Spec.admissionRelayed, Spec.conversionRelayed]
    | none =>
      cases a <;> cases c <;> cases p <;>
        first
        | (rename_i b; cases b <;>
            simp [handle, runBody, RunResult.failed, HandleResult.failed, Spec.fails, Spec.malformed,
              Spec.patchApplied, Spec.metricsApplied, Spec.admissionRelayed, Spec.conversionRelayed])
        | simp [handle, runBody, RunResult.failed, HandleResult.failed, Spec.fails, Spec.malformed,
            Spec.patchApplied, Spec.metricsApplied, Spec.admissionRelayed, Spec.conversionRelayed]
    | ops bv =>
      cases bv <;> cases a <;> cases c <;> cases p <;>
        first
        | (rename_i b; cases b <;>
            simp [handle, runBody, RunResult.failed, HandleResult.failed, Spec.fails, Spec.malformed,
              Spec.patchApplied, Spec.metricsApplied, Spec.admissionRelayed, Spec.conversionRelayed])
        | simp [handle, runBody, RunResult.failed, HandleResult.failed, Spec.fails, Spec.malformed,
            Spec.patchApplied, Spec.metricsApplied, Spec.admissionRelayed, Spec.conversionRelayed]
  · simp [handle, runBody, RunResult.failed, HandleResult.failed, Spec.fails, Spec.patchApplied,
      Spec.metricsApplied, Spec.admissionRelayed, Spec.conversionRelayed, h0]

/-- **C12.1 (the contract as worded)** What `taskHandleHookRun` + `handleRunHook` + `Run` do is
admitted by the property's contract, for every exit code, every output, every `allowFailure`. -/
theorem execution_meets_contract (allow keep : Bool) (names : Names) (oks : List Bool) (out : Outputs)
    (dir : List Name) (hok : ∀ b ∈ oks, b = true) :
    let h := handle (run keep names oks out dir)
    Spec.admits out allow (taskStatusFail allow h) h.patchExecuted h.metricsSent h.admissionProp
      h.conversionProp = true := by
  have ho := handle_outcome keep names oks out dir hok
  simp only at ho
  obtain ⟨h1, h2, h3, h4, h5⟩ := ho
  simp only [taskStatusFail, h1, h2, h3, h4, h5]
  obtain ⟨e, m, a, c, p⟩ := out
  by_cases h0 : e = 0
  · subst h0
    cases m <;> cases a <;> cases c <;> cases p <;> cases allow <;>
      first
      | (rename_i b1 b2; cases b1 <;> cases b2 <;> simp [Spec.admits, Spec.fails, Spec.malformed,
          Spec.patchApplied, Spec.metricsApplied, Spec.admissionRelayed, Spec.conversionRelayed])
      | (rename_i b1; cases b1 <;> simp [Spec.admits, Spec.fails, Spec.malformed,
          Spec.patchApplied, Spec.metricsApplied, Spec.admissionRelayed, Spec.conversionRelayed])
      | simp [Spec.admits, Spec.fails, Spec.malformed,
          Spec.patchApplied, Spec.metricsApplied, Spec.admissionRelayed, Spec.conversionRelayed]
  · simp [Spec.admits, Spec.fails, Spec.patchApplied, Spec.metricsApplied, Spec.admissionRelayed,
      Spec.conversionRelayed, h0]

/-- A non-zero exit is a failure whatever the files contain, and nothing is applied. -/
theorem nonzero_exit_fails (keep : Bool) (names : Names) (oks : List Bool) (out : Outputs)
    (dir : List Name) (hok : ∀ b ∈ oks, b = true) (he : out.exit ≠ 0) :
    handle (run keep names oks out dir) = ⟨.run, false, false, false, false⟩ := by
  simp [run, prepare_all_ok names.created oks dir hok, handle, runBody, RunResult.failed, he]

/-- The task is reported as failed unless failure is allowed. -/
theorem task_status (allow : Bool) (keep : Bool) (names : Names) (oks : List Bool) (out : Outputs)
    (dir : List Name) (hok : ∀ b ∈ oks, b = true) :
    taskStatusFail allow (handle (run keep names oks out dir)) = (Spec.fails out && !allow) := by
  simp [taskStatusFail, (handle_outcome keep names oks out dir hok).1]

/-- **C12.2 (temp files removed, whatever the outcome)** With the keep-tmp debug variable not
"yes", all five files creatable and their names fresh, the temp directory after `Run` is exactly the
directory before — for every exit code and every content of the output files. -/
theorem temp_files_removed (names : Names) (oks : List Bool) (out : Outputs) (dir : List Name)
    (hok : ∀ b ∈ oks, b = true) (hfresh : ∀ n ∈ names.created, n ∉ dir) :
    (run false names oks out dir).dir = dir := by
  have hd : removeAll names.removed (names.created.reverse ++ dir) = dir := by
    obtain ⟨a, b, c, d, e⟩ := names
    simp only [Names.created, List.mem_cons, List.not_mem_nil, or_false] at hfresh
    simp only [removeAll, Names.removed, Names.created, List.reverse_cons, List.reverse_nil,
      List.nil_append, List.cons_append, List.filter_cons]
    simp only [List.contains_cons, List.contains_nil, Bool.or_false, beq_self_eq_true, Bool.or_true,
      Bool.true_or, Bool.not_true, Bool.false_eq_true, ↓reduceIte]
    apply List.filter_eq_self.mpr
    intro x hx
    have := fun n hn => hfresh n hn
    simp only [Bool.not_eq_true', Bool.or_eq_false_iff, beq_eq_false_iff_ne, ne_eq]
    refine ⟨?_, ?_, ?_, ?_, ?_⟩ <;> (intro heq; subst heq; exact hfresh x (by simp) hx)
  simp only [run, prepare_all_ok names.created oks dir hok]
  by_cases hs : runBody out = .none <;> simp [hs, hd]

/-- With the debug variable set to "yes" the files are kept (this is what the variable is for). -/
theorem keep_tmp_files (names : Names) (oks : List Bool) (out : Outputs) (dir : List Name)
    (hok : ∀ b ∈ oks, b = true) :
    (run true names oks out dir).dir = names.created.reverse ++ dir := by
  simp only [run, prepare_all_ok names.created oks dir hok]
  by_cases hs : runBody out = .none <;> simp [hs]

/-- **Excluded point (outside the property's quantifier, which ranges over exit codes and file
contents): a file creation failing half-way.** The files created before the failure stay — the
deferred removal is registered only after all five exist — and the process is never started. -/
theorem halfway_leak_witness :
    let r := run false ⟨1, 2, 3, 4, 5⟩ [true, true, false] ⟨0, .none, .none, .none, .empty⟩ [9]
    r.dir = [2, 1, 9] ∧ r.started = false ∧ r.stage = .prepare := by decide

/-! ## unique names -/

/-- The names of execution `e` when file names are drawn from a name oracle `fresh` (uuid). -/
def namesOf (fresh : Nat → Name) (e : Nat) : Names :=
  ⟨fresh (5 * e), fresh (5 * e + 1), fresh (5 * e + 2), fresh (5 * e + 3), fresh (5 * e + 4)⟩

/-- **C12.3 (unique names)** With an injective name oracle, the five names of one execution are
pairwise different and two different executions use disjoint names. -/
theorem unique_names (fresh : Nat → Name) (hinj : ∀ a b, fresh a = fresh b → a = b) (e e' : Nat) :
    (namesOf fresh e).created.Nodup ∧
    (e ≠ e' → ∀ n ∈ (namesOf fresh e).created, n ∉ (namesOf fresh e').created) := by
  constructor
  · have hne : ∀ a b, a ≠ b → fresh a ≠ fresh b := fun a b hab h => hab (hinj a b h)
    have h01 := hne (5 * e) (5 * e + 1) (by omega)
    have h02 := hne (5 * e) (5 * e + 2) (by omega)
    have h03 := hne (5 * e) (5 * e + 3) (by omega)
    have h04 := hne (5 * e) (5 * e + 4) (by omega)
    have h12 := hne (5 * e + 1) (5 * e + 2) (by omega)
    have h13 := hne (5 * e + 1) (5 * e + 3) (by omega)
    have h14 := hne (5 * e + 1) (5 * e + 4) (by omega)
    have h23 := hne (5 * e + 2) (5 * e + 3) (by omega)
    have h24 := hne (5 * e + 2) (5 * e + 4) (by omega)
    have h34 := hne (5 * e + 3) (5 * e + 4) (by omega)
    simp [namesOf, Names.created, h01, h02, h03, h04, h12, h13, h14, h23, h24, h34]
  · intro hne n hn hn'
    simp only [namesOf, Names.created, List.mem_cons, List.not_mem_nil, or_false] at hn hn'
    rcases hn with rfl | rfl | rfl | rfl | rfl <;> rcases hn' with h | h | h | h | h <;>
      (have := hinj _ _ h; omega)

/-! ## the literal tables of `hook.go` (tie T1) -/

/-- The six environment variables handed to the hook (admission has two names for one file). -/
theorem env_vars_table :
    ShellOp.Facts.c12EnvVars =
      ["BINDING_CONTEXT_PATH", "METRICS_PATH", "CONVERSION_RESPONSE_PATH", "VALIDATING_RESPONSE_PATH",
       "ADMISSION_RESPONSE_PATH", "KUBERNETES_PATCH_PATH"] := by decide

/-- The five temp file name formats in creation order (safe hook name, uuid). -/
theorem file_name_formats_table :
    ShellOp.Facts.c12FileNameFormats =
      ["hook-%s-binding-context-%s.json", "hook-%s-metrics-%s.json", "hook-%s-admission-response-%s.json",
       "hook-%s-conversion-response-%s.json", "%s-object-patch-%s"] := by decide

/-! ## non-vacuity -/

/-- Every failure stage and the success path occur. -/
example :
    (run false ⟨1, 2, 3, 4, 5⟩ [] ⟨1, .ops true, .some, .some, .ops true⟩ []).stage = .exit ∧
    (run false ⟨1, 2, 3, 4, 5⟩ [] ⟨0, .err, .some, .some, .ops true⟩ []).stage = .metrics ∧
    (run false ⟨1, 2, 3, 4, 5⟩ [] ⟨0, .none, .err, .err, .ops true⟩ []).stage = .admission ∧
    (run false ⟨1, 2, 3, 4, 5⟩ [] ⟨0, .none, .none, .err, .ops true⟩ []).stage = .conversion ∧
    (handle (run false ⟨1, 2, 3, 4, 5⟩ [] ⟨0, .none, .none, .none, .parseErr⟩ [])).stage = .patchParse ∧
    (handle (run false ⟨1, 2, 3, 4, 5⟩ [] ⟨0, .ops true, .some, .none, .ops false⟩ [])) = ⟨.patchApply, true, false, false, false⟩ ∧
    (handle (run false ⟨1, 2, 3, 4, 5⟩ [] ⟨0, .ops false, .some, .none, .ops true⟩ [])) = ⟨.metricsBatch, true, false, false, false⟩ ∧
    (handle (run false ⟨1, 2, 3, 4, 5⟩ [] ⟨0, .ops true, .some, .none, .ops true⟩ [7])) = ⟨.none, true, true, true, false⟩ ∧
    (run false ⟨1, 2, 3, 4, 5⟩ [] ⟨0, .ops true, .some, .none, .ops true⟩ [7]).dir = [7] := by decide

end ShellOp.HookRun.C12
