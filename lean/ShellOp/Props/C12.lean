import ShellOp.Model.HookRun
import ShellOp.Model.HookOutText
import ShellOp.Proofs.HookOutText
import ShellOp.Generated.Facts
/-!
# C12 — hook execution contract: inputs via files, outputs read back, temp files gone

Property theorems over `Model/HookRun`. Quantifier: every exit code, every content of the four
output files (through the parsers: empty / valid / malformed / unreadable, valid-but-rejected batch,
valid-but-failing patch), every temp directory, every interleaving of concurrently running
executions. Process spawning, the environment and the file system are observed by the harness, not
modelled (level note: partial).
-/
namespace ShellOp.HookRun.C12

open ShellOp.HookRun

/-- What the prepare loop returns: some prefix `c` of the names was created (pushed on the
directory); all of them when it reports success. -/
theorem prepare_spec (ns : List Name) :
    ∀ (oks : List Bool) (dir cr : List Name),
      ∃ c, prepare ns oks dir cr = (c.reverse ++ dir, cr ++ c, (prepare ns oks dir cr).2.2) ∧
        (∀ x ∈ c, x ∈ ns) ∧ ((prepare ns oks dir cr).2.2 = true → c = ns) := by
  induction ns with
  | nil => intro oks dir cr; exact ⟨[], by simp [prepare], by simp, by simp⟩
  | cons n ns ih =>
    intro oks dir cr
    cases oks with
    | nil =>
      obtain ⟨c, h1, h2, h3⟩ := ih [] (n :: dir) (cr ++ [n])
      refine ⟨n :: c, ?_, ?_, ?_⟩
      · simp only [prepare]; rw [h1]; simp
      · intro x hx; simp only [List.mem_cons] at hx ⊢
        rcases hx with rfl | hx
        · exact Or.inl rfl
        · exact Or.inr (h2 x hx)
      · intro hb; simp only [prepare] at hb; rw [h3 hb]
    | cons b bs =>
      cases b with
      | false => exact ⟨[], by simp [prepare], by simp, by simp [prepare]⟩
      | true =>
        obtain ⟨c, h1, h2, h3⟩ := ih bs (n :: dir) (cr ++ [n])
        refine ⟨n :: c, ?_, ?_, ?_⟩
        · simp only [prepare, ↓reduceIte]; rw [h1]; simp
        · intro x hx; simp only [List.mem_cons] at hx ⊢
          rcases hx with rfl | hx
          · exact Or.inl rfl
          · exact Or.inr (h2 x hx)
        · intro hb; simp only [prepare, ↓reduceIte] at hb; rw [h3 hb]

theorem prepare_all_ok (ns : List Name) :
    ∀ (oks : List Bool) (dir cr : List Name), (∀ b ∈ oks, b = true) →
      prepare ns oks dir cr = (ns.reverse ++ dir, cr ++ ns, true) := by
  induction ns with
  | nil => intro oks dir cr _; simp [prepare]
  | cons n ns ih =>
    intro oks dir cr h
    cases oks with
    | nil => simp [prepare, ih [] (n :: dir) (cr ++ [n]) (by simp)]
    | cons b bs =>
      have hb : b = true := h b (by simp)
      subst hb
      simp [prepare, ih bs (n :: dir) (cr ++ [n]) (fun x hx => h x (by simp [hx]))]

theorem removeAll_append (rs cs dir : List Name) (h1 : ∀ x ∈ cs, x ∈ rs) (h2 : ∀ x ∈ rs, x ∉ dir) :
    removeAll rs (cs ++ dir) = dir := by
  unfold removeAll
  rw [List.filter_append]
  have e1 : cs.filter (fun x => !rs.contains x) = [] := by
    apply List.filter_eq_nil_iff.mpr
    intro x hx
    simp [h1 x hx]
  have e2 : dir.filter (fun x => !rs.contains x) = dir := by
    apply List.filter_eq_self.mpr
    intro x hx
    simp only [Bool.not_eq_true', List.contains_eq_mem, decide_eq_false_iff_not]
    intro hr
    exact h2 x hr hx
  rw [e1, e2]; rfl

theorem removed_perm (names : Names) (x : Name) : x ∈ names.removed ↔ x ∈ names.created := by
  simp only [Names.removed, Names.created, List.mem_cons, List.not_mem_nil, or_false]
  constructor <;> (rintro (h | h | h | h | h) <;> simp [h])

/-- **C12.1 (`Run` outcome, in the code's order)** When the five files could be created, `Run`
fails iff exit ≠ 0 ∨ metrics unparsable ∨ admission response unparsable ∨ conversion response
unparsable ∨ patch file unreadable, and the reported stage is the first of these that holds; the
process is started in every case. -/
theorem run_outcome (keep : Bool) (names : Names) (oks : List Bool) (out : Outputs) (dir : List Name)
    (hok : ∀ b ∈ oks, b = true) :
    let r := run keep names oks out dir
    (r.failed = true ↔ out.exit ≠ 0 ∨ out.metrics = .err ∨ out.admission = .err ∨
        out.conversion = .err ∨ out.patch = .unreadable) ∧
    r.stage = runBody out ∧ r.started = true ∧
    (out.exit ≠ 0 → r.stage = .exit) ∧
    (out.exit = 0 → out.metrics = .err → r.stage = .metrics) ∧
    (out.exit = 0 → out.metrics ≠ .err → out.admission = .err → r.stage = .admission) ∧
    (out.exit = 0 → out.metrics ≠ .err → out.admission ≠ .err → out.conversion = .err →
        r.stage = .conversion) := by
  simp only [run, prepare_all_ok names.created oks dir [] hok]
  by_cases h0 : out.exit = 0 <;> by_cases h1 : out.metrics = .err <;>
    by_cases h2 : out.admission = .err <;> by_cases h3 : out.conversion = .err <;>
    by_cases h4 : out.patch = .unreadable <;>
    simp [runBody, RunResult.failed, h0, h1, h2, h3, h4]

/-- **C12.1 (`handleRunHook` outcome and effects)** The execution fails iff the exit code is
non-zero or an output is malformed or cannot be applied (`Spec.fails`); the patch is executed, the
metrics are sent and the admission / conversion responses are relayed exactly as the contract says. -/
theorem handle_outcome (keep : Bool) (names : Names) (oks : List Bool) (out : Outputs) (dir : List Name)
    (hok : ∀ b ∈ oks, b = true) :
    let h := handle (run keep names oks out dir)
    h.failed = Spec.fails out ∧
    h.patchExecuted = Spec.patchApplied out ∧
    h.metricsSent = Spec.metricsApplied out ∧
    h.admissionProp = Spec.admissionRelayed out ∧
    h.conversionProp = Spec.conversionRelayed out := by
  obtain ⟨e, m, a, c, p⟩ := out
  simp only [run, prepare_all_ok names.created oks dir [] hok]
  by_cases h0 : e = 0
  · subst h0
    cases m with
    | err => simp [handle, runBody, RunResult.failed, HandleResult.failed, Spec.fails, Spec.malformed,
        Spec.patchApplied, Spec.metricsApplied, Spec.admissionRelayed, Spec.conversionRelayed]
    | none =>
      cases a <;> cases c <;> cases p <;>
        first
        | (rename_i b; cases b <;>
            simp [handle, runBody, RunResult.failed, HandleResult.failed, Spec.fails, Spec.malformed,
              Spec.patchApplied, Spec.metricsApplied, Spec.admissionRelayed, Spec.conversionRelayed])
        | simp [handle, runBody, RunResult.failed, HandleResult.failed, Spec.fails, Spec.malformed,
            Spec.patchApplied, Spec.metricsApplied, Spec.admissionRelayed, Spec.conversionRelayed]
    | ops bv =>
      cases bv <;> cases a <;> cases c <;> cases p <;>
        first
        | (rename_i b; cases b <;>
            simp [handle, runBody, RunResult.failed, HandleResult.failed, Spec.fails, Spec.malformed,
              Spec.patchApplied, Spec.metricsApplied, Spec.admissionRelayed, Spec.conversionRelayed])
        | simp [handle, runBody, RunResult.failed, HandleResult.failed, Spec.fails, Spec.malformed,
            Spec.patchApplied, Spec.metricsApplied, Spec.admissionRelayed, Spec.conversionRelayed]
  · simp [handle, runBody, RunResult.failed, HandleResult.failed, Spec.fails, Spec.patchApplied,
      Spec.metricsApplied, Spec.admissionRelayed, Spec.conversionRelayed, h0]

/-- **C12.1 (the contract as worded)** What `taskHandleHookRun` + `handleRunHook` + `Run` do is
admitted by the property's contract, for every exit code, every output, every `allowFailure`. -/
theorem execution_meets_contract (allow keep : Bool) (names : Names) (oks : List Bool) (out : Outputs)
    (dir : List Name) (hok : ∀ b ∈ oks, b = true) :
    let h := handle (run keep names oks out dir)
    Spec.admits out allow (taskStatusFail allow h) h.patchExecuted h.metricsSent h.admissionProp
      h.conversionProp = true := by
  have ho := handle_outcome keep names oks out dir hok
  simp only at ho
  obtain ⟨h1, h2, h3, h4, h5⟩ := ho
  simp only [taskStatusFail, h1, h2, h3, h4, h5]
  obtain ⟨e, m, a, c, p⟩ := out
  by_cases h0 : e = 0
  · subst h0
    cases m <;> cases a <;> cases c <;> cases p <;> cases allow <;>
      first
      | (rename_i b1 b2; cases b1 <;> cases b2 <;> simp [Spec.admits, Spec.fails, Spec.malformed,
          Spec.patchApplied, Spec.metricsApplied, Spec.admissionRelayed, Spec.conversionRelayed])
      | (rename_i b1; cases b1 <;> simp [Spec.admits, Spec.fails, Spec.malformed,
          Spec.patchApplied, Spec.metricsApplied, Spec.admissionRelayed, Spec.conversionRelayed])
      | simp [Spec.admits, Spec.fails, Spec.malformed,
          Spec.patchApplied, Spec.metricsApplied, Spec.admissionRelayed, Spec.conversionRelayed]
  · simp [Spec.admits, Spec.fails, Spec.patchApplied, Spec.metricsApplied, Spec.admissionRelayed,
      Spec.conversionRelayed, h0]

/-- A non-zero exit is a failure whatever the files contain, and nothing is applied. -/
theorem nonzero_exit_fails (keep : Bool) (names : Names) (oks : List Bool) (out : Outputs)
    (dir : List Name) (hok : ∀ b ∈ oks, b = true) (he : out.exit ≠ 0) :
    handle (run keep names oks out dir) = ⟨.run, false, false, false, false⟩ := by
  simp [run, prepare_all_ok names.created oks dir [] hok, handle, runBody, RunResult.failed, he]

/-- The task is reported as failed unless failure is allowed. -/
theorem task_status (allow : Bool) (keep : Bool) (names : Names) (oks : List Bool) (out : Outputs)
    (dir : List Name) (hok : ∀ b ∈ oks, b = true) :
    taskStatusFail allow (handle (run keep names oks out dir)) = (Spec.fails out && !allow) := by
  simp [taskStatusFail, (handle_outcome keep names oks out dir hok).1]

/-- **C12.2 (temp files removed, whatever the outcome)** With the keep-tmp debug variable not
"yes" and fresh file names, the temp directory after `Run` is exactly the directory before — for
every exit code, every content of the output files, and every pattern of file creation failures
(the repaired code registers the removal first). -/
theorem temp_files_removed (names : Names) (oks : List Bool) (out : Outputs) (dir : List Name)
    (hfresh : ∀ n ∈ names.created, n ∉ dir) :
    (run false names oks out dir).dir = dir := by
  obtain ⟨c, hc, hsub, _⟩ := prepare_spec names.created oks dir []
  have hclean : cleanup false names c (c.reverse ++ dir) = dir := by
    simp only [cleanup, Bool.false_eq_true, ↓reduceIte]
    apply removeAll_append
    · intro x hx
      have hxc : x ∈ c := List.mem_reverse.mp hx
      simp only [List.mem_filter, List.contains_eq_mem, decide_eq_true_eq]
      exact ⟨(removed_perm names x).mpr (hsub x hxc), hxc⟩
    · intro x hx
      simp only [List.mem_filter, List.contains_eq_mem, decide_eq_true_eq] at hx
      exact hfresh x (hsub x hx.2)
  simp only [run]
  rw [hc]
  simp only [List.nil_append]
  cases (prepare names.created oks dir []).2.2
  · simp [hclean]
  · by_cases hs : runBody out = .none <;> simp [hs, hclean]

/-- With the debug variable set to "yes" the files are kept (this is what the variable is for). -/
theorem keep_tmp_files (names : Names) (oks : List Bool) (out : Outputs) (dir : List Name)
    (hok : ∀ b ∈ oks, b = true) :
    (run true names oks out dir).dir = names.created.reverse ++ dir := by
  simp only [run, prepare_all_ok names.created oks dir [] hok, cleanup]
  by_cases hs : runBody out = .none <;> simp [hs]

/-- A file creation failing half-way: the process is never started, the execution fails, and (by
`temp_files_removed`) nothing stays behind. -/
theorem prepare_failure (keep : Bool) (names : Names) (oks : List Bool) (out : Outputs) (dir : List Name)
    (h : (prepare names.created oks dir []).2.2 = false) :
    (run keep names oks out dir).started = false ∧ (run keep names oks out dir).stage = .prepare ∧
    (handle (run keep names oks out dir)).failed = true := by
  simp only [run]
  generalize prepare names.created oks dir [] = r at h
  obtain ⟨d, c, b⟩ := r
  simp only at h
  subst h
  simp [handle, RunResult.failed, HandleResult.failed]

/-- Regression witness for the repaired defect: the unrepaired `Run` registered the removal only
after all five files existed; when the third file could not be created (a hook whose name makes the
admission-response file name longer than NAME_MAX) the first two files stayed behind on every retry. -/
theorem halfway_leak_unrepaired_witness :
    runUnrepairedDir false ⟨1, 2, 3, 4, 5⟩ [true, true, false] [9] = [2, 1, 9] ∧
    (run false ⟨1, 2, 3, 4, 5⟩ [true, true, false] ⟨0, .none, .none, .none, .empty⟩ [9]).dir = [9] := by
  decide

/-! ## unique names -/

/-- The names of execution `e` when file names are drawn from a name oracle `fresh` (uuid). -/
def namesOf (fresh : Nat → Name) (e : Nat) : Names :=
  ⟨fresh (5 * e), fresh (5 * e + 1), fresh (5 * e + 2), fresh (5 * e + 3), fresh (5 * e + 4)⟩

/-- **C12.3 (unique names)** With an injective name oracle, the five names of one execution are
pairwise different and two different executions use disjoint names. -/
theorem unique_names (fresh : Nat → Name) (hinj : ∀ a b, fresh a = fresh b → a = b) (e e' : Nat) :
    (namesOf fresh e).created.Nodup ∧
    (e ≠ e' → ∀ n ∈ (namesOf fresh e).created, n ∉ (namesOf fresh e').created) := by
  constructor
  · have hne : ∀ a b, a ≠ b → fresh a ≠ fresh b := fun a b hab h => hab (hinj a b h)
    have h01 := hne (5 * e) (5 * e + 1) (by omega)
    have h02 := hne (5 * e) (5 * e + 2) (by omega)
    have h03 := hne (5 * e) (5 * e + 3) (by omega)
    have h04 := hne (5 * e) (5 * e + 4) (by omega)
    have h12 := hne (5 * e + 1) (5 * e + 2) (by omega)
    have h13 := hne (5 * e + 1) (5 * e + 3) (by omega)
    have h14 := hne (5 * e + 1) (5 * e + 4) (by omega)
    have h23 := hne (5 * e + 2) (5 * e + 3) (by omega)
    have h24 := hne (5 * e + 2) (5 * e + 4) (by omega)
    have h34 := hne (5 * e + 3) (5 * e + 4) (by omega)
    simp [namesOf, Names.created, h01, h02, h03, h04, h12, h13, h14, h23, h24, h34]
  · intro hne n hn hn'
    simp only [namesOf, Names.created, List.mem_cons, List.not_mem_nil, or_false] at hn hn'
    rcases hn with rfl | rfl | rfl | rfl | rfl <;> rcases hn' with h | h | h | h | h <;>
      (have := hinj _ _ h; omega)

/-! ## concurrent executions: any interleaving restores the temp directory -/

theorem rpos_lt (k : Nat) (h : k < 5) : rpos k < 5 := by
  have : k = 0 ∨ k = 1 ∨ k = 2 ∨ k = 3 ∨ k = 4 := by omega
  rcases this with rfl | rfl | rfl | rfl | rfl <;> simp [rpos]

theorem rpos_invol (k : Nat) : rpos (rpos k) = k := by
  by_cases h2 : k = 2
  · subst h2; rfl
  · by_cases h3 : k = 3
    · subst h3; rfl
    · have : rpos k = k := by
        unfold rpos
        split <;> simp_all
      rw [this, this]

/-- Slot `k` of execution `i` exists: created and not yet removed. -/
def live (pc : Nat → Nat) (i k : Nat) : Prop := k < pc i ∧ pc i ≤ 6 + rpos k

/-- The temp directory holds exactly the initial files and the live files of the executions. -/
def DirInv (name : Nat → Nat → Name) (init : List Name) (s : Sys) : Prop :=
  ∀ n, n ∈ s.dir ↔ n ∈ init ∨ ∃ i k, k < 5 ∧ n = name i k ∧ live s.pc i k

theorem dirInv_step (name : Nat → Nat → Name) (init : List Name)
    (hinj : ∀ i k i' k', k < 5 → k' < 5 → name i k = name i' k' → i = i' ∧ k = k')
    (hfresh : ∀ i k, k < 5 → name i k ∉ init) (s : Sys) (i : Nat)
    (h : DirInv name init s) : DirInv name init (sysStep name s i) := by
  intro n
  unfold sysStep
  simp only
  by_cases h1 : s.pc i < 5
  · -- create slot `pc i`
    simp only [h1, ↓reduceIte, List.mem_cons]
    constructor
    · rintro (rfl | hn)
      · exact Or.inr ⟨i, s.pc i, h1, rfl, by simp [live]; omega⟩
      · rcases (h n).mp hn with hi | ⟨i', k, hk, rfl, hl⟩
        · exact Or.inl hi
        · refine Or.inr ⟨i', k, hk, rfl, ?_⟩
          unfold live at hl ⊢
          by_cases he : i' = i
          · subst he; simp; omega
          · simpa [he] using hl
    · rintro (hi | ⟨i', k, hk, rfl, hl⟩)
      · exact Or.inr ((h n).mpr (Or.inl hi))
      · unfold live at hl
        by_cases he : i' = i
        · subst he
          simp at hl
          by_cases hkp : k = s.pc i'
          · subst hkp; exact Or.inl rfl
          · exact Or.inr ((h _).mpr (Or.inr ⟨i', k, hk, rfl, by unfold live; omega⟩))
        · simp [he] at hl
          exact Or.inr ((h _).mpr (Or.inr ⟨i', k, hk, rfl, hl⟩))
  · by_cases h2 : s.pc i = 5
    · -- the process runs
      rw [if_neg h1, if_pos h2]
      simp only
      rw [h n]
      constructor
      · rintro (hi | ⟨i', k, hk, rfl, hl⟩)
        · exact Or.inl hi
        · refine Or.inr ⟨i', k, hk, rfl, ?_⟩
          unfold live at hl ⊢
          by_cases he : i' = i
          · subst he; simp; omega
          · simpa [he] using hl
      · rintro (hi | ⟨i', k, hk, rfl, hl⟩)
        · exact Or.inl hi
        · refine Or.inr ⟨i', k, hk, rfl, ?_⟩
          unfold live at hl ⊢
          by_cases he : i' = i
          · subst he; simp at hl; omega
          · simpa [he] using hl
    · by_cases h3 : s.pc i < 11
      · -- remove the slot at removal position `pc i - 6`
        simp only [h1, h2, h3, ↓reduceIte, List.mem_filter, ne_eq, decide_not, Bool.not_eq_eq_eq_not,
          Bool.not_true, decide_eq_false_iff_not]
        have hr5 : rpos (s.pc i - 6) < 5 := rpos_lt _ (by omega)
        constructor
        · rintro ⟨hn, hne⟩
          rcases (h n).mp hn with hi | ⟨i', k, hk, rfl, hl⟩
          · exact Or.inl hi
          · refine Or.inr ⟨i', k, hk, rfl, ?_⟩
            unfold live at hl ⊢
            by_cases he : i' = i
            · subst he
              simp
              have hne' : s.pc i' ≠ 6 + rpos k := by
                intro heq
                apply hne
                have : s.pc i' - 6 = rpos k := by omega
                rw [this, rpos_invol]
              omega
            · simpa [he] using hl
        · rintro (hi | ⟨i', k, hk, rfl, hl⟩)
          · exact ⟨(h n).mpr (Or.inl hi), fun heq => hfresh i _ hr5 (heq ▸ hi)⟩
          · unfold live at hl
            by_cases he : i' = i
            · subst he
              simp at hl
              refine ⟨(h _).mpr (Or.inr ⟨i', k, hk, rfl, by unfold live; omega⟩), ?_⟩
              intro heq
              have hk' := (hinj i' k i' _ hk hr5 heq).2
              have : rpos k = s.pc i' - 6 := by rw [hk', rpos_invol]
              omega
            · simp [he] at hl
              refine ⟨(h _).mpr (Or.inr ⟨i', k, hk, rfl, hl⟩), ?_⟩
              intro heq
              exact he (hinj i' k i _ hk hr5 heq).1
      · -- finished: nothing moves
        simp only [h1, h2, h3, ↓reduceIte]
        exact h n

/-- **C12.2 / C12.3 for concurrent executions (all schedules).** Any number of executions, file names
drawn injectively and fresh, any interleaving of their steps: once every execution that started has
finished, the temp directory holds exactly the files it held before — no file of any execution is
left, no foreign file is removed. -/
theorem concurrent_tmp_restored (name : Nat → Nat → Name) (init : List Name)
    (hinj : ∀ i k i' k', k < 5 → k' < 5 → name i k = name i' k' → i = i' ∧ k = k')
    (hfresh : ∀ i k, k < 5 → name i k ∉ init) (sched : List Nat) :
    (∀ i, (sysRun name ⟨fun _ => 0, init⟩ sched).pc i = 0 ∨ (sysRun name ⟨fun _ => 0, init⟩ sched).pc i = 11) →
      ∀ n, n ∈ (sysRun name ⟨fun _ => 0, init⟩ sched).dir ↔ n ∈ init := by
  have hinv : ∀ (sched : List Nat) (s : Sys), DirInv name init s →
      DirInv name init (sysRun name s sched) := by
    intro sched
    induction sched with
    | nil => intro s hs; exact hs
    | cons i rest ih => intro s hs; exact ih _ (dirInv_step name init hinj hfresh s i hs)
  have h0 : DirInv name init ⟨fun _ => 0, init⟩ := by
    intro n
    constructor
    · intro hn; exact Or.inl hn
    · rintro (hn | ⟨i, k, _, _, hl⟩)
      · exact hn
      · simp [live] at hl
  intro hdone n
  have := hinv sched _ h0 n
  rw [this]
  constructor
  · rintro (hn | ⟨i, k, hk, _, hl⟩)
    · exact hn
    · exfalso
      unfold live at hl
      have := rpos_lt k hk
      rcases hdone i with h | h <;> omega
  · intro hn; exact Or.inl hn

/-- While executions are running, a file in the directory that is not an initial one belongs to
exactly one execution and slot (names never collide, whatever the interleaving). -/
theorem concurrent_names_owned (name : Nat → Nat → Name)
    (hinj : ∀ i k i' k', k < 5 → k' < 5 → name i k = name i' k' → i = i' ∧ k = k')
    (i k i' k' : Nat) (hk : k < 5) (hk' : k' < 5) (hne : i ≠ i' ∨ k ≠ k') : name i k ≠ name i' k' := by
  intro h
  have := hinj i k i' k' hk hk' h
  rcases hne with h1 | h1
  · exact h1 this.1
  · exact h1 this.2

/-- Non-vacuity: two executions interleaved step by step; mid-way all ten files exist. -/
example :
    let name : Nat → Nat → Name := fun i k => 10 * (i + 1) + k
    (sysRun name ⟨fun _ => 0, [7]⟩ [0, 1, 0, 1, 0, 1, 0, 1, 0, 1]).dir.length = 11 ∧
    (sysRun name ⟨fun _ => 0, [7]⟩ ([0, 1, 0, 1, 0, 1, 0, 1, 0, 1, 0, 1] ++ List.replicate 5 1 ++ List.replicate 5 0)).dir = [7] := by
  decide

/-! ## the literal tables of `hook.go` (tie T1) -/

/-- The six environment variables handed to the hook (admission has two names for one file). -/
theorem env_vars_table :
    ShellOp.Facts.c12EnvVars =
      ["BINDING_CONTEXT_PATH", "METRICS_PATH", "CONVERSION_RESPONSE_PATH", "VALIDATING_RESPONSE_PATH",
       "ADMISSION_RESPONSE_PATH", "KUBERNETES_PATCH_PATH"] := by decide

/-- The five temp file name formats in creation order (safe hook name, uuid). -/
theorem file_name_formats_table :
    ShellOp.Facts.c12FileNameFormats =
      ["hook-%s-binding-context-%s.json", "hook-%s-metrics-%s.json", "hook-%s-admission-response-%s.json",
       "hook-%s-conversion-response-%s.json", "%s-object-patch-%s"] := by decide

/-! ## third wave: the output files from their TEXT -/

open ShellOp.HookRun.Text in
/-- The outputs of an execution whose hook wrote these texts into the four files (none deleted):
`bv` = `ValidateOperations` accepts the metric operations, `sem` = what the schema and the cluster make
of a well-formed JSON patch, `yaml` = what the YAML reader makes of a patch text that is not JSON. -/
def outOfTexts (exit : Nat) (bv : Bool) (sem yaml : Patch) (mt at' ct pt : List Char) : Outputs :=
  ⟨exit, Text.metricsOfText false bv mt, Text.respOfText Text.admissionOk false at',
    Text.respOfText Text.conversionOk false ct, Text.patchOfText false sem yaml pt⟩

/-- **C12.1 on the file text: "a malformed output fails the execution".** After a zero exit, if the
text of the metrics file or of the patch file is not a sequence of JSON values of the right type up to
the end of the file (for the patch file: and the YAML reader rejects it too — the file may be YAML), or
the text of the admission / conversion response file is not exactly one such value (`Stream` /
`Whole`: the grammar, not the loop), the execution fails and nothing is applied — no
patch, no metric, no response. Covers truncated texts, stray closing brackets at a record boundary,
trailing garbage, a second document, wrong types: everything outside the grammar. -/
theorem malformed_text_fails (keep : Bool) (names : Names) (oks : List Bool) (dir : List Name)
    (hok : ∀ b ∈ oks, b = true) (bv : Bool) (sem yaml : Patch) (mt at' ct pt : List Char)
    (h : (mt ≠ [] ∧ ¬ ∃ vs, Text.Stream (Text.next (Text.typed Text.metricTable)) mt vs) ∨
         (at' ≠ [] ∧ ¬ ∃ v, Text.Whole (Text.next Text.admissionOk) Text.atEnd at' v) ∨
         (ct ≠ [] ∧ ¬ ∃ v, Text.Whole (Text.next Text.conversionOk) Text.atEnd ct v) ∨
         (pt ≠ [] ∧ yaml = .parseErr ∧ ¬ ∃ vs, Text.Stream (Text.next Text.isObj) pt vs)) :
    let r := handle (run keep names oks (outOfTexts 0 bv sem yaml mt at' ct pt) dir)
    r.failed = true ∧ r.patchExecuted = false ∧ r.metricsSent = false ∧ r.admissionProp = false ∧
      r.conversionProp = false := by
  have hmal : Spec.malformed (outOfTexts 0 bv sem yaml mt at' ct pt) = true := by
    rcases h with ⟨hne, hbad⟩ | ⟨hne, hbad⟩ | ⟨hne, hbad⟩ | ⟨hne, hy, hbad⟩
    · have : Text.metricsOfText false bv mt = .err := by
        have he : mt.isEmpty = false := by cases mt <;> simp_all
        simp [Text.metricsOfText, he, (Text.streamOk_none_iff _ mt).mpr hbad]
      simp [Spec.malformed, outOfTexts, this]
    · have : Text.respOfText Text.admissionOk false at' = .err := by
        have he : at'.isEmpty = false := by cases at' <;> simp_all
        simp [Text.respOfText, he, (Text.wholeOk_none_iff _ at').mpr hbad]
      simp [Spec.malformed, outOfTexts, this]
    · have : Text.respOfText Text.conversionOk false ct = .err := by
        have he : ct.isEmpty = false := by cases ct <;> simp_all
        simp [Text.respOfText, he, (Text.wholeOk_none_iff _ ct).mpr hbad]
      simp [Spec.malformed, outOfTexts, this]
    · have : Text.patchOfText false sem yaml pt = .parseErr := by
        have he : pt.isEmpty = false := by cases pt <;> simp_all
        simp [Text.patchOfText, he, (Text.streamOk_none_iff _ pt).mpr hbad, hy]
      simp [Spec.malformed, outOfTexts, this]
  have ho := handle_outcome keep names oks (outOfTexts 0 bv sem yaml mt at' ct pt) dir hok
  simp only at ho
  obtain ⟨h1, h2, h3, h4, h5⟩ := ho
  simp only [h1, h2, h3, h4, h5]
  simp [Spec.fails, Spec.patchApplied, Spec.metricsApplied, Spec.admissionRelayed, Spec.conversionRelayed, hmal]

/-- … and only those: when every file is empty or inside the grammar, no output is malformed (the
execution can then fail only for a semantic reason: rejected batch, failing or invalid patch). -/
theorem wellformed_text_not_malformed (bv : Bool) (sem yaml : Patch) (hsem : sem ≠ .unreadable ∧ sem ≠ .parseErr)
    (mt at' ct pt : List Char)
    (hm : mt = [] ∨ ∃ vs, Text.Stream (Text.next (Text.typed Text.metricTable)) mt vs)
    (ha : at' = [] ∨ ∃ v, Text.Whole (Text.next Text.admissionOk) Text.atEnd at' v)
    (hc : ct = [] ∨ ∃ v, Text.Whole (Text.next Text.conversionOk) Text.atEnd ct v)
    (hp : pt = [] ∨ ∃ vs, Text.Stream (Text.next Text.isObj) pt vs) :
    Spec.malformed (outOfTexts 0 bv sem yaml mt at' ct pt) = false := by
  have e1 : Text.metricsOfText false bv mt ≠ .err := by
    rcases hm with rfl | ⟨vs, hs⟩
    · simp [Text.metricsOfText]
    · have := (Text.streamOk_some_iff _ mt vs).mpr hs
      unfold Text.metricsOfText
      rw [this]
      cases vs <;> (simp; try (split <;> simp))
  have e2 : Text.respOfText Text.admissionOk false at' ≠ .err := by
    rcases ha with rfl | ⟨v, hv⟩
    · simp [Text.respOfText]
    · have := (Text.wholeOk_some_iff _ at' v).mpr hv
      unfold Text.respOfText
      rw [this]
      simp; split <;> simp
  have e3 : Text.respOfText Text.conversionOk false ct ≠ .err := by
    rcases hc with rfl | ⟨v, hv⟩
    · simp [Text.respOfText]
    · have := (Text.wholeOk_some_iff _ ct v).mpr hv
      unfold Text.respOfText
      rw [this]
      simp; split <;> simp
  have e4 : Text.patchOfText false sem yaml pt ≠ .unreadable ∧ Text.patchOfText false sem yaml pt ≠ .parseErr := by
    rcases hp with rfl | ⟨vs, hs⟩
    · simp [Text.patchOfText]
    · have := (Text.streamOk_some_iff _ pt vs).mpr hs
      unfold Text.patchOfText
      rw [this]
      cases vs <;> (simp; try (split <;> simp [hsem.1, hsem.2]))
  simp [Spec.malformed, outOfTexts, e1, e2, e3, e4.1, e4.2]

/-- Regression witnesses on concrete file texts. (1) a stray `}` glued to the last metric record, a
`]` on its own line, a lone `}`: not in the grammar, rejected by the loop the code has — and accepted by
the `for dec.More()` loop it does not have (`More()` is false at a closing bracket). (2) a conversion
response followed by a second document: rejected by `json.Unmarshal` of the whole file, accepted by a
single `Decode` (the unrepaired reader). -/
theorem stray_closer_witness :
    (Text.streamOk (Text.typed Text.metricTable) "{\"name\":\"a\",\"set\":1}}".toList).isNone = true ∧
    (Text.streamOk (Text.typed Text.metricTable) "{\"name\":\"a\",\"set\":1}\n]\n".toList).isNone = true ∧
    (Text.streamOk (Text.typed Text.metricTable) "}".toList).isNone = true ∧
    (Text.decodeLoopMore (Text.next (Text.typed Text.metricTable)) Text.more 40
        "{\"name\":\"a\",\"set\":1}}".toList []).isSome = true ∧
    (Text.decodeLoopMore (Text.next (Text.typed Text.metricTable)) Text.more 40 "}".toList []).isSome = true ∧
    (Text.wholeOk Text.conversionOk "{\"failedMessage\":\"\"}\n{\"failedMessage\":\"x\"}".toList).isNone = true ∧
    (Text.decodeFirst (Text.next Text.conversionOk)
        "{\"failedMessage\":\"\"}\n{\"failedMessage\":\"x\"}".toList).isSome = true := by
  decide

/-! ### sixth wave: something after the document, wherever the document ends -/

/-- The reader the code has (`json.Unmarshal` of the whole file) rejects a document followed by
anything but white space — whatever the decoder step is, hence at every offset and for every size. -/
theorem anything_after_document_rejected {α β : Type} (next : α → Text.Step α β) (atEnd : α → Bool)
    (inp rest : α) (v : β) (h : next inp = .val v rest) (hr : atEnd rest = false) :
    Text.decodeWhole next atEnd inp = none := by
  simp [Text.decodeWhole, h, hr]

/-- A reader that looks for trailing data only in what the decoder has buffered equals the reader the
code has exactly when the buffer never hides a non-blank remainder … -/
theorem buffered_reader_faithful {α β : Type} (next : α → Text.Step α β) (atEnd : α → Bool) (buffered : α → α)
    (hb : ∀ r, atEnd (buffered r) = atEnd r) (inp : α) :
    (Text.decodeBuffered next atEnd buffered inp : Option β) = Text.decodeWhole next atEnd inp := by
  unfold Text.decodeBuffered Text.decodeWhole
  cases next inp <;> simp [hb]

/-- … and accepts a malformed file as soon as it does: a document that ends where the buffer ends. -/
theorem buffered_reader_accepts_unread_rest {α β : Type} (next : α → Text.Step α β) (atEnd : α → Bool)
    (buffered : α → α) (inp rest : α) (v : β) (h : next inp = .val v rest) (hr : atEnd rest = false)
    (hb : atEnd (buffered rest) = true) :
    Text.decodeBuffered next atEnd buffered inp = some v ∧ Text.decodeWhole next atEnd inp = none := by
  simp [Text.decodeBuffered, Text.decodeWhole, h, hr, hb]

/-- **C12.1, response files: a complete document followed by anything fails the execution**, whatever
the length of the document, of the white space around it and of what follows: if the decoder step finds
a value of the right type at the head of the admission (conversion) response file and the rest is not
blank, the execution fails after a zero exit and nothing is applied or relayed. -/
theorem document_then_anything_fails (keep : Bool) (names : Names) (oks : List Bool) (dir : List Name)
    (hok : ∀ b ∈ oks, b = true) (bv : Bool) (sem yaml : Patch) (mt at' ct pt : List Char)
    (h : (∃ v rest, Text.next Text.admissionOk at' = .val v rest ∧ Text.atEnd rest = false) ∨
         (∃ v rest, Text.next Text.conversionOk ct = .val v rest ∧ Text.atEnd rest = false)) :
    let r := handle (run keep names oks (outOfTexts 0 bv sem yaml mt at' ct pt) dir)
    r.failed = true ∧ r.patchExecuted = false ∧ r.metricsSent = false ∧ r.admissionProp = false ∧
      r.conversionProp = false := by
  have key : ∀ (ok : Text.V → Bool) (t : List Char),
      (∃ v rest, Text.next ok t = .val v rest ∧ Text.atEnd rest = false) →
      t ≠ [] ∧ ¬ ∃ v, Text.Whole (Text.next ok) Text.atEnd t v := by
    intro ok t ⟨v, rest, hn, hr⟩
    refine ⟨?_, ?_⟩
    · intro ht
      subst ht
      simp [Text.next, Text.skipWs] at hn
    · rintro ⟨v', rest', hn', hr'⟩
      rw [hn] at hn'
      injection hn' with _ h2
      subst h2
      rw [hr] at hr'
      exact Bool.noConfusion hr'
  apply malformed_text_fails keep names oks dir hok bv sem yaml mt at' ct pt
  rcases h with h | h
  · exact Or.inr (Or.inl (key _ _ h))
  · exact Or.inr (Or.inr (Or.inl (key _ _ h)))

/-- Regression witness (pieces of 8 bytes instead of encoding/json's 512): `{"a":1}` + line end is
exactly one piece, the cut-off beginning of a second document follows. Rejected by the reader the code
has, accepted by the `Buffered()` variant; two more bytes in front and both reject. -/
theorem buffered_check_variant_witness :
    let t1 := "{\"a\":1}\n{\"failedMe".toList
    let t2 := "  {\"a\":1}\n{\"failedMe".toList
    (Text.wholeOk Text.conversionOk t1).isNone = true ∧
    (Text.decodeBuffered (Text.next Text.conversionOk) Text.atEnd (Text.bufferedChunk 8 t1) t1).isSome = true ∧
    (Text.wholeOk Text.conversionOk t2).isNone = true ∧
    (Text.decodeBuffered (Text.next Text.conversionOk) Text.atEnd (Text.bufferedChunk 8 t2) t2).isNone = true := by
  decide

/-- Non-vacuity of `document_then_anything_fails`: the text of the witness satisfies its hypothesis. -/
example : ∃ v rest, Text.next Text.conversionOk "{\"a\":1}\n{\"failedMe".toList = .val v rest ∧
    Text.atEnd rest = false := by
  have h : (match Text.next Text.conversionOk "{\"a\":1}\n{\"failedMe".toList with
      | .val _ rest => !Text.atEnd rest | _ => false) = true := by decide
  cases hn : Text.next Text.conversionOk "{\"a\":1}\n{\"failedMe".toList with
  | val v rest => rw [hn] at h; exact ⟨v, rest, rfl, by simpa using h⟩
  | eof => rw [hn] at h; simp at h
  | err => rw [hn] at h; simp at h

/-- Non-vacuity of the grammar: well-formed texts of each kind are inside it (numbers with fraction
and exponent, escapes, nested values in an ignored field, `null`), wrongly typed / truncated ones are not. -/
example :
    (Text.streamOk (Text.typed Text.metricTable)
      "{\"name\":\"a\",\"set\":-2.5e-1,\"labels\":{\"k\":\"v\"}} \n{ \"name\" : \"b\", \"add\":1,\"zz\":[1,{\"q\":\"\\u0041\\n\"}]}\n".toList).isSome = true ∧
    (Text.streamOk (Text.typed Text.metricTable) "{\"name\":7}".toList).isNone = true ∧
    (Text.streamOk (Text.typed Text.metricTable) "{\"name\":\"a\",\"se".toList).isNone = true ∧
    (Text.streamOk (Text.typed Text.metricTable) "{\"name\":\"a\",\"set\":01}".toList).isNone = true ∧
    (Text.wholeOk Text.admissionOk " {\"allowed\":true,\"warnings\":[\"w\"]}\n".toList).isSome = true ∧
    (Text.wholeOk Text.admissionOk "{\"allowed\":\"yes\"}".toList).isNone = true ∧
    (Text.wholeOk Text.conversionOk "null".toList).isSome = true ∧
    (Text.wholeOk Text.conversionOk "{\"convertedObjects\":{}}".toList).isNone = true := by
  decide

/-! ## third wave: the keep-tmp-files setting -/

/-- The only comparison of the setting in the hook package is `!= "yes"` in `Hook.Run` (regenerated
from the sources), as documented: "set to yes to disable cleanup of temporary files". -/
theorem keep_setting_table :
    ShellOp.Facts.c12KeepCompares = ["hook.go Run != yes"] ∧ ShellOp.Facts.c12KeepLiteral = "yes" ∧
    ShellOp.Facts.c12KeepFlagHelp = "set to yes to disable cleanup of temporary files" := by decide

/-- Exactly the value "yes" keeps the files. -/
theorem keep_only_yes (v : String) : keepSetting v = true ↔ v = "yes" := by
  simp [keepSetting, ShellOp.Facts.c12KeepLiteral]

/-- **C12.2 over the setting.** For every value of `--debug-keep-tmp-files` other than "yes"
("no", "false", "0", "", "Yes", …) the temp directory after `Run` equals the directory before, whatever
the outcome. -/
theorem temp_files_removed_any_setting (v : String) (hv : v ≠ "yes") (names : Names) (oks : List Bool)
    (out : Outputs) (dir : List Name) (hfresh : ∀ n ∈ names.created, n ∉ dir) :
    (run (keepSetting v) names oks out dir).dir = dir := by
  have : keepSetting v = false := by
    cases h : keepSetting v with
    | false => rfl
    | true => exact absurd ((keep_only_yes v).mp h) hv
  rw [this]
  exact temp_files_removed names oks out dir hfresh

example : keepSetting "false" = false ∧ keepSetting "0" = false ∧ keepSetting "Yes" = false ∧
    keepSetting "" = false ∧ keepSetting "yes" = true := by decide

/-! ## fourth wave: the patch file of a FAILED execution

"A non-zero exit is a failure; after a zero exit the output files are parsed and applied": a failed
execution applies nothing. The code has one documented exception (`object_patch/patch.go`:
"IgnoreHookError — allows applying patches for a Status subresource even if the hook fails") in the
error branch of `handleRunHook`; with `Run` as it is (patch file read last) the branch never sees any
bytes. Both facts are theorems: what `Run` hands over on an error, and what the branch may execute
whatever it is handed. -/

/-- The comparison in `GetPatchStatusOperationsOnHookError` (regenerated from the sources). -/
theorem on_error_filter_table :
    ShellOp.Facts.c12OnErrorCompares = ["subresource == /status"] ∧
    ShellOp.Facts.c12OnErrorSubresource = "/status" := by decide

theorem statusOpsOnError_acc (ops : List POp) : ∀ acc : List POp,
    statusOpsOnError ops acc = acc ++ ops.filter Spec.statusIgnore := by
  induction ops with
  | nil => intro acc; simp [statusOpsOnError]
  | cons o ops ih =>
    intro acc
    simp only [statusOpsOnError, ShellOp.Facts.c12OnErrorSubresource]
    by_cases h : Spec.statusIgnore o = true
    · have h' := h
      simp only [Spec.statusIgnore] at h'
      simp [h', ih, h]
    · have h' := h
      simp only [Spec.statusIgnore] at h'
      simp [h', ih, h]

/-- **The filter as documented**: the loop keeps exactly the patch operations on the status
subresource that are marked `ignoreHookError`, in their order. -/
theorem on_error_filter_spec (ops : List POp) :
    statusOpsOnError ops [] = ops.filter Spec.statusIgnore := by
  simp [statusOpsOnError_acc]

/-- **`Run` hands no patch bytes over on an error** — for every exit code, every content of the
output files and every pattern of file-creation failures: the patch file is read after every step
that can fail. -/
theorem failed_run_hands_no_patch (keep : Bool) (names : Names) (oks : List Bool) (out : Outputs)
    (dir : List Name) (hf : (run keep names oks out dir).failed = true) :
    (run keep names oks out dir).patch = .empty := by
  unfold run at hf ⊢
  split
  · rfl
  · rename_i dir1 created heq
    simp only [heq] at hf
    by_cases hs : runBody out = .none
    · simp [hs, RunResult.failed] at hf
    · simp [hs]

/-- **C12.1 (a failed `Run` applies nothing)** Whatever the patch file of a failed execution holds —
operations marked `ignoreHookError`, on the status subresource, both or neither — `handleRunHook`
executes none of them. -/
theorem failed_execution_executes_nothing (keep : Bool) (names : Names) (oks : List Bool) (out : Outputs)
    (dir : List Name) (ops : List POp) (hf : (run keep names oks out dir).failed = true) :
    handleOps (run keep names oks out dir) ops = [] := by
  have hp := failed_run_hands_no_patch keep names oks out dir hf
  simp [handleOps, hf, hp]

/-- **The documented exception, whatever `Run` hands over**: on the error branch `handleRunHook`
executes nothing but patch operations of the status subresource marked `ignoreHookError`. -/
theorem on_error_only_status_ignore (r : RunResult) (ops : List POp) (hf : r.failed = true) :
    ∀ o ∈ handleOps r ops, o.isPatch = true ∧ o.subresource = "/status" ∧ o.ignore = true := by
  intro o ho
  simp only [handleOps, hf, ↓reduceIte] at ho
  cases hp : r.patch with
  | ops b =>
    simp only [hp, on_error_filter_spec, List.mem_filter] at ho
    have h2 := ho.2
    simp only [Spec.statusIgnore, Bool.and_eq_true, beq_iff_eq] at h2
    exact ⟨h2.1.1, h2.1.2, h2.2⟩
  | unreadable => simp [hp] at ho
  | empty => simp [hp] at ho
  | parseErr => simp [hp] at ho

theorem admitsOps_none (out : Outputs) (ops : List POp) (h : out.exit ≠ 0 ∨ Spec.malformed out = true) :
    Spec.admitsOps out ops (ops.map (fun _ => false)) = true := by
  have hc : (decide (out.exit ≠ 0) || Spec.malformed out) = true := by
    rcases h with h | h <;> simp [h]
  simp only [Spec.admitsOps, hc, if_true, List.length_map, beq_self_eq_true, Bool.true_and]
  rw [List.all_eq_true]
  rintro ⟨o, a⟩ hmem
  have h2 := (List.of_mem_zip hmem).2
  simp only [List.mem_map] at h2
  obtain ⟨_, _, rfl⟩ := h2
  simp

theorem admitsOps_all (out : Outputs) (ops : List POp) (h1 : out.exit = 0) (h2 : Spec.malformed out = false)
    (h3 : Spec.fails out = false) :
    Spec.admitsOps out ops (ops.map (fun _ => true)) = true := by
  simp [Spec.admitsOps, h1, h2, h3, List.all_eq_true]

/-- **C12.1 on the operations of the patch file (the contract as worded)**: for every exit code and
every output, with `ops` the operations of the patch file (when it parses), what `handleRunHook`
executes is admitted by `Spec.admitsOps`: nothing after a non-zero exit or a malformed output,
everything when the execution does not fail. -/
theorem ops_meet_contract (keep : Bool) (names : Names) (oks : List Bool) (out : Outputs)
    (dir : List Name) (ops : List POp) (hok : ∀ b ∈ oks, b = true)
    (hops : ops ≠ [] → ∃ b, out.patch = .ops b) :
    Spec.admitsOps out ops
      (ops.map (fun o => (handleOps (run keep names oks out dir) ops).contains o)) = true := by
  by_cases hf : (run keep names oks out dir).failed = true
  · have hm : out.exit ≠ 0 ∨ Spec.malformed out = true := by
      have := ((run_outcome keep names oks out dir hok).1).mp hf
      rcases this with h | h | h | h | h
      · exact Or.inl h
      all_goals (right; simp [Spec.malformed, h])
    rw [failed_execution_executes_nothing keep names oks out dir ops hf]
    have hmap : ops.map (fun o => ([] : List POp).contains o) = ops.map (fun _ => false) := by simp
    rw [hmap]
    exact admitsOps_none out ops hm
  · have hf' : (run keep names oks out dir).failed = false := by
      cases h : (run keep names oks out dir).failed <;> simp_all
    have ho := handle_outcome keep names oks out dir hok
    simp only at ho
    have hpe := ho.2.1
    by_cases hc : out.exit ≠ 0 ∨ Spec.malformed out = true
    · have hpa : Spec.patchApplied out = false := by
        simp only [Spec.patchApplied]
        rcases hc with h | h <;> simp [h]
      have hmap : ops.map (fun o => (handleOps (run keep names oks out dir) ops).contains o)
          = ops.map (fun _ => false) := by
        simp [handleOps, hf', hpe, hpa]
      rw [hmap]
      exact admitsOps_none out ops hc
    · have h0 : out.exit = 0 := by
        by_cases h : out.exit = 0
        · exact h
        · exact absurd (Or.inl h) hc
      have hmf : Spec.malformed out = false := by
        cases h : Spec.malformed out
        · rfl
        · exact absurd (Or.inr h) hc
      by_cases hfl : Spec.fails out = true
      · simp [Spec.admitsOps, h0, hmf, hfl]
      · have hfl' : Spec.fails out = false := by
          cases h : Spec.fails out <;> simp_all
        cases ops with
        | nil => simp [Spec.admitsOps]
        | cons o os =>
          obtain ⟨b, hb⟩ := hops (by simp)
          have hb' : b = true := by
            cases b with
            | true => rfl
            | false => exact absurd (by simp [Spec.fails, hb]) hfl
          subst hb'
          have hpa : Spec.patchApplied out = true := by
            simp [Spec.patchApplied, h0, hmf, hb]
          have hmap : (o :: os).map (fun x => (handleOps (run keep names oks out dir) (o :: os)).contains x)
              = (o :: os).map (fun _ => true) := by
            apply List.map_congr_left
            intro x hx
            simp only [handleOps, hf', Bool.false_eq_true, ↓reduceIte, hpe, hpa]
            simpa using hx
          rw [hmap]
          exact admitsOps_all out (o :: os) h0 hmf hfl'

/-- The De Morgan slip (`ok && (subresource == "/status" || ignoreHookError)`) is a different
function: it keeps a patch of the object itself that is merely marked `ignoreHookError`, and an
unmarked status patch; the code's loop keeps only the one with both. -/
theorem on_error_or_variant_witness :
    statusOpsOnErrorOr [⟨true, "", true⟩, ⟨true, "/status", false⟩, ⟨true, "/status", true⟩, ⟨false, "/status", true⟩] []
      = [⟨true, "", true⟩, ⟨true, "/status", false⟩, ⟨true, "/status", true⟩] ∧
    statusOpsOnError [⟨true, "", true⟩, ⟨true, "/status", false⟩, ⟨true, "/status", true⟩, ⟨false, "/status", true⟩] []
      = [⟨true, "/status", true⟩] := by decide

/-- Non-vacuity: a failed execution whose patch file holds all four combinations executes nothing
(the code); if `Run` did hand the bytes over, exactly the doubly marked operation would run; a
successful execution runs all of them. -/
example :
    handleOps (run false ⟨1, 2, 3, 4, 5⟩ [] ⟨3, .none, .none, .none, .ops true⟩ [])
      [⟨true, "", false⟩, ⟨true, "", true⟩, ⟨true, "/status", false⟩, ⟨true, "/status", true⟩] = [] ∧
    handleOps ⟨.exit, true, [], .none, .none, .none, .ops true⟩
      [⟨true, "", false⟩, ⟨true, "", true⟩, ⟨true, "/status", false⟩, ⟨true, "/status", true⟩] = [⟨true, "/status", true⟩] ∧
    handleOps (run false ⟨1, 2, 3, 4, 5⟩ [] ⟨0, .none, .none, .none, .ops true⟩ [])
      [⟨true, "", false⟩, ⟨true, "/status", true⟩] = [⟨true, "", false⟩, ⟨true, "/status", true⟩] ∧
    Spec.admitsOps ⟨3, .none, .none, .none, .ops true⟩ [⟨true, "", true⟩, ⟨true, "/status", true⟩] [true, false] = false ∧
    Spec.admitsOps ⟨3, .none, .none, .none, .ops true⟩ [⟨true, "", true⟩, ⟨true, "/status", true⟩] [false, true] = true := by
  decide

/-! ## non-vacuity -/

/-- Every failure stage and the success path occur. -/
example :
    (run false ⟨1, 2, 3, 4, 5⟩ [] ⟨1, .ops true, .some, .some, .ops true⟩ []).stage = .exit ∧
    (run false ⟨1, 2, 3, 4, 5⟩ [] ⟨0, .err, .some, .some, .ops true⟩ []).stage = .metrics ∧
    (run false ⟨1, 2, 3, 4, 5⟩ [] ⟨0, .none, .err, .err, .ops true⟩ []).stage = .admission ∧
    (run false ⟨1, 2, 3, 4, 5⟩ [] ⟨0, .none, .none, .err, .ops true⟩ []).stage = .conversion ∧
    (handle (run false ⟨1, 2, 3, 4, 5⟩ [] ⟨0, .none, .none, .none, .parseErr⟩ [])).stage = .patchParse ∧
    (handle (run false ⟨1, 2, 3, 4, 5⟩ [] ⟨0, .ops true, .some, .none, .ops false⟩ [])) = ⟨.patchApply, true, false, false, false⟩ ∧
    (handle (run false ⟨1, 2, 3, 4, 5⟩ [] ⟨0, .ops false, .some, .none, .ops true⟩ [])) = ⟨.metricsBatch, true, false, false, false⟩ ∧
    (handle (run false ⟨1, 2, 3, 4, 5⟩ [] ⟨0, .ops true, .some, .none, .ops true⟩ [7])) = ⟨.none, true, true, true, false⟩ ∧
    (run false ⟨1, 2, 3, 4, 5⟩ [] ⟨0, .ops true, .some, .none, .ops true⟩ [7]).dir = [7] := by decide

end ShellOp.HookRun.C12
