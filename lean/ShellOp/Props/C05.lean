import ShellOp.Proofs.Queue
import ShellOp.Proofs.TransQueue
/-!
# C05 — the task queue is a faithful list

Property theorems over `Model/Queue` (the code-shaped model of `task_queue.go`) and the ordinary
list `Spec`. Quantifier: every finite history of public queue operations and worker steps, ids
present, absent or duplicated.
-/
namespace ShellOp.Queue.C05

open ShellOp.Queue

/-- Simulation step. -/
theorem step_refines (s : State) (ss : Spec.SState) (op : QOp)
    (hi : s.items = ss.items.map some) (hc : s.cur = ss.cur) :
    (step s op).items = (Spec.step ss op).items.map some ∧ (step s op).cur = (Spec.step ss op).cur := by
  cases op with
  | addFirst t => simp [step, Spec.step, hi, hc, addFirst]
  | addLast t => simp [step, Spec.step, hi, hc, addLast]
  | addAfter id t => simp [step, Spec.step, hi, hc, addAfter_map]
  | addBefore id t => simp [step, Spec.step, hi, hc, addBefore_map]
  | remove id => simp [step, Spec.step, hi, hc, remove, removeGo_map]
  | removeFirst => simp [step, Spec.step, hi, hc, removeFirst_map]
  | removeLast => simp [step, Spec.step, hi, hc, removeLast_map]
  | filter keep => simp [step, Spec.step, hi, hc, filter_map]
  | pick =>
    simp only [step, Spec.step, ← hc]
    cases hcur : s.cur with
    | some c => simp [hi, hcur, ← hc]
    | none => simp [hi, getFirst_map]
  | result st h a t =>
    simp only [step, Spec.step, ← hc]
    cases hcur : s.cur with
    | none => simp [hi, hcur, ← hc]
    | some c => simp [hi, applyResult_map]

/-- **C05.1** Every history of queue operations leaves the code-shaped queue holding exactly the
tasks the ordinary list holds, in the same order (and the same task in the handler). -/
theorem queue_refines_list (ops : List QOp) :
    (run ops).items = (Spec.run ops).items.map some ∧ (run ops).cur = (Spec.run ops).cur := by
  unfold run Spec.run
  suffices h : ∀ (s : State) (ss : Spec.SState), s.items = ss.items.map some → s.cur = ss.cur →
      (ops.foldl step s).items = (ops.foldl Spec.step ss).items.map some ∧
      (ops.foldl step s).cur = (ops.foldl Spec.step ss).cur from h {} {} rfl rfl
  induction ops with
  | nil => intro s ss hi hc; exact ⟨hi, hc⟩
  | cons op ops ih =>
    intro s ss hi hc
    have := step_refines s ss op hi hc
    exact ih _ _ this.1 this.2

/-- **C05.2** The queue never contains an empty (nil) slot. -/
theorem no_empty_slot (ops : List QOp) : none ∉ (run ops).items := by
  rw [(queue_refines_list ops).1]; simp

/-- **C05.2** The reported length equals the number of tasks. -/
theorem length_eq (ops : List QOp) : (run ops).items.length = (Spec.run ops).items.length := by
  rw [(queue_refines_list ops).1]; simp

/-- **C05.3** Failed and repeated tasks leave the queue exactly as it was. -/
theorem fail_keeps_queue (q : List Id) (t : Id) (h a tl : List Id) :
    Spec.applyResult q t .fail h a tl = q ∧ Spec.applyResult q t .repeat h a tl = q := ⟨rfl, rfl⟩

theorem takeWhile_ne_append (pre post : List Id) (t : Id) (hp : t ∉ pre) :
    (pre ++ t :: post).takeWhile (· ≠ t) = pre := by
  induction pre with
  | nil => simp
  | cons x xs ih =>
    have hx : x ≠ t := fun e => hp (by simp [e])
    have hxs : t ∉ xs := fun e => hp (by simp [e])
    simpa [hx] using ih hxs

theorem dropWhile_ne_append (pre post : List Id) (t : Id) (hp : t ∉ pre) :
    (pre ++ t :: post).dropWhile (· ≠ t) = t :: post := by
  induction pre with
  | nil => simp
  | cons x xs ih =>
    have hx : x ≠ t := fun e => hp (by simp [e])
    have hxs : t ∉ xs := fun e => hp (by simp [e])
    simpa [hx] using ih hxs

theorem erase_append_cons (pre post : List Id) (t : Id) (hp : t ∉ pre) :
    (pre ++ t :: post).erase t = pre ++ post := by
  induction pre with
  | nil => simp
  | cons x xs ih =>
    have hx : x ≠ t := fun e => hp (by simp [e])
    have hxs : t ∉ xs := fun e => hp (by simp [e])
    simp [List.erase_cons_tail, hx, ih hxs]

/-- **C05.3** Placement for `Keep`: head tasks in order at the front, after-tasks in order right
behind the handled task, which keeps its position, tail tasks in order at the end. -/
theorem keep_placement (pre post : List Id) (t : Id) (h a tl : List Id) (hp : t ∉ pre) :
    Spec.applyResult (pre ++ t :: post) t .keep h a tl = h ++ (pre ++ t :: a ++ post) ++ tl := by
  simp only [Spec.applyResult, takeWhile_ne_append pre post t hp, dropWhile_ne_append pre post t hp]
  simp

/-- **C05.3** Placement for `Success`: as `Keep`, and the handled task is removed exactly once. -/
theorem success_placement (pre post : List Id) (t : Id) (h a tl : List Id) (hp : t ∉ pre) :
    Spec.applyResult (pre ++ t :: post) t .success h a tl = h ++ (pre ++ a ++ post) ++ tl := by
  simp only [Spec.applyResult, takeWhile_ne_append pre post t hp, dropWhile_ne_append pre post t hp]
  have := erase_append_cons pre (a ++ post) t hp
  simp [this]

/-- **C05.3** A handled task that is no longer in the queue changes nothing but the head/tail
insertions (this is what the ordinary list does with an absent id). -/
theorem absent_task_result (q : List Id) (t : Id) (st : Status) (h a tl : List Id) (hq : t ∉ q)
    (hs : st = .success ∨ st = .keep) :
    Spec.applyResult q t st h a tl = h ++ q ++ tl := by
  rcases hs with rfl | rfl <;> simp [Spec.applyResult, hq, List.erase_of_not_mem hq]

/-- The worker always takes the head of the queue (shared with C03). -/
theorem pick_is_head (s : State) (h : s.cur = none) : (step s .pick).cur = getFirst s.items := by
  simp [step, h]

/-- **C05.1, duplicates** An ordinary list holds a task as often as it was added: after any history,
adding the same task twice in a row (the same id — in particular the very same object) leaves it
twice at the tail, and the length grows by two. -/
theorem same_task_added_twice (ops : List QOp) (t : Id) :
    (run (ops ++ [.addLast t, .addLast t])).items = (run ops).items ++ [some t, some t] ∧
    (Spec.run (ops ++ [.addLast t, .addLast t])).items = (Spec.run ops).items ++ [t, t] ∧
    (run (ops ++ [.addLast t, .addLast t])).items.length = (run ops).items.length + 2 := by
  simp [run, Spec.run, List.foldl_append, step, Spec.step, addLast]

/-- every add operation adds exactly one occurrence of its task to the ordinary list when its anchor
is there (and `addFirst`/`addLast` always): nothing is deduplicated. -/
theorem add_counts (q : List Id) (t : Id) :
    (t :: q).count t = q.count t + 1 ∧ (q ++ [t]).count t = q.count t + 1 := by
  simp [List.count_append]

/-! ### A set of live queues -/

theorem foldl_stepAt (ops : List (Nat × QOp)) (qs : QSet) (j : Nat) :
    (ops.foldl stepAt qs) j = (opsOf ops j).foldl step (qs j) := by
  induction ops generalizing qs with
  | nil => rfl
  | cons p ops ih =>
    rw [List.foldl_cons, ih]
    by_cases h : p.1 = j
    · simp [opsOf, h, stepAt]
    · have h' : ¬ j = p.1 := fun e => h e.symm
      simp [opsOf, h, h', stepAt]

/-- **C05.1 for a set of live queues** Every queue of a set holds exactly what it would hold had it
run alone the operations addressed to it: an operation on one queue is not an operation on another. -/
theorem set_queue_is_own_history (ops : List (Nat × QOp)) (j : Nat) :
    runSet ops j = run (opsOf ops j) := by
  simp [runSet, run, foldl_stepAt]

/-- … hence each queue of the set holds the tasks of its own ordinary list, without an empty slot. -/
theorem set_refines_lists (ops : List (Nat × QOp)) (j : Nat) :
    (runSet ops j).items = (Spec.run (opsOf ops j)).items.map some ∧ none ∉ (runSet ops j).items := by
  rw [set_queue_is_own_history]
  exact ⟨(queue_refines_list _).1, no_empty_slot _⟩

/-- An operation addressed to queue `k` leaves every other queue as it was. -/
theorem other_queues_untouched (ops : List (Nat × QOp)) (k j : Nat) (op : QOp) (h : j ≠ k) :
    runSet (ops ++ [(k, op)]) j = runSet ops j := by
  have hk : ¬ k = j := fun e => h e.symm
  simp [set_queue_is_own_history, opsOf, List.filter_append, hk]

/-- Non-vacuity: two queues drained and refilled; each holds its own tasks. -/
example : (runSet [(0, .addLast 1), (1, .addLast 2), (0, .removeLast), (1, .removeLast),
    (0, .addLast 3), (1, .addLast 4), (0, .addLast 5)] 0).items = [some 3, some 5]
    ∧ (runSet [(0, .addLast 1), (1, .addLast 2), (0, .removeLast), (1, .removeLast),
    (0, .addLast 3), (1, .addLast 4), (0, .addLast 5)] 1).items = [some 4] := by decide

/-! Non-vacuity: a concrete non-trivial history (absent id, duplicate id, worker result). -/
example : (run [.addLast 1, .addAfter 7 2, .addLast 1, .addBefore 1 3, .pick,
    .result .success [4] [5, 6] [7]]).items = [some 4, some 5, some 6, some 1, some 1, some 7]
    ∧ (Spec.run [.addLast 1, .addAfter 7 2, .addLast 1, .addBefore 1 3, .pick,
    .result .success [4] [5, 6] [7]]).items = [4, 5, 6, 1, 1, 7] := by decide

/-- Regression witness for the repaired defect: the unrepaired `addAfter` (assign `newItems`
unconditionally) leaves a nil slot for an absent id. -/
theorem addAfter_unrepaired_witness :
    none ∈ addAfterLoop 7 2 [some 1] false := by decide

/-! ## Tie T4: the model is the code

`ShellOp.Trans.*` is regenerated on every run from `pkg/task/queue/task_queue.go` by
`extract/translate.go` (statement by statement: the index loops, `append`, slicing, the early
`return`s, `break`). The theorems below say that each translated function computes exactly what the
hand-written model computes, for every queue content (nil slots included) and every argument — so
the theorems above, which are about the model, are about the translated code. -/

open ShellOp.Proofs.TransQueue in
/-- Every slice-level primitive of `task_queue.go`, as translated from the current source, equals
its model. -/
theorem translated_primitives_eq_model (q : Items) (id t : Id) (f : Slot → Bool) :
    ShellOp.Trans.addFirst q (some t) = ((), addFirst q t) ∧
    ShellOp.Trans.addLast q (some t) = ((), addLast q t) ∧
    ShellOp.Trans.removeFirst q = removeFirst q ∧
    ShellOp.Trans.removeLast q = removeLast q ∧
    ShellOp.Trans.getLast q = (getLast q, q) ∧
    ShellOp.Trans.GetFirst q = (getFirst q, q) ∧
    ShellOp.Trans.get q id = (get q id, q) ∧
    ShellOp.Trans.addAfter q id (some t) = ((), addAfter q id t) ∧
    ShellOp.Trans.addBefore q id (some t) = ((), addBefore q id t) ∧
    ShellOp.Trans.remove q id = remove q id ∧
    ShellOp.Trans.filterQ q (some f) = ((), q.filter f) ∧
    ShellOp.Trans.filterQ q none = ((), q) :=
  ⟨addFirst_eq q t, addLast_eq q t, removeFirst_eq q, removeLast_eq q, getLast_eq q, getFirst_eq q,
   get_eq q id, addAfter_eq q id t, addBefore_eq q id t, remove_eq q id, filter_eq q f, filter_nil_fn q⟩

open ShellOp.Proofs.TransQueue in
/-- The public wrappers (`AddFirst` … `Remove`): lock and metrics dropped, they are their primitive. -/
theorem translated_wrappers_eq_model (q : Items) (id t : Id) :
    ShellOp.Trans.AddFirst q (some t) = ((), addFirst q t) ∧
    ShellOp.Trans.AddLast q (some t) = ((), addLast q t) ∧
    ShellOp.Trans.RemoveFirst q = removeFirst q ∧
    ShellOp.Trans.RemoveLast q = removeLast q ∧
    ShellOp.Trans.AddAfter q id (some t) = ((), addAfter q id t) ∧
    ShellOp.Trans.AddBefore q id (some t) = ((), addBefore q id t) ∧
    ShellOp.Trans.Remove q id = remove q id :=
  ⟨AddFirst_eq q t, AddLast_eq q t, RemoveFirst_eq q, RemoveLast_eq q, AddAfter_eq q id t, AddBefore_eq q id t,
   Remove_eq q id⟩

/-- The critical section of `case Success, Keep:` in the worker loop (`Start()`), as translated from
the current source — the three loops, the conditional removal, in this order — is `applyResult`. -/
theorem translated_result_application_eq_model (q : Items) (t : Id) (st : Status)
    (hst : st = .success ∨ st = .keep) (head after tail : List Id) :
    ShellOp.Trans.applyOk q t st (after.map some) (head.map some) (tail.map some)
      = ((), applyResult q t st head after tail) :=
  ShellOp.Proofs.TransQueue.applyOk_eq q t st hst head after tail

/-- Non-vacuity / sanity: the translated code run on a concrete queue. -/
example : (ShellOp.Trans.addAfter [some 1, some 2, some 1] 1 (some 9)).2 = [some 1, some 9, some 2, some 1]
    ∧ (ShellOp.Trans.remove [some 1, some 2, some 1] 2) = (some 2, [some 1, some 1])
    ∧ (ShellOp.Trans.applyOk [some 1, some 2] 1 .success [some 5, some 6] [some 4] [some 7]).2
        = [some 4, some 5, some 6, some 2, some 7] := by decide

end ShellOp.Queue.C05
