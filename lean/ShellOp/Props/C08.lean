import ShellOp.Model.Trigger
namespace ShellOp.Trigger.C08
open ShellOp.Json ShellOp.Trigger

/-- **C08 default_types** -/
theorem default_types : defaultTypes = [.added, .modified, .deleted] := by decide

end ShellOp.Trigger.C08
