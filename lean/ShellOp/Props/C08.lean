import ShellOp.Model.Trigger
import ShellOp.Model.TriggerShared
import ShellOp.Proofs.Snapshot
/-!
# C08 — hooks are triggered only by meaningful changes (event type and jqFilter)

`Trigger.handle` is the code-shaped model of `handleWatchEvent` + `applyFilter` (checksums, cache,
`skipEvent`, `shouldFireEvent`); `Trigger.Spec.step` is the property as written (last known
projection per object, no checksums). Quantifiers: every config (any filter of the fragment or none,
any list of event types, keepFullObjectsInMemory on/off), every cache, every object, every history.
The checksum is a parameter; the only assumption ever made about it is the explicit hypothesis
`hinj` (injective on the projections considered).
-/
namespace ShellOp.Trigger.C08
open ShellOp.Json ShellOp.Trigger

/-! ## Association-list lemmas (the Go map) -/

theorem aget_adel {α : Type} (i j : Nat) (l : List (Nat × α)) :
    aget i (adel j l) = if i = j then none else aget i l := by
  induction l with
  | nil => simp [adel, aget]
  | cons kv rest ih =>
    obtain ⟨k, v⟩ := kv
    unfold adel at ih ⊢
    by_cases hk : k = j
    · subst hk
      by_cases hi : i = k
      · subst hi; simpa [List.filter, aget] using ih
      · simp [List.filter, aget, hi] at ih ⊢; exact ih
    · by_cases hi : i = k
      · subst hi; simp [List.filter, aget, hk]
      · simp [List.filter, aget, hk, hi] at ih ⊢; exact ih

theorem aget_aset {α : Type} (i j : Nat) (v : α) (l : List (Nat × α)) :
    aget i (aset j v l) = if i = j then some v else aget i l := by
  unfold aset
  by_cases h : i = j
  · simp [aget, h]
  · simp [aget, h, aget_adel]

theorem shouldFire_iff (cfg : Cfg) (ev : WatchEvent) : shouldFire cfg ev = true ↔ ev ∈ cfg.types := by
  unfold shouldFire
  rw [List.any_eq_true]
  constructor
  · rintro ⟨t, ht, h⟩
    have : t = ev := by simpa using h
    exact this ▸ ht
  · intro h; exact ⟨ev, h, by simp⟩

/-- `applyFilter` stores the checksum of the projection (and nothing else decides the event). -/
theorem applyFilter_eq {C : Type} (cfg : Cfg) (cks : J → C) (obj : J) :
    applyFilter cfg cks obj = (project cfg obj).map (fun p =>
      { cks := cks p, fr := if cfg.filter.isSome then some p else none, obj := some obj }) := by
  unfold applyFilter project
  cases hf : cfg.filter with
  | none => simp
  | some f => cases hv : f.eval obj <;> simp [hv]

theorem removeFull_cks {C : Type} (cfg : Cfg) (e : Entry C) : (removeFull cfg e).cks = e.cks := by
  unfold removeFull; split <;> rfl

/-- The Added/Modified branch of `handleWatchEvent`, spelled out. -/
theorem handle_upsert {C : Type} [DecidableEq C] (cfg : Cfg) (cks : J → C) (cache : Cache C)
    (ev : WatchEvent) (id : Nat) (obj : J) (e0 : Entry C)
    (hev : ev ≠ .deleted) (ha : applyFilter cfg cks obj = some e0) :
    handle cfg cks cache ev id obj =
      (aset id (removeFull cfg e0) cache,
       if (match aget id cache with
           | some c => decide (c.cks = e0.cks)
           | none => false) = true then none
       else if shouldFire cfg ev then some ⟨ev, id, removeFull cfg e0⟩ else none) := by
  cases ev with
  | deleted => exact absurd rfl hev
  | added =>
    simp only [handle, ha, removeFull_cks]
    cases aget id cache with
    | none => simp
    | some c => by_cases h : c.cks = e0.cks <;> simp [h]
  | modified =>
    simp only [handle, ha, removeFull_cks]
    cases aget id cache with
    | none => simp
    | some c => by_cases h : c.cks = e0.cks <;> simp [h]

/-- The Deleted branch. -/
theorem handle_delete {C : Type} [DecidableEq C] (cfg : Cfg) (cks : J → C) (cache : Cache C)
    (id : Nat) (obj : J) (e0 : Entry C) (ha : applyFilter cfg cks obj = some e0) :
    handle cfg cks cache .deleted id obj =
      (adel id cache, if shouldFire cfg .deleted then some ⟨.deleted, id, removeFull cfg e0⟩ else none) := by
  simp only [handle, ha]

/-- A filter that fails on the object: an Added/Modified change is dropped as a whole. -/
theorem handle_filter_error {C : Type} [DecidableEq C] (cfg : Cfg) (cks : J → C) (cache : Cache C)
    (ev : WatchEvent) (id : Nat) (obj : J) (hev : ev ≠ .deleted) (ha : applyFilter cfg cks obj = none) :
    handle cfg cks cache ev id obj = (cache, none) := by
  cases ev with
  | deleted => exact absurd rfl hev
  | added => simp only [handle, ha]
  | modified => simp only [handle, ha]

/-- … but a Deleted is still handled ("Delete is always fired"). -/
theorem handle_delete_error {C : Type} [DecidableEq C] (cfg : Cfg) (cks : J → C) (cache : Cache C)
    (id : Nat) (obj : J) (ha : applyFilter cfg cks obj = none) :
    handle cfg cks cache .deleted id obj =
      (adel id cache, if shouldFire cfg .deleted then
        some ⟨.deleted, id, removeFull cfg { cks := cks .null, fr := some .null, obj := some obj }⟩ else none) := by
  simp only [handle, ha]

theorem shouldFire_eq (cfg : Cfg) (e : WatchEvent) : shouldFire cfg e = decide (e ∈ cfg.types) := by
  by_cases h : e ∈ cfg.types
  · simp [h, (shouldFire_iff cfg e).2 h]
  · have : shouldFire cfg e ≠ true := fun hh => h ((shouldFire_iff cfg e).1 hh)
    simp [h, this]

/-! ## The relation between the cache (checksums) and what the spec knows (projections) -/

/-- The cache holds, per object, the checksum of the last known projection. -/
def Rel {C : Type} (cks : J → C) (cache : Cache C) (known : Spec.Known) : Prop :=
  ∀ id, (aget id cache).map (·.cks) = (aget id known).map cks

theorem rel_aset {C : Type} (cks : J → C) (cache : Cache C) (known : Spec.Known) (id : Nat)
    (e : Entry C) (p : J) (he : e.cks = cks p) (hrel : Rel cks cache known) :
    Rel cks (aset id e cache) (aset id p known) := by
  intro i
  rw [aget_aset, aget_aset]
  by_cases hi : i = id
  · simp [hi, he]
  · simp [hi, hrel i]

theorem rel_adel {C : Type} (cks : J → C) (cache : Cache C) (known : Spec.Known) (id : Nat)
    (hrel : Rel cks cache known) : Rel cks (adel id cache) (adel id known) := by
  intro i
  rw [aget_adel, aget_adel]
  by_cases hi : i = id
  · simp [hi]
  · simp [hi, hrel i]

theorem spec_step_upsert (cfg : Cfg) (known : Spec.Known) (ev : WatchEvent) (id : Nat) (obj p : J)
    (hev : ev ≠ .deleted) (hp : project cfg obj = some p) :
    Spec.step cfg known ev id obj =
      (aset id p known, decide (ev ∈ cfg.types) && decide (aget id known ≠ some p)) := by
  cases ev with
  | deleted => exact absurd rfl hev
  | added => simp only [Spec.step, hp]
  | modified => simp only [Spec.step, hp]

/-- One change: the code fires exactly when the spec does, and the relation is kept — provided the
checksum separates the new projection from the one known for this object. -/
theorem handle_refines {C : Type} [DecidableEq C] (cfg : Cfg) (cks : J → C)
    (cache : Cache C) (known : Spec.Known) (ev : WatchEvent) (id : Nat) (obj : J)
    (hrel : Rel cks cache known)
    (hinj : ∀ p q, project cfg obj = some p → aget id known = some q → cks q = cks p → q = p) :
    (handle cfg cks cache ev id obj).2.isSome = (Spec.step cfg known ev id obj).2 ∧
    Rel cks (handle cfg cks cache ev id obj).1 (Spec.step cfg known ev id obj).1 := by
  cases hp : project cfg obj with
  | none =>
    have ha : applyFilter cfg cks obj = none := by rw [applyFilter_eq, hp]; rfl
    by_cases hev : ev = .deleted
    · subst hev
      rw [handle_delete_error cfg cks cache id obj ha]
      simp only [Spec.step, hp]
      refine ⟨?_, rel_adel cks cache known id hrel⟩
      rw [shouldFire_eq]
      by_cases h : WatchEvent.deleted ∈ cfg.types <;> simp [h]
    · rw [handle_filter_error cfg cks cache ev id obj hev ha]
      cases ev with
      | deleted => exact absurd rfl hev
      | added => simp only [Spec.step, hp]; exact ⟨rfl, hrel⟩
      | modified => simp only [Spec.step, hp]; exact ⟨rfl, hrel⟩
  | some p =>
    have ha : applyFilter cfg cks obj = some
        { cks := cks p, fr := if cfg.filter.isSome then some p else none, obj := some obj } := by
      rw [applyFilter_eq, hp]; rfl
    by_cases hev : ev = .deleted
    · subst hev
      rw [handle_delete cfg cks cache id obj _ ha]
      simp only [Spec.step, hp]
      refine ⟨?_, rel_adel cks cache known id hrel⟩
      rw [shouldFire_eq]
      by_cases h : WatchEvent.deleted ∈ cfg.types <;> simp [h]
    · rw [handle_upsert cfg cks cache ev id obj _ hev ha, spec_step_upsert cfg known ev id obj p hev hp]
      refine ⟨?_, rel_aset cks cache known id _ p (by rw [removeFull_cks]) hrel⟩
      have hr := hrel id
      rw [shouldFire_eq]
      cases hk : aget id known with
      | none =>
        rw [hk] at hr
        have hc : aget id cache = none := by
          cases hcc : aget id cache with
          | none => rfl
          | some c => rw [hcc] at hr; simp at hr
        by_cases h : ev ∈ cfg.types <;> simp [hc, h]
      | some q =>
        rw [hk] at hr
        obtain ⟨c, hcc, hcq⟩ : ∃ c, aget id cache = some c ∧ c.cks = cks q := by
          cases hcc : aget id cache with
          | none => rw [hcc] at hr; simp at hr
          | some c => rw [hcc] at hr; exact ⟨c, rfl, by simpa using hr⟩
        by_cases hqp : q = p
        · have : c.cks = cks p := by rw [hcq, hqp]
          simp [hcc, this, hqp]
        · have : ¬ c.cks = cks p := fun h => hqp (hinj p q hp hk (by rw [← hcq]; exact h))
          by_cases h : ev ∈ cfg.types <;> simp [hcc, this, hqp, h]


theorem spec_step_known {S : J → Prop} (cfg : Cfg) (known : Spec.Known) (ev : WatchEvent) (id : Nat)
    (obj : J) (hk : ∀ i q, aget i known = some q → S q) (hp : ∀ p, project cfg obj = some p → S p) :
    ∀ i q, aget i (Spec.step cfg known ev id obj).1 = some q → S q := by
  intro i q
  cases hpr : project cfg obj with
  | none =>
    cases ev with
    | deleted =>
      simp only [Spec.step, hpr, aget_adel]
      by_cases hi : i = id
      · simp [hi]
      · simp only [hi, if_false]; exact hk i q
    | added => simp only [Spec.step, hpr]; exact hk i q
    | modified => simp only [Spec.step, hpr]; exact hk i q
  | some p =>
    by_cases hev : ev = .deleted
    · subst hev
      simp only [Spec.step, hpr, aget_adel]
      by_cases hi : i = id
      · simp [hi]
      · simp only [hi, if_false]; exact hk i q
    · rw [spec_step_upsert cfg known ev id obj p hev hpr]
      simp only [aget_aset]
      by_cases hi : i = id
      · simp only [hi, if_true]; intro h; exact (Option.some.inj h) ▸ hp p hpr
      · simp only [hi, if_false]; exact hk i q

/-- **C08, all histories.** For every config, every history of changes (repeats of identical
states, changes outside the projection, any event types) and every checksum function that is
injective on the projections that occur (`hinj`; md5 collisions are outside the model): the informer
emits an event for exactly the changes the specification says trigger the hook, and its cache keeps
describing the last known projection of every object. -/
theorem run_refines_spec {C : Type} [DecidableEq C] (cfg : Cfg) (cks : J → C) (S : J → Prop)
    (hinj : ∀ p q, S p → S q → cks p = cks q → p = q) :
    ∀ (hist : List Change) (cache : Cache C) (known : Spec.Known),
      Rel cks cache known → (∀ i q, aget i known = some q → S q) →
      (∀ c ∈ hist, ∀ p, project cfg c.2.2 = some p → S p) →
      (run cfg cks cache hist).2.map Option.isSome = (Spec.run cfg known hist).2 ∧
      Rel cks (run cfg cks cache hist).1 (Spec.run cfg known hist).1 := by
  intro hist
  induction hist with
  | nil => intro cache known hrel _ _; exact ⟨rfl, hrel⟩
  | cons c rest ih =>
    intro cache known hrel hk hh
    obtain ⟨ev, id, obj⟩ := c
    have hpS : ∀ p, project cfg obj = some p → S p := hh (ev, id, obj) (by simp)
    have hstep := handle_refines cfg cks cache known ev id obj hrel
      (fun p q hp hq h => hinj q p (hk id q hq) (hpS p hp) h)
    have hk' := spec_step_known (S := S) cfg known ev id obj hk hpS
    have hrest := ih (handle cfg cks cache ev id obj).1 (Spec.step cfg known ev id obj).1 hstep.2 hk'
      (fun c hc => hh c (by simp [hc]))
    simp only [run, Spec.run, List.map_cons]
    exact ⟨by rw [hstep.1, hrest.1], hrest.2⟩

/-! Non-vacuity: a history with an informer-start replay, a change outside the projection, a
change inside it, a resync and a delete, for the scalar filter `.spec.replicas`; checksum = identity. -/
def exFilter : Prog := .one (.path ["spec", "replicas"])
def exObj (r x : Int) : J := .obj [("spec", .obj [("replicas", .num r)]), ("status", .obj [("x", .num x)])]
def exCfg : Cfg := { types := [.modified, .deleted], filter := some exFilter, keep := true }

example : (run exCfg id [] [(.added, 1, exObj 1 0), (.added, 1, exObj 1 0), (.modified, 1, exObj 1 7),
      (.modified, 1, exObj 2 7), (.modified, 1, exObj 2 7), (.deleted, 1, exObj 2 7)]).2.map Option.isSome
    = [false, false, false, true, false, true]
    ∧ (Spec.run exCfg [] [(.added, 1, exObj 1 0), (.added, 1, exObj 1 0), (.modified, 1, exObj 1 7),
      (.modified, 1, exObj 2 7), (.modified, 1, exObj 2 7), (.deleted, 1, exObj 2 7)]).2
    = [false, false, false, true, false, true] := by decide

/-- **C08 fires_iff.** An Added or Modified change triggers iff its type is listed and the
projection of the object differs from the last one known for it (or none is known); a Deleted
change triggers iff Deleted is listed. Stated for the code-shaped model, `known` being what the
cache describes (`Rel`), under the injectivity hypothesis for the two projections compared. -/
theorem fires_iff {C : Type} [DecidableEq C] (cfg : Cfg) (cks : J → C)
    (cache : Cache C) (known : Spec.Known) (ev : WatchEvent) (id : Nat) (obj p : J)
    (hrel : Rel cks cache known) (hp : project cfg obj = some p)
    (hinj : ∀ q, aget id known = some q → cks q = cks p → q = p) :
    (handle cfg cks cache ev id obj).2.isSome = true ↔
      (ev = .deleted ∧ WatchEvent.deleted ∈ cfg.types) ∨
      (ev ≠ .deleted ∧ ev ∈ cfg.types ∧ aget id known ≠ some p) := by
  have h := (handle_refines cfg cks cache known ev id obj hrel
    (fun p' q hp' hq hc => by rw [hp] at hp'; cases hp'; exact hinj q hq hc)).1
  rw [h]
  by_cases hev : ev = .deleted
  · subst hev; simp [Spec.step, hp]
  · rw [spec_step_upsert cfg known ev id obj p hev hp]; simp [hev]

example : (handle exCfg id [] .modified 1 (exObj 1 0)).2.isSome = true := by decide

/-- **C08 meaningful.** Under the injectivity hypothesis the checksums differ iff the projections
differ — so "checksum changed" in the code is "projection changed" in the property. -/
theorem meaningful {C : Type} (cks : J → C) (S : J → Prop)
    (hinj : ∀ p q, S p → S q → cks p = cks q → p = q) (p q : J) (hp : S p) (hq : S q) :
    cks p ≠ cks q ↔ p ≠ q :=
  ⟨fun h e => h (by rw [e]), fun h e => h (hinj p q hp hq e)⟩

example : (id (exObj 1 0) ≠ id (exObj 2 0)) ↔ exObj 1 0 ≠ exObj 2 0 :=
  meaningful id (fun _ => True) (fun _ _ _ _ h => h) _ _ trivial trivial

/-- **C08 redelivery_silent.** Delivering an object whose checksum equals the cached one (informer
start replay, resync, relist) as Added or Modified emits nothing. No assumption on the checksum. -/
theorem redelivery_silent {C : Type} [DecidableEq C] (cfg : Cfg) (cks : J → C) (cache : Cache C)
    (ev : WatchEvent) (id : Nat) (obj : J) (e c : Entry C) (hev : ev ≠ .deleted)
    (ha : applyFilter cfg cks obj = some e) (hc : aget id cache = some c) (heq : c.cks = e.cks) :
    (handle cfg cks cache ev id obj).2 = none := by
  rw [handle_upsert cfg cks cache ev id obj e hev ha]
  simp [hc, heq]

/-- Re-delivery right after the state was handled (as Added or Modified, listed or not). -/
theorem redelivery_after_handle {C : Type} [DecidableEq C] (cfg : Cfg) (cks : J → C) (cache : Cache C)
    (ev ev' : WatchEvent) (id : Nat) (obj : J) (e : Entry C) (hev : ev ≠ .deleted) (hev' : ev' ≠ .deleted)
    (ha : applyFilter cfg cks obj = some e) :
    (handle cfg cks (handle cfg cks cache ev id obj).1 ev' id obj).2 = none := by
  apply redelivery_silent cfg cks _ ev' id obj e (removeFull cfg e) hev' ha
  · rw [handle_upsert cfg cks cache ev id obj e hev ha]; simp [aget_aset]
  · exact removeFull_cks cfg e

/-- Informer start: an object that was loaded by the initial list and is then replayed as Added
emits nothing. -/
theorem redelivery_after_load {C : Type} [DecidableEq C] (cfg : Cfg) (cks : J → C)
    (id : Nat) (obj : J) (rest : List (Nat × J)) (cache : Cache C) (ev : WatchEvent) (hev : ev ≠ .deleted)
    (hl : load cfg cks ((id, obj) :: rest) = some cache) :
    (handle cfg cks cache ev id obj).2 = none := by
  unfold load at hl
  cases ha : applyFilter cfg cks obj with
  | none => simp [ha] at hl
  | some e =>
    cases hr : load cfg cks rest with
    | none => simp [ha, hr] at hl
    | some c0 =>
      simp only [ha, hr, Option.some.injEq] at hl
      subst hl
      exact redelivery_silent cfg cks _ ev id obj e (removeFull cfg e) hev ha (by simp [aget_aset])
        (removeFull_cks cfg e)

example : (handle exCfg id (handle exCfg id [] .modified 1 (exObj 1 0)).1 .modified 1 (exObj 1 0)).2.isSome = false := by
  decide

/-- **C08 suppressed_still_cached.** Whether or not the event is emitted (type not listed, checksum
unchanged), the cache — what snapshots show — holds the entry of the object just delivered. -/
theorem suppressed_still_cached {C : Type} [DecidableEq C] (cfg : Cfg) (cks : J → C) (cache : Cache C)
    (ev : WatchEvent) (id : Nat) (obj : J) (e : Entry C) (hev : ev ≠ .deleted)
    (ha : applyFilter cfg cks obj = some e) :
    aget id (handle cfg cks cache ev id obj).1 = some (removeFull cfg e) := by
  rw [handle_upsert cfg cks cache ev id obj e hev ha]; simp [aget_aset]

/-- The cached entry carries the projection of that very object as filter result, and the full
object exactly when keepFullObjectsInMemory is on. -/
theorem cached_entry_shape {C : Type} (cfg : Cfg) (cks : J → C) (obj p : J) (e : Entry C)
    (hp : project cfg obj = some p) (ha : applyFilter cfg cks obj = some e) :
    (removeFull cfg e).cks = cks p ∧
    (removeFull cfg e).fr = (if cfg.filter.isSome then some p else none) ∧
    (removeFull cfg e).obj = (if cfg.keep then some obj else none) := by
  rw [applyFilter_eq, hp] at ha
  simp only [Option.map_some, Option.some.injEq] at ha
  subst ha
  unfold removeFull
  by_cases hk : cfg.keep <;> simp [hk]

example : (aget 1 (handle { exCfg with types := [] } id [] .modified 1 (exObj 1 0)).1).map (fun e => (e.cks, e.fr, e.obj))
    = some (.num 1, some (.num 1), some (exObj 1 0)) := by decide

/-- A Deleted change triggers whenever Deleted is listed — for every object, every cache content and
every filter, also one that fails on the object — and the object leaves the cache. -/
theorem deleted_fires_iff {C : Type} [DecidableEq C] (cfg : Cfg) (cks : J → C) (cache : Cache C)
    (id : Nat) (obj : J) :
    ((handle cfg cks cache .deleted id obj).2.isSome = true ↔ WatchEvent.deleted ∈ cfg.types) ∧
    aget id (handle cfg cks cache .deleted id obj).1 = none := by
  cases ha : applyFilter cfg cks obj with
  | some e =>
    rw [handle_delete cfg cks cache id obj e ha, shouldFire_eq]
    refine ⟨?_, by simp [aget_adel]⟩
    by_cases h : WatchEvent.deleted ∈ cfg.types <;> simp [h]
  | none =>
    rw [handle_delete_error cfg cks cache id obj ha, shouldFire_eq]
    refine ⟨?_, by simp [aget_adel]⟩
    by_cases h : WatchEvent.deleted ∈ cfg.types <;> simp [h]

/-- A change of one object never touches what is cached for another. -/
theorem others_untouched {C : Type} [DecidableEq C] (cfg : Cfg) (cks : J → C) (cache : Cache C)
    (ev : WatchEvent) (id i : Nat) (obj : J) (hi : i ≠ id) :
    aget i (handle cfg cks cache ev id obj).1 = aget i cache := by
  cases ha : applyFilter cfg cks obj with
  | none =>
    by_cases hev : ev = .deleted
    · subst hev; rw [handle_delete_error cfg cks cache id obj ha]; simp [aget_adel, hi]
    · rw [handle_filter_error cfg cks cache ev id obj hev ha]
  | some e =>
    by_cases hev : ev = .deleted
    · subst hev; rw [handle_delete cfg cks cache id obj e ha]; simp [aget_adel, hi]
    · rw [handle_upsert cfg cks cache ev id obj e hev ha]; simp [aget_aset, hi]

/-- Without a jqFilter the projection is the whole object. -/
theorem no_filter_whole_object (cfg : Cfg) (obj : J) (h : cfg.filter = none) : project cfg obj = some obj := by
  simp [project, h]

/-- With a single jq expression (one output) the projection is the jq result itself, whatever its
type — object, array, scalar or null (the repaired `ApplyFilterValue`). -/
theorem single_output_projection (cfg : Cfg) (f : Filter) (obj : J) (h : cfg.filter = some (.one f)) :
    project cfg obj = f.eval obj := by
  simp only [project, h, Prog.eval, Prog.outputs]
  cases f.eval obj <;> rfl

example : project { exCfg with filter := some (.one (.mkArr [.path ["spec", "replicas"], .path ["nope"]])) } (exObj 4 0)
    = some (.arr [.num 4, .null]) := by decide

/-- **C08 default_types.** `WithEventTypes(nil)` (table regenerated from monitor_config.go and
types.go on every run) is the documented default: all three event types. -/
theorem default_types : ShellOp.Facts.c08DefaultEventTypes = ["Added", "Modified", "Deleted"]
    ∧ ShellOp.Facts.c08FactsStale = false
    ∧ defaultTypes = [.added, .modified, .deleted] := by decide

/-! ## The event types come from the hook configuration (`ConvertAndCheck` + `WithEventTypes`) -/

/-- **C08 configured_types_listed.** For every way a kubernetes binding can write its two keys
(each absent, `[]`, or any list — order and repeats included): an event type is in the list the
loader hands to the monitor iff the binding *lists* it — `executeHookOnEvent` when the key is there
(also when it is empty), the deprecated alias `watchEvent` only when it is not, everything when
neither is. -/
theorem configured_types_listed (exec watch : Option (List WatchEvent)) (ev : WatchEvent) :
    ev ∈ configuredTypes exec watch ↔ Spec.listed exec watch ev = true := by
  cases exec <;> cases watch <;> simp [configuredTypes, withEventTypes, Spec.listed]
  rw [default_types.2.2]; cases ev <;> simp

/-- `executeHookOnEvent` has priority: once the key is given, `watchEvent` is irrelevant. -/
theorem execute_key_priority (l : List WatchEvent) (watch : Option (List WatchEvent)) :
    configuredTypes (some l) watch = l := by
  simp [configuredTypes, withEventTypes]

example : configuredTypes (some []) (some [.added]) = [] ∧ configuredTypes none (some [.added]) = [.added]
    ∧ configuredTypes none (some []) = [] ∧ configuredTypes none none = [.added, .modified, .deleted]
    ∧ configuredTypes (some [.deleted, .deleted]) none = [.deleted, .deleted] := by decide

/-- **C08 binding_fires_iff.** `fires_iff` for an informer whose monitor was built by the loader from
a binding `(exec, watch)`: an Added/Modified change triggers iff the binding lists its type and the
projection differs from the last one known; a Deleted change iff the binding lists Deleted. -/
theorem binding_fires_iff {C : Type} [DecidableEq C] (exec watch : Option (List WatchEvent))
    (cfg : Cfg) (hcfg : cfg.types = configuredTypes exec watch) (cks : J → C)
    (cache : Cache C) (known : Spec.Known) (ev : WatchEvent) (id : Nat) (obj p : J)
    (hrel : Rel cks cache known) (hp : project cfg obj = some p)
    (hinj : ∀ q, aget id known = some q → cks q = cks p → q = p) :
    (handle cfg cks cache ev id obj).2.isSome = true ↔
      (ev = .deleted ∧ Spec.listed exec watch .deleted = true) ∨
      (ev ≠ .deleted ∧ Spec.listed exec watch ev = true ∧ aget id known ≠ some p) := by
  rw [fires_iff cfg cks cache known ev id obj p hrel hp hinj, hcfg,
    configured_types_listed, configured_types_listed]

/-- One change handled by an informer without any event type never emits anything. -/
theorem handle_no_types {C : Type} [DecidableEq C] (cfg : Cfg) (ht : cfg.types = []) (cks : J → C)
    (cache : Cache C) (ev : WatchEvent) (id : Nat) (obj : J) :
    (handle cfg cks cache ev id obj).2 = none := by
  have hs : ∀ e, shouldFire cfg e = false := fun e => by rw [shouldFire_eq, ht]; simp
  cases ha : applyFilter cfg cks obj with
  | none =>
    by_cases hev : ev = .deleted
    · subst hev; rw [handle_delete_error cfg cks cache id obj ha]; simp [hs]
    · rw [handle_filter_error cfg cks cache ev id obj hev ha]
  | some e =>
    by_cases hev : ev = .deleted
    · subst hev; rw [handle_delete cfg cks cache id obj e ha]; simp [hs]
    · rw [handle_upsert cfg cks cache ev id obj e hev ha]; simp [hs]

/-- **C08 empty_list_never_triggers.** A binding with `executeHookOnEvent: []` (a snapshot-only
binding) — whatever it says under `watchEvent`, whatever the filter, the cache and the history of
changes (Deleted included) — never triggers the hook. -/
theorem empty_list_never_triggers {C : Type} [DecidableEq C] (watch : Option (List WatchEvent))
    (cfg : Cfg) (hcfg : cfg.types = configuredTypes (some []) watch) (cks : J → C) :
    ∀ (hist : List Change) (cache : Cache C), ∀ e ∈ (run cfg cks cache hist).2, e = none := by
  have ht : cfg.types = [] := by rw [hcfg, execute_key_priority]
  intro hist
  induction hist with
  | nil => intro cache e he; simp [run] at he
  | cons c rest ih =>
    intro cache e he
    obtain ⟨ev, id, obj⟩ := c
    simp only [run, List.mem_cons] at he
    rcases he with h | h
    · rw [h]; exact handle_no_types cfg ht cks cache ev id obj
    · exact ih _ e h

example : (run { exCfg with types := configuredTypes (some []) (some [.added, .modified, .deleted]) } id []
    [(.added, 1, exObj 1 0), (.modified, 1, exObj 2 0), (.deleted, 1, exObj 2 0)]).2.map Option.isSome
    = [false, false, false] := by decide

/-- … while the snapshot still follows every change of such a binding. -/
example : (aget 1 (run { exCfg with types := configuredTypes (some []) (some [.added]) } id []
    [(.added, 1, exObj 1 0), (.modified, 1, exObj 2 0)]).1).map (·.fr) = some (some (.num 2)) := by decide

/-! ## The checksum is taken over the JSON text: values of different JSON types never share a text -/

/-- null / boolean / number / string / array / object. -/
def kind : J → Nat
  | .null => 0 | .bool _ => 1 | .num _ => 2 | .str _ => 3 | .arr _ => 4 | .obj _ => 5

def firstChar (s : String) : Option Char := s.toList.head?

/-- What the first character of a JSON text says about the type of the value. -/
def kindOfFirst : Option Char → Nat
  | some c => if c = 'n' then 0 else if c = 't' ∨ c = 'f' then 1 else if c = '"' then 3
              else if c = '[' then 4 else if c = '{' then 5 else 2
  | none => 6

theorem firstChar_quote (s : String) : firstChar (quote s) = some '"' := by
  simp [firstChar, quote, String.toList_append]

theorem firstChar_nat (n : Nat) : ∃ c, firstChar (toString n) = some c ∧ c.isDigit = true := by
  have hne : Nat.toDigits 10 n ≠ [] := Nat.toDigits_ne_nil
  cases h : Nat.toDigits 10 n with
  | nil => exact absurd h hne
  | cons c rest =>
    refine ⟨c, ?_, ?_⟩
    · simp [firstChar, h]
    · exact Nat.isDigit_of_mem_toDigits (b := 10) (n := n) (by decide) (by decide) (by rw [h]; simp)

theorem kindOfFirst_digit (c : Char) (hd : c.isDigit = true) : kindOfFirst (some c) = 2 := by
  have h1 : c ≠ 'n' := by rintro rfl; revert hd; decide
  have h2 : c ≠ 't' := by rintro rfl; revert hd; decide
  have h3 : c ≠ 'f' := by rintro rfl; revert hd; decide
  have h4 : c ≠ '"' := by rintro rfl; revert hd; decide
  have h5 : c ≠ '[' := by rintro rfl; revert hd; decide
  have h6 : c ≠ '{' := by rintro rfl; revert hd; decide
  simp [kindOfFirst, h1, h2, h3, h4, h5, h6]

theorem kindOfFirst_int (n : Int) : kindOfFirst (firstChar (toString n)) = 2 := by
  rw [Int.toString_eq_repr, Int.repr_eq_if]
  split
  · obtain ⟨c, hc, hd⟩ := firstChar_nat n.toNat
    have : n.toNat.repr = toString n.toNat := rfl
    rw [this, hc]
    exact kindOfFirst_digit c hd
  · simp [firstChar, String.toList_append, kindOfFirst]

/-- The first character of the canonical text determines the JSON type of the value. -/
theorem kindOfFirst_print (v : J) : kindOfFirst (firstChar v.print) = kind v := by
  cases v with
  | null => simp [J.print, firstChar, kindOfFirst, kind]
  | bool b => cases b <;> simp [J.print, firstChar, kindOfFirst, kind]
  | num n => simp only [J.print, kind]; exact kindOfFirst_int n
  | str t => simp [J.print, firstChar_quote, kindOfFirst, kind]
  | arr xs => simp [J.print, firstChar, String.toList_append, kindOfFirst, kind]
  | obj kvs => simp [J.print, firstChar, String.toList_append, kindOfFirst, kind]

/-- **C08 text_separates_types.** Two projections of different JSON types (null vs "null", 3 vs
"3", true vs "true", [1] vs "[1]" …) never have the same text — so a checksum over the text can
only confuse them through a collision of the hash itself. -/
theorem text_separates_types (p q : J) (hk : kind p ≠ kind q) : p.print ≠ q.print := by
  intro h
  apply hk
  rw [← kindOfFirst_print p, ← kindOfFirst_print q, h]

example : (J.str "null").print ≠ J.null.print ∧ (J.str "3").print ≠ (J.num 3).print :=
  ⟨text_separates_types _ _ (by decide), text_separates_types _ _ (by decide)⟩

/-- **C08 retyped_projection_fires.** With the checksum of the code (`textCks h`, `h` any hash
that does not collide on the two texts at hand): an Added/Modified change of a listed type whose
projection has another JSON type than the cached one — whatever the texts inside — triggers. -/
theorem retyped_projection_fires {C : Type} [DecidableEq C] (h : String → C) (cfg : Cfg)
    (cache : Cache C) (ev : WatchEvent) (id : Nat) (obj p q : J) (c : Entry C)
    (hev : ev ≠ .deleted) (hl : ev ∈ cfg.types) (hp : project cfg obj = some p)
    (hc : aget id cache = some c) (hcq : c.cks = textCks h q) (hk : kind q ≠ kind p)
    (hh : q.print ≠ p.print → h q.print ≠ h p.print) :
    (handle cfg (textCks h) cache ev id obj).2.isSome = true := by
  have ha : applyFilter cfg (textCks h) obj = some
      { cks := textCks h p, fr := if cfg.filter.isSome then some p else none, obj := some obj } := by
    rw [applyFilter_eq, hp]; rfl
  rw [handle_upsert cfg (textCks h) cache ev id obj _ hev ha]
  have hne : ¬ c.cks = textCks h p := by
    rw [hcq]; exact hh (text_separates_types q p hk)
  have hs : shouldFire cfg ev = true := (shouldFire_iff cfg ev).2 hl
  simp [hc, hne, hs]

/-- 3 → "3" under `.spec.replicas`, checksum = the text itself: Modified fires, and back. -/
example :
    let o1 : J := .obj [("spec", .obj [("replicas", .num 3)])]
    let o2 : J := .obj [("spec", .obj [("replicas", .str "3")])]
    let c1 := (handle exCfg (textCks id) [] .modified 1 o1).1
    (handle exCfg (textCks id) c1 .modified 1 o2).2.isSome = true ∧
    (handle exCfg (textCks id) (handle exCfg (textCks id) c1 .modified 1 o2).1 .modified 1 o1).2.isSome = true := by
  decide

/-- Witness about a checksum that hashes string results raw (without their quotes): null → "null"
is then suppressed although the projection changed. -/
theorem raw_string_checksum_witness :
    let rawCks : J → String := fun j => match j with | .str s => s | v => v.print
    let cfg : Cfg := { types := [.modified], filter := some (.one (.path ["metadata", "labels", "mode"])), keep := true }
    let o1 : J := .obj [("metadata", .obj [])]
    let o2 : J := .obj [("metadata", .obj [("labels", .obj [("mode", .str "null")])])]
    let c1 := (handle cfg rawCks [] .modified 1 o1).1
    project cfg o1 ≠ project cfg o2 ∧
    (handle cfg rawCks c1 .modified 1 o2).2.isSome = false ∧
    (handle cfg (textCks id) (handle cfg (textCks id) [] .modified 1 o1).1 .modified 1 o2).2.isSome = true := by
  decide

/-- Regression witness for the repaired defect: with the projection the unrepaired code used
(`jq.ApplyFilter` kept object-valued outputs only), `.spec.replicas` 1 → 2 does not change the
projection although the jq result changes — so Modified never fired. -/
theorem unrepaired_witness :
    projectUnrepaired exCfg (exObj 1 0) = projectUnrepaired exCfg (exObj 2 0)
    ∧ project exCfg (exObj 1 0) ≠ project exCfg (exObj 2 0) := by decide


/-- Regression witness for the second repaired defect: the unrepaired code returned on every filter
error — a Deleted of a cached object whose last state the filter fails on (`.spec.replicas.x`,
replicas a number) emitted nothing although Deleted is listed, and the object stayed in the cache
(in every snapshot) for ever. The repaired model reports it and forgets the object. -/
theorem delete_with_failing_filter_witness :
    let cfg : Cfg := { types := [.deleted], filter := some (.one (.path ["spec", "replicas", "x"])), keep := true }
    let good : J := .obj [("spec", .obj [])]
    let bad : J := .obj [("spec", .obj [("replicas", .num 1)])]
    let cache := (handle cfg id [] .added 1 good).1
    (handleUnrepaired cfg id cache .deleted 1 bad).2.isSome = false ∧
    (aget 1 (handleUnrepaired cfg id cache .deleted 1 bad).1).isSome = true ∧
    (handle cfg id cache .deleted 1 bad).2.isSome = true ∧
    (aget 1 (handle cfg id cache .deleted 1 bad).1).isSome = false := by decide

/-- Scoping note, kernel-checked: for an Added/Modified change whose state the filter fails on there
is no projection to compare; the change is dropped as a whole (no event, the cache keeps the last
state the filter could evaluate). The harness runs this point on the real code (corpus case 5). -/
theorem failing_filter_upsert_ignored {C : Type} [DecidableEq C] (cfg : Cfg) (cks : J → C) (cache : Cache C)
    (ev : WatchEvent) (id : Nat) (obj : J) (hev : ev ≠ .deleted) (hp : project cfg obj = none) :
    handle cfg cks cache ev id obj = (cache, none) :=
  handle_filter_error cfg cks cache ev id obj hev (by rw [applyFilter_eq, hp]; rfl)

/-! ## Legacy hooks (configVersion v0) and hooks with several bindings -/

theorem convertV0Names_acc (names : List String) (acc : List WatchEvent) :
    convertV0Names names acc = (names.mapM WatchEvent.ofV0Name?).map (fun l => acc ++ l) := by
  induction names generalizing acc with
  | nil => simp [convertV0Names]
  | cons n rest ih =>
    unfold convertV0Names
    cases hn : WatchEvent.ofV0Name? n with
    | none => simp [List.mapM_cons, hn]
    | some t =>
      simp only [ih, List.mapM_cons, hn]
      cases rest.mapM WatchEvent.ofV0Name? <;> simp

theorem ofV0Name_eq (n : String) (t : WatchEvent) :
    WatchEvent.ofV0Name? n = some t ↔ n = Spec.v0Name t := by
  constructor
  · intro h
    unfold WatchEvent.ofV0Name? at h
    split at h <;> simp at h <;> subst h <;> rfl
  · intro h; subst h; cases t <;> rfl

theorem mapM_ofV0Name_mem (names : List String) (l : List WatchEvent)
    (h : names.mapM WatchEvent.ofV0Name? = some l) (ev : WatchEvent) :
    ev ∈ l ↔ Spec.v0Name ev ∈ names := by
  induction names generalizing l with
  | nil => simp at h; subst h; simp
  | cons n rest ih =>
    rw [List.mapM_cons] at h
    cases hn : WatchEvent.ofV0Name? n with
    | none => simp [hn] at h
    | some t =>
      cases hr : rest.mapM WatchEvent.ofV0Name? with
      | none => simp [hn, hr] at h
      | some l' =>
        simp [hn, hr] at h
        subst h
        have hn' := (ofV0Name_eq n t).1 hn
        rw [List.mem_cons, List.mem_cons, ih l' hr, hn']
        constructor
        · rintro (h | h)
          · left; rw [h]
          · right; exact h
        · rintro (h | h)
          · left; cases ev <;> cases t <;> simp_all [Spec.v0Name]
          · right; exact h

/-- **C08 configured_types_v0_listed.** A legacy binding (`event: [add, update, delete …]`, any
order, repeats allowed): an event type is in the list the loader hands to the monitor iff the
binding lists its legacy name. -/
theorem configured_types_v0_listed (names : List String) (l : List WatchEvent)
    (h : configuredTypesV0 names = some l) (ev : WatchEvent) :
    ev ∈ l ↔ Spec.listedV0 names ev = true := by
  unfold configuredTypesV0 at h
  rw [convertV0Names_acc] at h
  cases hm : names.mapM WatchEvent.ofV0Name? with
  | none => simp [hm] at h
  | some l' =>
    simp [hm, withEventTypes] at h
    subst h
    simp [Spec.listedV0, mapM_ofV0Name_mem names l' hm]

/-- The loader refuses a legacy binding iff one of its names is not add / update / delete. -/
theorem configured_types_v0_unsupported (names : List String) :
    configuredTypesV0 names = none ↔ ∃ n ∈ names, WatchEvent.ofV0Name? n = none := by
  unfold configuredTypesV0
  rw [convertV0Names_acc]
  induction names with
  | nil => simp
  | cons n rest ih =>
    rw [List.mapM_cons]
    cases hn : WatchEvent.ofV0Name? n with
    | none => simp [hn]
    | some t =>
      cases hr : rest.mapM WatchEvent.ofV0Name? with
      | none =>
        simp [hr] at ih
        obtain ⟨m, hm, hm'⟩ := ih
        simp [hn]
        exact ⟨m, hm, hm'⟩
      | some l' =>
        simp [hr] at ih
        simp [hn]
        exact ih

example : configuredTypesV0 ["delete", "add", "add"] = some [.deleted, .added, .added]
    ∧ configuredTypesV0 [] = some [] ∧ configuredTypesV0 ["add", "patch"] = none := by decide

theorem convertHookV0_acc (bs : List (List String)) (acc ms : List (List WatchEvent))
    (h : convertHookV0 bs acc = some ms) :
    ∃ ms', ms = acc ++ ms' ∧ bs.map configuredTypesV0 = ms'.map some := by
  induction bs generalizing acc with
  | nil => simp [convertHookV0] at h; exact ⟨[], by simp [h]⟩
  | cons b rest ih =>
    unfold convertHookV0 at h
    cases hb : configuredTypesV0 b with
    | none => simp [hb] at h
    | some m =>
      simp only [hb] at h
      obtain ⟨ms', h1, h2⟩ := ih _ h
      exact ⟨m :: ms', by simp [h1], by simp [hb, h2]⟩

/-- **C08 hook_v0_each_binding_its_own_list.** A legacy hook with any number of `onKubernetesEvent`
bindings: the loader builds one monitor per binding, in order, and the k-th monitor fires on an
event type iff the k-th binding lists it — whatever the other bindings of the hook say. -/
theorem hook_v0_each_binding_its_own_list (bs : List (List String)) (ms : List (List WatchEvent))
    (h : convertHookV0 bs [] = some ms) :
    ms.length = bs.length ∧
    ∀ (k : Nat) (b : List String) (m : List WatchEvent), bs[k]? = some b → ms[k]? = some m →
      ∀ ev, ev ∈ m ↔ Spec.listedV0 b ev = true := by
  obtain ⟨ms', h1, h2⟩ := convertHookV0_acc bs [] ms h
  simp at h1; subst h1
  have hlen : ms.length = bs.length := by
    have := congrArg List.length h2; simpa using this.symm
  refine ⟨hlen, ?_⟩
  intro k b m hb hm ev
  have hk : (bs.map configuredTypesV0)[k]? = (ms.map some)[k]? := by rw [h2]
  simp [List.getElem?_map, hb, hm] at hk
  exact configured_types_v0_listed b m hk ev

theorem convertHookV1_acc (bs : List (Option (List WatchEvent) × Option (List WatchEvent)))
    (acc : List (List WatchEvent)) :
    convertHookV1 bs acc = acc ++ bs.map (fun b => configuredTypes b.1 b.2) := by
  induction bs generalizing acc with
  | nil => simp [convertHookV1]
  | cons b rest ih => simp [convertHookV1, ih]

/-- **C08 hook_v1_each_binding_its_own_list.** The same for a v1 hook with any number of `kubernetes`
bindings, each writing `executeHookOnEvent` / `watchEvent` in any of the ways. -/
theorem hook_v1_each_binding_its_own_list
    (bs : List (Option (List WatchEvent) × Option (List WatchEvent))) :
    (convertHookV1 bs []).length = bs.length ∧
    ∀ (k : Nat) (b : Option (List WatchEvent) × Option (List WatchEvent)) (m : List WatchEvent),
      bs[k]? = some b → (convertHookV1 bs [])[k]? = some m →
      ∀ ev, ev ∈ m ↔ Spec.listed b.1 b.2 ev = true := by
  rw [convertHookV1_acc]
  refine ⟨by simp, ?_⟩
  intro k b m hb hm ev
  simp [List.getElem?_map, hb] at hm
  subst hm
  exact configured_types_listed b.1 b.2 ev

example : convertHookV0 [["add"], ["delete"], []] [] = some [[.added], [.deleted], []]
    ∧ convertHookV1 [(some [.added], none), (none, some [.deleted]), (none, none)] []
      = [[.added], [.deleted], [.added, .modified, .deleted]] := by decide

/-- Witness (a variant that is not the code): with one conversion buffer re-sliced for every binding
and a `WithEventTypes` that keeps the slice it is given, the first of the two bindings
`event: [add]`, `event: [delete]` ends up listening to Deleted — which it does not list — and not to
Added, which it lists. -/
theorem shared_buffer_witness :
    convertHookV0Shared [[.added], [.deleted]] = [[.deleted], [.deleted]]
    ∧ Spec.listedV0 ["add"] .deleted = false ∧ Spec.listedV0 ["add"] .added = true
    ∧ convertHookV0 [["add"], ["delete"]] [] = some [[.added], [.deleted]] := by decide

/-- **C08 v0_binding_fires_iff.** `fires_iff` for an informer whose monitor was built by the loader
from a legacy binding. -/
theorem v0_binding_fires_iff {C : Type} [DecidableEq C] (names : List String) (l : List WatchEvent)
    (hl : configuredTypesV0 names = some l)
    (cfg : Cfg) (hcfg : cfg.types = l) (cks : J → C)
    (cache : Cache C) (known : Spec.Known) (ev : WatchEvent) (id : Nat) (obj p : J)
    (hrel : Rel cks cache known) (hp : project cfg obj = some p)
    (hinj : ∀ q, aget id known = some q → cks q = cks p → q = p) :
    (handle cfg cks cache ev id obj).2.isSome = true ↔
      (ev = .deleted ∧ Spec.listedV0 names .deleted = true) ∨
      (ev ≠ .deleted ∧ Spec.listedV0 names ev = true ∧ aget id known ≠ some p) := by
  rw [fires_iff cfg cks cache known ev id obj p hrel hp hinj, hcfg,
    configured_types_v0_listed names l hl, configured_types_v0_listed names l hl]

/-! ## Re-delivery of the very same store object, with snapshot reads in between -/

theorem snapshotHeap_id (addrs : List Nat) (heap : Heap) (a : Nat) :
    aget a (snapshotHeap id addrs heap) = aget a heap := by
  unfold snapshotHeap
  induction addrs generalizing heap with
  | nil => rfl
  | cons b rest ih =>
    simp only [List.foldl_cons]
    rw [ih]
    cases hb : aget b heap with
    | none => rfl
    | some o =>
      simp only [id, aget_aset]
      by_cases hab : a = b
      · subst hab; simp [hb]
      · simp [hab]

/-- **C08 redelivery_same_object_after_snapshots.** The shared informer delivers the object at
address `a` (as Added or Modified; the filter evaluates on it), then any bindings read their
snapshots any number of times (`addrs`: whatever addresses those snapshots hold — this binding's,
another binding's on the same shared informer), then the informer delivers address `a` again
(resync, relist): nothing is emitted. `getCachedObjects` writes nothing through the addresses it
copies (`touch = id`); no assumption on the checksum. -/
theorem redelivery_same_object_after_snapshots {C : Type} [DecidableEq C] (cfg : Cfg) (cks : J → C)
    (heap : Heap) (cache : Cache C) (ev ev' : WatchEvent) (id a : Nat) (o : J) (e : Entry C)
    (snapshots : List (List Nat))
    (hev : ev ≠ .deleted) (hev' : ev' ≠ .deleted) (ho : aget a heap = some o)
    (ha : applyFilter cfg cks o = some e) :
    (handleAt cfg cks (snapshots.foldl (fun h addrs => snapshotHeap _root_.id addrs h) heap)
      (handleAt cfg cks heap cache ev id a).1 ev' id a).2 = none := by
  have hheap : ∀ (ss : List (List Nat)) (h : Heap),
      aget a (ss.foldl (fun h addrs => snapshotHeap _root_.id addrs h) h) = aget a h := by
    intro ss
    induction ss with
    | nil => intro h; rfl
    | cons s rest ih => intro h; simp only [List.foldl_cons]; rw [ih, snapshotHeap_id]
  unfold handleAt
  rw [hheap, ho]
  exact redelivery_after_handle cfg cks cache ev ev' id o e hev hev' ha

/-- What the clause excludes, on a variant that is not the code: a snapshot read that strips
`metadata.managedFields` "from its copy" — through the address, i.e. from the store's object — makes
the re-delivery of the unchanged object fire Modified for a binding without jqFilter; with
`touch = id` the same run is silent. -/
theorem stripping_snapshot_witness :
    let o : J := .obj [("metadata", .obj [("managedFields", .arr [.str "kubectl"]), ("name", .str "o1")])]
    let cfg : Cfg := { types := [.added, .modified], filter := none, keep := true }
    let heap : Heap := [(7, o)]
    let c1 := (handleAt cfg J.print heap [] .added 1 7).1
    (handleAt cfg J.print (snapshotHeap (stripMeta "managedFields") [7] heap) c1 .modified 1 7).2.isSome = true
    ∧ (handleAt cfg J.print (snapshotHeap id [7] heap) c1 .modified 1 7).2.isSome = false := by
  decide

example : (handleAt exCfg id (snapshotHeap id [3, 4] [(3, exObj 1 0)])
    (handleAt exCfg id [(3, exObj 1 0)] [] .modified 1 3).1 .modified 1 3).2.isSome = false
    ∧ (handleAt exCfg id [(3, exObj 1 0)] [] .modified 1 3).2.isSome = true := by decide

/-! ## Fifth wave: the informer start and the cache keys

"Re-delivery of an unchanged object (informer start …) triggers nothing, and suppressed changes still
update what snapshots show" — for the whole start sequence of a monitor (its own list at T0, changes
in the cluster, the informer's list at T1 replayed as Added with `isInInitialList = true`) and for
whole histories. -/

/-- The replay of the informer's initial list is the history "Added for every object of the list":
`isInInitialList` changes nothing. -/
theorem replayInitial_eq_run {C : Type} [DecidableEq C] (cfg : Cfg) (cks : J → C) (cache : Cache C)
    (list : List (Nat × J)) :
    replayInitial cfg cks cache list
      = run cfg cks cache (list.map (fun kv => (WatchEvent.added, kv.1, kv.2))) := by
  induction list generalizing cache with
  | nil => rfl
  | cons kv rest ih =>
    obtain ⟨id, obj⟩ := kv
    simp only [replayInitial, onAdd, run, List.map_cons]
    rw [ih]

theorem run_append {C : Type} [DecidableEq C] (cfg : Cfg) (cks : J → C) (cache : Cache C)
    (h1 h2 : List Change) :
    run cfg cks cache (h1 ++ h2)
      = ((run cfg cks (run cfg cks cache h1).1 h2).1,
         (run cfg cks cache h1).2 ++ (run cfg cks (run cfg cks cache h1).1 h2).2) := by
  induction h1 generalizing cache with
  | nil => simp [run]
  | cons c rest ih =>
    obtain ⟨ev, id, obj⟩ := c
    simp only [List.cons_append, run]
    rw [ih]

/-- A history that never mentions object `i` leaves what is cached for it as it is. -/
theorem run_untouched {C : Type} [DecidableEq C] (cfg : Cfg) (cks : J → C) (cache : Cache C)
    (hist : List Change) (i : Nat) (h : ∀ c ∈ hist, c.2.1 ≠ i) :
    aget i (run cfg cks cache hist).1 = aget i cache := by
  induction hist generalizing cache with
  | nil => rfl
  | cons c rest ih =>
    obtain ⟨ev, id, obj⟩ := c
    simp only [run]
    rw [ih _ (fun c hc => h c (List.mem_cons_of_mem _ hc))]
    exact others_untouched cfg cks cache ev id i obj
      (Ne.symm (h (ev, id, obj) List.mem_cons_self))

/-- **C08 snapshot_shows_last_state.** After ANY history, from any cache: if the last change that
mentions an object is an Added or Modified (emitted or suppressed — type not listed, checksum
unchanged, replay of the initial list), the cache — what snapshots show — holds the entry of exactly
that last state. -/
theorem snapshot_shows_last_state {C : Type} [DecidableEq C] (cfg : Cfg) (cks : J → C)
    (cache : Cache C) (pre post : List Change) (ev : WatchEvent) (id : Nat) (obj : J) (e : Entry C)
    (hev : ev ≠ .deleted) (ha : applyFilter cfg cks obj = some e)
    (hpost : ∀ c ∈ post, c.2.1 ≠ id) :
    aget id (run cfg cks cache (pre ++ (ev, id, obj) :: post)).1 = some (removeFull cfg e) := by
  rw [run_append]
  simp only [run]
  rw [run_untouched cfg cks _ post id hpost]
  exact suppressed_still_cached cfg cks _ ev id obj e hev ha

/-- **C08 start_sequence_shows_informer_list.** Whatever the monitor listed and cached at T0
(`listed0`: the object in an older state, or not at all), after the informer's initial list (`l1 ++
(id, obj) :: l2`, the object occurring once) has been replayed the snapshot shows the object in the
state the informer listed: what happened between the two lists is not lost. -/
theorem start_sequence_shows_informer_list {C : Type} [DecidableEq C] (cfg : Cfg) (cks : J → C)
    (listed0 l1 l2 : List (Nat × J)) (r : Cache C × List (Option (Event C)))
    (id : Nat) (obj : J) (e : Entry C)
    (hs : startSequence cfg cks listed0 (l1 ++ (id, obj) :: l2) = some r)
    (hl2 : ∀ kv ∈ l2, kv.1 ≠ id) (ha : applyFilter cfg cks obj = some e) :
    aget id r.1 = some (removeFull cfg e) := by
  unfold startSequence at hs
  cases hl : load cfg cks listed0 with
  | none => simp [hl] at hs
  | some c0 =>
    simp only [hl, Option.some.injEq] at hs
    subst hs
    rw [replayInitial_eq_run, List.map_append, List.map_cons]
    apply snapshot_shows_last_state cfg cks c0 _ _ .added id obj e (by decide) ha
    intro c hc
    obtain ⟨kv, hkv, rfl⟩ := List.mem_map.1 hc
    exact hl2 kv hkv

/-- `loadExistedObjects`: every listed object (each object once in the list) is cached with its entry. -/
theorem load_cached {C : Type} (cfg : Cfg) (cks : J → C) (listed : List (Nat × J)) (cache : Cache C)
    (hfun : ∀ a ∈ listed, ∀ b ∈ listed, a.1 = b.1 → a = b)
    (hl : load cfg cks listed = some cache) :
    ∀ kv ∈ listed, ∃ e, applyFilter cfg cks kv.2 = some e ∧ aget kv.1 cache = some (removeFull cfg e) := by
  induction listed generalizing cache with
  | nil => intro kv hkv; cases hkv
  | cons hd rest ih =>
    obtain ⟨id, obj⟩ := hd
    unfold load at hl
    cases ha : applyFilter cfg cks obj with
    | none => simp [ha] at hl
    | some e =>
      cases hr : load cfg cks rest with
      | none => simp [ha, hr] at hl
      | some c0 =>
        simp only [ha, hr, Option.some.injEq] at hl
        subst hl
        intro kv hkv
        by_cases hk : kv.1 = id
        · have : kv = (id, obj) := hfun kv hkv (id, obj) List.mem_cons_self hk
          subst this
          exact ⟨e, ha, by simp [aget_aset]⟩
        · have hin : kv ∈ rest := by
            rcases List.mem_cons.1 hkv with h | h
            · exact absurd (by rw [h]) hk
            · exact h
          obtain ⟨e', ha', hc'⟩ := ih c0
            (fun a ha b hb => hfun a (List.mem_cons_of_mem _ ha) b (List.mem_cons_of_mem _ hb)) hr kv hin
          exact ⟨e', ha', by rw [aget_aset, if_neg hk]; exact hc'⟩

/-- Replaying a list of objects every one of which is cached with the checksum of its present
projection emits nothing. -/
theorem replay_silent {C : Type} [DecidableEq C] (cfg : Cfg) (cks : J → C) (list : List (Nat × J))
    (cache : Cache C)
    (hfun : ∀ a ∈ list, ∀ b ∈ list, a.1 = b.1 → a = b)
    (hinv : ∀ kv ∈ list, ∃ e ec, applyFilter cfg cks kv.2 = some e ∧ aget kv.1 cache = some ec ∧ ec.cks = e.cks) :
    ∀ x ∈ (replayInitial cfg cks cache list).2, x = none := by
  induction list generalizing cache with
  | nil => intro x hx; simp [replayInitial] at hx
  | cons hd rest ih =>
    obtain ⟨id, obj⟩ := hd
    obtain ⟨e, ec, ha, hc, hcks⟩ := hinv (id, obj) List.mem_cons_self
    have hstep : (handle cfg cks cache .added id obj).2 = none :=
      redelivery_silent cfg cks cache .added id obj e ec (by decide) ha hc hcks
    have hcache : (handle cfg cks cache .added id obj).1 = aset id (removeFull cfg e) cache := by
      rw [handle_upsert cfg cks cache .added id obj e (by decide) ha]
    intro x hx
    simp only [replayInitial, onAdd, List.mem_cons] at hx
    rcases hx with hx | hx
    · rw [hx, hstep]
    · refine ih _ (fun a ha b hb => hfun a (List.mem_cons_of_mem _ ha) b (List.mem_cons_of_mem _ hb)) ?_ x hx
      intro kv hkv
      rw [hcache]
      by_cases hk : kv.1 = id
      · have : kv = (id, obj) := hfun kv (List.mem_cons_of_mem _ hkv) (id, obj) List.mem_cons_self hk
        subst this
        exact ⟨e, removeFull cfg e, ha, by simp [aget_aset], removeFull_cks cfg e⟩
      · obtain ⟨e', ec', ha', hc', hcks'⟩ := hinv kv (List.mem_cons_of_mem _ hkv)
        exact ⟨e', ec', ha', by rw [aget_aset, if_neg hk]; exact hc', hcks'⟩

/-- **C08 start_unchanged_silent.** Informer start with nothing changed in between: the informer
lists what the monitor listed (each object once, in any number) — the whole replay triggers nothing,
whatever the filter, the event types and the checksum function. -/
theorem start_unchanged_silent {C : Type} [DecidableEq C] (cfg : Cfg) (cks : J → C)
    (listed : List (Nat × J)) (r : Cache C × List (Option (Event C)))
    (hfun : ∀ a ∈ listed, ∀ b ∈ listed, a.1 = b.1 → a = b)
    (hs : startSequence cfg cks listed listed = some r) :
    ∀ x ∈ r.2, x = none := by
  unfold startSequence at hs
  cases hl : load cfg cks listed with
  | none => simp [hl] at hs
  | some c0 =>
    simp only [hl, Option.some.injEq] at hs
    subst hs
    apply replay_silent cfg cks listed c0 hfun
    intro kv hkv
    obtain ⟨e, ha, hc⟩ := load_cached cfg cks listed c0 hfun hl kv hkv
    exact ⟨e, removeFull cfg e, ha, hc, removeFull_cks cfg e⟩

/-- Non-vacuity: o1 is listed with replicas 1 at T0, changed to 2 and o2 created before the informer
starts; Added is not listed (nothing triggers) — the snapshot shows replicas 2 and o2 all the same;
and an unchanged start is silent with Added listed. -/
example :
    (startSequence exCfg id [(1, exObj 1 0)] [(1, exObj 2 0), (2, exObj 5 0)]).map
        (fun r => ((aget 1 r.1).map (·.fr), (aget 2 r.1).map (·.fr), r.2.map Option.isSome))
      = some (some (some (.num 2)), some (some (.num 5)), [false, false])
    ∧ (startSequence { exCfg with types := [.added] } id [(1, exObj 1 0), (2, exObj 5 0)]
        [(1, exObj 1 0), (2, exObj 5 0)]).map (fun r => r.2.map Option.isSome) = some [false, false]
    ∧ (startSequence { exCfg with types := [.added] } id [(1, exObj 1 0)]
        [(1, exObj 2 0), (2, exObj 5 0)]).map (fun r => r.2.map Option.isSome) = some [true, true] := by
  decide

/-- Witness (NOT the code): an `OnAdd` that drops the initial list of a pre-loaded monitor keeps
showing the T0 state — o1 with replicas 1, no o2 — where the code shows replicas 2 and o2. -/
theorem skip_initial_list_witness :
    (load exCfg id [(1, exObj 1 0)]).map (fun c =>
        let r := replayInitialSkip true exCfg id c [(1, exObj 2 0), (2, exObj 5 0)]
        ((aget 1 r.1).map (·.fr), (aget 2 r.1).map (·.fr)))
      = some (some (some (.num 1)), none)
    ∧ (load exCfg id [(1, exObj 1 0)]).map (fun c =>
        let r := replayInitial exCfg id c [(1, exObj 2 0), (2, exObj 5 0)]
        ((aget 1 r.1).map (·.fr), (aget 2 r.1).map (·.fr)))
      = some (some (some (.num 2)), some (some (.num 5))) := by decide

/-- Scope of the start-sequence theorems (a witness about the code as it is): they speak about the
objects of the informer's list. An object the monitor listed at T0 that is DELETED before the informer
starts is in no list and no notification: it stays in the cache — in every snapshot — and no Deleted
is ever emitted, although Deleted is listed. (Seen on the real code too: notes/C08.md, fifth wave.) -/
theorem deleted_between_lists_stays_witness :
    (startSequence { exCfg with types := [.deleted] } id [(1, exObj 1 0)] []).map
      (fun r => ((aget 1 r.1).isSome, r.2.map Option.isSome)) = some (true, []) := by decide

/-- **C08 preloaded_key_is_event_key.** However the binding spells its kind, a pre-loaded object is
filed under the key its events are looked up by. -/
theorem preloaded_key_is_event_key (bindingKind : String) (o : ObjRef) :
    loadKey bindingKind o = eventKey o := rfl

/-- **C08 start_replay_silent_any_kind_spelling.** For every spelling of the binding's kind and every
way the keys are told apart (`idOf`): an object loaded by the monitor's list and re-delivered
unchanged at informer start (or by a resync) triggers nothing. -/
theorem start_replay_silent_any_kind_spelling {C : Type} [DecidableEq C] (idOf : String → Nat)
    (bindingKind : String) (o : ObjRef) (cfg : Cfg) (cks : J → C) (obj : J) (rest : List (Nat × J))
    (cache : Cache C) (ev : WatchEvent) (hev : ev ≠ .deleted)
    (hl : load cfg cks ((idOf (loadKey bindingKind o), obj) :: rest) = some cache) :
    (handle cfg cks cache ev (idOf (eventKey o)) obj).2 = none :=
  redelivery_after_load cfg cks _ obj rest cache ev hev hl

/-- Why the keys must agree: a change of a listed type for a key the cache does not hold always
triggers — an object filed under another key is as good as unknown. -/
theorem unknown_key_fires {C : Type} [DecidableEq C] (cfg : Cfg) (cks : J → C) (cache : Cache C)
    (ev : WatchEvent) (id : Nat) (obj : J) (e : Entry C) (hev : ev ≠ .deleted)
    (ha : applyFilter cfg cks obj = some e) (hc : aget id cache = none) (hl : ev ∈ cfg.types) :
    (handle cfg cks cache ev id obj).2.isSome = true := by
  rw [handle_upsert cfg cks cache ev id obj e hev ha]
  simp [hc, (shouldFire_iff cfg ev).2 hl]

/-- Witness (NOT the code): keyed with the kind as the binding spells it, `kind: configmaps` files
the object under a key no event of a ConfigMap ever has; only the exact Kind happens to agree. -/
theorem binding_kind_key_witness :
    loadKeyBindingKind "configmaps" ⟨"default", "ConfigMap", "cm-a"⟩ ≠ eventKey ⟨"default", "ConfigMap", "cm-a"⟩
    ∧ loadKeyBindingKind "ConfigMap" ⟨"default", "ConfigMap", "cm-a"⟩ = eventKey ⟨"default", "ConfigMap", "cm-a"⟩ := by
  decide

example : loadKey "cm" ⟨"default", "ConfigMap", "cm-a"⟩ = "default/ConfigMap/cm-a" := by decide

/-! ## Sixth wave: what several bindings share — the FactoryStore below the handlers, the parsing of
the jq text -/

section Shared
open ShellOp.Snapshot

theorem fsServed_iff' (s : FStore) (inf : Nat) (idx : Key) :
    fsServed s inf idx = true ↔ ∃ g, kget FEntry.idx s idx = some g ∧ inf ∈ g.regs := by
  unfold fsServed
  cases hg : kget FEntry.idx s idx with
  | none => simp
  | some g => simp

/-- **C08 sibling_stop_keeps_served.** In every store: the `Stop` of ANOTHER informer of the same
factory index (a sibling binding hanging on the same shared informer) leaves this informer served —
the factory is cancelled and deleted only when no registration is left. -/
theorem sibling_stop_keeps_served (s : FStore) (inf other : Nat) (idx : Key)
    (h : fsServed s inf idx = true) (hne : other ≠ inf) :
    fsServed (fsStop s other idx) inf idx = true := by
  rw [fsServed_iff'] at h ⊢
  obtain ⟨g, hg, hmem⟩ := h
  unfold fsStop
  have hi : inf ≠ other := fun e => hne e.symm
  have hfil : inf ∈ g.regs.filter (· != other) := by simp [List.mem_filter, hmem, hi]
  simp only [hg]
  by_cases hc : g.regs.contains other = true
  · rw [if_pos hc]
    have hemp : (g.regs.filter (· != other)).isEmpty = false := by
      cases hl : g.regs.filter (· != other) with
      | nil => rw [hl] at hfil; cases hfil
      | cons a t => rfl
    simp only [hemp, Bool.false_eq_true, if_false]
    exact ⟨_, by rw [kget_kput]; exact if_pos rfl, hfil⟩
  · rw [if_neg hc]; exact ⟨g, hg, hmem⟩

/-- any number of siblings may stop, one after the other -/
theorem sibling_stops_keep_served (s : FStore) (inf : Nat) (others : List Nat) (idx : Key)
    (h : fsServed s inf idx = true) (hne : inf ∉ others) :
    fsServed (others.foldl (fun st o => fsStop st o idx) s) inf idx = true := by
  induction others generalizing s with
  | nil => exact h
  | cons o t ih =>
    simp only [List.foldl_cons]
    apply ih
    · exact sibling_stop_keeps_served s inf o idx h (fun e => hne (e ▸ List.mem_cons_self ..))
    · exact fun hm => hne (List.mem_cons_of_mem _ hm)

/-- **C08 deleted_fires_after_sibling_stops.** "A Deleted change triggers whenever Deleted is listed"
— also after bindings that shared the informer have stopped: for every store, every binding served
by it, any siblings stopping, every cache and object, the Deleted change is handled by
`handleWatchEvent` (fires iff Deleted is listed; the object leaves the snapshot). -/
theorem deleted_fires_after_sibling_stops {C : Type} [DecidableEq C] (s : FStore) (inf : Nat)
    (others : List Nat) (idx : Key) (cfg : Cfg) (cks : J → C) (cache : Cache C) (id : Nat) (obj : J)
    (h : fsServed s inf idx = true) (hne : inf ∉ others) :
    let r := handleVia (others.foldl (fun st o => fsStop st o idx) s) inf idx cfg cks cache .deleted id obj
    (r.2.isSome = true ↔ WatchEvent.deleted ∈ cfg.types) ∧ aget id r.1 = none := by
  simp only [handleVia, sibling_stops_keep_served s inf others idx h hne, if_true]
  exact deleted_fires_iff cfg cks cache id obj

/-- **C08 suppressed_still_cached_after_sibling_stops.** "Suppressed changes still update what
snapshots show" after siblings have stopped: the change goes through `handleWatchEvent`, so the
cache holds the entry of the delivered state. -/
theorem change_still_handled_after_sibling_stops {C : Type} [DecidableEq C] (s : FStore) (inf : Nat)
    (others : List Nat) (idx : Key) (cfg : Cfg) (cks : J → C) (cache : Cache C) (ev : WatchEvent)
    (id : Nat) (obj : J) (h : fsServed s inf idx = true) (hne : inf ∉ others) :
    handleVia (others.foldl (fun st o => fsStop st o idx) s) inf idx cfg cks cache ev id obj
      = handle cfg cks cache ev id obj := by
  simp only [handleVia, sibling_stops_keep_served s inf others idx h hne, if_true]

/-- Witness (NOT the code): with the handlers-left number decremented twice (`fsStopOffByOne`) the
stop of one of exactly TWO bindings sharing an informer leaves the other unserved — its Deleted
never fires although Deleted is listed and the object stays in its snapshot; with three bindings,
or with the code's `fsStop`, nothing is wrong. -/
theorem off_by_one_stop_witness :
    let x : Key := ⟨1, 1, 0⟩
    let two := fsStart (fsStart [] 1 x) 2 x
    let three := fsStart two 3 x
    let cfg : Cfg := { exCfg with types := [.deleted] }
    let cache : Cache J := [(1, { cks := .null, fr := none, obj := none })]
    fsServed (fsStopOffByOne two 1 x) 2 x = false ∧ fsServed (fsStop two 1 x) 2 x = true ∧
    fsServed (fsStopOffByOne three 1 x) 2 x = true ∧
    ((handleVia (fsStopOffByOne two 1 x) 2 x cfg id cache .deleted 1 (exObj 1 0)).2.isSome,
      (aget 1 (handleVia (fsStopOffByOne two 1 x) 2 x cfg id cache .deleted 1 (exObj 1 0)).1).isSome) = (false, true) ∧
    (handleVia (fsStop two 1 x) 2 x cfg id cache .deleted 1 (exObj 1 0)).2.isSome = true := by
  decide

/-- non-vacuity: two bindings on one index, the first stops, the second handles a Deleted -/
example : fsServed (fsStop (fsStart (fsStart [] 1 ⟨1, 1, 0⟩) 2 ⟨1, 1, 0⟩) 1 ⟨1, 1, 0⟩) 2 ⟨1, 1, 0⟩ = true := by
  decide

/-- **C08 each_binding_its_own_decision.** One change handed to all bindings of a process: what the
k-th binding emits and caches is `handleWatchEvent` with ITS configuration (its jqFilter, its event
types) and ITS cache — whatever the other bindings are. -/
theorem each_binding_its_own_decision {C : Type} [DecidableEq C] (cks : J → C) (bs : List (Cfg × Cache C))
    (ev : WatchEvent) (id : Nat) (obj : J) (k : Nat) :
    (deliverAll cks bs ev id obj)[k]? = bs[k]?.map (fun b => handle b.1 cks b.2 ev id obj) := by
  simp [deliverAll]

/-- **C08 parse_each_own_program.** `jq.run` parses the text it is handed on every call: the program
applied for a binding is the parse of that binding's jqFilter, whatever filters (of whatever other
bindings) were applied before. -/
theorem parse_each_own_program {T P : Type} (parse : T → P) (earlier : List T) (t : T) :
    parseEach parse earlier t = parse t := rfl

/-- the table's invariant: every entry is the parse of a text with that key -/
def MemoOk {T P K : Type} (key : T → K) (parse : T → P) (tab : List (K × P)) : Prop :=
  ∀ e ∈ tab, ∃ t, e.1 = key t ∧ e.2 = parse t

/-- **C08 memo_parse_transparent.** A table of parsed programs is invisible — every binding gets the
parse of its own text, after any history of lookups — when the key is injective on the texts. -/
theorem memo_parse_transparent {T P K : Type} [DecidableEq K] (key : T → K) (parse : T → P)
    (hinj : Function.Injective key) (tab : List (K × P)) (hok : MemoOk key parse tab) (t : T) :
    (memoParse key parse tab t).2 = parse t ∧ MemoOk key parse (memoParse key parse tab t).1 := by
  unfold memoParse
  cases hf : tab.find? (fun e => e.1 = key t) with
  | none =>
    refine ⟨rfl, ?_⟩
    intro e he
    rcases List.mem_append.1 he with h | h
    · exact hok e h
    · simp only [List.mem_singleton] at h
      exact ⟨t, by rw [h], by rw [h]⟩
  | some e =>
    have hmem := List.mem_of_find?_eq_some hf
    have hk : e.1 = key t := by simpa using List.find?_some hf
    obtain ⟨t', h1, h2⟩ := hok e hmem
    have : t' = t := hinj (h1.symm.trans hk)
    exact ⟨by simp only []; rw [h2, this], hok⟩

theorem memo_run_ok {T P K : Type} [DecidableEq K] (key : T → K) (parse : T → P)
    (hinj : Function.Injective key) (tab : List (K × P)) (hok : MemoOk key parse tab) (ts : List T) :
    MemoOk key parse (memoRun key parse tab ts) := by
  induction ts generalizing tab with
  | nil => exact hok
  | cons t rest ih => exact ih _ (memo_parse_transparent key parse hinj tab hok t).2

/-- after any filters of any bindings went through the table (starting empty), a lookup gives the
binding's own program -/
theorem memo_parse_after_any_history {T P K : Type} [DecidableEq K] (key : T → K) (parse : T → P)
    (hinj : Function.Injective key) (ts : List T) (t : T) :
    (memoParse key parse (memoRun key parse [] ts) t).2 = parse t :=
  (memo_parse_transparent key parse hinj _
    (memo_run_ok key parse hinj [] (fun _ h => by cases h) ts) t).1

/-- Witness (NOT the code): with a key that squeezes runs of blanks, `.data["k k"]` and
`.data["k  k"]` — two programs reading two different keys — share one table entry: the binding
whose filter is applied second runs the FIRST binding's program; its projection is the other key's
value. -/
theorem squeezed_key_memo_witness :
    let f1 : Filter := .path ["data", "k k"]
    let f2 : Filter := .path ["data", "k  k"]
    let key : Filter → List (List Char) := fun f => match f with
      | .path ks => ks.map (fun k => squeeze k.toList)
      | _ => []
    let obj : J := .obj [("data", .obj [("k k", .num 1), ("k  k", .num 2)])]
    key f1 = key f2 ∧ f1.eval obj ≠ f2.eval obj ∧
    ((memoParse key id (memoParse key id [] f1).1 f2).2).eval obj = f1.eval obj := by
  decide

end Shared

end ShellOp.Trigger.C08
