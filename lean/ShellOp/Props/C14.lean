import ShellOp.Proofs.Admission
import ShellOp.Model.BindingContext
/-!
# C14 — admission webhooks fail closed and relay the hook's verdict faithfully

Property theorems over `Model/Admission` (code-shaped model of the admission handler, the links of
the hook controllers, `HandleAdmissionEvent` and the event closure of `initValidatingWebhookManager`).
Quantifiers: every list of hooks with any validating/mutating bindings (any names, colliding or
not), every request path and body, every outcome of every hook run (`run : hook → binding → exit
status × response file`).
-/
namespace ShellOp.Admission.C14
open ShellOp.Admission

/-- what `route` returns is a binding of one of the hooks, and the ids of the request are its ids -/
theorem route_some {hooks : List Hook} {conf wid : Str} {i : Nat} {b : Binding}
    (h : route hooks conf wid = some (i, b)) :
    (∃ hk ∈ hooks, hk.id = i ∧ b ∈ hk.bindings) ∧ conf = defaultConfigurationId ∧ wid = safeURL b.name := by
  rw [route_eq] at h
  rcases foldl_route_some _ _ i b h with h | ⟨hk, hm, hid, hc⟩
  · cases h
  · obtain ⟨h1, h2, h3⟩ := canHandle_some hc
    have hmem : hk ∈ hooks := by
      rcases List.mem_append.1 hm with hm | hm <;> exact (List.mem_filter.1 hm).1
    exact ⟨⟨hk, hmem, hid, h2⟩, h1, h3⟩

/-- who ran is who `route` chose (closure level) -/
theorem eventHandler_ran (hooks : List Hook) (run : Nat → Binding → Outcome) (conf wid : Str) :
    (eventHandler hooks run conf wid).2 = route hooks conf wid := by
  simp only [eventHandler]
  cases route hooks conf wid with
  | none => rfl
  | some ib =>
    obtain ⟨i, b⟩ := ib
    simp only
    split
    · rfl
    · split <;> rfl

/-- the task prop is the parsed response file of a run in which nothing failed -/
theorem taskProp_some {o : Outcome} {r : HookResp} (h : taskProp o = some r) :
    o.exitZero = true ∧ o.othersOk = true ∧ o.file = .valid r := by
  unfold taskProp at h
  split at h
  · cases h
  · rename_i hf
    split at h
    · rename_i r' hv
      simp only [Option.some.injEq] at h
      subst h
      simp only [taskFails, Bool.or_eq_true, Bool.not_eq_true', beq_iff_eq, not_or,
        Bool.not_eq_false] at hf
      exact ⟨hf.1.1, hf.2, hv⟩
    · cases h

theorem taskProp_of_ok {o : Outcome} {r : HookResp} (he : o.exitZero = true) (ho : o.othersOk = true)
    (hf : o.file = .valid r) : taskFails o = false ∧ taskProp o = some r := by
  have h1 : taskFails o = false := by simp [taskFails, he, ho, hf]
  exact ⟨h1, by simp [taskProp, h1, hf]⟩

/-- the closure hands on a hook response only if the path routes to a hook and binding whose run
exited zero, left every other output file applicable and wrote that valid response -/
theorem eventHandler_resp {hooks : List Hook} {run : Nat → Binding → Outcome} {conf wid : Str}
    {r : HookResp} (h : (eventHandler hooks run conf wid).1 = .resp r) :
    ∃ i b, route hooks conf wid = some (i, b) ∧ (run i b).exitZero = true ∧
      (run i b).othersOk = true ∧ (run i b).file = .valid r := by
  simp only [eventHandler] at h
  cases hroute : route hooks conf wid with
  | none => simp [hroute] at h
  | some ib =>
    obtain ⟨i, b⟩ := ib
    simp only [hroute] at h
    split at h
    · cases h
    · cases hp : taskProp (run i b) with
      | none => simp [hp] at h
      | some r' =>
        simp only [hp, EventRet.resp.injEq] at h
        subst h
        exact ⟨i, b, rfl, taskProp_some hp⟩

theorem eventHandler_of_ok {hooks : List Hook} {run : Nat → Binding → Outcome} {conf wid : Str}
    {i : Nat} {b : Binding} {rr : HookResp} (hr : route hooks conf wid = some (i, b))
    (he : (run i b).exitZero = true) (ho : (run i b).othersOk = true) (hf : (run i b).file = .valid rr) :
    (eventHandler hooks run conf wid).1 = .resp rr := by
  obtain ⟨h1, h2⟩ := taskProp_of_ok he ho hf
  simp [eventHandler, hr, h1, h2]

/-- only a hook response with `allowed: true` builds an allowing review -/
theorem buildReview_allowed {uid : String} {ev : EventRet} (h : (buildReview uid ev).allowed = true) :
    ∃ rr, ev = .resp rr ∧ rr.allowed = true := by
  cases ev with
  | err r => cases h
  | hookFailed => cases h
  | resp rr => exact ⟨rr, rfl, h⟩

/-- **C14.1 (`fail_closed`).** The answer is `allowed: true` only if the path routes to a hook and
binding, that hook ran (it is the one reported as run), exited zero, every other output of the run
(metric operations, object patch operations) was applied without an error — i.e. the hook task did
not fail — and its response file is one valid response with `allowed: true`. In every other case —
unknown path, hook failure, empty or malformed file, internal error — the request is denied; an
undecodable body gets HTTP 400. -/
theorem fail_closed (hooks : List Hook) (run : Nat → Binding → Outcome) (path : Str) (uid : String)
    (r : Review) (ran : Option (Nat × Binding))
    (h : respond hooks run path (.ok uid) = (.review r, ran)) (ha : r.allowed = true) :
    ∃ i b rr, ran = some (i, b) ∧ route hooks (detect path).1 (detect path).2 = some (i, b) ∧
      (run i b).exitZero = true ∧ (run i b).othersOk = true ∧ (run i b).file = .valid rr ∧
      rr.allowed = true := by
  simp only [respond, Prod.mk.injEq, Answer.review.injEq] at h
  obtain ⟨hr, hran⟩ := h
  rw [← hr] at ha
  obtain ⟨rr, hev, hall⟩ := buildReview_allowed ha
  obtain ⟨i, b, hroute, he, ho, hf⟩ := eventHandler_resp hev
  refine ⟨i, b, rr, ?_, hroute, he, ho, hf, hall⟩
  rw [← hran, eventHandler_ran, hroute]

theorem undecodable_is_400 (hooks : List Hook) (run : Nat → Binding → Outcome) (path : Str) :
    respond hooks run path .garbage = (.http400, none) ∧
    respond hooks run path .noRequest = (.http400, none) := ⟨rfl, rfl⟩

/-- a failed hook task is a denial, whatever the response file says: non-zero exit, an unreadable
response file, or an error while applying the hook's metric / object patch operations -/
theorem failed_task_denied (hooks : List Hook) (run : Nat → Binding → Outcome) (path : Str) (uid : String)
    (r : Review) (i : Nat) (b : Binding)
    (h : respond hooks run path (.ok uid) = (.review r, some (i, b)))
    (hfail : taskFails (run i b) = true) : r.allowed = false ∧ r.reason = some .hookFailed := by
  simp only [respond, Prod.mk.injEq, Answer.review.injEq] at h
  obtain ⟨hr, hran⟩ := h
  rw [eventHandler_ran] at hran
  subst hr
  simp [eventHandler, hran, hfail, buildReview]

/-- **C14.2 (`relays`).** The answer echoes the request uid; when the hook that ran exited zero with
a valid response (and nothing else of the run failed), its verdict, warnings and patch are copied,
`patchType` is `JSONPatch` exactly when there is a patch, and a denial carries the hook's message. -/
theorem relays (hooks : List Hook) (run : Nat → Binding → Outcome) (path : Str) (uid : String)
    (r : Review) (ran : Option (Nat × Binding))
    (h : respond hooks run path (.ok uid) = (.review r, ran)) :
    r.uid = uid ∧
    ∀ i b rr, ran = some (i, b) → (run i b).exitZero = true → (run i b).othersOk = true →
      (run i b).file = .valid rr →
      r.allowed = rr.allowed ∧ r.warnings = rr.warnings ∧ r.patch = rr.patch ∧
      (r.jsonPatchType = true ↔ rr.patch ≠ "") ∧
      (rr.allowed = false → r.reason = some (.hook rr.message)) := by
  simp only [respond, Prod.mk.injEq, Answer.review.injEq] at h
  obtain ⟨hr, hran⟩ := h
  constructor
  · rw [← hr]; cases (eventHandler hooks run (detect path).1 (detect path).2).1 <;> rfl
  · intro i b rr hi he ho hf
    rw [eventHandler_ran, hi] at hran
    rw [eventHandler_of_ok hran he ho hf] at hr
    subst hr
    refine ⟨rfl, rfl, rfl, by simp [buildReview], ?_⟩
    intro hd; simp [buildReview, hd]

theorem defaultConf_ok : slashFree defaultConfigurationId ∧ defaultConfigurationId ≠ [] := by
  constructor
  · unfold slashFree; decide
  · decide

/-- **C14.3 (`routing`, the path).** The path registered for a binding (`/hooks/<SafeURL name>`)
is split back into exactly its configuration id and webhook id, when the webhook id has no empty
path segment. -/
theorem registered_path_detected (name : Str) (hw : noEmptySeg (safeURL name) = true) :
    detect (registeredPath name) = (defaultConfigurationId, safeURL name) :=
  detect_registered _ _ defaultConf_ok.1 defaultConf_ok.2 hw

/-- no two bindings share a webhook id (Prop form of `uniqueIds`, first half) -/
def UniqueIds (hooks : List Hook) : Prop :=
  ∀ hk ∈ hooks, ∀ b ∈ hk.bindings, ∀ hk' ∈ hooks, ∀ b' ∈ hk'.bindings,
    safeURL b.name = safeURL b'.name → hk.id = hk'.id ∧ b = b'

theorem uniqueIds_prop {hooks : List Hook} (h : uniqueIds hooks = true) : UniqueIds hooks := by
  intro hk hhk b hb hk' hhk' b' hb' hs
  simp only [uniqueIds, Bool.and_eq_true, List.all_eq_true, List.mem_flatMap, List.mem_map,
    Bool.or_eq_true, bne_iff_ne, ne_eq, beq_iff_eq] at h
  have := h.1 (hk.id, b) ⟨hk, hhk, b, hb, rfl⟩ (hk'.id, b') ⟨hk', hhk', b', hb', rfl⟩
  rcases this with h1 | h1
  · exact absurd hs h1
  · simp only [Prod.mk.injEq] at h1; exact h1

/-- **C14.3 (`routing`).** With unique webhook ids, a request to the path a binding registered is
handed to exactly that hook and binding. (Colliding ids — `my.hook.io` / `my-hook.io` / `myHook.io`
— are the excluded point: the last hook in validating-then-mutating order gets the request, see
`collision_witness`.) -/
theorem routing (hooks : List Hook) (hu : UniqueIds hooks) (hk : Hook) (hhk : hk ∈ hooks)
    (b : Binding) (hb : b ∈ hk.bindings) (hw : noEmptySeg (safeURL b.name) = true) :
    route hooks (detect (registeredPath b.name)).1 (detect (registeredPath b.name)).2 = some (hk.id, b) := by
  rw [registered_path_detected b.name hw, route_eq]
  apply foldl_route_unique
  · intro hk' hm
    have hmem : hk' ∈ hooks := by
      rcases List.mem_append.1 hm with hm | hm <;> exact (List.mem_filter.1 hm).1
    cases hc : canHandle hk' defaultConfigurationId (safeURL b.name) with
    | none => exact Or.inl rfl
    | some b' =>
      obtain ⟨_, h2, h3⟩ := canHandle_some hc
      obtain ⟨hid, hbb⟩ := hu hk hhk b hb hk' hmem b' h2 h3
      right; exact ⟨by rw [hbb], hid.symm⟩
  · exact Or.inl rfl
  · right
    obtain ⟨b', hc⟩ := canHandle_of_binding (h := hk) hb
    obtain ⟨_, h2, h3⟩ := canHandle_some hc
    obtain ⟨_, hbb⟩ := hu hk hhk b hb hk hhk b' h2 h3
    refine ⟨hk, ?_, by rw [hc, hbb]⟩
    cases hkind : b.kind with
    | validating =>
      exact List.mem_append.2 (Or.inl (List.mem_filter.2 ⟨hhk, List.any_eq_true.2 ⟨b, hb, by simp [hkind]⟩⟩))
    | mutating =>
      exact List.mem_append.2 (Or.inr (List.mem_filter.2 ⟨hhk, List.any_eq_true.2 ⟨b, hb, by simp [hkind]⟩⟩))

/-- who ran is who `route` chose -/
theorem ran_eq_route (hooks : List Hook) (run : Nat → Binding → Outcome) (path : Str) (uid : String) :
    (respond hooks run path (.ok uid)).2 = route hooks (detect path).1 (detect path).2 := by
  simp only [respond, eventHandler_ran]

/-- **C14 as one statement.** The property predicate that the check evaluates on every observed
exchange (`checkObs`: uid echoed; who ran registered the path; with unique ids the registrant of the
path is who ran; allowed only after a successful run with a valid allowing response; verdict,
warnings, patch, patch type and message relayed; undecodable bodies are never allowed) holds of the
model for every configuration, path, body and hook outcome. -/
theorem respond_ok (hooks : List Hook) (run : Nat → Binding → Outcome) (path : Str) (req : Request) :
    checkObs hooks run path req (respond hooks run path req).1 (respond hooks run path req).2 = none := by
  cases req with
  | garbage => simp [respond, checkObs]
  | noRequest => simp [respond, checkObs]
  | ok uid =>
    have hran := ran_eq_route hooks run path uid
    generalize hres : respond hooks run path (.ok uid) = res at *
    obtain ⟨ans, ran⟩ := res
    simp only at hran
    have hans : ∃ r, ans = .review r := by
      simp only [respond, Prod.mk.injEq] at hres
      exact ⟨_, hres.1.symm⟩
    obtain ⟨r, rfl⟩ := hans
    obtain ⟨huid, hrel⟩ := relays hooks run path uid r ran hres
    simp only [checkObs, huid, ne_eq, not_true_eq_false, if_false]
    -- with unique ids the registrant of the path is who ran
    have huniq : (uniqueIds hooks && hooks.any (fun hk => hk.bindings.any (fun b =>
        registeredPath b.name == path && noEmptySeg (safeURL b.name) && ran != some (hk.id, b)))) = false := by
      cases hu : uniqueIds hooks with
      | false => rfl
      | true =>
        simp only [Bool.true_and]
        rw [Bool.eq_false_iff]
        intro hany
        simp only [List.any_eq_true, Bool.and_eq_true, beq_iff_eq, bne_iff_ne, ne_eq] at hany
        obtain ⟨hk, hm, b, hb, ⟨hp, hw⟩, hne⟩ := hany
        have := routing hooks (uniqueIds_prop hu) hk hm b hb hw
        rw [hp, ← hran] at this
        exact hne this
    rcases ran with _ | ⟨i, b⟩
    · simp only [Bool.false_eq_true, if_false, huniq]
      by_cases ha : r.allowed = true
      · obtain ⟨i, b, rr, hi, _⟩ := fail_closed hooks run path uid r none hres ha
        cases hi
      · simp [ha]
    · -- who ran registered the path
      have hreg : registeredFor hooks path i b = true := by
        obtain ⟨⟨hk, hm, hid, hb⟩, hc, hw⟩ := route_some hran.symm
        simp only [registeredFor, Bool.and_eq_true, List.any_eq_true, beq_iff_eq,
          List.contains_iff_mem]
        refine ⟨⟨hk, hm, hid, hb⟩, ?_⟩
        rw [← hc, ← hw]
      simp only [hreg, Bool.not_true, Bool.false_eq_true, if_false, huniq]
      have hfc : r.allowed = true → ∃ rr, (run i b).exitZero = true ∧ (run i b).othersOk = true ∧
          (run i b).file = .valid rr := by
        intro ha
        obtain ⟨i', b', rr, hi, _, he', ho', hf', _⟩ := fail_closed hooks run path uid r _ hres ha
        simp only [Option.some.injEq, Prod.mk.injEq] at hi
        obtain ⟨rfl, rfl⟩ := hi
        exact ⟨rr, he', ho', hf'⟩
      cases hq : ((run i b).exitZero && (run i b).othersOk) with
      | false =>
        by_cases ha : r.allowed = true
        · obtain ⟨_, he', ho', _⟩ := hfc ha
          rw [he', ho'] at hq; cases hq
        · simp [ha]
      | true =>
        have hq' := hq
        simp only [Bool.and_eq_true] at hq'
        cases hf : (run i b).file with
        | valid rr =>
          obtain ⟨h1, h2, h3, h4, h5⟩ := hrel i b rr rfl hq'.1 hq'.2 hf
          simp only [h1, h2, h3, not_true_eq_false, if_false]
          have h4' : r.jsonPatchType = !decide (rr.patch = "") := by
            cases hj : r.jsonPatchType <;> by_cases hp : rr.patch = "" <;> simp_all
          cases hall : rr.allowed with
          | true => simp [h4']
          | false => simp [h4', h5 hall]
        | empty =>
          by_cases ha : r.allowed = true
          · obtain ⟨_, _, _, hf'⟩ := hfc ha
            rw [hf] at hf'; cases hf'
          · simp [ha]
        | malformed =>
          by_cases ha : r.allowed = true
          · obtain ⟨_, _, _, hf'⟩ := hfc ha
            rw [hf] at hf'; cases hf'
          · simp [ha]

/-! ## overlapping requests: every run reads its own response file -/

theorem fileExec_own_aux (name : Nat → Nat) (hinj : ∀ a b, name a = name b → a = b) (r : Nat) :
    ∀ (t : List FileEv) (s1 s2 : FileSt),
      s1.files (name r) = s2.files (name r) → s1.seen r = s2.seen r →
      (t.foldl (fileStep name) s1).files (name r)
          = ((t.filter (fun e => e.run == r)).foldl (fileStep name) s2).files (name r) ∧
        (t.foldl (fileStep name) s1).seen r
          = ((t.filter (fun e => e.run == r)).foldl (fileStep name) s2).seen r
  | [], _, _, hf, hs => ⟨hf, hs⟩
  | e :: t, s1, s2, hf, hs => by
    by_cases he : e.run = r
    · have hk : (e.run == r) = true := by simp [he]
      simp only [List.filter_cons, hk, if_true, List.foldl_cons]
      apply fileExec_own_aux name hinj r t
      · cases e <;> simp only [FileEv.run] at he <;> subst he <;> simp [fileStep, hf]
      · cases e <;> simp only [FileEv.run] at he <;> subst he <;> simp [fileStep, hf, hs]
    · have hk : (e.run == r) = false := by simp [he]
      simp only [List.filter_cons, hk, Bool.false_eq_true, if_false, List.foldl_cons]
      apply fileExec_own_aux name hinj r t
      · have hne : name r ≠ name e.run := fun h => he (hinj _ _ h).symm
        cases e <;> simp only [FileEv.run] at hne <;> simp [fileStep, hne, hf]
      · cases e <;> simp only [FileEv.run] at he <;> simp [fileStep, hs, Ne.symm he]

/-- **C14.4 (`own_response_file`).** When no two runs share a response file name, what a run's
`ResponseFromFile` finds depends on that run's own steps only — for every interleaving of any
number of overlapping runs (of the same hook or of different hooks). -/
theorem own_response_file (name : Nat → Nat) (hinj : ∀ a b, name a = name b → a = b)
    (t : List FileEv) (r : Nat) :
    (fileExec name t).seen r = (fileExec name (t.filter (fun e => e.run == r))).seen r :=
  (fileExec_own_aux name hinj r t .init .init rfl rfl).2

/-- … so a run that was prepared, wrote `c` and finished reads `c`, whatever the other runs did in
between; a run whose hook wrote nothing reads the empty file -/
theorem own_response_file_written (name : Nat → Nat) (hinj : ∀ a b, name a = name b → a = b)
    (t : List FileEv) (r : Nat) (c : FileContent) :
    (t.filter (fun e => e.run == r) = [.prepare r, .write r c, .finish r] →
      (fileExec name t).seen r = [some c]) ∧
    (t.filter (fun e => e.run == r) = [.prepare r, .finish r] →
      (fileExec name t).seen r = [some .empty]) := by
  constructor <;> intro h <;> rw [own_response_file name hinj t r, h] <;>
    simp [fileExec, fileStep, FileSt.init]

/-- the name `prepareAdmissionResponseFile` builds has a per-run part (regenerated from the source:
a changed format breaks this proof), hence distinct runs get distinct files -/
theorem response_file_per_run :
    ShellOp.Facts.c14ResponseFileFmt = "hook-%s-admission-response-%s.json" ∧
    ShellOp.Facts.c14ResponseFileArgs = ["h.SafeName()", "uuid.Must(uuid.NewV4()).String()"] ∧
    perRunResponseFile = true ∧
    ∀ (hookOf : Nat → Nat) (a b : Nat),
      responseFileName perRunResponseFile hookOf a = responseFileName perRunResponseFile hookOf b → a = b := by
  refine ⟨by decide, by decide, by decide, ?_⟩
  intro hookOf a b h
  have hp : perRunResponseFile = true := by decide
  simp only [responseFileName, hp, if_true] at h
  omega

/-- **C14.4 for the code as it is**: with the file names of `prepareAdmissionResponseFile`, a run
that wrote `c` is judged on `c` in every interleaving with other runs -/
theorem overlapping_runs_keep_their_verdict (hookOf : Nat → Nat) (t : List FileEv) (r : Nat) (c : FileContent)
    (h : t.filter (fun e => e.run == r) = [.prepare r, .write r c, .finish r]) :
    ((fileExec (responseFileName perRunResponseFile hookOf) t).seen r).map seenFile = [c] := by
  rw [(own_response_file_written _ (response_file_per_run.2.2.2 hookOf) t r c).1 h]
  rfl

/-! ## overlapping requests: every hook process is handed its own request -/

theorem ctxExec_own_aux (slot file : Nat → Nat) (hs : ∀ a b, slot a = slot b → a = b)
    (hf : ∀ a b, file a = file b → a = b) (r : Nat) :
    ∀ (t : List CtxEv) (s1 s2 : CtxSt),
      s1.slots (slot r) = s2.slots (slot r) → s1.files (file r) = s2.files (file r) → s1.given r = s2.given r →
      (t.foldl (ctxStep slot file) s1).slots (slot r)
          = ((t.filter (fun e => e.run == r)).foldl (ctxStep slot file) s2).slots (slot r) ∧
        (t.foldl (ctxStep slot file) s1).files (file r)
          = ((t.filter (fun e => e.run == r)).foldl (ctxStep slot file) s2).files (file r) ∧
        (t.foldl (ctxStep slot file) s1).given r
          = ((t.filter (fun e => e.run == r)).foldl (ctxStep slot file) s2).given r
  | [], _, _, h1, h2, h3 => ⟨h1, h2, h3⟩
  | e :: t, s1, s2, h1, h2, h3 => by
    by_cases he : e.run = r
    · have hk : (e.run == r) = true := by simp [he]
      simp only [List.filter_cons, hk, if_true, List.foldl_cons]
      apply ctxExec_own_aux slot file hs hf r t
      · cases e <;> simp only [CtxEv.run] at he <;> subst he <;> simp [ctxStep, h1]
      · cases e <;> simp only [CtxEv.run] at he <;> subst he <;> simp [ctxStep, h1, h2]
      · cases e <;> simp only [CtxEv.run] at he <;> subst he <;> simp [ctxStep, h2, h3]
    · have hk : (e.run == r) = false := by simp [he]
      simp only [List.filter_cons, hk, Bool.false_eq_true, if_false, List.foldl_cons]
      apply ctxExec_own_aux slot file hs hf r t
      · have hne : slot r ≠ slot e.run := fun h => he (hs _ _ h).symm
        cases e <;> simp only [CtxEv.run] at hne <;> simp [ctxStep, hne, h1]
      · have hne : file r ≠ file e.run := fun h => he (hf _ _ h).symm
        cases e <;> simp only [CtxEv.run] at hne <;> simp [ctxStep, hne, h2]
      · cases e <;> simp only [CtxEv.run] at he <;> simp [ctxStep, h3, Ne.symm he]

/-- **C14.5 (`own_binding_context`).** When no two requests share the backing array of their
`BindingContext` slice and no two runs share a binding context file name, what a request's hook
process finds in its binding context depends on that request's own steps only — for every
interleaving of any number of requests in flight (to the same binding, to other bindings of the same
hook, to other hooks). -/
theorem own_binding_context (slot file : Nat → Nat) (hs : ∀ a b, slot a = slot b → a = b)
    (hf : ∀ a b, file a = file b → a = b) (t : List CtxEv) (r : Nat) :
    (ctxExec slot file t).given r = (ctxExec slot file (t.filter (fun e => e.run == r))).given r :=
  (ctxExec_own_aux slot file hs hf r t .init .init rfl rfl rfl).2.2

/-- the slice `HandleEvent` returns is built in the call and the name of a run's binding context
file has a per-run part (both regenerated from the source: a changed `return` or format breaks this
proof), hence distinct requests get distinct backing arrays and distinct files -/
theorem binding_context_per_request :
    ShellOp.Facts.c14HandleEventCtxExprs
      = ["[]bctx.BindingContext{}", "[]bctx.BindingContext{}", "[]bctx.BindingContext{bc}"] ∧
    ShellOp.Facts.c14HandleEventBcType = "bctx.BindingContext" ∧
    ShellOp.Facts.c14ContextFileFmt = "hook-%s-binding-context-%s.json" ∧
    ShellOp.Facts.c14ContextFileArgs = ["h.SafeName()", "uuid.Must(uuid.NewV4()).String()"] ∧
    perRequestContext = true ∧ perRunContextFile = true ∧
    (∀ (linkOf : Nat → Nat) (a b : Nat),
      contextSlot perRequestContext linkOf a = contextSlot perRequestContext linkOf b → a = b) ∧
    (∀ (hookOf : Nat → Nat) (a b : Nat),
      responseFileName perRunContextFile hookOf a = responseFileName perRunContextFile hookOf b → a = b) := by
  refine ⟨by decide, by decide, by decide, by decide, by decide, by decide, ?_, ?_⟩
  · intro linkOf a b h
    have hp : perRequestContext = true := by decide
    simp only [contextSlot, hp, if_true] at h
    omega
  · intro hookOf a b h
    have hp : perRunContextFile = true := by decide
    simp only [responseFileName, hp, if_true] at h
    omega

/-- **C14.5 for the code as it is (`handed_own_request`)**: a request with uid `uid` to `path` that
`route` gives to hook `h`, binding `b` (that is what `HandleEvent` puts into the context), whose
context file is prepared and whose hook process is started later, finds exactly that in its binding
context — in every interleaving with the hand-over, prepare and start steps of other requests —
and this satisfies the hand-over clause the check evaluates on every observed hook process
(`checkHanded`): own uid, a hook and binding that registered the path. -/
theorem handed_own_request (hooks : List Hook) (path : Str) (uid : String) (h : Nat) (b : Binding)
    (hr : route hooks (detect path).1 (detect path).2 = some (h, b))
    (linkOf hookOf : Nat → Nat) (t : List CtxEv) (r : Nat)
    (ht : t.filter (fun e => e.run == r) = [.hand r ⟨h, b, uid⟩, .prepare r, .start r]) :
    (ctxExec (contextSlot perRequestContext linkOf) (responseFileName perRunContextFile hookOf) t).given r
        = [some ⟨h, b, uid⟩] ∧
      checkHanded hooks path uid ⟨h, b, uid⟩ = none := by
  constructor
  · rw [own_binding_context _ _ (binding_context_per_request.2.2.2.2.2.2.1 linkOf)
      (binding_context_per_request.2.2.2.2.2.2.2 hookOf) t r, ht]
    simp [ctxExec, ctxStep, CtxSt.init]
  · obtain ⟨⟨hk, hmem, hid, hb⟩, hc, hw⟩ := route_some hr
    have hreg : registeredFor hooks path h b = true := by
      simp only [registeredFor, Bool.and_eq_true, List.any_eq_true, beq_iff_eq]
      refine ⟨⟨hk, hmem, hid, ?_⟩, ?_⟩
      · simpa using hb
      · rw [← hc, ← hw]
    simp [checkHanded, hreg]

/-! ## `SafeURLString` yields URL-safe ids -/

theorem mem_squeezeDashes : ∀ (l : Str) (c : Char), c ∈ squeezeDashes l → c ∈ l
  | [], _, h => by simp [squeezeDashes] at h
  | x :: xs, c, h => by
    simp only [squeezeDashes] at h
    split at h
    · rename_i hx
      split at h
      · rename_i rest hs
        rcases List.mem_cons.1 h with h | h
        · simp [h, hx]
        · have : c ∈ squeezeDashes xs := by rw [hs]; simp [h]
          exact List.mem_cons_of_mem _ (mem_squeezeDashes xs c this)
      · rcases List.mem_cons.1 h with h | h
        · simp [h, hx]
        · exact List.mem_cons_of_mem _ (mem_squeezeDashes xs c h)
    · rcases List.mem_cons.1 h with h | h
      · simp [h]
      · exact List.mem_cons_of_mem _ (mem_squeezeDashes xs c h)

/-- every character of a webhook id is one of `a-z 0-9 - /`: the registered path needs no escaping
and contains no upper-case letter, blank or dot -/
theorem safeURL_chars (s : Str) : ∀ c ∈ safeURL s, isSafeChar c = true := by
  intro c hc
  have := mem_squeezeDashes _ c hc
  obtain ⟨d, _, hd⟩ := List.mem_map.1 this
  by_cases hs : isSafeChar d = true
  · simp only [hs, if_true] at hd; rw [← hd]; exact hs
  · simp only [hs, Bool.false_eq_true, if_false] at hd; rw [← hd]; decide

/-! ## facts regenerated from the sources (tie T1) -/

/-- `SafeURLString` is the three documented replacements, in this order: `([A-Z])` → `-$1`, lower
case, everything but `a-z 0-9 - /` → `-`, runs of `-` → one `-` (the character functions of the model: `dashUpper`,
`lowerAscii`, `isSafeChar`, `squeezeDashes`); and the configuration id of every hook is `hooks`. A
changed expression or id breaks this proof. -/
theorem facts_as_documented :
    ShellOp.Facts.c14SafeURLExprs = ["([A-Z])", "[^a-z0-9-/]", "[-]+"] ∧
    ShellOp.Facts.c14SafeURLRepls = ["-$1", "-", "-"] ∧
    ShellOp.Facts.c14DefaultConfigurationId = "hooks" ∧
    ShellOp.Facts.c14FactsStale = false := by decide

/-- the table of `Test_SafeURLString`, on the model -/
theorem safeURL_table :
    safeURL "importantHook".toList = "important-hook".toList ∧
    safeURL "hooks/nextHook".toList = "hooks/next-hook".toList ∧
    safeURL "weird spaced Name".toList = "weird-spaced-name".toList ∧
    safeURL "weird---dashed---Name".toList = "weird-dashed-name".toList ∧
    safeURL "utf8 странное имя для binding".toList = "utf8-binding".toList := by decide

/-! ## how the hook process ends -/

/-- **C14.6 (`executor_fails_iff`).** `RunAndLogLines` reports a failed run for every way a process
can end except "exited with status 0": every exit status 1, 2, …, 126, 127, 128+n, 255 and every
terminating signal (where `ExitCode()` is -1). -/
theorem executor_fails_iff (e : Ending) : executorFails e = !e.exitedZero := by
  cases e with
  | exited s => cases s <;> simp [executorFails, cmdRunErr, goSuccess, Ending.exitedZero]
  | signaled n => simp [executorFails, cmdRunErr, goSuccess, Ending.exitedZero]

theorem exitedZero_iff (e : Ending) : e.exitedZero = true ↔ e = .exited 0 := by
  cases e with
  | exited s => cases s <;> simp [Ending.exitedZero]
  | signaled n => simp [Ending.exitedZero]

/-- what the code makes of a run is what the property reads from it -/
theorem seen_eq_spec (d : RunDecl) : d.seen = d.spec := by
  simp [RunDecl.seen, RunDecl.spec, executor_fails_iff]

/-- `RunAndLogLines` and `Hook.Run` test the error of the run with `err != nil` (regenerated from the
sources: a weaker test — on the exit code, say — breaks this) -/
theorem run_error_is_checked :
    ShellOp.Facts.c14ExecRunFailCond = "err != nil" ∧ ShellOp.Facts.c14HookRunFailCond = "err != nil" ∧
    runErrorChecked = true ∧ ShellOp.Facts.c14FactsStale = false := by decide

/-- **C14.1 in terms of how the process ended (`fail_closed_ending`).** For every configuration,
path, and every scripted run (ending x response file x other outputs): the answer is
`allowed: true` only if the hook the path routes to ran, its process EXITED with status 0 — no other
exit status, no signal —, its other outputs were applied and its response file is one valid response
with `allowed: true`. -/
theorem fail_closed_ending (hooks : List Hook) (run : Nat → Binding → RunDecl) (path : Str) (uid : String)
    (r : Review) (ran : Option (Nat × Binding))
    (h : respond hooks (fun i b => (run i b).seen) path (.ok uid) = (.review r, ran)) (ha : r.allowed = true) :
    ∃ i b rr, ran = some (i, b) ∧ route hooks (detect path).1 (detect path).2 = some (i, b) ∧
      (run i b).ending = .exited 0 ∧ (run i b).othersOk = true ∧ (run i b).file = .valid rr ∧
      rr.allowed = true := by
  obtain ⟨i, b, rr, hran, hroute, he, ho, hf, hall⟩ := fail_closed hooks _ path uid r ran h ha
  refine ⟨i, b, rr, hran, hroute, ?_, ho, hf, hall⟩
  have he' : (run i b).spec.exitZero = true := by rw [← seen_eq_spec]; exact he
  exact (exitedZero_iff _).1 he'

/-- a hook process that did not exit zero — any other status, any signal — is a denial with
"Hook failed", whatever it wrote to its response file before -/
theorem not_exited_zero_denied (hooks : List Hook) (run : Nat → Binding → RunDecl) (path : Str) (uid : String)
    (r : Review) (i : Nat) (b : Binding)
    (h : respond hooks (fun i b => (run i b).seen) path (.ok uid) = (.review r, some (i, b)))
    (he : (run i b).ending ≠ .exited 0) : r.allowed = false ∧ r.reason = some .hookFailed := by
  refine failed_task_denied hooks _ path uid r i b h ?_
  have : (run i b).ending.exitedZero = false := by
    cases hz : (run i b).ending.exitedZero
    · rfl
    · exact absurd ((exitedZero_iff _).1 hz) he
  simp [taskFails, RunDecl.seen, executor_fails_iff, this]

/-- **C14 as one statement, with the endings.** The property predicate, reading every run as the
property does (`RunDecl.spec`: exited with status 0 or not), holds of the model, which sees the run
through the executor (`RunDecl.seen`), for every configuration, path, body and scripted run. -/
theorem respond_ok_ending (hooks : List Hook) (run : Nat → Binding → RunDecl) (path : Str) (req : Request) :
    checkObs hooks (fun i b => (run i b).spec) path req
      (respond hooks (fun i b => (run i b).seen) path req).1
      (respond hooks (fun i b => (run i b).seen) path req).2 = none := by
  have : (fun i b => (run i b).seen) = (fun i b => (run i b).spec) := by
    funext i b; exact seen_eq_spec _
  rw [this]
  exact respond_ok hooks _ path req

/-! ## the optional fields of a binding's configuration: `AllowFailure`, `group` (sixth wave)

`failurePolicy`, `group`, `sideEffects`, `timeoutSeconds` and the selectors of a binding are
configuration the property quantifies over and does not name: none of them may turn an internal
error into `allowed=true`, none of them may keep the AdmissionReview from the hook. -/

theorem eventHandlerAF_false (hooks : List Hook) (run : Nat → Binding → Outcome) (conf wid : Str) :
    eventHandlerAF (fun _ _ => false) hooks run conf wid = eventHandler hooks run conf wid := by
  simp [eventHandlerAF, eventHandler, taskStatusFail]

/-- **"any internal error yields a denial", whatever `AllowFailure` is for the binding**: a task
whose hook did not exit zero, whose response file is malformed or whose other output files cannot be
applied never leads to `allowed=true` — with `Fail` it is "Hook failed" (403), with an allowed
failure (`Success`) there is no `admissionResponse` prop, because the prop is stored as the last
step of `handleRunHook`: "hook task prop error" (500). -/
theorem internal_error_denied_any_allow_failure (af : Nat → Binding → Bool) (hooks : List Hook)
    (run : Nat → Binding → Outcome) (conf wid : Str) (uid : String) (i : Nat) (b : Binding)
    (hr : route hooks conf wid = some (i, b)) (hfail : taskFails (run i b) = true) :
    (buildReview uid (eventHandlerAF af hooks run conf wid).1).allowed = false ∧
      (buildReview uid (eventHandlerAF af hooks run conf wid).1).reason
        = some (if af i b then .propError else .hookFailed) := by
  cases haf : af i b <;> simp [eventHandlerAF, hr, taskStatusFail, hfail, taskProp, haf, buildReview]

/-- **fail-closed for every `AllowFailure`**: `allowed=true` only if the routed hook's task did not
fail in any way and its response file holds a valid allowing response. -/
theorem fail_closed_any_allow_failure (af : Nat → Binding → Bool) (hooks : List Hook)
    (run : Nat → Binding → Outcome) (conf wid : Str) (uid : String)
    (h : (buildReview uid (eventHandlerAF af hooks run conf wid).1).allowed = true) :
    ∃ i b r, route hooks conf wid = some (i, b) ∧ taskFails (run i b) = false ∧
      (run i b).file = .valid r ∧ r.allowed = true := by
  unfold eventHandlerAF at h
  cases hr : route hooks conf wid with
  | none => simp [hr, buildReview] at h
  | some p =>
    obtain ⟨i, b⟩ := p
    simp only [hr] at h
    cases hf : taskFails (run i b) with
    | true =>
      cases haf : af i b <;> simp [taskStatusFail, hf, haf, taskProp, buildReview] at h
    | false =>
      cases hfile : (run i b).file with
      | empty => simp [taskStatusFail, hf, taskProp, hfile, buildReview] at h
      | malformed => simp [taskStatusFail, hf, taskProp, hfile, buildReview] at h
      | valid r =>
        simp [taskStatusFail, hf, taskProp, hfile, buildReview] at h
        exact ⟨i, b, r, rfl, hf, hfile, h⟩

/-- T1: the two facts `internal_error_denied_any_allow_failure` rests on, each sufficient alone —
`HandleEvent` never sets `AllowFailure` (so `eventHandlerAF` is `eventHandler`, the model of the `req`
lines), and nothing that can fail follows the `SetProp("admissionResponse", …)` in `handleRunHook`
(so `taskProp` is the prop). Regenerated from the sources on every run. -/
theorem admission_failure_not_allowed_and_prop_last :
    ShellOp.Facts.c14HandleEventAllowFailure = ["false", "false", "<absent>"] ∧
      ShellOp.Facts.c14RunHookFailsAfterProp = [] ∧
      allowFailureNeverSet = true ∧ propStoredLast = true := by decide

section Context
open ShellOp.BindingContext ShellOp.Json

/-- `link.BindingType` of an admission link -/
def admissionBType : Kind → BType
  | .validating => .validating
  | .mutating => .mutating

/-- the `type` field of the context as the hook process reads it (`jq -r .type`) -/
def ctxType (c : Ctx) : String :=
  match (mapV1 c).lookup "type" with
  | some (.str s) => s
  | _ => "null"

/-- **the request is handed to the hook**: the context `MapV1` renders for an admission binding —
whatever its group, its snapshots and the other metadata are — has `type` `Validating` / `Mutating`
after the binding's kind and carries the review. -/
theorem admission_context_has_review (k : Kind) (c : Ctx) (hc : c.btype = admissionBType k) :
    (mapV1 c).lookup "type" = some (.str (kindTypeName k)) ∧
      (mapV1 c).lookup "review" = some (.str c.review) := by
  cases k <;> simp only [admissionBType] at hc <;>
    by_cases hs : (c.includeSnapshots.length > 0 || c.includeAll) = true <;>
    simp [mapV1, typePart, snapPart, hc, hs, kindTypeName, List.lookup]

/-- T1: the early returns of `MapV1`, in source order: the admission and conversion cases come
before the `Group` case (regenerated from the source on every run). -/
theorem mapV1_admission_before_group :
    ((ShellOp.Facts.c09MapV1.filter (fun e => e.2 == "return")).map (·.1)).take 5 =
      ["(bc.Metadata.BindingType == htypes.OnStartup)",
       "(bc.Metadata.BindingType == htypes.KubernetesValidating)",
       "(bc.Metadata.BindingType == htypes.KubernetesMutating)",
       "(bc.Metadata.BindingType == htypes.KubernetesConversion)",
       "(bc.Metadata.Group != \"\")"] := by decide

/-- what the check evaluates on every observed hook process (`checkHandedCtx`) holds of the model:
a request routed to `(h, b)`, rendered by `MapV1` as one context of the link's type — any group,
any snapshots — with the request in it. -/
theorem handed_admission_context (hooks : List Hook) (path : Str) (uid name : String) (h : Nat) (b : Binding)
    (hr : route hooks (detect path).1 (detect path).2 = some (h, b))
    (c : Ctx) (hc : c.btype = admissionBType b.kind) :
    checkHandedCtx hooks path uid name ⟨h, b, uid⟩ (ctxType c) 1 name = none := by
  have ht : ctxType c = kindTypeName b.kind := by
    simp [ctxType, (admission_context_has_review b.kind c hc).1]
  obtain ⟨⟨hk, hmem, hid, hb⟩, hcf, hw⟩ := route_some hr
  have hreg : registeredFor hooks path h b = true := by
    simp only [registeredFor, Bool.and_eq_true, List.any_eq_true, beq_iff_eq]
    refine ⟨⟨hk, hmem, hid, ?_⟩, ?_⟩
    · simpa using hb
    · rw [← hcf, ← hw]
  simp [checkHandedCtx, ht, checkHanded, hreg]

/-- Seeded variant (C14-w6m3): the `Mutating` case of `MapV1` below the `Group` case -/
def typePartGroupFirst (c : Ctx) : List (String × J) :=
  if c.btype = .validating then [("type", .str "Validating"), ("review", .str c.review)] else
  if c.group ≠ "" then [("type", .str "Group"), ("groupName", .str c.group)] else
  if c.btype = .mutating then [("type", .str "Mutating"), ("review", .str c.review)] else []

end Context

/-! ## non-vacuity and witnesses -/

section Examples

private def B (k : Kind) (n : String) : Binding := ⟨k, n.toList⟩
private def twoHooks : List Hook :=
  [⟨1, [B .validating "a.example.com", B .mutating "myHook"]⟩, ⟨2, [B .validating "b.example.com", B .mutating "hooks/nextHook"]⟩]
private def patchText : String := "[{\"op\":\"add\",\"path\":\"/metadata/labels/x\",\"value\":\"y\"}]"
private def runEx : Nat → Binding → Outcome := fun i b =>
  if i = 1 ∧ b.kind = .mutating then ⟨true, .valid ⟨true, "", ["w1", "w2"], patchText⟩, true⟩
  else if i = 2 ∧ b.kind = .validating then ⟨true, .valid ⟨false, "denied by b", [], ""⟩, true⟩
  else ⟨false, .valid ⟨true, "", [], ""⟩, true⟩

/-- `routing` is not vacuous: unique ids, the registered path of the mutating binding of hook 1 -/
example : uniqueIds twoHooks = true ∧ registeredPath "myHook".toList = "/hooks/my-hook".toList ∧
    route twoHooks (detect "/hooks/my-hook".toList).1 (detect "/hooks/my-hook".toList).2
      = some (1, B .mutating "myHook") := by decide

/-- `fail_closed`/`relays` are not vacuous: an allowing mutating hook with warnings and a patch … -/
example : respond twoHooks runEx "/hooks/my-hook".toList (.ok "u-1")
    = (.review ⟨"u-1", true, 0, none, ["w1", "w2"], patchText, true⟩, some (1, B .mutating "myHook")) := by
  decide

/-- … a denying validating hook whose message is carried … -/
example : respond twoHooks runEx "/hooks/b-example-com/".toList (.ok "u-2")
    = (.review ⟨"u-2", false, 403, some (.hook "denied by b"), [], "", false⟩,
       some (2, B .validating "b.example.com")) := by decide

/-- … a hook that says `allowed: true` but exits non-zero, and an unknown path: both denied -/
example : (respond twoHooks runEx "/hooks/a-example-com".toList (.ok "u-3")).1
      = .review ⟨"u-3", false, 403, some .hookFailed, [], "", false⟩ ∧
    respond twoHooks runEx "/hooks/nope".toList (.ok "u-4")
      = (.review ⟨"u-4", false, 500, some .noHook, [], "", false⟩, none) := by decide

/-- the excluded point of `routing`: webhook ids that collide after `SafeURLString`. The request to
the path registered by hook 1 is handed to hook 3 (validating hooks first, then mutating hooks; the
last one that can handle the id wins). -/
theorem collision_witness :
    let hooks : List Hook := [⟨1, [B .validating "my.hook.ex.io"]⟩, ⟨2, [B .validating "my-hook.ex.io"]⟩,
      ⟨3, [B .mutating "myHook.ex.io"]⟩]
    uniqueIds hooks = false ∧
    route hooks (detect (registeredPath "my.hook.ex.io".toList)).1 (detect (registeredPath "my.hook.ex.io".toList)).2
      = some (3, B .mutating "myHook.ex.io") := by decide

/-- the other excluded point: a (mutating) binding name whose id has an empty path segment registers
a path that does not lead back to it -/
theorem empty_segment_witness :
    registeredPath "a//b".toList = "/hooks/a//b".toList ∧
    detect (registeredPath "a//b".toList) = ("hooks".toList, "a/b".toList) ∧
    route [⟨1, [B .mutating "a//b"]⟩] (detect (registeredPath "a//b".toList)).1
      (detect (registeredPath "a//b".toList)).2 = none := by decide

/-- the repaired defect: a decoder that stops after the first JSON value reads
`{"allowed": true}` + garbage as a valid allowing response; judged against what the file is
(malformed), the answer `allowed: true` violates the property -/
theorem trailing_garbage_witness :
    let hooks : List Hook := [⟨1, [B .validating "a.example.com"]⟩]
    let asDecoded : Nat → Binding → Outcome := fun _ _ => ⟨true, .valid ⟨true, "", [], ""⟩, true⟩
    let asWritten : Nat → Binding → Outcome := fun _ _ => ⟨true, .malformed, true⟩
    let r := respond hooks asDecoded "/hooks/a-example-com".toList (.ok "u")
    checkObs hooks asWritten "/hooks/a-example-com".toList (.ok "u") r.1 r.2
      = some "allowed-although-the-hook-failed-or-wrote-no-valid-response" := by decide

/-- `failed_task_denied` is not vacuous: the hook exits 0 and writes `allowed: true`, but one of its
metric / object patch operations cannot be applied — the task fails and the request is denied -/
example :
    let run : Nat → Binding → Outcome := fun _ _ => ⟨true, .valid ⟨true, "", [], ""⟩, false⟩
    taskFails (run 1 (B .validating "a.example.com")) = true ∧
    respond twoHooks run "/hooks/a-example-com".toList (.ok "u-5")
      = (.review ⟨"u-5", false, 403, some .hookFailed, [], "", false⟩, some (1, B .validating "a.example.com")) := by
  decide

/-- the check rejects an answer that relays `allowed: true` of a run whose task failed that way -/
theorem failed_task_allowed_witness :
    let run : Nat → Binding → Outcome := fun _ _ => ⟨true, .valid ⟨true, "", [], ""⟩, false⟩
    checkObs twoHooks run "/hooks/a-example-com".toList (.ok "u")
        (.review ⟨"u", true, 0, none, [], "", false⟩) (some (1, B .validating "a.example.com"))
      = some "allowed-although-the-hook-failed-or-wrote-no-valid-response" := by decide

/-- the excluded variant of `own_response_file`: one response file per hook (no per-run part in the
name). Run 1 writes a denial and keeps running, run 2 of the same hook writes `allowed: true`, run 1
finishes first: run 1 is judged on run 2's verdict, run 2 finds its file removed. -/
theorem shared_file_witness :
    let deny : FileContent := .valid ⟨false, "no", [], ""⟩
    let allow : FileContent := .valid ⟨true, "", [], ""⟩
    let t : List FileEv := [.prepare 1, .write 1 deny, .prepare 2, .write 2 allow, .finish 1, .finish 2]
    let shared := fileExec (responseFileName false (fun _ => 7)) t
    let own := fileExec (responseFileName true (fun _ => 7)) t
    shared.seen 1 = [some allow] ∧ shared.seen 2 = [none] ∧
    own.seen 1 = [some deny] ∧ own.seen 2 = [some allow] := by decide

/-- `handed_own_request` is not vacuous: two requests to the mutating binding of hook 1 in flight,
both handed over and both context files prepared before either process starts -/
example :
    let a : Handed := ⟨1, B .mutating "myHook", "u-A"⟩
    let b : Handed := ⟨1, B .mutating "myHook", "u-B"⟩
    let t : List CtxEv := [.hand 1 a, .hand 2 b, .prepare 1, .prepare 2, .start 1, .start 2]
    let st := ctxExec (contextSlot perRequestContext (fun _ => 5)) (responseFileName perRunContextFile (fun _ => 1)) t
    route twoHooks (detect "/hooks/my-hook".toList).1 (detect "/hooks/my-hook".toList).2 = some (1, B .mutating "myHook") ∧
    t.filter (fun e => e.run == 1) = [.hand 1 a, .prepare 1, .start 1] ∧
    st.given 1 = [some a] ∧ st.given 2 = [some b] := by decide

/-- the excluded variants of `own_binding_context`. (1) The slice is kept with the link (built once
when the binding is enabled) and every `HandleEvent` writes the request into its only element:
request A is handed over, then request B to the same binding, then A's run is prepared and its
process starts: it finds B's request — which the hand-over clause rejects — and B's verdict is
relayed to A. (2) One binding context file per hook (no per-run part in the name): A's file is
prepared, B's run overwrites it, A's process starts with B's request. -/
theorem shared_context_witness :
    let a : Handed := ⟨1, B .mutating "myHook", "u-A"⟩
    let b : Handed := ⟨1, B .mutating "myHook", "u-B"⟩
    let t : List CtxEv := [.hand 1 a, .hand 2 b, .prepare 1, .start 1, .prepare 2, .start 2]
    let t' : List CtxEv := [.hand 1 a, .prepare 1, .hand 2 b, .prepare 2, .start 1, .start 2]
    let sharedSlot := ctxExec (contextSlot false (fun _ => 5)) (responseFileName true (fun _ => 1)) t
    let sharedFile := ctxExec (contextSlot true (fun _ => 5)) (responseFileName false (fun _ => 1)) t'
    let own := ctxExec (contextSlot true (fun _ => 5)) (responseFileName true (fun _ => 1)) t
    let own' := ctxExec (contextSlot true (fun _ => 5)) (responseFileName true (fun _ => 1)) t'
    sharedSlot.given 1 = [some b] ∧ sharedSlot.given 2 = [some b] ∧
    sharedFile.given 1 = [some b] ∧ sharedFile.given 2 = [some b] ∧
    own.given 1 = [some a] ∧ own.given 2 = [some b] ∧ own'.given 1 = [some a] ∧ own'.given 2 = [some b] ∧
    checkHanded twoHooks "/hooks/my-hook".toList "u-A" b = some "the-hook-process-was-handed-another-request" ∧
    checkHanded twoHooks "/hooks/my-hook".toList "u-A" a = none ∧
    checkHanded twoHooks "/hooks/my-hook".toList "u-A" ⟨2, B .validating "b.example.com", "u-A"⟩
      = some "handed-to-a-hook-or-binding-that-did-not-register-this-path" := by decide

/-- `fail_closed_ending` / `not_exited_zero_denied` are not vacuous: the hook writes `allowed: true`
and then SIGKILL terminates it, or it exits 137 / 255: denied with "Hook failed"; the same file after
`exit 0`: allowed -/
example :
    let file : FileContent := .valid ⟨true, "", ["w"], ""⟩
    let p := "/hooks/a-example-com".toList
    let ran := some (1, B .validating "a.example.com")
    let denied : Answer × Option (Nat × Binding) := (.review ⟨"u", false, 403, some .hookFailed, [], "", false⟩, ran)
    respond twoHooks (fun _ _ => (⟨.signaled 9, file, true⟩ : RunDecl).seen) p (.ok "u") = denied ∧
    respond twoHooks (fun _ _ => (⟨.signaled 15, file, true⟩ : RunDecl).seen) p (.ok "u") = denied ∧
    respond twoHooks (fun _ _ => (⟨.exited 137, file, true⟩ : RunDecl).seen) p (.ok "u") = denied ∧
    respond twoHooks (fun _ _ => (⟨.exited 255, file, true⟩ : RunDecl).seen) p (.ok "u") = denied ∧
    respond twoHooks (fun _ _ => (⟨.exited 0, file, true⟩ : RunDecl).seen) p (.ok "u")
      = (.review ⟨"u", true, 0, none, ["w"], "", false⟩, ran) := by decide

/-- the excluded variant of `executor_fails_iff`: a failure test on the exit code (`ExitCode() > 0`)
does not see a process terminated by a signal (`ExitCode()` is -1) — the run would pass as a
success, its `allowed: true` would be relayed, and the check rejects that answer -/
theorem exit_code_positive_witness :
    (decide (goExitCode (.signaled 9) > 0) = false ∧ executorFails (.signaled 9) = true ∧
      decide (goExitCode (.exited 137) > 0) = true) ∧
    let d : RunDecl := ⟨.signaled 9, .valid ⟨true, "", [], ""⟩, true⟩
    let p := "/hooks/a-example-com".toList
    let r := respond twoHooks (fun _ _ => ⟨!decide (goExitCode d.ending > 0), d.file, d.othersOk⟩) p (.ok "u")
    r.1 = .review ⟨"u", true, 0, none, [], "", false⟩ ∧
    checkObs twoHooks (fun _ _ => d.spec) p (.ok "u") r.1 r.2
      = some "allowed-although-the-hook-failed-or-wrote-no-valid-response" := by decide

/-- `internal_error_denied_any_allow_failure` / `fail_closed_any_allow_failure` are not vacuous, and
the excluded variants (C14-w6m2): the hook exits 0 with `allowed: true`, an object patch operation
of the run cannot be applied. As the code is: `Fail` → "Hook failed"; were the failure allowed:
no prop → 500. With the prop stored before the operations are applied (`taskPropEarly`) AND the
failure allowed, the allowing response would be relayed — which the check rejects
(`failed_task_allowed_witness`). -/
example :
    let o : Outcome := ⟨true, .valid ⟨true, "", [], ""⟩, false⟩
    let run : Nat → Binding → Outcome := fun _ _ => o
    let d := detect "/hooks/a-example-com".toList
    route twoHooks d.1 d.2 = some (1, B .validating "a.example.com") ∧
    buildReview "u" (eventHandlerAF (fun _ _ => false) twoHooks run d.1 d.2).1 = ⟨"u", false, 403, some .hookFailed, [], "", false⟩ ∧
    buildReview "u" (eventHandlerAF (fun _ _ => true) twoHooks run d.1 d.2).1 = ⟨"u", false, 500, some .propError, [], "", false⟩ ∧
    taskStatusFail true o = false ∧ taskProp o = none ∧ taskPropEarly o = some ⟨true, "", [], ""⟩ ∧
    (buildReview "u" (eventHandlerAF (fun _ _ => true) twoHooks
      (fun _ _ => ⟨true, .valid ⟨true, "", ["w"], ""⟩, true⟩) d.1 d.2).1).allowed = true := by decide

section
open ShellOp.BindingContext ShellOp.Json
/-- `admission_context_has_review` / `handed_admission_context` are not vacuous (a mutating binding
with a group and snapshots), and the excluded variant (C14-w6m3): with the `Mutating` case below the
`Group` case the hook is handed `type: Group` without the review, which `checkHandedCtx` rejects. -/
theorem group_before_mutating_witness :
    let c : Ctx := { btype := .mutating, group := "main", includeSnapshots := ["pods"], binding := "myHook", review := "u-1" }
    ctxType c = "Mutating" ∧ (mapV1 c).lookup "review" = some (.str "u-1") ∧
    (typePartGroupFirst c).lookup "type" = some (.str "Group") ∧ (typePartGroupFirst c).lookup "review" = none ∧
    checkHandedCtx twoHooks "/hooks/my-hook".toList "u-1" "pod-of-u-1" ⟨1, B .mutating "myHook", "u-1"⟩ "Mutating" 1 "pod-of-u-1" = none ∧
    checkHandedCtx twoHooks "/hooks/my-hook".toList "u-1" "pod-of-u-1" ⟨1, B .mutating "myHook", "null"⟩ "Group" 1 "null"
      = some "the-binding-context-is-not-an-admission-review-of-the-binding's-kind" := by
  refine ⟨?_, ?_, ?_, ?_, ?_, ?_⟩
  · simp [ctxType, mapV1, typePart, snapPart, List.lookup]
  · simp [mapV1, typePart, snapPart, List.lookup]
  · simp [typePartGroupFirst]
  · simp [typePartGroupFirst]
  · decide
  · decide
end

end Examples

end ShellOp.Admission.C14
