import ShellOp.Model.Admission
namespace ShellOp.Admission.C14
end ShellOp.Admission.C14
