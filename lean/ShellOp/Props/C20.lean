import ShellOp.Proofs.Discovery
/-!
# C20 — hook discovery: exactly the executable files outside `lib/` and hidden paths

Property theorems over `Model/Discovery` (the walk of `RecursiveGetExecutablePaths` with the callback
of file.go, `sort.Strings`, the `--config` loop of `Manager.Init`). Quantifiers: every directory tree
(`Tree`, an inductive type: any nesting, any names, any mode bits), every name of the hooks directory
itself, every root path, every choice of `--config` outcomes (`Path → Outcome`).
The tables (`.yaml .json .md .txt`, `lib`, `.`, `0o111`) are regenerated from file.go on every run;
the statements below use the documented literal values, `tables_documented` ties the two.
-/
namespace ShellOp.Discovery.C20

open ShellOp.Discovery

/-- The regenerated tables of file.go are the documented ones. -/
theorem tables_documented : Tables :=
  ⟨by decide, by decide, by decide, by decide⟩

/-- The extractor recognised the shape of file.go. -/
theorem facts_fresh : Facts.c20FactsStale = false := rfl

/-- The walk callback does not apply its directory test to the hooks directory itself. -/
theorem root_exempt : Facts.c20RootExempt = true := rfl

/-- `Init` gives the walk the hooks directory and nothing else: the only excluded directory names are
file.go's own (`tables_documented`: `lib`), none is added by the caller through the variadic parameter. -/
theorem init_adds_no_excluded_dirs : Facts.c20InitWalkArgs = ["hm.workingDir"] := rfl

/-- **The property's wording.** `p` is the path of a file under the hooks directory that carries an
execute bit, whose name neither starts with a dot nor ends in .yaml/.json/.md/.txt, and none of the
sub-directories it lies below is named `lib` or is hidden. -/
def IsHookPath (rootPath : Path) (root : Tree) (p : Path) : Prop :=
  ∃ e ∈ entries rootPath root, e.path = p ∧
    (e.mode.testBit 0 ∨ e.mode.testBit 3 ∨ e.mode.testBit 6) ∧
    ¬ bytesOf "." <+: e.name ∧
    (∀ x ∈ [".yaml", ".json", ".md", ".txt"], ¬ bytesOf x <:+ e.name) ∧
    ∀ d ∈ e.dirs, d ≠ bytesOf "lib" ∧ ¬ bytesOf "." <+: d

theorem startsWithDot_iff (n : Name) : startsWithDot n = true ↔ bytesOf "." <+: n := by
  have : bytesOf "." = [dot] := by decide
  rw [this]
  cases n with
  | nil => simp [startsWithDot]
  | cons c cs => simp only [startsWithDot, List.head?_cons, beq_iff_eq, Option.some.injEq, List.cons_prefix_cons, List.nil_prefix, and_true]; exact eq_comm

theorem isHookEntry_iff (e : Entry) : isHookEntry e = true ↔
    ((e.mode.testBit 0 ∨ e.mode.testBit 3 ∨ e.mode.testBit 6) ∧
    ¬ bytesOf "." <+: e.name ∧
    (∀ x ∈ [".yaml", ".json", ".md", ".txt"], ¬ bytesOf x <:+ e.name) ∧
    ∀ d ∈ e.dirs, d ≠ bytesOf "lib" ∧ ¬ bytesOf "." <+: d) := by
  simp only [isHookEntry, hasExecBit, Bool.and_eq_true, Bool.or_eq_true, Bool.not_eq_true',
    List.all_eq_true, bne_iff_ne, ne_eq, docLib, ← startsWithDot_iff, Bool.not_eq_true,
    List.any_eq_false, docExts, endsIn, List.mem_map, List.isSuffixOf_iff_suffix]
  constructor
  · rintro ⟨⟨⟨h1, h2⟩, h3⟩, h4⟩
    refine ⟨by simpa [or_assoc] using h1, h2, ?_, h4⟩
    intro x hx; exact h3 _ ⟨x, hx, rfl⟩
  · rintro ⟨h1, h2, h3, h4⟩
    refine ⟨⟨⟨by simpa [or_assoc] using h1, h2⟩, ?_⟩, h4⟩
    rintro _ ⟨x, hx, rfl⟩; exact h3 x hx

theorem mem_specPaths_iff (rootPath : Path) (root : Tree) (p : Path) :
    p ∈ specPaths rootPath root ↔ IsHookPath rootPath root p := by
  simp only [specPaths, List.mem_map, List.mem_filter, IsHookPath, isHookEntry_iff]
  constructor
  · rintro ⟨e, ⟨he, h⟩, rfl⟩; exact ⟨e, he, rfl, h⟩
  · rintro ⟨e, he, rfl, h⟩; exact ⟨e, ⟨he, h⟩, rfl⟩

/-- **C20.1 `discover_iff`** For every tree, every name `rn` of the hooks directory (including `lib`
and hidden names) and every root path: the walk returns exactly the hook paths of the property. -/
theorem discover_iff (rootPath : Path) (rn : Name) (cs : List Tree) (p : Path) :
    p ∈ discover rootPath (.dir rn cs) ↔ IsHookPath rootPath (.dir rn cs) p := by
  unfold discover
  rw [root_exempt, discover_eq_spec tables_documented, mem_specPaths_iff]

/-- **C20.2 `discover_sorted_nodup`** The load order is a permutation of what the walk found, strictly
increasing in the (bytewise) lexical order of the paths — hence without repetition — and the hook
names, i.e. the paths relative to the hooks directory, are strictly increasing as well. -/
theorem discover_sorted_nodup (rootPath : Path) (root : Tree) (hw : wfRoot root) :
    (loadOrder rootPath root).Perm (discover rootPath root) ∧
    (loadOrder rootPath root).Pairwise (· < ·) ∧
    ((loadOrder rootPath root).map (relName rootPath)).Pairwise (· < ·) ∧
    ∀ p ∈ loadOrder rootPath root, p = rootPath ++ sep :: relName rootPath p := by
  have hperm := loadOrder_perm rootPath root
  have hs := loadOrder_strictSorted rootPath root hw
  have hb : ∀ p ∈ loadOrder rootPath root, p = rootPath ++ sep :: relName rootPath p :=
    fun p hp => discover_below_root rootPath root p (hperm.mem_iff.mp hp) hw
  refine ⟨hperm, hs, ?_, hb⟩
  rw [List.pairwise_map]
  -- compare the full paths through their common prefix
  have : ∀ l : List Path, (∀ p ∈ l, p = rootPath ++ sep :: relName rootPath p) →
      l.Pairwise (· < ·) → l.Pairwise (fun a b => relName rootPath a < relName rootPath b) := by
    intro l hl hp
    induction hp with
    | nil => exact List.Pairwise.nil
    | @cons a l' ha _ ih =>
      refine List.Pairwise.cons ?_ (ih (fun p hp => hl p (List.mem_cons_of_mem _ hp)))
      intro b hb'
      have hab := ha b hb'
      rw [hl a (List.mem_cons_self ..), hl b (List.mem_cons_of_mem _ hb')] at hab
      have h2 : rootPath ++ sep :: relName rootPath a = (rootPath ++ [sep]) ++ relName rootPath a := by simp
      have h3 : rootPath ++ sep :: relName rootPath b = (rootPath ++ [sep]) ++ relName rootPath b := by simp
      rw [h2, h3, append_lt_append_left] at hab
      exact hab
  exact this _ hb hs

/-- **C20.3 `init_config_once`** `Init` asks the discovered files for `--config` in load order, each
at most once and nothing else; when every run yields a valid configuration all of them are asked
(exactly once) and loaded under their relative names; otherwise the error names the first hook whose
run fails or whose output is rejected, everything before it was asked, nothing after it is. -/
theorem init_config_once (rootPath : Path) (root : Tree) (hw : wfRoot root) (outcome : Path → Outcome) :
    let r := init rootPath root outcome
    let order := loadOrder rootPath root
    r.asked.Nodup ∧ r.asked <+: order ∧
    ((∀ p ∈ order, outcome p = .ok) →
      r.asked = order ∧ r.err = none ∧ r.loaded = order.map (relName rootPath)) ∧
    (∀ pre p post, order = pre ++ p :: post → (∀ q ∈ pre, outcome q = .ok) → outcome p ≠ .ok →
      r.asked = pre ++ [p] ∧ r.err = some p ∧ r.loaded = pre.map (relName rootPath) ∧
      ∀ q ∈ post, q ∉ r.asked) := by
  intro r order
  have hnd : order.Nodup :=
    (loadOrder_perm rootPath root).nodup_iff.mpr (discover_nodup rootPath root hw)
  have hall : (∀ p ∈ order, outcome p = .ok) →
      r.asked = order ∧ r.err = none ∧ r.loaded = order.map (relName rootPath) := by
    intro h
    have := initLoop_all_ok rootPath outcome order {} h
    simp only [r, init]; rw [this]; simp
  have hbad : ∀ pre p post, order = pre ++ p :: post → (∀ q ∈ pre, outcome q = .ok) → outcome p ≠ .ok →
      r.asked = pre ++ [p] ∧ r.err = some p ∧ r.loaded = pre.map (relName rootPath) := by
    intro pre p post ho hpre hp
    have := initLoop_first_bad rootPath outcome pre {} p post hpre hp
    simp only [r, init]; rw [show loadOrder rootPath root = pre ++ p :: post from ho, this]; simp
  -- either all are ok or there is a first bad one
  have hsplit : (∀ p ∈ order, outcome p = .ok) ∨
      ∃ pre p post, order = pre ++ p :: post ∧ (∀ q ∈ pre, outcome q = .ok) ∧ outcome p ≠ .ok := by
    generalize order = l
    induction l with
    | nil => left; simp
    | cons a l ih =>
      by_cases ha : outcome a = .ok
      · rcases ih with h | ⟨pre, p, post, rfl, h1, h2⟩
        · left; intro p hp; rcases List.mem_cons.mp hp with rfl | hp
          · exact ha
          · exact h p hp
        · right; refine ⟨a :: pre, p, post, rfl, ?_, h2⟩
          intro q hq; rcases List.mem_cons.mp hq with rfl | hq
          · exact ha
          · exact h1 q hq
      · right; exact ⟨[], a, l, rfl, by simp, ha⟩
  refine ⟨?_, ?_, hall, ?_⟩
  · rcases hsplit with h | ⟨pre, p, post, ho, h1, h2⟩
    · rw [(hall h).1]; exact hnd
    · rw [(hbad pre p post ho h1 h2).1]
      rw [ho] at hnd
      have : (pre ++ [p] ++ post).Nodup := by simpa using hnd
      exact (List.nodup_append.mp this).1
  · rcases hsplit with h | ⟨pre, p, post, ho, h1, h2⟩
    · rw [(hall h).1]; exact List.prefix_refl _
    · rw [(hbad pre p post ho h1 h2).1, ho]
      exact ⟨post, by simp⟩
  · intro pre p post ho h1 h2
    obtain ⟨ha, he, hl⟩ := hbad pre p post ho h1 h2
    refine ⟨ha, he, hl, ?_⟩
    intro q hq hqa
    rw [ho] at hnd
    have : (pre ++ [p] ++ post).Nodup := by simpa using hnd
    rw [ha] at hqa
    exact (List.nodup_append.mp this).2.2 q hqa q hq rfl

/-- Neither the scan nor `Init` mentions a package-level variable (regenerated from pkg/utils/file and
pkg/hook/hook_manager.go on every run): a start leaves nothing behind for the next start. -/
theorem discovery_stateless : Facts.c20ProcessState = [] := rfl

theorem starts_eq_map (rootPath : Path) (σ : ProcState) (ts : List Tree) :
    starts rootPath σ ts = ts.map (fun t => (discover rootPath t, init rootPath t (outcomeAt rootPath t))) := by
  induction ts generalizing σ with
  | nil => rfl
  | cons t ts ih => simp [starts, startOnce, ih]

/-- **C20.4 `every_start_exact`** "At start": at EVERY start of a hook manager in one process. For every
sequence of trees (the hooks directory as it is at the 1st, 2nd, … start — changed in between in any
way), the `k`-th start finds exactly the hook paths of the `k`-th tree and loads them as
`init_config_once` says for that tree, whatever the earlier trees were. -/
theorem every_start_exact (rootPath : Path) (trees : List (Name × List Tree)) (k : Nat) (hk : k < trees.length) :
    ∃ r, (starts rootPath procInit (trees.map fun t => Tree.dir t.1 t.2))[k]? = some r ∧
      (∀ p, p ∈ r.1 ↔ IsHookPath rootPath (.dir trees[k].1 trees[k].2) p) ∧
      r.2 = init rootPath (.dir trees[k].1 trees[k].2) (outcomeAt rootPath (.dir trees[k].1 trees[k].2)) := by
  refine ⟨(discover rootPath (.dir trees[k].1 trees[k].2),
    init rootPath (.dir trees[k].1 trees[k].2) (outcomeAt rootPath (.dir trees[k].1 trees[k].2))), ?_, ?_, rfl⟩
  · rw [starts_eq_map]
    simp [List.getElem?_map, List.getElem?_eq_getElem hk]
  · intro p; exact discover_iff rootPath _ _ p

/-- **C20.5 `run_ok_iff`** "a hook whose `--config` run fails": the run of a hook counts as successful
only if the process was started, exited with status 0 and printed a valid configuration. A start
failure, EVERY other exit status and death by ANY signal make it fail, whatever had been printed. -/
theorem run_ok_iff (e : RunEnd) (v : Bool) : loadOutcome e v = .ok ↔ (e = .exited 0 ∧ v = true) := by
  cases e with
  | notStarted => simp [loadOutcome, cmdErr]
  | signaled s => simp [loadOutcome, cmdErr]
  | exited n =>
    cases n with
    | zero => cases v <;> simp [loadOutcome, cmdErr]
    | succ k => simp [loadOutcome, cmdErr]

/-- **C20.6 `init_fails_on_unsuccessful_run`** For every tree, every way each `--config` process ends
(`ends`) and every verdict on what it printed (`valid`): if the hooks before `p` in load order ran
successfully and the run of `p` did not (not started, non-zero status, killed by a signal — even after
printing a valid configuration — or invalid output), then `Init` fails with an error naming `p`, `p` is
the last file asked, exactly the hooks before it are loaded and no later hook is asked. -/
theorem init_fails_on_unsuccessful_run (rootPath : Path) (root : Tree) (hw : wfRoot root)
    (ends : Path → RunEnd) (valid : Path → Bool) (pre : List Path) (p : Path) (post : List Path)
    (ho : loadOrder rootPath root = pre ++ p :: post)
    (hpre : ∀ q ∈ pre, ends q = .exited 0 ∧ valid q = true)
    (hp : ends p ≠ .exited 0 ∨ valid p = false) :
    let r := init rootPath root (fun q => loadOutcome (ends q) (valid q))
    r.err = some p ∧ r.asked = pre ++ [p] ∧ r.loaded = pre.map (relName rootPath) ∧ ∀ q ∈ post, q ∉ r.asked := by
  intro r
  have h := (init_config_once rootPath root hw (fun q => loadOutcome (ends q) (valid q))).2.2.2 pre p post ho
    (fun q hq => (run_ok_iff _ _).mpr (hpre q hq))
    (by
      intro hok
      have := (run_ok_iff _ _).mp hok
      rcases hp with h1 | h2
      · exact h1 this.1
      · rw [this.2] at h2; exact Bool.noConfusion h2)
  exact ⟨h.2.1, h.1, h.2.2.1, h.2.2.2⟩

/-- **C20.7 `symlink_to_executable_is_hook`** A symbolic link (what the walk's `Lstat` shows: a
non-directory entry with the permission bits 0777) whose name is neither hidden nor carries an excluded
extension and that does not lie below a `lib` or hidden sub-directory is discovered — e.g. every
`hook.sh -> ..data/hook.sh` of a mounted ConfigMap volume. -/
theorem symlink_to_executable_is_hook (rootPath : Path) (rn : Name) (cs : List Tree) (e : Entry)
    (he : e ∈ entries rootPath (.dir rn cs)) (hm : e.mode = lstatLinkMode)
    (hn : ¬ bytesOf "." <+: e.name)
    (hx : ∀ x ∈ [".yaml", ".json", ".md", ".txt"], ¬ bytesOf x <:+ e.name)
    (hd : ∀ d ∈ e.dirs, d ≠ bytesOf "lib" ∧ ¬ bytesOf "." <+: d) :
    e.path ∈ discover rootPath (.dir rn cs) := by
  rw [discover_iff]
  exact ⟨e, he, rfl, by rw [hm]; decide, hn, hx, hd⟩

/-! ### Non-vacuity and witnesses -/

/-- killed by SIGKILL / SIGSEGV after printing a valid configuration, exit status 255, not started: all fail -/
example : loadOutcome (.signaled 9) true = .fail ∧ loadOutcome (.signaled 11) true = .fail ∧
    loadOutcome (.exited 255) true = .fail ∧ loadOutcome .notStarted true = .fail ∧
    loadOutcome (.exited 0) true = .ok ∧ loadOutcome (.exited 0) false = .invalid := by decide

/-- `a.sh`, `sub/b.sh`, `z.sh`; the run of `sub/b.sh` prints a valid configuration and is killed: Init
names it, `z.sh` is not asked -/
example : let root := Tree.dir (bytesOf "h") [.file (bytesOf "a.sh") 0o755 .ok,
      .dir (bytesOf "sub") [.file (bytesOf "b.sh") 0o755 (loadOutcome (.signaled 9) true)], .file (bytesOf "z.sh") 0o755 .ok]
    (init (bytesOf "h") root (outcomeAt (bytesOf "h") root)).asked = [bytesOf "h/a.sh", bytesOf "h/sub/b.sh"] ∧
    (init (bytesOf "h") root (outcomeAt (bytesOf "h") root)).err = some (bytesOf "h/sub/b.sh") := by decide

/-- the ConfigMap layout: the real file below a hidden directory is not a hook, the links `..data`
(hidden name) is not, the link `hook.sh` is -/
example : discover (bytesOf "h") (.dir (bytesOf "h")
    [.dir (bytesOf "..2026") [.file (bytesOf "hook.sh") 0o755 .ok], .link (bytesOf "..data") .ok,
     .link (bytesOf "hook.sh") .ok, .dir (bytesOf "lib") [.link (bytesOf "x") .ok]]) = [bytesOf "h/hook.sh"] := by decide


/-- a tree with a hook in the root, one in a sub-directory, a `lib` directory, a hidden directory,
a non-executable file, an excluded extension, and a byte-order trap (`a.sh` < `a/b`). -/
def sampleChildren : List Tree :=
  [.dir (bytesOf "a") [.file (bytesOf "b") 0o010 .ok, .file (bytesOf "c.yaml") 0o755 .ok],
   .file (bytesOf "a.sh") 0o755 .invalid,
   .dir (bytesOf "lib") [.file (bytesOf "x") 0o755 .ok],
   .dir (bytesOf ".git") [.file (bytesOf "y") 0o755 .ok],
   .file (bytesOf "n") 0o644 .ok,
   .file (bytesOf "z") 0o001 .fail]

example : discover (bytesOf "lib") (.dir (bytesOf "lib") sampleChildren) =
    [bytesOf "lib/a/b", bytesOf "lib/a.sh", bytesOf "lib/z"] := by decide

example : loadOrder (bytesOf "h") (.dir (bytesOf "h") sampleChildren) =
    [bytesOf "h/a.sh", bytesOf "h/a/b", bytesOf "h/z"] := by decide

example : wfRoot (.dir (bytesOf "lib") sampleChildren) := by
  simp only [wfRoot, sampleChildren, wfList, wf, Tree.name]; decide

example : IsHookPath (bytesOf "h") (.dir (bytesOf "h") sampleChildren) (bytesOf "h/a/b") :=
  (discover_iff _ _ _ _).mp (by decide)

/-- all ok: three hooks asked and loaded -/
example : (init (bytesOf "h") (.dir (bytesOf "h") sampleChildren) (fun _ => .ok)).asked.length = 3 := by decide

/-- the first hook in load order prints an invalid configuration: it is the only one asked -/
example : let root := Tree.dir (bytesOf "h") sampleChildren
    (init (bytesOf "h") root (outcomeAt (bytesOf "h") root)).asked = [bytesOf "h/a.sh"] ∧
    (init (bytesOf "h") root (outcomeAt (bytesOf "h") root)).err = some (bytesOf "h/a.sh") := by decide

/-- two starts; in between `sub/b` got its execute bit and `sub/deep/e` appeared (nothing directly in
the hooks directory changed): the second start sees both -/
example : (starts (bytesOf "h") procInit
    [.dir (bytesOf "h") [.dir (bytesOf "sub") [.file (bytesOf "a") 0o755 .ok, .file (bytesOf "b") 0o644 .ok, .dir (bytesOf "deep") []]],
     .dir (bytesOf "h") [.dir (bytesOf "sub") [.file (bytesOf "a") 0o755 .ok, .file (bytesOf "b") 0o755 .ok,
        .dir (bytesOf "deep") [.file (bytesOf "e") 0o700 .ok]]]]).map (·.1) =
    [[bytesOf "h/sub/a"], [bytesOf "h/sub/a", bytesOf "h/sub/b", bytesOf "h/sub/deep/e"]] := by decide

/-- Regression witness for the repaired defect (the walk applied its `lib`/hidden test to the hooks
directory itself): a hooks directory named `lib` or `.hooks` yielded no hooks, although its file is a
hook path of the property. -/
theorem unrepaired_root_witness :
    discoverUnrepaired (bytesOf "lib") (.dir (bytesOf "lib") [.file (bytesOf "a.sh") 0o755 .ok]) = [] ∧
    discoverUnrepaired (bytesOf ".hooks") (.dir (bytesOf ".hooks") [.file (bytesOf "a.sh") 0o755 .ok]) = [] ∧
    specPaths (bytesOf "lib") (.dir (bytesOf "lib") [.file (bytesOf "a.sh") 0o755 .ok]) = [bytesOf "lib/a.sh"] := by
  decide

end ShellOp.Discovery.C20
