import ShellOp.Model.ShellFw
/-!
# C19 — the shell framework dispatches each binding context to exactly one handler

Theorems over `Model/ShellFw` (the script-shaped model of `frameworks/shell/hook.sh`, whose
candidate table `Facts.c19*` is regenerated from `hook.sh` on every run) and `ShellFw.Spec` (the
documented names, written out literally, and the property as a predicate on one observed run).
Quantifier: every list of binding contexts (any binding / group / version strings, any `type` and
`watchEvent` strings, fields present or absent), every set of defined handler functions and every
scripted outcome of each invocation.
-/
namespace ShellOp.ShellFw.C19
open ShellOp ShellOp.ShellFw

/-- The reader recognised every statement of `hook::_get_possible_handler_names`, and `hook::run`
has the modelled statement order; the candidate names are produced without pathname expansion
(`set -f`), which is what lets the model treat names as opaque strings. -/
theorem table_fresh : Facts.c19Stale = false ∧ Facts.c19NoGlob = true ∧
    Facts.c19RunSteps = ["config-branch", "length", "for-each-index", "select-index", "select-binding",
      "candidates", "append-fallback", "run-first", "done"] := by decide

/-- How a context becomes "current", and what `hook::run` adds to the environment of the commands
it starts: the index and the binding name, nothing whose size grows with the context (one
environment string is limited to 128 KiB by `execve`; an exported context would make every `jq` of
the dispatch fail for a large one). `context::jq` slices the binding-context *file* at the exported
index on every call; `c19Stale = false` (above) says `hook::run` has no other statement. -/
theorem current_context_from_file :
    Facts.c19RunExports = ["BINDING_CONTEXT_CURRENT_INDEX", "BINDING_CONTEXT_CURRENT_BINDING"] ∧
    Facts.c19GlobalJqBody = ["jq \"$@\" ${BINDING_CONTEXT_PATH}"] ∧
    Facts.c19CtxJqBody = ["context::global::jq '.['\"${BINDING_CONTEXT_CURRENT_INDEX}\"']' | jq \"$@\""] := by
  decide

theorem lookup_type (t : String) :
    Facts.c19TypeTable.lookup t =
      if t = "Synchronization" then some [["__on_kubernetes::", "$B", "::synchronization"], ["__on_kubernetes::", "$B"]]
      else if t = "Event" then some []
      else if t = "Group" then some [["__on_group::", "$G"]]
      else if t = "Schedule" then some [["__on_schedule::", "$B"]]
      else if t = "Validating" then some [["__on_validating::", "$B"]]
      else if t = "Mutating" then some [["__on_mutating::", "$B"]]
      else if t = "Conversion" then some [["__on_conversion::", "$B", "::", "$V"], ["__on_conversion::", "$B"]]
      else none := by
  simp only [Facts.c19TypeTable, List.lookup]
  repeat' split <;> simp_all

theorem lookup_event (w : String) :
    Facts.c19EventTable.lookup w =
      if w = "Added" then some [["__on_kubernetes::", "$B", "::added"], ["__on_kubernetes::", "$B", "::added_or_modified"], ["__on_kubernetes::", "$B"]]
      else if w = "Modified" then some [["__on_kubernetes::", "$B", "::modified"], ["__on_kubernetes::", "$B", "::added_or_modified"], ["__on_kubernetes::", "$B"]]
      else if w = "Deleted" then some [["__on_kubernetes::", "$B", "::deleted"], ["__on_kubernetes::", "$B"]]
      else none := by
  simp only [Facts.c19EventTable, List.lookup]
  repeat' split <;> simp_all

/-- **C19.1** For every context (every binding, group and version string; every `type` and
`watchEvent` string, present or not) the names the script tries are exactly the documented ones,
most to least specific, followed by `__main__`. -/
theorem candidates_spec (c : Ctx) (hg : Spec.wellFormed c) :
    handlers c = some (Spec.documented c) := by
  unfold handlers possibleHandlerNames Spec.documented Ctx.bindingName
  simp only [Facts.c19StartupBinding, Facts.c19DefaultBinding]
  by_cases hb : c.binding.getD "unknown" = "onStartup"
  · simp [hb, Facts.c19StartupHandlers, instPat, instSeg, Facts.c19Fallback, String.join]
  · have hbeq : (c.binding.getD "unknown" == "onStartup") = false := by simpa using hb
    simp only [hb, hbeq]
    cases ht : c.type with
    | none => simp [Facts.c19Fallback]
    | some t =>
      simp only [lookup_type, Facts.c19EventLabel, Facts.c19GroupNameLabels, Facts.c19Fallback]
      by_cases h1 : t = "Synchronization"
      · subst h1; simp [instPat, instSeg, String.join, Ctx.bindingName, Facts.c19DefaultBinding]
      by_cases h2 : t = "Event"
      · subst h2
        simp only [lookup_event]
        cases hw : c.watchEvent with
        | none => simp
        | some w =>
          by_cases w1 : w = "Added"
          · subst w1; simp [instPat, instSeg, String.join, Ctx.bindingName, Facts.c19DefaultBinding]
          by_cases w2 : w = "Modified"
          · subst w2; simp [instPat, instSeg, String.join, Ctx.bindingName, Facts.c19DefaultBinding]
          by_cases w3 : w = "Deleted"
          · subst w3; simp [instPat, instSeg, String.join, Ctx.bindingName, Facts.c19DefaultBinding]
          simp [w1, w2, w3]
      by_cases h3 : t = "Group"
      · subst h3
        have := hg ht
        cases hgn : c.groupName with
        | none => exact absurd hgn this
        | some g => simp [instPat, instSeg, String.join, hgn]
      by_cases h4 : t = "Schedule"
      · subst h4; simp [instPat, instSeg, String.join, Ctx.bindingName, Facts.c19DefaultBinding]
      by_cases h5 : t = "Validating"
      · subst h5; simp [instPat, instSeg, String.join, Ctx.bindingName, Facts.c19DefaultBinding]
      by_cases h6 : t = "Mutating"
      · subst h6; simp [instPat, instSeg, String.join, Ctx.bindingName, Facts.c19DefaultBinding]
      by_cases h7 : t = "Conversion"
      · subst h7; simp [instPat, instSeg, String.join, Ctx.bindingName, Facts.c19DefaultBinding, Ctx.versions]
      simp [h1, h2, h3, h4, h5, h6, h7]

example : handlers { binding := some "pods", type := some "Event", watchEvent := some "Modified" } =
    some ["__on_kubernetes::pods::modified", "__on_kubernetes::pods::added_or_modified",
          "__on_kubernetes::pods", "__main__"] := by decide

example : handlers { binding := some "crd", type := some "Conversion",
                     fromVersion := "example.com/v1", toVersion := "example.com/v2" } =
    some ["__on_conversion::crd::example.com.v1::example.com.v2", "__on_conversion::crd", "__main__"] := by
  decide

/-- Excluded point of `candidates_spec`, run on the real script as a corpus case: a `Group` context
without `groupName` makes the script abort (non-zero, nothing invoked), whatever is defined. -/
theorem group_without_name_aborts (env : Env) (c : Ctx) (cs : List Ctx) (i : Nat)
    (hb : c.binding.getD "unknown" ≠ "onStartup") (ht : c.type = some "Group") (hn : c.groupName = none) :
    runFrom env i (c :: cs) = { log := [], config := false, ok := false } := by
  have hbeq : (c.binding.getD "unknown" == "onStartup") = false := by simpa using hb
  simp [runFrom, handlers, possibleHandlerNames, Ctx.bindingName, Facts.c19StartupBinding,
    Facts.c19DefaultBinding, hbeq, ht, hn, lookup_type, Facts.c19EventLabel, Facts.c19GroupNameLabels]

/-- **C19.2** (dispatch) For every list of well-formed contexts, every set of defined functions and
every outcome of the invocations, the run of the script satisfies the property predicate: for every
context in order exactly one handler is invoked — the first defined documented name — with that
context current; the run stops non-zero at the first context whose handler fails or that has no
defined candidate, and succeeds otherwise. -/
theorem dispatch_from (env : Env) (ctxs : List Ctx) (hw : ∀ c ∈ ctxs, Spec.wellFormed c) (i : Nat) :
    Spec.check env i ctxs (runFrom env i ctxs).log (runFrom env i ctxs).ok = true := by
  induction ctxs generalizing i with
  | nil => simp [runFrom, Spec.check]
  | cons c cs ih =>
    have hc := candidates_spec c (hw c (by simp))
    have ih' := ih (fun c hc => hw c (by simp [hc])) (i + 1)
    simp only [runFrom, Spec.check, hc, Spec.chosen]
    cases hf : (Spec.documented c).find? env.defined with
    | none => simp
    | some h =>
      by_cases hfail : env.fails i h = true
      · simp [hfail]
      · simp [hfail, ih']

theorem runFrom_config (env : Env) (ctxs : List Ctx) (i : Nat) : (runFrom env i ctxs).config = false := by
  induction ctxs generalizing i with
  | nil => rfl
  | cons c cs ih =>
    simp only [runFrom]
    split
    · rfl
    · split
      · rfl
      · split
        · rfl
        · exact ih (i + 1)

/-- **C19.2** The statement for `hook::run "$@"`, including the `--config` clause: the
configuration is printed, nothing else runs, status zero. -/
theorem dispatch_one (env : Env) (args : List String) (ctxs : List Ctx)
    (hw : ∀ c ∈ ctxs, Spec.wellFormed c) :
    Spec.holds env args ctxs (hookRun env args ctxs) = true := by
  unfold Spec.holds hookRun
  by_cases ha : args.head? = some "--config"
  · simp [ha, Facts.c19ConfigFlag]
  · have : (args.head? == some Facts.c19ConfigFlag) = false := by simpa [Facts.c19ConfigFlag] using ha
    simp only [this, ha]
    have := dispatch_from env ctxs hw 0
    simpa [runFrom_config] using this

/-- **C19.2**, index form: the `j`-th invocation of a run is for context number `j`, and it is the
first defined documented name of that context (so: one invocation per context, in order). -/
theorem invoked_is_chosen (env : Env) (ctxs : List Ctx) (hw : ∀ c ∈ ctxs, Spec.wellFormed c) (i : Nat) :
    ∀ j n h, (runFrom env i ctxs).log[j]? = some (n, h) →
      n = i + j ∧ ∃ c, ctxs[j]? = some c ∧ Spec.chosen env c = some h := by
  induction ctxs generalizing i with
  | nil => intro j n h; simp [runFrom]
  | cons c cs ih =>
    have hc := candidates_spec c (hw c (by simp))
    have ih' := ih (fun c hc => hw c (by simp [hc])) (i + 1)
    intro j n h
    simp only [runFrom, hc]
    cases hf : (Spec.documented c).find? env.defined with
    | none => simp
    | some g =>
      by_cases hfail : env.fails i g = true
      · cases j with
        | zero => simp [hfail, Spec.chosen, hf]; intro h1 h2; subst h1 h2; simp
        | succ j => simp [hfail]
      · cases j with
        | zero => simp [hfail, Spec.chosen, hf]; intro h1 h2; subst h1 h2; simp
        | succ j =>
          simp only [hfail, Bool.false_eq_true, if_false, List.getElem?_cons_succ]
          intro hj
          have := ih' j n h hj
          refine ⟨by omega, ?_⟩
          simpa using this.2

/-- **C19.2**, success clause: the run succeeds exactly when every context has a defined candidate
and the chosen handler of every context succeeds. -/
theorem run_ok_iff (env : Env) (ctxs : List Ctx) (hw : ∀ c ∈ ctxs, Spec.wellFormed c) (i : Nat) :
    (runFrom env i ctxs).ok = true ↔
      ∀ j c, ctxs[j]? = some c → ∃ h, Spec.chosen env c = some h ∧ env.fails (i + j) h = false := by
  induction ctxs generalizing i with
  | nil => simp [runFrom]
  | cons c cs ih =>
    have hc := candidates_spec c (hw c (by simp))
    have ih' := ih (fun c hc => hw c (by simp [hc])) (i + 1)
    simp only [runFrom, hc]
    cases hf : (Spec.documented c).find? env.defined with
    | none =>
      simp only [Bool.false_eq_true, false_iff]
      intro hall
      have := hall 0 c (by simp)
      simp [Spec.chosen, hf] at this
    | some g =>
      by_cases hfail : env.fails i g = true
      · simp only [hfail, if_true, Bool.false_eq_true, false_iff]
        intro hall
        have := hall 0 c (by simp)
        simp [Spec.chosen, hf, hfail] at this
      · simp only [hfail, Bool.false_eq_true, if_false]
        rw [ih']
        constructor
        · intro hall j c' hj
          cases j with
          | zero =>
            simp at hj; subst hj
            exact ⟨g, by simp [Spec.chosen, hf], by simpa using hfail⟩
          | succ j =>
            have := hall j c' (by simpa using hj)
            simpa [Nat.add_assoc, Nat.add_comm 1 j] using this
        · intro hall j c' hj
          have := hall (j + 1) c' (by simpa using hj)
          simpa [Nat.add_assoc, Nat.add_comm 1 j] using this

/-- The property predicate is tight: it accepts exactly one observation per input — the one the
script model produces. (So an `oracle run …` line that answers `true` pins the whole observation:
every invocation, its order, its current context, and the exit status.) -/
theorem check_determines (env : Env) (ctxs : List Ctx) (hw : ∀ c ∈ ctxs, Spec.wellFormed c) (i : Nat)
    (log : List (Nat × String)) (ok : Bool) (h : Spec.check env i ctxs log ok = true) :
    log = (runFrom env i ctxs).log ∧ ok = (runFrom env i ctxs).ok := by
  induction ctxs generalizing i log with
  | nil =>
    simp only [Spec.check, Bool.and_eq_true, List.isEmpty_iff] at h
    simp [runFrom, h.1, h.2]
  | cons c cs ih =>
    have hc := candidates_spec c (hw c (by simp))
    have ih' := ih (fun c hc => hw c (by simp [hc])) (i + 1)
    simp only [Spec.check, Spec.chosen] at h
    simp only [runFrom, hc]
    cases hf : (Spec.documented c).find? env.defined with
    | none =>
      simp only [hf, Bool.and_eq_true, List.isEmpty_iff, Bool.not_eq_true'] at h
      simp [h.1, h.2]
    | some g =>
      simp only [hf] at h
      cases log with
      | nil => simp at h
      | cons e rest =>
        obtain ⟨j, g'⟩ := e
        simp only [Bool.and_eq_true, beq_iff_eq] at h
        obtain ⟨⟨hj, hg⟩, hrest⟩ := h
        subst hj hg
        by_cases hfail : env.fails j g' = true
        · simp only [hfail, if_true, Bool.and_eq_true, List.isEmpty_iff, Bool.not_eq_true'] at hrest
          simp [hfail, hrest.1, hrest.2]
        · simp only [hfail, Bool.false_eq_true, if_false] at hrest
          have := ih' rest hrest
          simp [hfail, this.1, ← this.2]

/-! ## The standard input shared by the framework and the handlers -/

/-- **C19.3** Whatever is on the hook's standard input and whatever the handlers do with it (nothing,
`read` a line, `cat` everything), the run dispatches exactly as `runFrom` does: the loop of
`hook::run` does not take its indices (or anything else) from the stream the handlers can consume. -/
theorem dispatch_ignores_stdin (env : Env) (ctxs : List Ctx) (stdin : List String) (i : Nat) :
    (runFromIO env i stdin ctxs).1 = runFrom env i ctxs := by
  induction ctxs generalizing i stdin with
  | nil => simp [runFromIO, runFrom]
  | cons c cs ih =>
    simp only [runFromIO, runFrom]
    cases handlers c with
    | none => rfl
    | some hs =>
      dsimp only
      cases hs.find? env.defined with
      | none => rfl
      | some h =>
        dsimp only
        by_cases hfail : env.fails i h = true
        · simp [hfail]
        · simp [hfail, ih]

/-- **C19.2 + C19.3** The property predicate holds for the run with the standard input threaded
through, for every input stream and every way the handlers use it. -/
theorem dispatch_one_io (env : Env) (args : List String) (stdin : List String) (ctxs : List Ctx)
    (hw : ∀ c ∈ ctxs, Spec.wellFormed c) :
    Spec.holds env args ctxs (hookRunIO env args stdin ctxs).1 = true := by
  have h := dispatch_one env args ctxs hw
  unfold hookRunIO
  unfold hookRun at h
  by_cases ha : (args.head? == some Facts.c19ConfigFlag) = true
  · simpa [ha] using h
  · simpa [ha, dispatch_ignores_stdin] using h

/-- One stdin observation per invocation, and the handlers together see a prefix of the hook's own
standard input, in order: the framework itself consumes none of it and feeds nothing else to them. -/
theorem handlers_share_hook_stdin (env : Env) (ctxs : List Ctx) (stdin : List String) (i : Nat) :
    (runFromIO env i stdin ctxs).2.length = (runFromIO env i stdin ctxs).1.log.length ∧
    ((runFromIO env i stdin ctxs).2.filterMap id).flatten <+: stdin := by
  induction ctxs generalizing i stdin with
  | nil => simp [runFromIO]
  | cons c cs ih =>
    simp only [runFromIO]
    cases handlers c with
    | none => simp
    | some hs =>
      dsimp only
      cases hs.find? env.defined with
      | none => simp
      | some h =>
        dsimp only
        have hcons : ∀ (u : StdinUse) (s : List String),
            ((consume u s).1.getD []) ++ (consume u s).2 = s := by
          intro u s; cases u <;> cases s <;> simp [consume]
        have hc := hcons (env.reads h) stdin
        have ih' := ih (consume (env.reads h) stdin).2 (i + 1)
        by_cases hfail : env.fails i h = true
        · simp only [hfail, if_true, List.length_cons, List.length_nil, true_and]
          cases hs1 : (consume (env.reads h) stdin).1 with
          | none => simp
          | some l =>
            rw [hs1] at hc
            simp only [List.filterMap_cons, id, List.filterMap_nil, List.flatten_cons, List.flatten_nil,
              List.append_nil]
            exact ⟨_, hc⟩
        · simp only [hfail, Bool.false_eq_true, if_false, List.length_cons, ih'.1, true_and]
          obtain ⟨t, ht⟩ := ih'.2
          cases hs1 : (consume (env.reads h) stdin).1 with
          | none =>
            rw [hs1] at hc
            simp only [List.filterMap_cons, id]
            refine ⟨t, ?_⟩
            rw [ht]; simpa using hc
          | some l =>
            rw [hs1] at hc
            simp only [List.filterMap_cons, id, List.flatten_cons]
            refine ⟨t, ?_⟩
            rw [List.append_assoc, ht]; simpa using hc

/-! Non-vacuity: the first handler reads everything there is on the standard input, the second one
line; all three contexts are dispatched, to the handlers the property names. -/
example :
    let env : Env := { defined := fun n => n == "__on_kubernetes::pods" || n == "__main__",
                       fails := fun _ _ => false,
                       reads := fun n => if n == "__main__" then .line else .all }
    hookRunIO env [] ["1", "2"] [{ binding := some "pods", type := some "Synchronization" },
                                 { binding := some "cron", type := some "Schedule" },
                                 { binding := some "pods", type := some "Event", watchEvent := some "Added" }]
      = ({ log := [(0, "__on_kubernetes::pods"), (1, "__main__"), (2, "__on_kubernetes::pods")],
           config := false, ok := true }, [some ["1", "2"], some [], some []]) := by
  decide

/-! Non-vacuity: three contexts, the second handler fails — two invocations, non-zero status. -/
example :
    let env : Env := { defined := fun n => n == "__on_kubernetes::pods" || n == "__main__",
                       fails := fun i _ => i == 1 }
    hookRun env [] [{ binding := some "pods", type := some "Synchronization" },
                    { binding := some "cron", type := some "Schedule" },
                    { binding := some "pods", type := some "Event", watchEvent := some "Added" }]
      = { log := [(0, "__on_kubernetes::pods"), (1, "__main__")], config := false, ok := false } := by
  decide

/-! ## The selection as seen by whatever the handler starts -/

/-- **C19.4** ("with that context selected as current", every place a handler can look from.)
During the iteration for context number `i` the index variable holds `i`, and `context::jq` returns
the context at position `i` — in the handler's own shell and its forks AND in every new program the
handler starts (a helper script that loads the library again, `bash -c`, a program that is not
bash), whatever selection the hook process itself inherited from its caller. This is where the facts
"the index is assigned with `export`" and "`context::jq` expands the plain variable" are used. -/
theorem current_seen (inherited : Option Nat) (i : Nat) (l : Look) :
    indexSeen inherited i l = some i ∧ currentSeen inherited i l = some i := by
  have h1 : "select-index" ∈ Facts.c19RunSteps := by decide
  have h2 : indexVar ∈ Facts.c19RunExports := by decide
  cases l <;> simp [currentSeen, indexSeen, h1, h2]

/-- The expansion of the index in `context::jq` has no default: code that runs outside a selection
(no index in its environment) fails instead of silently reading context 0. -/
theorem no_default_context : Facts.c19CtxIndexDefault = none := by decide

/-- **C19.4** for a whole run: for every list of contexts, every set of defined functions, every
outcome of the invocations, every assignment of looks (own shell / fork / new program) to the
handlers and every inherited selection, what the invoked handlers see satisfies the clause
`Spec.currentOk`: invocation number `n` finds index `n` and the context at position `n`. -/
theorem current_for_every_look (env : Env) (inherited : Option Nat) (looks : String → Look)
    (ctxs : List Ctx) (i : Nat) :
    Spec.currentOk i (viewsOf inherited looks (runFrom env i ctxs).log) = true := by
  induction ctxs generalizing i with
  | nil => simp [runFrom, viewsOf, Spec.currentOk]
  | cons c cs ih =>
    simp only [runFrom]
    cases handlers c with
    | none => simp [viewsOf, Spec.currentOk]
    | some hs =>
      dsimp only
      cases hs.find? env.defined with
      | none => simp [viewsOf, Spec.currentOk]
      | some h =>
        dsimp only
        have hs := current_seen inherited i (looks h)
        have ih' := ih (i + 1)
        unfold viewsOf at ih'
        by_cases hfail : env.fails i h = true
        · simp [hfail, viewsOf, Spec.currentOk, hs.1, hs.2]
        · simp [hfail, viewsOf, Spec.currentOk, hs.1, hs.2, ih']

/-- Index form, tied to the dispatch: the `j`-th invocation is for context `j`, it is the chosen
handler of that context, and from wherever it looks `context::jq` returns that very context. -/
theorem invoked_sees_own_context (env : Env) (ctxs : List Ctx) (hw : ∀ c ∈ ctxs, Spec.wellFormed c)
    (inherited : Option Nat) (l : Look) :
    ∀ (j n : Nat) (h : String), (runFrom env 0 ctxs).log[j]? = some (n, h) →
      ∃ c, ctxs[j]? = some c ∧ Spec.chosen env c = some h ∧
        (currentSeen inherited n l).bind (fun k : Nat => ctxs[k]?) = some c := by
  intro j n h hj
  obtain ⟨hn, c, hc, hch⟩ := invoked_is_chosen env ctxs hw 0 j n h hj
  refine ⟨c, hc, hch, ?_⟩
  have : n = j := by omega
  subst this
  simp [(current_seen inherited n l).2, hc]

/-- `Spec.currentOk` is tight: it rejects an observation in which some program saw another context. -/
example : Spec.currentOk 0 [(0, some 0, some 0), (1, none, some 0), (2, none, some 0)] = false := by decide

/-! Non-vacuity: three contexts handled by one function that looks from a new program, nothing
inherited: each invocation sees its own index and context. -/
example :
    let env : Env := { defined := fun n => n == "__main__", fails := fun _ _ => false }
    viewsOf none (fun _ => .exec)
      (runFrom env 0 [{ binding := some "pods", type := some "Event", watchEvent := some "Added" },
                      { binding := some "pods", type := some "Event", watchEvent := some "Added" },
                      { binding := some "cron", type := some "Schedule" }]).log
      = [(0, some 0, some 0), (1, some 1, some 1), (2, some 2, some 2)] := by
  decide

/-! ## Sixth wave: the order of "load the library" and "define the functions"; what runs in the main shell -/

/-- Loading the bundled library defines exactly these functions — none of them in the hook's namespace
(`__config__`, `__main__`, `__on_…`: names that start with two underscores) — and nothing in the
library binds or removes functions in another way (`eval`, `alias`, `unset`, `declare -f` would set
`c19Stale`, see `table_fresh`). -/
theorem library_functions :
    Facts.c19LibFunctions = ["backtrace", "context::global::jq", "context::jq", "context::get", "context::has",
      "context::is_true", "context::is_false", "context::is_null", "context::_convert_user_path_to_jq_path",
      "context::_dirname", "context::_basename", "hook::run", "hook::_get_possible_handler_names",
      "hook::_run_first_available_handler"] ∧
    Facts.c19LibFunctions.all (fun f => !hookName f) = true := by decide

theorem hookName_append (p s : String) (h : hookName p = true) : hookName (p ++ s) = true := by
  unfold hookName at *
  rw [String.toList_append]
  match hp : p.toList with
  | [] => simp [hp] at h
  | [a] => simp [hp] at h
  | a :: b :: r => simpa [hp] using h

theorem hn0 : hookName "__main__" = true := by decide
theorem hn1 : hookName "__on_startup" = true := by decide
theorem hnk (s : String) : hookName ("__on_kubernetes::" ++ s) = true := hookName_append _ _ (by decide)
theorem hng (s : String) : hookName ("__on_group::" ++ s) = true := hookName_append _ _ (by decide)
theorem hns (s : String) : hookName ("__on_schedule::" ++ s) = true := hookName_append _ _ (by decide)
theorem hnv (s : String) : hookName ("__on_validating::" ++ s) = true := hookName_append _ _ (by decide)
theorem hnm (s : String) : hookName ("__on_mutating::" ++ s) = true := hookName_append _ _ (by decide)
theorem hnc (s : String) : hookName ("__on_conversion::" ++ s) = true := hookName_append _ _ (by decide)

/-- Every name the property mentions on the hook's side — each documented candidate of each context
(any binding, group and version strings) and `__main__` — lies in the hook's namespace. -/
theorem documented_in_hook_namespace (c : Ctx) : ∀ n ∈ Spec.documented c, hookName n = true := by
  have key : (Spec.documented c).all hookName = true := by
    unfold Spec.documented
    simp only []
    repeat' split
    all_goals simp [hookName_append, hn0, hn1, hnk, hng, hns, hnv, hnm, hnc]
  intro n hn
  exact (List.all_eq_true.mp key) n hn

theorem config_in_hook_namespace : hookName Facts.c19ConfigFn = true ∧ Facts.c19ConfigFn = "__config__" := by decide

theorem bound_hook_name (n : String) (hl : Facts.c19LibFunctions.contains n = false) :
    ∀ (segs : List Seg) (o : Option Owner),
      bound n segs o = if definesIn segs n then some .hook else o := by
  intro segs
  induction segs with
  | nil => intro o; simp [bound, definesIn]
  | cons sg rest ih =>
    intro o
    cases sg with
    | lib =>
      simp only [bound, hl, Bool.false_eq_true, if_false]
      rw [ih]
      simp [definesIn]
    | defs ns =>
      simp only [bound]
      rw [ih]
      have hd : definesIn (Seg.defs ns :: rest) n = (ns.contains n || definesIn rest n) := by simp [definesIn]
      rw [hd]
      cases ns.contains n <;> cases definesIn rest n <;> simp

/-- **C19.5** For every script layout — every sequence of "the hook defines functions" and "the library
is loaded", in any order and any number of times — and every name of the hook's namespace: the function
bound to that name when `hook::run` is called is the hook's own definition if the hook defined it
anywhere, and no function otherwise. Loading the library never replaces, shadows or supplies
`__config__`, `__main__` or a handler. -/
theorem own_definitions_survive_loading (segs : List Seg) (n : String) (hn : hookName n = true) :
    boundAfter segs n = if definesIn segs n then some .hook else none := by
  have hall := library_functions.2
  have hl : Facts.c19LibFunctions.contains n = false := by
    cases hc : Facts.c19LibFunctions.contains n with
    | false => rfl
    | true =>
      have hm : n ∈ Facts.c19LibFunctions := by simpa using hc
      have := (List.all_eq_true.mp hall) n hm
      simp [hn] at this
  exact bound_hook_name n hl segs none

/-- Tightness of the model: a name the library does define is re-bound by a later load (so the theorem
above is about the namespace, not about `bound` ignoring the library), and the usual and the unusual
layout both keep the hook's `__config__`. -/
example : boundAfter [.defs ["context::jq", "__config__"], .lib] "context::jq" = some .lib ∧
    boundAfter [.defs ["context::jq", "__config__"], .lib] "__config__" = some .hook ∧
    boundAfter [.lib, .defs ["__config__"], .lib] "__config__" = some .hook ∧
    boundAfter [.lib, .defs ["__main__"]] "__config__" = none := by decide

theorem find_congr {p q : String → Bool} : ∀ (l : List String), (∀ n ∈ l, p n = q n) →
    l.find? p = l.find? q
  | [], _ => rfl
  | a :: l, h => by
    have ha := h a (by simp)
    have ih := find_congr l (fun n hn => h n (by simp [hn]))
    simp [List.find?, ha, ih]

theorem runFromIO_congr (e1 e2 : Env) (hf : e1.fails = e2.fails) (hr : e1.reads = e2.reads)
    (ctxs : List Ctx) (hd : ∀ c ∈ ctxs, ∀ hs, handlers c = some hs → ∀ n ∈ hs, e1.defined n = e2.defined n)
    (i : Nat) (stdin : List String) : runFromIO e1 i stdin ctxs = runFromIO e2 i stdin ctxs := by
  induction ctxs generalizing i stdin with
  | nil => simp [runFromIO]
  | cons c cs ih =>
    have ih' := ih (fun c hc => hd c (by simp [hc]))
    simp only [runFromIO]
    cases hh : handlers c with
    | none => rfl
    | some hs =>
      dsimp only
      rw [find_congr hs (hd c (by simp) hs hh)]
      cases hs.find? e2.defined with
      | none => rfl
      | some h =>
        dsimp only
        rw [hf, hr, ih']

/-- **C19.6** (the property for every layout) For every sequence of definition / library-loading steps
in which the hook defines `__config__` somewhere, every list of well-formed contexts, every outcome and
every standard input: `hook::run` of that script satisfies the property predicate with respect to the
functions *the hook script defines* — `--config` prints the hook's configuration, every context goes to
the first documented name the hook defined. -/
theorem dispatch_for_every_layout (segs : List Seg) (env : Env) (args : List String) (stdin : List String)
    (ctxs : List Ctx) (hw : ∀ c ∈ ctxs, Spec.wellFormed c)
    (hcfg : definesIn segs "__config__" = true) (hdef : ∀ n, env.defined n = definesIn segs n) :
    Spec.holds env args ctxs (hookRunL segs env args stdin ctxs).1 = true := by
  have h := dispatch_one_io env args stdin ctxs hw
  have hrun : hookRunL segs env args stdin ctxs = hookRunIO env args stdin ctxs := by
    unfold hookRunL hookRunIO
    by_cases ha : (args.head? == some Facts.c19ConfigFlag) = true
    · have hb := own_definitions_survive_loading segs Facts.c19ConfigFn config_in_hook_namespace.1
      rw [config_in_hook_namespace.2] at hb
      simp [ha, config_in_hook_namespace.2, hb, hcfg]
    · simp only [ha, Bool.false_eq_true, if_false]
      refine runFromIO_congr { env with defined := fun n => boundAfter segs n == some Owner.hook } env rfl rfl ctxs ?_ 0 stdin
      intro c hc hs hh n hn
      have hdoc : hs = Spec.documented c := by
        have := candidates_spec c (hw c hc)
        rw [hh] at this
        exact Option.some.inj this
      subst hdoc
      have hnn := documented_in_hook_namespace c n hn
      have hb := own_definitions_survive_loading segs n hnn
      show (boundAfter segs n == some Owner.hook) = env.defined n
      rw [hb, hdef n]
      cases definesIn segs n <;> simp
  rw [hrun]
  exact h

/-- Non-vacuity: the library is loaded after the definitions; `--config` prints, and a context is
dispatched to the hook's `__main__`. -/
example :
    let segs : List Seg := [.defs ["__config__", "__main__"], .lib]
    let env : Env := { defined := fun n => definesIn segs n, fails := fun _ _ => false }
    (hookRunL segs env ["--config"] [] []).1 = { config := true } ∧
    (hookRunL segs env [] [] [{ binding := some "cron", type := some "Schedule" }]).1 =
      { log := [(0, "__main__")] } := by decide

/-- What runs in the hook's main shell between two iterations of the loop of `hook::run`:
`hook::_run_first_available_handler`, statement by statement. Its only non-local name is the loop
variable `handler`; the handler itself runs in a sub-shell `( … )`; nothing here assigns the loop
variable `i` of `hook::run`, whose header (`for-each-index` of `table_fresh`) takes its values from a
word list that is expanded once. -/
theorem runner_in_main_shell :
    Facts.c19RunnerBody = ["local handlers=()", "read -r -d '' -a handlers <<< \"$1\" || true",
      "for handler in \"${handlers[@]}\"; do", "if type \"$handler\" >/dev/null 2>&1; then",
      "(\"$handler\")", "return $?", "fi", "done",
      ">&2 printf \"ERROR: Can't find any handler from the list: %s\\n.\" \"$(sed -E 's/[[:space:]]+/, /g' <<< \"${handlers[*]}\")\"",
      "return 1"] := by rfl

