import ShellOp.Model.Metrics
/-!
# C16 — hook metrics: validated as a batch; grouped metrics replaced, not accumulated
-/
namespace ShellOp.Metrics.C16
open ShellOp ShellOp.Metrics

/-- The validation tables are the documented ones. -/
theorem action_tables : Facts.c16Stale = false ∧ Facts.c16UngroupedActions = ["set", "add", "observe"] ∧
    Facts.c16GroupedActions = ["expire", "set", "add"] := by decide

/-- **C16.1** If any operation of the batch is invalid nothing is applied and the call fails
(whatever the state, the labels and the map order). -/
theorem invalid_batch_noop (st : State) (common : Labels) (ops : List Op) (order : List Nat)
    (h : ∃ op ∈ ops, validOp op = false) : sendBatch st common ops order = (st, false) := by
  obtain ⟨op, hm, hv⟩ := h
  have : validBatch ops = false := by
    simp only [validBatch, List.all_eq_false]
    exact ⟨op, hm, by simp [hv]⟩
  simp [sendBatch, this]

end ShellOp.Metrics.C16
