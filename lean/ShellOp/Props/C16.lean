import ShellOp.Proofs.MetricsRepl
import ShellOp.Proofs.TransMetrics
import ShellOp.Proofs.MetricsU
import ShellOp.Proofs.MetricsSim
import ShellOp.Proofs.MetricsSimU
import ShellOp.Proofs.MetricsKey
import ShellOp.Proofs.MetricsText
import ShellOp.Model.MetricsNames
/-!
# C16 — hook metrics: validated as a batch; grouped metrics replaced, not accumulated

Theorems over `Model/Metrics` (the code-shaped model of `SendBatch` / `applyGroupOperations` /
`sendBatchV0`, the grouped vault with collections keyed by label values only, the ungrouped vecs).
Quantifiers: every state (= every history), every batch, every common-label set (hook), every
iteration order `order` of the Go map `groupedOps` unless a hypothesis says otherwise.

What holds only under hypotheses is named `…_partial`; the excluded inputs are the recorded
findings, each with a kernel-checked witness below and a replay case in the harness.
The property itself, as a reference registry, is `Spec.applyBatch` (evaluated by the `oracle` lines
on every scrape of the real storage).
-/
namespace ShellOp.Metrics.C16
open ShellOp ShellOp.Metrics

/-- The validation tables are the documented ones. -/
theorem action_tables : Facts.c16Stale = false ∧ Facts.c16UngroupedActions = ["set", "add", "observe"] ∧
    Facts.c16GroupedActions = ["expire", "set", "add"] := by decide

/-- **C16.1** If any operation of the batch is invalid nothing is applied and the call fails
(whatever the state, the labels and the map order). -/
theorem invalid_batch_noop (st : State) (common : Labels) (ops : List Op) (order : List Nat)
    (h : ∃ op ∈ ops, validOp op = false) : sendBatch st common ops order = (st, false) := by
  obtain ⟨op, hm, hv⟩ := h
  have : validBatch ops = false := by
    simp only [validBatch, List.all_eq_false]
    exact ⟨op, hm, by simp [hv]⟩
  simp [sendBatch, this]

example : sendBatch {} [(1, 7)] [{ name := 2, action := "set", value := some 4 },
    { name := 3, action := "bogus", value := some 2 }, { group := 5, action := "expire" }] [5] = ({}, false) := by
  decide

theorem foldl_groups_u (common : Labels) (ops : List Op) (order : List Nat) (st : State) :
    (order.foldl (fun st g => applyGroupOperations common st g (ops.filter (·.group == g))) st).vecs = st.vecs ∧
    (order.foldl (fun st g => applyGroupOperations common st g (ops.filter (·.group == g))) st).uentries = st.uentries := by
  induction order generalizing st with
  | nil => exact ⟨rfl, rfl⟩
  | cons g gs ih =>
    simp only [List.foldl_cons]
    have h1 := applyGroupOperations_u common st g (ops.filter (·.group == g))
    have h2 := ih (applyGroupOperations common st g (ops.filter (·.group == g)))
    exact ⟨h2.1.trans h1.1, h2.2.trans h1.2⟩

/-- **C16.3c** Ungrouped series are left untouched by the grouped part of any batch: a batch
without ungrouped operations leaves every ungrouped vec and series exactly as it was. -/
theorem ungrouped_untouched (st : State) (common : Labels) (ops : List Op) (order : List Nat)
    (hg : ∀ op ∈ ops, op.group ≠ 0) :
    (sendBatch st common ops order).1.vecs = st.vecs ∧ (sendBatch st common ops order).1.uentries = st.uentries := by
  unfold sendBatch
  split
  · exact ⟨rfl, rfl⟩
  · have hnone : ops.filter (·.group == 0) = [] := by
      simp only [List.filter_eq_nil_iff]; intro op hop; simpa using hg op hop
    simp only [hnone, sendBatchV0]
    exact foldl_groups_u common ops order st

/-- **C16.3b′** Grouped series are left untouched by ungrouped operations: a batch without grouped
operations (the Go map of groups is then empty) leaves every collector and grouped series as it was. -/
theorem grouped_untouched_by_ungrouped (st : State) (common : Labels) (ops : List Op) :
    (sendBatch st common ops []).1.colls = st.colls ∧ (sendBatch st common ops []).1.gentries = st.gentries := by
  unfold sendBatch
  split
  · exact ⟨rfl, rfl⟩
  · simpa using sendBatchV0_g common st (ops.filter (·.group == 0))

/-- **C16.3b** `other_groups_untouched` (partial: hypothesis `NoCrossGroupSeries` for `g'`): a
group `g'` that the batch does not mention keeps exactly its series, with their values, provided
no write operation of the batch addresses a series (name, label values) that `g'` owns. Without the
hypothesis the statement is false — `cross_group_witness`. -/
theorem other_groups_untouched_partial (st : State) (common : Labels) (ops : List Op) (order : List Nat)
    (g' : Nat) (hg' : g' ∉ order)
    (hno : ∀ op ∈ ops, op.group ∈ order → op.action ≠ "expire" →
      ∀ e ∈ owned st.gentries g', (e.name, e.key) ≠ opIdent common op) :
    owned (sendBatch st common ops order).1.gentries g' = owned st.gentries g' := by
  unfold sendBatch
  split
  · rfl
  · simp only
    rw [(sendBatchV0_g common _ _).2]
    -- generalise the set of groups the hypothesis speaks about
    suffices h : ∀ (todo : List Nat) (s : State), (∀ g ∈ todo, g ∈ order) → owned s.gentries g' = owned st.gentries g' →
        owned (todo.foldl (fun st g => applyGroupOperations common st g (ops.filter (·.group == g))) s).gentries g'
          = owned st.gentries g' from h order st (fun _ h => h) rfl
    intro todo
    induction todo with
    | nil => intro s _ hs; exact hs
    | cons g gs ih =>
      intro s hsub hs
      simp only [List.foldl_cons]
      have hgo : g ∈ order := hsub g (by simp)
      have hne : g ≠ g' := fun h => hg' (h ▸ hgo)
      have h1 := applyGroupOperations_owned_other common s g g' (ops.filter (·.group == g)) hne
        (fun op hop hx e he => by
          have hm := List.mem_filter.mp hop
          have hgr : op.group = g := by simpa using hm.2
          rw [hs] at he
          exact hno op hm.1 (hgr ▸ hgo) hx e he)
      exact ih _ (fun x hx => hsub x (List.mem_cons_of_mem _ hx)) (h1.trans hs)

theorem foldl_groups_IdIn_other (common : Labels) (ops : List Op) (order : List Nat) (g : Nat)
    (hg : g ∉ order) (st : State) (ids) (h : IdIn st.gentries g ids) :
    IdIn (order.foldl (fun st g => applyGroupOperations common st g (ops.filter (·.group == g))) st).gentries g ids := by
  induction order generalizing st with
  | nil => exact h
  | cons g2 gs ih =>
    simp only [List.foldl_cons]
    have hne : g2 ≠ g := fun e => hg (by simp [e])
    exact ih (fun hm => hg (List.mem_cons_of_mem _ hm)) _
      (applyGroupOperations_IdIn_other common st g g2 hne _ ids h)

/-- **C16.3a** `group_replacement`, the "disappear" half, without any hypothesis: after a valid
batch, for every group `g` mentioned (visited once by the map iteration), every series `g` owns
was addressed by a write operation of this batch for `g` — nothing reported earlier under `g`
survives unless the batch writes it again. -/
theorem group_replacement_no_stale (st : State) (common : Labels) (ops : List Op) (order : List Nat)
    (g : Nat) (hg : g ∈ order) (hnd : order.Nodup) :
    ∀ e ∈ owned (sendBatch st common ops order).1.gentries g,
      (e.name, e.key) ∈ writeIdents common (ops.filter (·.group == g)) ∨ validBatch ops = false := by
  unfold sendBatch
  split
  · intro e _; right; simp_all
  · simp only
    rw [(sendBatchV0_g common _ _).2]
    intro e he
    left
    obtain ⟨pre, post, rfl⟩ := List.append_of_mem hg
    have hpost : g ∉ post := by
      have := List.nodup_append.mp hnd
      have h2 := (List.nodup_cons.mp this.2.1).1
      exact h2
    simp only [List.foldl_append, List.foldl_cons] at he
    exact foldl_groups_IdIn_other common ops post g hpost _ _
      (applyGroupOperations_IdIn common _ g (ops.filter (·.group == g))) e he

/-- **C16.4** `explicit_expire`: a batch that only expires group `g` leaves `g` without series. -/
theorem explicit_expire (st : State) (common : Labels) (g : Nat) (hg : g ≠ 0) :
    owned (sendBatch st common [{ group := g, action := "expire" }] [g]).1.gentries g = [] := by
  have hv : validBatch [{ group := g, action := "expire" }] = true := by
    simp [validBatch, validOp, hg, Facts.c16GroupedActions]
  have := group_replacement_no_stale st common [{ group := g, action := "expire" }] [g] g (by simp) (by simp)
  rw [List.eq_nil_iff_forall_not_mem]
  intro e he
  rcases this e he with h | h
  · simp [writeIdents] at h
  · simp [hv] at h

/-! ## Values: the statement and what is proved of it -/

/-- what `g` owns, as an association (name, labels) ↦ value (`ownedLookup` looks up in it). -/
def ownedAssoc (st : State) (g : Nat) : List ((Nat × Labels) × Int) :=
  (owned st.gentries g).map fun e => ((e.name, e.key), e.val)

/-- **C16.3a** `group_replacement` (partial: hypotheses `NoCrossGroupSeries`, `NoNameClash`, one
type per name — the recorded finding classes): for a batch of group `g` (valid, as the parser hands
it over), the series owned by `g` afterwards are exactly those the batch describes, with the values
given: for every (name, labels), what `g` owns there is what `Spec.written` says — the last `set`,
the sum of the `add`s, nothing for what was written before an explicit `expire`, nothing for
anything the batch does not write (whatever `g` reported earlier). -/
theorem group_replacement_partial (st : State) (common : Labels) (ops : List Op) (g : Nat)
    (hp : PartOK g ops)
    (hNoCross : ∀ op ∈ ops, op.action ≠ "expire" → ∀ e ∈ st.gentries, (e.name, e.key) = opIdent common op → e.group = g)
    (hNoClash : ∀ op ∈ ops, op.action ≠ "expire" → getOrCreateColl st op.name (opFam op) ≠ none) :
    ∀ k, ownedLookup (sendBatch st common ops [g]).1.gentries g k = (Spec.written common ops).lookup k := by
  have hv : validBatch ops = true := by
    simp only [validBatch, List.all_eq_true]; exact hp.valid
  have hfg : ops.filter (·.group == g) = ops := by
    simp only [List.filter_eq_self]; intro op hop; simp [hp.grp op hop]
  have hf0 : ops.filter (·.group == 0) = [] := by
    simp only [List.filter_eq_nil_iff]; intro op hop; rw [hp.grp op hop]; simpa using hp.gne
  have hinv : ReplInv common g ops st :=
    ⟨hNoCross, fun op hop hx => (getOrCreateColl_ne_none st op.name (opFam op)).mp (hNoClash op hop hx)⟩
  intro k
  have := foldl_written common g ops hp ops (fun _ h => h) (expireGroup st g) [] hinv.expire
    (fun k => by rw [ownedLookup_expire]; rfl) k
  simpa [sendBatch, hv, hfg, hf0, sendBatchV0, applyGroupOperations, Spec.written] using this

/-- what a batch that mentions several groups must satisfy (the finding classes, stated on the
batch): valid and as the parser hands it over; two different groups never write the same series
(`NoCrossGroupSeries` inside the batch); one type per name among the grouped writes. -/
structure BatchOK (common : Labels) (ops : List Op) : Prop where
  valid : ∀ op ∈ ops, validOp op = true
  norm : ∀ op ∈ ops, Normalized op
  disj : ∀ op ∈ ops, ∀ op' ∈ ops, op.group ≠ 0 → op'.group ≠ 0 → op.group ≠ op'.group →
    op.action ≠ "expire" → op'.action ≠ "expire" → opIdent common op ≠ opIdent common op'
  same : ∀ op ∈ ops, ∀ op' ∈ ops, op.group ≠ 0 → op'.group ≠ 0 → op.name = op'.name →
    op.action ≠ "expire" → op'.action ≠ "expire" → op.action = op'.action

theorem foldl_pre_ReplInv (common : Labels) (ops : List Op) (g : Nat) (all : List Op) (pre : List Nat)
    (hpre : ∀ g2 ∈ pre, g2 ≠ g ∧ OtherOK common all (ops.filter (·.group == g2))) (s : State)
    (h : ReplInv common g all s) :
    ReplInv common g all (pre.foldl (fun st g2 => applyGroupOperations common st g2 (ops.filter (·.group == g2))) s) := by
  induction pre generalizing s with
  | nil => exact h
  | cons g2 rest ih =>
    simp only [List.foldl_cons]
    exact ih (fun x hx => hpre x (List.mem_cons_of_mem _ hx)) _
      (h.other_group g2 (hpre g2 (by simp)).1 _ (hpre g2 (by simp)).2)

theorem foldl_post_owned (common : Labels) (ops : List Op) (g : Nat) (all : List Op) (post : List Nat)
    (hpost : ∀ g2 ∈ post, g2 ≠ g ∧ OtherOK common all (ops.filter (·.group == g2))) (s : State)
    (hid : IdIn s.gentries g (writeIdents common all)) :
    owned (post.foldl (fun st g2 => applyGroupOperations common st g2 (ops.filter (·.group == g2))) s).gentries g
      = owned s.gentries g := by
  induction post generalizing s with
  | nil => rfl
  | cons g2 rest ih =>
    simp only [List.foldl_cons]
    have h1 := ownedLookup_other_group common s g g2 (hpost g2 (by simp)).1 all _ hid (hpost g2 (by simp)).2
    rw [ih (fun x hx => hpost x (List.mem_cons_of_mem _ hx)) _ (by intro e he; rw [h1] at he; exact hid e he), h1]

/-- **C16.3a** `group_replacement` for a batch that mentions several groups, for every iteration
order of the Go map (each group visited once): under `BatchOK` and, for the group `g` looked at,
`NoCrossGroupSeries` / `NoNameClash` against the state, what `g` owns after the batch is exactly
what its operations describe (`Spec.written`), with the values given. -/
theorem group_replacement_multi_partial (st : State) (common : Labels) (ops : List Op) (order : List Nat)
    (g : Nat) (hb : BatchOK common ops) (hg : g ∈ order) (hnd : order.Nodup) (h0 : 0 ∉ order)
    (hNoCross : ∀ op ∈ ops, op.group = g → op.action ≠ "expire" →
      ∀ e ∈ st.gentries, (e.name, e.key) = opIdent common op → e.group = g)
    (hNoClash : ∀ op ∈ ops, op.group = g → op.action ≠ "expire" →
      getOrCreateColl st op.name (opFam op) ≠ none) :
    ∀ k, ownedLookup (sendBatch st common ops order).1.gentries g k =
      (Spec.written common (ops.filter (·.group == g))).lookup k := by
  have hv : validBatch ops = true := by
    simp only [validBatch, List.all_eq_true]; exact hb.valid
  have hgne : g ≠ 0 := fun h => h0 (h ▸ hg)
  -- the part of g and the parts of the others
  have hmemf : ∀ {x : Nat} {op : Op}, op ∈ ops.filter (·.group == x) → op ∈ ops ∧ op.group = x := by
    intro x op h; have := List.mem_filter.mp h; exact ⟨this.1, by simpa using this.2⟩
  have hp : PartOK g (ops.filter (·.group == g)) :=
    ⟨fun op h => hb.valid op (hmemf h).1, fun op h => hb.norm op (hmemf h).1, fun op h => (hmemf h).2, hgne,
     fun op h op' h' hn hx hx' => hb.same op (hmemf h).1 op' (hmemf h').1 (by rw [(hmemf h).2]; exact hgne)
       (by rw [(hmemf h').2]; exact hgne) hn hx hx'⟩
  have hother : ∀ g2 ∈ order, g2 ≠ g → OtherOK common (ops.filter (·.group == g)) (ops.filter (·.group == g2)) := by
    intro g2 hg2 hne
    have hg2ne : g2 ≠ 0 := fun h => h0 (h ▸ hg2)
    refine ⟨fun op h => hb.valid op (hmemf h).1, fun op h => hb.norm op (hmemf h).1,
      fun op h => by rw [(hmemf h).2]; exact hg2ne, ?_, ?_⟩
    · intro op2 h2 hx2 op h hx
      exact hb.disj op (hmemf h).1 op2 (hmemf h2).1 (by rw [(hmemf h).2]; exact hgne)
        (by rw [(hmemf h2).2]; exact hg2ne) (by rw [(hmemf h).2, (hmemf h2).2]; exact fun e => hne e.symm) hx hx2
    · intro op2 h2 hx2 op h hx hn
      exact hb.same op (hmemf h).1 op2 (hmemf h2).1 (by rw [(hmemf h).2]; exact hgne)
        (by rw [(hmemf h2).2]; exact hg2ne) hn hx hx2
  have hinv : ReplInv common g (ops.filter (·.group == g)) st :=
    ⟨fun op h hx => hNoCross op (hmemf h).1 (hmemf h).2 hx,
     fun op h hx => (getOrCreateColl_ne_none st op.name (opFam op)).mp (hNoClash op (hmemf h).1 (hmemf h).2 hx)⟩
  obtain ⟨pre, post, rfl⟩ := List.append_of_mem hg
  have hnd' := List.nodup_append.mp hnd
  have hgpost : g ∉ post := (List.nodup_cons.mp hnd'.2.1).1
  have hgpre : g ∉ pre := fun h => hnd'.2.2 g h g (by simp) rfl
  have hpre : ∀ g2 ∈ pre, g2 ≠ g ∧ OtherOK common (ops.filter (·.group == g)) (ops.filter (·.group == g2)) :=
    fun g2 h => ⟨fun e => hgpre (e ▸ h), hother g2 (by simp [h]) (fun e => hgpre (e ▸ h))⟩
  have hpost : ∀ g2 ∈ post, g2 ≠ g ∧ OtherOK common (ops.filter (·.group == g)) (ops.filter (·.group == g2)) :=
    fun g2 h => ⟨fun e => hgpost (e ▸ h), hother g2 (by simp [h]) (fun e => hgpost (e ▸ h))⟩
  intro k
  simp only [sendBatch, hv, Bool.not_true, Bool.false_eq_true, if_false, (sendBatchV0_g common _ _).2,
    List.foldl_append, List.foldl_cons]
  generalize hs1 : pre.foldl (fun st g2 => applyGroupOperations common st g2 (ops.filter (·.group == g2))) st = s1
  have hinv1 : ReplInv common g (ops.filter (·.group == g)) s1 := by
    rw [← hs1]; exact foldl_pre_ReplInv common ops g _ pre hpre st hinv
  have hid2 := applyGroupOperations_IdIn common s1 g (ops.filter (·.group == g))
  unfold ownedLookup
  rw [foldl_post_owned common ops g _ post hpost _ hid2]
  have := foldl_written common g _ hp (ops.filter (·.group == g)) (fun _ h => h) (expireGroup s1 g) []
    hinv1.expire (fun k => by rw [ownedLookup_expire]; rfl) k
  simpa [applyGroupOperations, Spec.written, ownedLookup] using this

/-- **C16.3 against the reference registry** (what the `oracle send` line evaluates): if the real
store and the reference registry `ref` agree on what every group holds, then after any valid batch
that stays outside the finding classes they still agree — for the groups the batch mentions (their
series are replaced by exactly those of the batch) and for all others (untouched), whatever the
iteration order of the Go map. -/
theorem grouped_view_refines_partial (st : State) (ref : List Spec.RSeries) (common : Labels) (ops : List Op)
    (order : List Nat) (hb : BatchOK common ops)
    (hnd : order.Nodup) (hord : ∀ g, g ∈ order ↔ g ∈ groupsOf ops)
    (hNoCross : ∀ op ∈ ops, op.group ≠ 0 → op.action ≠ "expire" →
      ∀ e ∈ st.gentries, (e.name, e.key) = opIdent common op → e.group = op.group)
    (hNoClash : ∀ op ∈ ops, op.group ≠ 0 → op.action ≠ "expire" →
      getOrCreateColl st op.name (opFam op) ≠ none)
    (hsim : ∀ g, g ≠ 0 → ∀ k, ownedLookup st.gentries g k = rview ref g k) :
    ∀ g, g ≠ 0 → ∀ k, ownedLookup (sendBatch st common ops order).1.gentries g k =
      rview (Spec.applyBatch ref common ops).1 g k := by
  have hv : validBatch ops = true := by
    simp only [validBatch, List.all_eq_true]; exact hb.valid
  have h0 : 0 ∉ order := fun h => ((mem_groupsOf ops 0).mp ((hord 0).mp h)).1 rfl
  intro g hg k
  rw [rview_applyBatch ref common ops hv g hg k]
  by_cases hm : g ∈ groupsOf ops
  · simp only [hm, if_true]
    exact group_replacement_multi_partial st common ops order g hb ((hord g).mpr hm) hnd h0
      (fun op hop hgr hx e he hid => by rw [← hgr]; exact hNoCross op hop (by rw [hgr]; exact hg) hx e he hid)
      (fun op hop hgr hx => hNoClash op hop (by rw [hgr]; exact hg) hx) k
  · simp only [hm, if_false]
    have hown := other_groups_untouched_partial st common ops order g (fun h => hm ((hord g).mp h)) (by
      intro op hop hord' hx e he hEq
      have heg : e.group = g := by simpa [owned] using (List.mem_filter.mp he).2
      have hop0 : op.group ≠ 0 := fun h => h0 (h ▸ hord')
      have := hNoCross op hop hop0 hx e (List.mem_filter.mp he).1 hEq
      exact hm ((hord g).mp (by rw [← heg, this]; exact hord')))
    unfold ownedLookup
    rw [hown]
    exact hsim g hg k

/-- non-vacuity of `group_replacement_partial`: a state where `g = 1` already owns two series and
another group owns one of the same name; the new batch re-sends one, drops one, adds a counter twice. -/
example :
    let st : State := {
      colls := [(10, .gauge)]
      gentries := [{ name := 10, key := [(3, 4)], val := 10, group := 1 }, { name := 10, key := [(3, 5)], val := 12, group := 1 },
                   { name := 10, key := [(3, 6)], val := 14, group := 2 }] }
    let ops : List Op := [{ name := 10, group := 1, action := "set", value := some 8, labels := [(3, 4)] },
      { name := 11, group := 1, action := "add", value := some 3 }, { name := 11, group := 1, action := "add", value := some 3 }]
    PartOK 1 ops ∧ (sendBatch st [] ops [1]).1.gentries =
      [{ name := 10, key := [(3, 6)], val := 14, group := 2 }, { name := 10, key := [(3, 4)], val := 8, group := 1 },
       { name := 11, key := [], val := 6, group := 1 }] := by
  refine ⟨⟨by decide, ?_, by decide, by decide, by decide⟩, by decide⟩
  intro op hop
  simp only [List.mem_cons, List.not_mem_nil, or_false] at hop
  rcases hop with rfl | rfl | rfl <;> exact ⟨fun a h => by simp at h, fun a h => by simp at h⟩

/-- `group_replacement` on a concrete history: two groups sharing a name, re-sent with other
values, fractional counter, explicit expire in the middle. -/
example :
    let b1 : List Op := [{ name := 10, group := 1, action := "set", value := some 10, labels := [(3, 4)] },
                         { name := 11, group := 1, action := "add", value := some 3 },
                         { name := 10, group := 2, action := "set", value := some 14, labels := [(3, 5)] }]
    let b2 : List Op := [{ name := 11, group := 1, action := "add", value := some 3 },
                         { group := 1, action := "expire" },
                         { name := 10, group := 1, action := "set", value := some 6, labels := [(3, 6)] }]
    let st1 := (sendBatch {} [(1, 7)] b1 [1, 2]).1
    let st2 := (sendBatch st1 [(1, 7)] b2 [1]).1
    ownedAssoc st2 1 = [((10, [(1, 7), (3, 6)]), 6)] ∧ ownedAssoc st2 2 = [((10, [(1, 7), (3, 5)]), 14)]
      ∧ (Spec.written [(1, 7)] b2) = [((10, [(1, 7), (3, 6)]), 6)] := by decide

/-! ## Witnesses for the repaired defects and the recorded findings -/

/-- Repaired defect (a): the unrepaired loop body applied the `{"add": 1}` shortcut twice. -/
theorem shortcut_add_twice_unrepaired_witness :
    let op := normalize { name := 2, group := 3, add := some 2 }
    ((applyGroupOpUnrepaired [] 3 {} op).gentries.map (·.val) = [4]) ∧
    ((applyGroupOp [] 3 {} op).gentries.map (·.val) = [2]) := by decide

/-- Repaired defect (b): the unrepaired counter truncated 1.5 to 1. -/
theorem counter_truncation_unrepaired_witness :
    (applyGroupOpUnrepaired [] 3 {} { name := 2, group := 3, action := "add", value := some 3 }).gentries.map (·.val) = [2]
    ∧ (applyGroupOp [] 3 {} { name := 2, group := 3, action := "add", value := some 3 }).gentries.map (·.val) = [3] := by
  decide

/-- the history `A sets m{l}; B sets m{l}; A expires`. -/
def crossHistory : State :=
  let s1 := (sendBatch {} [] [{ name := 9, group := 1, action := "set", value := some 10, labels := [(3, 4)] }] [1]).1
  let s2 := (sendBatch s1 [] [{ name := 9, group := 2, action := "set", value := some 14, labels := [(3, 4)] }] [2]).1
  (sendBatch s2 [] [{ group := 1, action := "expire" }] [1]).1

/-- Finding `group-ownership-by-label-hash`: `other_groups_untouched` is false without its
hypothesis — group 2 reported a series, never expired it, and it is gone (and it was never owned
by group 2 at all). -/
theorem cross_group_witness : crossHistory.gentries = [] := by decide

/-- Finding `grouped-ungrouped-name-clash`: after a grouped use of a name, a valid ungrouped
operation on it changes nothing, yet the call succeeds. -/
theorem name_clash_witness :
    let s1 := (sendBatch {} [] [{ name := 9, group := 1, action := "set", value := some 10 }] [1]).1
    sendBatch s1 [] [{ name := 9, action := "set", value := some 4 }] [] = (s1, true) := by decide

/-- Finding `ungrouped-label-names-change`. -/
theorem label_names_change_witness :
    let s1 := (sendBatch {} [] [{ name := 9, action := "set", value := some 2, labels := [(3, 4)] }] []).1
    sendBatch s1 [] [{ name := 9, action := "set", value := some 4, labels := [(3, 4), (5, 6)] }] [] = (s1, true) := by
  decide

/-- Finding `metric-type-clash`. -/
theorem type_clash_witness :
    let s1 := (sendBatch {} [] [{ name := 9, group := 1, action := "set", value := some 2 }] [1]).1
    (sendBatch s1 [] [{ name := 9, group := 2, action := "add", value := some 4 }] [2]).1.gentries = s1.gentries := by
  decide

/-! ## Ungrouped updates -/

/-- **C16.2** `ungrouped_update` (partial: hypothesis `NoNameClash` — the metric's vec exists with
this type and exactly these label names, or the name is free; a counter is not decreased): one
ungrouped `add` / `set` / `observe` updates exactly the named series — the one whose labels are the
operation's labels with the `hook` label merged in (and winning) — `add` adds, `set` overwrites,
`observe` adds to the sum and counts; every other ungrouped series and every grouped series is
untouched. -/
theorem ungrouped_update_partial (st : State) (common : Labels) (op : Op) (v : Int)
    (ha : op.action = "add" ∨ op.action = "set" ∨ (op.action = "observe" ∧ op.buckets = true))
    (hv : op.value = some v) (hneg : op.action = "add" → 0 ≤ v)
    (hNoClash : UOk st common op) :
    ∃ st', sendOneV0 common st op = some st' ∧ st'.gentries = st.gentries ∧ st'.colls = st.colls ∧
      ∀ n' k', uLookup st'.uentries n' k' =
        if n' = op.name ∧ k' = mergeLabels op.labels common then
          some (uUpd op.action v ((uLookup st.uentries op.name (mergeLabels op.labels common)).getD
            { name := op.name, key := mergeLabels op.labels common, val := 0 }))
        else uLookup st.uentries n' k' := by
  obtain ⟨st', h1, h2, h3, _, h5⟩ := sendOneV0_ok st common op v ha hv hneg hNoClash
  exact ⟨st', h1, h2, h3, h5⟩

/-- the state in which the ungrouped operations of a batch are applied: after the grouped phase. -/
def afterGroups (st : State) (common : Labels) (ops : List Op) (order : List Nat) : State :=
  order.foldl (fun st g => applyGroupOperations common st g (ops.filter (·.group == g))) st

/-- **C16.2 against the reference registry**: if the store and the reference registry agree on
every ungrouped series, then after a valid batch whose ungrouped operations are admissible when
they are applied (`UOk`: the vec exists with this type and these label names or the name is free;
operations on one name agree on type and label names; counters are not decreased) the call
succeeds and they still agree on every ungrouped series (value and, for histograms, count). -/
theorem ungrouped_view_refines_partial (st : State) (ref : List Spec.RSeries) (common : Labels) (ops : List Op)
    (order : List Nat) (hv : validBatch ops = true)
    (hok : ∀ op ∈ ops, op.group = 0 → UOk (afterGroups st common ops order) common op)
    (hsame : ∀ op ∈ ops, op.group = 0 → ∀ op' ∈ ops, op'.group = 0 → op'.name = op.name →
      op'.action = op.action ∧ (mergeLabels op'.labels common).map (·.1) = (mergeLabels op.labels common).map (·.1))
    (hneg : ∀ op ∈ ops, op.group = 0 → op.action = "add" → ∀ v, op.value = some v → 0 ≤ v)
    (hsim : ∀ n k, uview st n k = rview0 ref n k) :
    (sendBatch st common ops order).2 = true ∧
      ∀ n k, uview (sendBatch st common ops order).1 n k = rview0 (Spec.applyBatch ref common ops).1 n k := by
  have hmemf : ∀ {op : Op}, op ∈ ops.filter (·.group == 0) → op ∈ ops ∧ op.group = 0 := by
    intro op h; have := List.mem_filter.mp h; exact ⟨this.1, by simpa using this.2⟩
  have h0 : 0 ∉ groupsOf ops := fun h => ((mem_groupsOf ops 0).mp h).1 rfl
  have hvalid : ∀ op ∈ ops.filter (·.group == 0), validOp op = true ∧ op.group = 0 := by
    intro op h
    exact ⟨(List.all_eq_true.mp (by simpa [validBatch] using hv)) op (hmemf h).1, (hmemf h).2⟩
  -- the reference before its ungrouped fold agrees with the store after the grouped phase
  have hfresh : (groupsOf ops).flatMap (fun g => (Spec.written common (ops.filter (·.group == g))).map fun (k, v) =>
      ({ name := k.1, labels := k.2, group := g, val := v } : Spec.RSeries)) = (groupsOf ops).flatMap (freshOf common ops) := rfl
  have hsim1 : ∀ n k, uview (afterGroups st common ops order) n k =
      rview0 (ref.filter (fun s => !(groupsOf ops).contains s.group) ++ (groupsOf ops).flatMap (freshOf common ops)) n k := by
    intro n k
    have hu : (afterGroups st common ops order).uentries = st.uentries := (foldl_groups_u common ops order st).2
    unfold uview rview0
    rw [hu, rLookup0_append, rLookup0_kept _ _ h0, rLookup0_fresh _ _ _ h0]
    simpa [uview, rview0] using hsim n k
  have := sendBatchV0_refines common (ops.filter (·.group == 0)) hvalid
    (fun op h => hneg op (hmemf h).1 (hmemf h).2)
    (fun op h op' h' => hsame op (hmemf h).1 (hmemf h).2 op' (hmemf h').1 (hmemf h').2)
    (afterGroups st common ops order) _ (fun op h => hok op (hmemf h).1 (hmemf h).2) hsim1
  simp only [sendBatch, hv, Bool.not_true, Bool.false_eq_true, if_false, Spec.applyBatch, hfresh]
  exact ⟨this.1, this.2.2⟩

/-! ## Whole histories -/

/-- one `SendBatch` call of a history: the hook's common labels, the operations (as parsed), and
the iteration order the Go map happened to have. -/
structure Call where
  common : Labels
  ops : List Op
  order : List Nat

/-- Everything the two refinement theorems ask of one call in state `st` — i.e. "the call stays
outside the recorded finding classes". An invalid batch needs nothing. -/
structure CallOK (st : State) (c : Call) : Prop where
  batch : BatchOK c.common c.ops
  nodup : c.order.Nodup
  order : ∀ g, g ∈ c.order ↔ g ∈ groupsOf c.ops
  noCross : ∀ op ∈ c.ops, op.group ≠ 0 → op.action ≠ "expire" →
    ∀ e ∈ st.gentries, (e.name, e.key) = opIdent c.common op → e.group = op.group
  noClash : ∀ op ∈ c.ops, op.group ≠ 0 → op.action ≠ "expire" → getOrCreateColl st op.name (opFam op) ≠ none
  uok : ∀ op ∈ c.ops, op.group = 0 → UOk (afterGroups st c.common c.ops c.order) c.common op
  usame : ∀ op ∈ c.ops, op.group = 0 → ∀ op' ∈ c.ops, op'.group = 0 → op'.name = op.name →
    op'.action = op.action ∧ (mergeLabels op'.labels c.common).map (·.1) = (mergeLabels op.labels c.common).map (·.1)
  nonneg : ∀ op ∈ c.ops, op.group = 0 → op.action = "add" → ∀ v, op.value = some v → 0 ≤ v

/-- the store and the reference registry show the same series: per group and ungrouped. -/
def Agree (st : State) (ref : List Spec.RSeries) : Prop :=
  (∀ g, g ≠ 0 → ∀ k, ownedLookup st.gentries g k = rview ref g k) ∧ (∀ n k, uview st n k = rview0 ref n k)

def runCalls (st : State) : List Call → State
  | [] => st
  | c :: cs => runCalls (sendBatch st c.common c.ops c.order).1 cs

def refCalls (ref : List Spec.RSeries) : List Call → List Spec.RSeries
  | [] => ref
  | c :: cs => refCalls (Spec.applyBatch ref c.common c.ops).1 cs

/-- every call of the history is either an invalid batch or outside the finding classes in the
state it meets. -/
def HistoryOK (st : State) : List Call → Prop
  | [] => True
  | c :: cs => (validBatch c.ops = false ∨ CallOK st c) ∧ HistoryOK (sendBatch st c.common c.ops c.order).1 cs

/-- One call keeps the agreement, and its return value is the reference registry's. -/
theorem call_refines_partial (st : State) (ref : List Spec.RSeries) (c : Call)
    (hc : validBatch c.ops = false ∨ CallOK st c) (h : Agree st ref) :
    Agree (sendBatch st c.common c.ops c.order).1 (Spec.applyBatch ref c.common c.ops).1 ∧
      (sendBatch st c.common c.ops c.order).2 = (Spec.applyBatch ref c.common c.ops).2 := by
  by_cases hv : validBatch c.ops = true
  · rcases hc with hc | hc
    · rw [hv] at hc; exact absurd hc (by decide)
    · have hu := ungrouped_view_refines_partial st ref c.common c.ops c.order hv hc.uok hc.usame hc.nonneg h.2
      refine ⟨⟨grouped_view_refines_partial st ref c.common c.ops c.order hc.batch hc.nodup hc.order
        hc.noCross hc.noClash h.1, hu.2⟩, ?_⟩
      rw [hu.1]; simp [Spec.applyBatch, hv]
  · have hv' : validBatch c.ops = false := by simpa using hv
    simp [sendBatch, Spec.applyBatch, hv', h]

/-- **C16, whole histories** (partial: `HistoryOK`): starting from a store and a reference registry
that agree (in particular from both empty), after any sequence of batches from any hooks — invalid
batches included, any map orders — the store shows exactly the series of the reference registry:
that is the property (invalid ⇒ nothing applied; a mentioned group's series are replaced by the
batch's; other groups and ungrouped series untouched; ungrouped operations update their series). -/
theorem history_refines_partial (calls : List Call) (st : State) (ref : List Spec.RSeries)
    (hok : HistoryOK st calls) (h : Agree st ref) : Agree (runCalls st calls) (refCalls ref calls) := by
  induction calls generalizing st ref with
  | nil => exact h
  | cons c cs ih =>
    exact ih _ _ hok.2 (call_refines_partial st ref c hok.1 h).1

theorem agree_empty : Agree {} [] := ⟨fun _ _ _ => rfl, fun _ _ => rfl⟩

/-- non-vacuity of `history_refines_partial`: a call with a grouped `set` and an ungrouped `add` on the
empty store meets `CallOK`. -/
def exampleCall : Call where
  common := [(1, 7)]
  order := [5]
  ops := [{ name := 10, group := 5, action := "set", value := some 4, labels := [(3, 4)] },
          { name := 20, action := "add", value := some 3 }]

example : HistoryOK {} [exampleCall] ∧ (runCalls {} [exampleCall]).gentries = [{ name := 10, key := [(1, 7), (3, 4)], val := 4, group := 5 }] := by
  refine ⟨⟨Or.inr ?_, trivial⟩, by decide⟩
  have hnorm : ∀ op ∈ exampleCall.ops, Normalized op := by
    intro op hop
    simp only [exampleCall, List.mem_cons, List.not_mem_nil, or_false] at hop
    rcases hop with rfl | rfl <;> exact ⟨fun a h => by simp at h, fun a h => by simp at h⟩
  refine ⟨⟨by decide, hnorm, by decide, by decide⟩, by decide, ?_, ?_, ?_, ?_, by decide, ?_⟩
  · intro g; simp [exampleCall, groupsOf]
  · intro op hop hg hx e he; simp at he
  · decide
  · intro op hop hg
    simp only [exampleCall, List.mem_cons, List.not_mem_nil, or_false] at hop
    rcases hop with rfl | rfl
    · simp at hg
    · right; decide
  · intro op hop hg ha v hv
    simp only [exampleCall, List.mem_cons, List.not_mem_nil, or_false] at hop
    rcases hop with rfl | rfl
    · simp at hg
    · simp at hv; omega

/-- **C16.2** `ungrouped_update`: on a name that is free in the registry, an ungrouped `set`
creates the vec with the operation's label names plus `hook`, and the series with the value. -/
theorem ungrouped_set_fresh (st : State) (common : Labels) (op : Op) (v : Int)
    (ha : op.action = "set") (hv : op.value = some v)
    (hfree : st.registered op.name = false)
    (hvec : st.vecs.find? (fun x => x.name == op.name && x.fam == Fam.gauge) = none) :
    sendOneV0 common st op = some { st with
      vecs := st.vecs ++ [{ name := op.name, fam := .gauge, labelNames := (mergeLabels op.labels common).map (·.1) }],
      uentries := uUpsert (fun e => { e with val := v }) op.name (mergeLabels op.labels common) st.uentries } := by
  simp [sendOneV0, ha, hv, ungroupedApply, hfree, hvec]

/-- the `hook` label is merged in and wins over a label of the same name written by the hook. -/
example : mergeLabels [(5, 6), (1, 99)] [(1, 7)] = [(1, 7), (5, 6)] := by decide

/-- `ungrouped_update` on a concrete history: add accumulates, set overwrites, observe counts. -/
example :
    let c : Labels := [(1, 7)]
    let st := (sendBatch {} c [{ name := 20, action := "add", value := some 3 }, { name := 20, action := "add", value := some 2 },
      { name := 21, action := "set", value := some 8 }, { name := 21, action := "set", value := some 5 },
      { name := 22, action := "observe", value := some 1, buckets := true },
      { name := 22, action := "observe", value := some 4, buckets := true }] []).1
    st.uentries = [{ name := 20, key := c, val := 5 }, { name := 21, key := c, val := 5 },
                   { name := 22, key := c, val := 5, cnt := 2 }] := by decide

/-! ## Concurrent hooks: the vault lock around lookup + Register + store

`GetOrCreate{Counter,Gauge}Collector` run under the vault lock from the lookup to the store (lock
skeletons `C16.GroupedVault.GetOrCreate*Collector`, tie T3), so `getOrCreateColl` is one atomic step
and concurrent `SendBatch` calls are interleavings of such steps. -/

/-- One atomic get-or-create of another hook does not take a collector away: whoever could obtain
`(n, f)` before can obtain it afterwards (requests for one name ask for one type). -/
theorem getOrCreateColl_keeps_obtainable (st st' : State) (n m : Nat) (f f' : Fam)
    (hn : (getOrCreateColl st n f).isSome) (hstep : getOrCreateColl st m f' = some st')
    (hty : m = n → f' = f) : (getOrCreateColl st' n f).isSome := by
  unfold getOrCreateColl at hstep
  split at hstep
  · -- the collector of `m` exists: nothing changes
    split at hstep
    · cases hstep; exact hn
    · cases hstep
  · rename_i hm
    split at hstep
    · cases hstep
    · rename_i hreg
      cases hstep
      by_cases hmn : m = n
      · subst hmn
        have hf := hty rfl
        subst hf
        have hl : (st.colls ++ [(m, f')]).lookup m = some f' := by
          rw [List.lookup_append, hm]; simp
        simp [getOrCreateColl, hl]
      · have hnm : (n == m) = false := by simpa using fun h => hmn h.symm
        have hl : (st.colls ++ [(m, f')]).lookup n = st.colls.lookup n := by
          rw [List.lookup_append]
          cases h : st.colls.lookup n <;> simp [List.lookup, hnm]
        have hr : State.registered { st with colls := st.colls ++ [(m, f')] } n = st.registered n := by
          have : (m == n) = false := by simpa using hmn
          simp [State.registered, List.any_append, this]
        unfold getOrCreateColl at hn ⊢
        rw [hl, hr]
        cases hc : st.colls.lookup n with
        | some f0 =>
          rw [hc] at hn
          by_cases hf0 : f0 = f
          · simp [hf0]
          · simp [hf0] at hn
        | none =>
          rw [hc] at hn
          by_cases hrg : st.registered n = true
          · simp [hrg] at hn
          · simp [hrg]

/-- **C16.m (concurrent first reports)** For every set of requests `(name, type)` that the hooks of
concurrently running batches make — each obtainable in the state the batches find, one type per
name — and EVERY order in which the vault lock serialises them, every single request obtains its
collector: no hook's series is dropped because another hook created the collector of the same new
name first. -/
theorem concurrent_creators_all_obtain (reqs : List (Nat × Fam)) (st : State)
    (hall : ∀ r ∈ reqs, (getOrCreateColl st r.1 r.2).isSome)
    (hty : ∀ r ∈ reqs, ∀ r' ∈ reqs, r.1 = r'.1 → r.2 = r'.2) :
    ∃ st', reqs.foldlM (fun s r => getOrCreateColl s r.1 r.2) st = some st' ∧
      ∀ r ∈ reqs, (getOrCreateColl st' r.1 r.2).isSome := by
  induction reqs generalizing st with
  | nil => exact ⟨st, rfl, by simp⟩
  | cons r rest ih =>
    have hr := hall r (by simp)
    obtain ⟨st1, h1⟩ := Option.isSome_iff_exists.mp hr
    have hkeep : ∀ q ∈ r :: rest, (getOrCreateColl st1 q.1 q.2).isSome := fun q hq =>
      getOrCreateColl_keeps_obtainable st st1 q.1 r.1 q.2 r.2 (hall q hq) h1
        (fun e => hty r (by simp) q hq e)
    obtain ⟨st', hf, hall'⟩ := ih st1 (fun q hq => hkeep q (List.mem_cons_of_mem _ hq))
      (fun a ha b hb => hty a (List.mem_cons_of_mem _ ha) b (List.mem_cons_of_mem _ hb))
    refine ⟨st', by simp [List.foldlM, h1, hf], ?_⟩
    intro q hq
    rcases List.mem_cons.mp hq with rfl | hq
    · -- `r` itself: still obtainable after the rest ran
      clear hall'
      have : ∀ (l : List (Nat × Fam)) (s s' : State), (getOrCreateColl s q.1 q.2).isSome →
          (∀ a ∈ l, a.1 = q.1 → a.2 = q.2) →
          l.foldlM (fun s r => getOrCreateColl s r.1 r.2) s = some s' →
          (getOrCreateColl s' q.1 q.2).isSome := by
        intro l
        induction l with
        | nil => intro s s' h _ hf; simp [List.foldlM] at hf; subst hf; exact h
        | cons a l ihl =>
          intro s s' h hq hf
          simp only [List.foldlM, Option.bind_eq_bind] at hf
          cases ha : getOrCreateColl s a.1 a.2 with
          | none => simp [ha] at hf
          | some s1 =>
            simp only [ha, Option.bind_some] at hf
            exact ihl s1 s' (getOrCreateColl_keeps_obtainable s s1 q.1 a.1 q.2 a.2 h ha (hq a (by simp)))
              (fun b hb => hq b (List.mem_cons_of_mem _ hb)) hf
      exact this rest st1 st' (hkeep q (by simp))
        (fun a ha e => hty a (List.mem_cons_of_mem _ ha) q (by simp) e) hf
    · exact hall' q hq

/-- non-vacuity: two hooks ask for the same new gauge and a counter, in both orders. -/
example : ([(5, Fam.gauge), (6, Fam.counter), (5, Fam.gauge)].foldlM (fun s r => getOrCreateColl s r.1 r.2) ({} : State)).isSome
    ∧ ([(5, Fam.gauge), (5, Fam.gauge), (6, Fam.counter)].foldlM (fun s r => getOrCreateColl s r.1 r.2) ({} : State)).isSome := by
  decide

/-- What the lock is for: with the lookup and `Register` + store as two separate steps, two hooks
that both look up a new name before either registers it — the second `Register` fails and that
hook's series is dropped. -/
theorem unlocked_register_window_witness :
    lookupColl {} 5 = none ∧
    ((registerColl {} 5 .gauge).bind fun st => registerColl st 5 .gauge) = none := by decide

/-! ## Series identity: what is hashed

`ConstGaugeCollector.Set` / `ConstCounterCollector.Add` key a series by
`HashLabelValues(LabelValues(labels, labelNames))` (skeleton `C16.HashLabelValues`, tie T3: every
value and the separator are written, nothing is skipped). The fnv sum itself is modelled as
injective; what is hashed is proved injective here. -/

theorem hash_sep_split (a b r r' : List Nat) (ha : 255 ∉ a) (hb : 255 ∉ b)
    (h : a ++ 255 :: r = b ++ 255 :: r') : a = b ∧ r = r' := by
  induction a generalizing b with
  | nil =>
    cases b with
    | nil => simpa using h
    | cons y b => simp at h; simp [← h.1] at hb
  | cons x a ih =>
    cases b with
    | nil => simp at h; simp [h.1] at ha
    | cons y b =>
      simp only [List.cons_append, List.cons.injEq] at h
      have := ih b (fun hx => ha (List.mem_cons_of_mem _ hx)) (fun hx => hb (List.mem_cons_of_mem _ hx)) h.2
      exact ⟨by rw [h.1, this.1], this.2⟩

/-- **C16.h** The byte string handed to the hasher determines the list of label values — position by
position, empty values included — for values that do not contain the separator byte 255 (no UTF-8
string does): two different value lists of one collector never share a collection key by
construction of the key. -/
theorem hashInput_injective (vals vals' : List (List Nat))
    (h1 : ∀ v ∈ vals, 255 ∉ v) (h2 : ∀ v ∈ vals', 255 ∉ v)
    (h : hashInput vals = hashInput vals') : vals = vals' := by
  induction vals generalizing vals' with
  | nil =>
    cases vals' with
    | nil => rfl
    | cons w ws => simp [hashInput] at h
  | cons v vs ih =>
    cases vals' with
    | nil => simp [hashInput] at h
    | cons w ws =>
      simp only [hashInput, List.flatMap_cons, List.append_assoc, List.singleton_append] at h
      have := hash_sep_split v w _ _ (h1 v (by simp)) (h2 w (by simp)) h
      rw [this.1, ih ws (fun x hx => h1 x (List.mem_cons_of_mem _ hx))
        (fun x hx => h2 x (List.mem_cons_of_mem _ hx)) this.2]

/-- non-vacuity, and the boundary the theorem is about: the values `["h", "web-1", ""]` and
`["h", "", "web-1"]` (one label empty — which one differs) are hashed differently … -/
example : hashInput [[104], [119, 101, 98], []] ≠ hashInput [[104], [], [119, 101, 98]] := by decide

/-- … and would collide if empty values were skipped. -/
theorem skip_empty_collision_witness :
    hashInputSkipEmpty [[104], [119, 101, 98], []] = hashInputSkipEmpty [[104], [], [119, 101, 98]] := by decide

/-- the values under the collector's label names: a label the series does not carry reads as empty,
so a series written with an explicit empty value is the series without that label. -/
example : labelValues [1, 3, 4] [(1, 7), (4, 9)] = [7, 0, 9]
    ∧ labelValues [1, 3, 4] [(1, 7), (3, 0), (4, 9)] = labelValues [1, 3, 4] [(1, 7), (4, 9)] := by decide


/-- **C16.k (series identity across label shapes)** For the label sets of two operations on one
grouped metric (as `mergeLabels` hands them over) and ANY list of label names of the collector that
covers both (whatever `UpdateLabels` has grown it to): the value vectors `LabelValues` computes —
absent label = "" — are equal exactly when the label sets without their empty values are equal.
So the model's key `gkey` identifies exactly the series the code's collection key identifies. -/
theorem labelValues_eq_iff_gkey_eq (names : List Nat) (l l' : Labels)
    (h : KeysSorted l) (h' : KeysSorted l')
    (hc : ∀ x ∈ l, x.1 ∈ names) (hc' : ∀ x ∈ l', x.1 ∈ names) :
    labelValues names l = labelValues names l' ↔ gkey l = gkey l' := by
  have hout : ∀ (m : Labels), (∀ x ∈ m, x.1 ∈ names) → ∀ k, k ∉ names → m.lookup k = none := by
    intro m hm k hk
    rw [List.lookup_eq_none_iff]
    intro x hx
    simp only [bne_iff_ne, ne_eq]
    intro e
    exact hk (e ▸ hm x hx)
  constructor
  · intro hv
    apply sorted_nonzero_ext _ _ (gkey_sorted l h) (gkey_sorted l' h') (gkey_nonzero l) (gkey_nonzero l')
    intro k
    rw [lookupD_gkey l h, lookupD_gkey l' h']
    by_cases hk : k ∈ names
    · have := List.map_inj_left.mp hv k hk
      exact this
    · simp [lookupD, hout l hc k hk, hout l' hc' k hk]
  · intro hg
    apply List.map_inj_left.mpr
    intro k _
    have := congrArg (fun m => lookupD m k) hg
    simp only [lookupD_gkey l h, lookupD_gkey l' h'] at this
    exact this

/-- the label sets the code passes on are of that kind: `mergeLabels` yields strictly increasing
label names (so the hypotheses of `labelValues_eq_iff_gkey_eq` are met by every operation). -/
theorem merged_labels_sorted (opLabels common : Labels) : KeysSorted (mergeLabels opLabels common) :=
  mergeLabels_sorted opLabels common

/-- non-vacuity on the boundary: under the names `[a, b, hook]` the sets `{a=v, hook}` and
`{b=v, hook}` (equal values under different names) have different value vectors and different keys;
an explicit empty value changes neither. -/
example : labelValues [2, 3, 1] [(1, 7), (2, 9)] ≠ labelValues [2, 3, 1] [(1, 7), (3, 9)]
    ∧ gkey [(1, 7), (2, 9)] ≠ gkey [(1, 7), (3, 9)]
    ∧ labelValues [2, 3, 1] [(1, 7), (2, 9), (3, 0)] = labelValues [2, 3, 1] [(1, 7), (2, 9)]
    ∧ gkey [(1, 7), (2, 9), (3, 0)] = gkey [(1, 7), (2, 9)]
    ∧ KeysSorted (mergeLabels [(3, 0), (2, 9)] [(1, 7)]) := by
  refine ⟨by decide, by decide, by decide, by decide, merged_labels_sorted _ _⟩

/-! ## Tie T4: the validation of the model is the code

`ShellOp.Trans.validateMetricOperation` / `validateOperations` are regenerated on every run from
`ValidateMetricOperation` / `ValidateOperations` (operation.go) by `extract/translate.go`; the
`multierror` list is translated as the number of errors appended. -/

/-- The validation as translated from the current source reports no error exactly when the model's
`validOp` accepts the operation, and for a batch exactly when `validBatch` accepts it — for every
operation (all field combinations) and every batch. -/
theorem translated_validation_eq_model (op : Op) (ops : List Op) :
    (ShellOp.Trans.validateMetricOperation op = 0 ↔ validOp op = true) ∧
    (ShellOp.Trans.validateOperations ops = 0 ↔ validBatch ops = true) :=
  ⟨ShellOp.Proofs.TransMetrics.validate_op_iff op action_tables.2.1 action_tables.2.2,
   ShellOp.Proofs.TransMetrics.validate_ops_iff ops action_tables.2.1 action_tables.2.2⟩

example : ShellOp.Trans.validateMetricOperation { name := 1, action := "observe", value := some 3 } = 1
    ∧ ShellOp.Trans.validateMetricOperation { name := 1, group := 2, action := "expire" } = 0
    ∧ ShellOp.Trans.validateOperations [{ name := 1, action := "set", value := some 3 }, { action := "add" }] = 1 := by
  decide

/-! ## The text path: the metrics FILE a hook wrote (`Hook.Run` → `MetricOperationsFromFile`, then
`handleRunHook` → `SendBatch`)

"If any metric operation written by a hook is invalid, none is applied and the execution fails" is a
statement about what the hook WROTE — bytes. `MetricsText.runFile` puts the byte-level model of the
reader (`HookOutput.fromReader`, shared with C04) in front of `sendBatch`; `spells file ops` ties the
typed operations to the documents the reader decodes (nothing is assumed about files it rejects). -/

/-- Tie T1 for the reader: the loop of `MetricOperationsFromReader`, regenerated from the source on every
run, ends quietly on `io.EOF` ONLY (what `HookOutput.decodeNext` calls `.eof`: nothing but blanks left)
and returns every other error of `Decode` — `io.ErrUnexpectedEOF` of a cut-off document included
(`.err`) — without any operation. -/
theorem reader_loop_shape : Facts.c16ReaderLoop =
    ["err := dec.Decode(&metricOperation)", "err == io.EOF", "break", "err != nil", "return nil, err"] := by
  decide

open ShellOp.MetricsText in
/-- **C16.1 on the file `rejected_file_noop`**: for every store, hook and map order — a metrics file that
is not a well-formed stream of documents that are ALL valid metric operations (`HookOutput.metricsOk`:
a document that is not JSON, is cut off, has a field of the wrong type, a stray closer or text between
documents, or an operation validation rejects) changes nothing in the store and fails the execution. -/
theorem rejected_file_noop (st : State) (common : Labels) (file : List Char) (ops : List Op)
    (order : List Nat) (hs : spells file ops = true) (hbad : HookOutput.metricsOk file = false) :
    runFile st common file ops order = (st, false) := by
  have hne : file.isEmpty = false := by
    cases file with
    | nil => simp [HookOutput.metricsOk] at hbad
    | cons _ _ => rfl
  rw [metricsOk_nonempty file hne] at hbad
  unfold runFile fromFile
  simp only [hne, Bool.false_eq_true, if_false]
  unfold spells at hs
  cases hf : HookOutput.fromReader file with
  | none => rfl
  | some ms =>
    rw [hf] at hs hbad
    have hv : validBatch ops = false := by
      rw [← all_validOp_of_abstractsAll action_tables.2.1 action_tables.2.2 ms ops hs]
      exact hbad
    simp [sendBatch, hv]

open ShellOp.MetricsText in
/-- **`accepted_file_is_batch`**: a file the reader and the validation accept is exactly one valid batch:
the execution does what `SendBatch` does with the operations the file spells (so every theorem above
about `sendBatch` — replacement, untouched, refinement of the reference registry — speaks about it). -/
theorem accepted_file_is_batch (st : State) (common : Labels) (file : List Char) (ops : List Op)
    (order : List Nat) (hs : spells file ops = true) (hok : HookOutput.metricsOk file = true) :
    runFile st common file ops order = sendBatch st common ops order ∧ validBatch ops = true := by
  cases file with
  | nil =>
    have : ops = [] := by
      unfold spells at hs
      rw [fromReader_nil] at hs
      cases ops with
      | nil => rfl
      | cons _ _ => simp [abstractsAll] at hs
    subst this
    exact ⟨rfl, rfl⟩
  | cons c cs =>
    have hne : (c :: cs).isEmpty = false := rfl
    rw [metricsOk_nonempty _ hne] at hok
    unfold runFile fromFile
    simp only [hne, Bool.false_eq_true, if_false]
    unfold spells at hs
    cases hf : HookOutput.fromReader (c :: cs) with
    | none => rw [hf] at hok; cases hok
    | some ms =>
      rw [hf] at hs hok
      refine ⟨rfl, ?_⟩
      rw [← all_validOp_of_abstractsAll action_tables.2.1 action_tables.2.2 ms ops hs]
      exact hok

open ShellOp.MetricsText ShellOp.HookOutput in
/-- **`cut_off_file_noop`**: whatever the hook wrote first — any number of complete, decodable documents
(`Reaches file rest`) — if the reader then stands before bytes that are not blanks only and not a complete
JSON value (a last operation that is cut off in the middle, a stray closer, garbage), NONE of the complete
operations before it is applied and the execution fails. No hypothesis about the operations. -/
theorem cut_off_file_noop (st : State) (common : Labels) (file rest : List Char) (ops : List Op)
    (order : List Nat) (hr : Reaches file rest) (he : decodeNext rest = .err) :
    runFile st common file ops order = (st, false) := by
  have hne : file.isEmpty = false := by
    cases file with
    | nil =>
      have := not_reaches_nil hr
      subst this
      simp [decodeNext, skipWs] at he
    | cons _ _ => rfl
  unfold runFile fromFile
  simp only [hne, Bool.false_eq_true, if_false]
  have : HookOutput.fromReader file = none := loop_none_of_err hr he (file.length + 1)
  rw [this]

/-- A two-operation file, the typed operations it spells, and every way of cutting it off: exactly the
cuts at the end of a document (and the empty file) are accepted — a cut inside the second document
rejects the first one too. -/
def exampleFile : List Char := "{\"name\":\"m\",\"set\":1}\n{\"name\":\"n\",\"add\":2}".toList

def exampleOps : List Op :=
  [{ name := 2, action := "set", value := some 2, set := some 2 },
   { name := 3, action := "add", value := some 4, add := some 4 }]

open ShellOp.MetricsText in
example : spells exampleFile exampleOps = true ∧ HookOutput.metricsOk exampleFile = true
    ∧ (runFile {} [(1, 7)] exampleFile exampleOps []).2 = true
    ∧ HookOutput.metricsOk (exampleFile.take 30) = false
    ∧ runFile {} [(1, 7)] (exampleFile.take 30) exampleOps [] = ({}, false)
    ∧ spells (exampleFile.take 21) (exampleOps.take 1) = true
    ∧ HookOutput.metricsOk (exampleFile.take 21) = true
    ∧ (runFile {} [(1, 7)] (exampleFile.take 21) (exampleOps.take 1) []).2 = true := by decide

example : (List.range exampleFile.length).all (fun n =>
    HookOutput.metricsOk (exampleFile.take n) == (n == 0 || n == 20 || n == 21)) = true := by decide

open ShellOp.HookOutput in
/-- The hypotheses of `cut_off_file_noop` are met by the example file cut inside its second document. -/
example : Reaches (exampleFile.take 30) ((exampleFile.take 30).drop 20) ∧
    decodeNext ((exampleFile.take 30).drop 20) = .err :=
  ⟨.doc _ (.obj [("name".toList, .str "m".toList), ("set".toList, .num)]) _ _ rfl (by decide) rfl
    (.refl _), rfl⟩

/-! ## Sixth wave: the names of a grouped metric, and what the reader may write to

The `op` lines (and the scrape) identify a metric by its RESOLVED name; `Model/MetricsNames` keeps apart
the three places where `GetOrCreate*Collector` uses a name. -/

section names
open ShellOp.Metrics.Names

/-- Tie T1 for the vault's names: lookup key, registered name and store key of both get-or-create
functions are the ONE variable `metricName := v.resolveMetricNameFunc(name)`; `CounterAdd` / `GaugeSet`
hand over a resolved name. Regenerated from the source on every run. -/
theorem vault_names_shape : Facts.c16VaultNames =
    ["GetOrCreateCounterCollector:", "metricName := v.resolveMetricNameFunc(name)", "v.collectors[metricName]",
     "metric.NewConstCounterCollector(metricName, _)", "v.collectors[metricName]",
     "GetOrCreateGaugeCollector:", "metricName := v.resolveMetricNameFunc(name)", "v.collectors[metricName]",
     "metric.NewConstGaugeCollector(metricName, _)", "v.collectors[metricName]",
     "CounterAdd:", "metricName := v.resolveMetricNameFunc(name)", "v.GetOrCreateCounterCollector(metricName, _)",
     "GaugeSet:", "metricName := v.resolveMetricNameFunc(name)", "v.GetOrCreateGaugeCollector(metricName, _)"] := by
  decide

theorem lookup_append_new {α : Type} (l : List (Nat × α)) (k k' : Nat) (a : α) :
    (l ++ [(k', a)]).lookup k = match l.lookup k with
      | some x => some x
      | none => if k = k' then some a else none := by
  induction l with
  | nil =>
    by_cases h : k = k'
    · subst h; simp [List.lookup]
    · have : (k == k') = false := by simpa using h
      simp [List.lookup, this, h]
  | cons hd tl ih =>
    obtain ⟨k0, a0⟩ := hd
    by_cases h : k = k0
    · subst h; simp [List.lookup]
    · have : (k == k0) = false := by simpa using h
      simp [List.lookup, this, ih]

/-- **every spelling of a metric obtains its collector**: for every resolution function, every vault,
once a use of the written name `n` with type `f` went through, a use of ANY written name `n'` that
resolves to the same name, with the same type, goes through as well and changes nothing (it finds the
collector: no second registration, nothing dropped) — whatever the prefix, whatever the history. -/
theorem every_spelling_obtains (resolve : Nat → Nat) (v v' : Vault) (n n' : Nat) (f : Fam)
    (h : getOrCreateResolved resolve v n f = some v') (hn : resolve n' = resolve n) :
    getOrCreateResolved resolve v' n' f = some v' := by
  unfold getOrCreateResolved getOrCreate at h ⊢
  rw [hn]
  cases hl : v.colls.lookup (resolve n) with
  | some f' =>
    rw [hl] at h
    by_cases hf : f' = f
    · simp only [hf, if_true] at h
      cases h
      rw [hl]; simp [hf]
    · simp [hf] at h
  | none =>
    rw [hl] at h
    by_cases hr : v.reg.any (· == resolve n) = true
    · rw [if_pos hr] at h; cases h
    · rw [if_neg hr] at h
      cases h
      simp only [lookup_append_new, hl]
      simp

/-- … and so do all later uses, in any number, of any spellings of that name. -/
theorem later_uses_all_served (resolve : Nat → Nat) (v v' : Vault) (n : Nat) (f : Fam)
    (h : getOrCreateResolved resolve v n f = some v') (uses : List (Nat × Fam))
    (hu : ∀ u ∈ uses, resolve u.1 = resolve n ∧ u.2 = f) :
    useAll resolve resolve resolve v' uses = some v' := by
  induction uses with
  | nil => rfl
  | cons u rest ih =>
    obtain ⟨n', f'⟩ := u
    have h1 := hu (n', f') (by simp)
    obtain ⟨hn, hf⟩ := h1
    simp only at hn hf
    subst hf
    have := every_spelling_obtains resolve v v' n n' f' h hn
    unfold getOrCreateResolved at this
    simp only [useAll, this, Option.bind]
    exact ih (fun u hm => hu u (by simp [hm]))

/-- non-vacuity: prefix resolution `1 ↦ 2` (`{PREFIX}x ↦ x`), both spellings, twice. -/
example : let r : Nat → Nat := fun n => if n = 1 then 2 else n
    ∃ v', getOrCreateResolved r {} 1 .gauge = some v' ∧
      useAll r r r v' [(1, .gauge), (2, .gauge), (1, .gauge)] = some v' := by
  refine ⟨{ colls := [(2, .gauge)], reg := [2] }, by decide, by decide⟩

/-- What the one-name model of `Model/Metrics` (`getOrCreateColl`, names = resolved names) says about the
vault is what the three-name model says with all three the identity: the model's "registered" is
membership in the list of vec names and collector keys. -/
def ofState (st : State) : Vault :=
  { colls := st.colls, reg := st.vecs.map (·.name) ++ st.colls.map (·.1) }

theorem getOrCreateColl_names (st : State) (n : Nat) (f : Fam) :
    (getOrCreateColl st n f).map ofState = getOrCreate id id id (ofState st) n f := by
  have hreg : (ofState st).reg.any (· == n) = st.registered n := by
    simp [ofState, State.registered, List.any_append, List.any_map, Function.comp_def]
  unfold getOrCreateColl getOrCreate
  simp only [id]
  show _ = match st.colls.lookup n with
    | some f' => if f' = f then some (ofState st) else none
    | none => if (ofState st).reg.any (· == n) then none
        else some { colls := (ofState st).colls ++ [(n, f)], reg := (ofState st).reg ++ [n] }
  rw [hreg]
  cases st.colls.lookup n with
  | some f' => by_cases hf : f' = f <;> simp [hf]
  | none =>
    cases st.registered n <;> simp [ofState]

/-- Witness for the excluded shape (NOT the code): the new collector stored under the WRITTEN name while
lookup and registration use the resolved one — the second use of `{PREFIX}x` misses the cache, the
second registration of `x` fails, the operation is dropped. -/
theorem raw_store_key_witness : let r : Nat → Nat := fun n => if n = 1 then 2 else n
    (getOrCreate r r id {} 1 .gauge).isSome = true ∧
    (getOrCreate r r id {} 1 .gauge).bind (fun v => getOrCreate r r id v 1 .gauge) = none := by
  decide

/-- Tie T1 for the ungrouped vecs (repaired code, `fix:` d5e10a6): `Gauge` / `Counter` / `Histogram` look
the vec up, and `Register…` double-checks, names and stores it, under the ONE resolved name — the same
three-uses-one-name shape as the vault, so `every_spelling_obtains` / `later_uses_all_served` speak
about the vecs as well (a vec is "obtained" = found or created). -/
theorem vec_names_shape : Facts.c16VecNames =
    ["Gauge:", "m.Gauges[m.resolveMetricName(metric)]",
     "RegisterGauge:", "metricName := m.resolveMetricName(metric)", "m.Gauges[metricName]", "Name: metricName",
     "m.Gauges[metricName]",
     "Counter:", "m.Counters[m.resolveMetricName(metric)]",
     "RegisterCounter:", "metricName := m.resolveMetricName(metric)", "m.Counters[metricName]", "Name: metricName",
     "m.Counters[metricName]",
     "Histogram:", "m.Histograms[m.resolveMetricName(metric)]",
     "RegisterHistogram:", "metricName := m.resolveMetricName(metric)", "m.Histograms[metricName]",
     "Name: metricName", "m.Histograms[metricName]"] := by
  decide

/-- Witness about the UNREPAIRED vec cache (lookup and store under the written name, registration under
the resolved one): `{PREFIX}x` (1) then `x` (2) — the second spelling misses the cache, registers `x`
again, `MustRegister` panics, the operation is dropped; and the other way round. Corpus case 20. -/
theorem raw_vec_key_unrepaired_witness : let r : Nat → Nat := fun n => if n = 1 then 2 else n
    (getOrCreate id r id {} 1 .gauge).bind (fun v => getOrCreate id r id v 2 .gauge) = none ∧
    (getOrCreate id r id {} 2 .gauge).bind (fun v => getOrCreate id r id v 1 .gauge) = none ∧
    ((getOrCreateResolved r {} 1 .gauge).bind (fun v => getOrCreateResolved r v 2 .gauge)).isSome = true := by
  decide

end names

/-- Tie T1 for what the reader writes to: between `Decode` and `append` the loop of
`MetricOperationsFromReader` assigns `Action` and `Value` only (the two shortcut transforms, `normalize`
/ `HookOutput.shortcut`); name, group, labels and buckets reach `SendBatch` exactly as decoded. -/
theorem reader_writes_shape : Facts.c16ReaderWrites =
    ["err", "dec.Decode(&metricOperation)", "metricOperation.Action", "metricOperation.Value",
     "metricOperation.Action", "metricOperation.Value", "operations"] := by
  decide

/-- The reader's transforms keep the identity of an operation — which metric, which group (two groups
that differ in anything, a blank included, stay two groups; a non-empty group stays non-empty), which
series — in the typed model and in the byte-level model of the file. -/
theorem reader_keeps_identity (op : Op) (m : HookOutput.MetricOp) :
    (normalize op).name = op.name ∧ (normalize op).group = op.group ∧ (normalize op).labels = op.labels
    ∧ (normalize op).buckets = op.buckets
    ∧ (HookOutput.shortcut m).name = m.name ∧ (HookOutput.shortcut m).group = m.group := by
  refine ⟨?_, ?_, ?_, ?_, ?_, ?_⟩ <;>
    (simp only [normalize, HookOutput.shortcut]; split <;> split <;> rfl)

/-- non-vacuity: the all-blank group `" "` is a group for the byte-level reader: its `expire` is a valid
operation, a file of it is accepted, and the decoded group is the blank itself. -/
example : HookOutput.metricsOk "{\"group\":\" \",\"action\":\"expire\"}".toList = true ∧
    (HookOutput.fromReader "{\"group\":\" \",\"action\":\"expire\"}".toList).map (·.map (·.group))
      = some [[' ']] := by decide

end ShellOp.Metrics.C16
