import ShellOp.Proofs.Patch
import ShellOp.Generated.Facts
/-!
# C13 — patch file: validated as a whole, applied in order, JSON and YAML agree

Property theorems over `Model/Patch` (the code-shaped model of `ParseOperations`,
`ExecuteOperations`, the executors and the patch part of `handleRunHook`) and its `Spec`.
Quantifier: every stream of operation documents (any number, valid / invalid, inline / string
payloads, either decoder), every initial cluster, every patch-evaluator oracle `pf`.
`normalise = true` is the repaired `helpers.go` (YAML-decoded values are passed through JSON).
-/
namespace ShellOp.Patch.C13

open ShellOp.Patch

/-- **C13.1 (all or nothing)** If the stream does not decode, or any document is invalid, the
execution fails, `ExecuteOperations` is not called, and the cluster and the API-call log are
untouched — whatever the decoder, the position of the invalid document, the other documents. -/
theorem all_or_nothing (pf : PatchFn) (nz : Bool) (f : Form) (s : Stream) (st : St)
    (h : s = .garbled ∨ ∃ ds, s = .docs ds ∧ ∃ d ∈ ds, d.valid = false) :
    handle pf nz f s st = ⟨st, true, false, 0, false⟩ := by
  rcases h with rfl | ⟨ds, rfl, hd⟩
  · simp [handle, parse]
  · have := parseLoop_some_invalid nz f ds [] hd
    simp only [handle, parse]
    generalize parseLoop nz f ds [] = r at this
    obtain ⟨ops, e⟩ := r
    simp only at this
    subst this
    rfl

/-- **C13.1 against the documented schema.** With validity as the schema documents it (a key
outside the documented set makes a document invalid, `additionalProperties: false`): if any document
of the stream is invalid, nothing is applied and the execution fails. -/
theorem all_or_nothing_documented (pf : PatchFn) (nz : Bool) (f : Form) (rs : List RawDoc) (st : St)
    (h : ∃ r ∈ rs, r.documentedValid = false) :
    handle pf nz f (Stream.ofRaw rs) st = ⟨st, true, false, 0, false⟩ := by
  apply all_or_nothing
  unfold Stream.ofRaw
  by_cases hx : rs.any (·.extraKeys) = true
  · simp [hx]
  · right
    simp only [hx, Bool.false_eq_true, ↓reduceIte]
    refine ⟨_, rfl, ?_⟩
    obtain ⟨r, hr, hv⟩ := h
    refine ⟨r.doc, List.mem_map.mpr ⟨r, hr, rfl⟩, ?_⟩
    have hre : r.extraKeys = false := by
      cases hre : r.extraKeys
      · rfl
      · exact absurd (List.any_eq_true.mpr ⟨r, hr, hre⟩) hx
    simpa [RawDoc.documentedValid, hre] using hv

/-- Regression witness for the repaired defect: the unrepaired decoders dropped unknown keys before
validation, so a document that the schema documents as invalid was applied. -/
theorem unknown_keys_unrepaired_witness :
    let r : RawDoc := ⟨⟨true, .delete .background 1 true 0, true⟩, true⟩
    r.documentedValid = false ∧
    handle concretePf true .json (.docs [decodeRawUnrepaired r]) ⟨[(1, [])], []⟩ =
      ⟨⟨[], [⟨.delete, 1, 0⟩]⟩, false, true, 0, false⟩ ∧
    handle concretePf true .json (Stream.ofRaw [r]) ⟨[(1, [])], []⟩ = ⟨⟨[(1, [])], []⟩, true, false, 0, false⟩ := by
  decide

/-- **C13.1, converse** A stream whose documents are all valid parses without error into exactly
one operation per document, in document order. -/
theorem parse_valid (nz : Bool) (f : Form) (ds : List Doc) (h : ∀ d ∈ ds, d.valid = true) :
    parse nz f (.docs ds) = (ds.map (opOf nz f), false) := by
  simpa [parse] using parseLoop_all_valid nz f ds [] h

/-- `ParseOperations` returns an error exactly when some document is invalid. -/
theorem parse_error_iff (nz : Bool) (f : Form) (ds : List Doc) :
    (parse nz f (.docs ds)).2 = true ↔ ∃ d ∈ ds, d.valid = false := by
  constructor
  · intro h
    apply Classical.byContradiction
    intro hn
    have hv : ∀ d ∈ ds, d.valid = true := by
      intro d hd
      cases hdv : d.valid
      · exact absurd ⟨d, hd, hdv⟩ hn
      · rfl
    rw [parse_valid nz f ds hv] at h
    cases h
  · intro h
    simpa [parse] using parseLoop_some_invalid nz f ds [] h

/-- **C13.2 (applied once each, in document order)** `ExecuteOperations` is the in-order run of the
documented effects: cluster, API-call log and error count are those of `Spec.run`; a failing
operation does not stop the later ones. -/
theorem applied_in_order_once (pf : PatchFn) (ops : List Op) (st : St)
    (h : ∀ op ∈ ops, op.intTyped = false) :
    execute pf ops st 0 =
      ⟨⟨(Spec.run pf ops ⟨st.cluster, st.log, 0⟩).cluster, (Spec.run pf ops ⟨st.cluster, st.log, 0⟩).calls⟩,
        (Spec.run pf ops ⟨st.cluster, st.log, 0⟩).nfailed, false⟩ :=
  execute_refines pf ops st 0 h

theorem run_withRep (pf : PatchFn) (r : NumRep) (ops : List Op) :
    ∀ o, Spec.run pf (ops.map (Op.withRep r)) o = Spec.run pf ops o := by
  induction ops with
  | nil => intro o; rfl
  | cons op rest ih => intro o; simp [Spec.run, effect_withRep, calls_withRep, ih]

/-- **C13 (the whole patch step meets the Spec)** For the repaired code, whatever the decoder: the
observable outcome of applying a patch file — failed?, executed?, cluster, API calls — is exactly
what the property prescribes (`Spec.expected`). -/
theorem handle_meets_spec (pf : PatchFn) (f : Form) (ds : List Doc) (c : Cluster) :
    let r := handle pf true f (.docs ds) ⟨c, []⟩
    (r.failed, r.executed, r.st.cluster, r.st.log) = Spec.expected pf false ds c ∧ r.panicked = false := by
  by_cases hv : ∃ d ∈ ds, d.valid = false
  · have := all_or_nothing pf true f (.docs ds) ⟨c, []⟩ (Or.inr ⟨ds, rfl, hv⟩)
    obtain ⟨d, hd, hdv⟩ := hv
    have hany : ds.any (fun d => !d.valid) = true := by
      simp only [List.any_eq_true]; exact ⟨d, hd, by simp [hdv]⟩
    simp [this, Spec.expected, hany]
  · have hall : ∀ d ∈ ds, d.valid = true := by
      intro d hd
      cases hdv : d.valid
      · exact absurd ⟨d, hd, hdv⟩ hv
      · rfl
    have hany : ds.any (fun d => !d.valid) = false := by
      simp only [List.any_eq_false]; intro d hd; simp [hall d hd]
    have hops : ∀ op ∈ ds.map (opOf true f), op.intTyped = false := by
      intro op hop
      simp only [List.mem_map] at hop
      obtain ⟨d, _, rfl⟩ := hop
      have : repOf true f d.inline = .f64 := by cases f <;> simp [repOf]
      simp [opOf, this, intTyped_withRep_f64]
    have hmap : ds.map (opOf true f) = (ds.map (·.op)).map (Op.withRep .f64) := by
      simp only [List.map_map]
      apply List.map_congr_left
      intro d _
      have : repOf true f d.inline = .f64 := by cases f <;> simp [repOf]
      simp [opOf, this]
    simp only [handle, parse_valid true f ds hall, execute_refines pf _ ⟨c, []⟩ 0 hops,
      Spec.expected, hany]
    rw [hmap, run_withRep]
    simp

/-- **C13.3 (JSON and YAML agree)** For the repaired code the same documents decoded by either
decoder produce the same operations, the same error, and (hence) the same outcome. -/
theorem json_yaml_agree (pf : PatchFn) (s : Stream) (st : St) :
    parse true .json s = parse true .yaml s ∧ handle pf true .json s st = handle pf true .yaml s st := by
  have hop : ∀ d, opOf true .json d = opOf true .yaml d := by intro d; simp [opOf, repOf]
  have hl : ∀ ds acc, parseLoop true .json ds acc = parseLoop true .yaml ds acc := by
    intro ds
    induction ds with
    | nil => intro acc; rfl
    | cons d rest ih => intro acc; simp [parseLoop, hop, ih]
  have hp : parse true .json s = parse true .yaml s := by
    cases s with
    | garbled => rfl
    | docs ds => simp [parse, hl]
  exact ⟨hp, by simp [handle, hp]⟩

/-! ## per-operation effects (stated on the Spec; `execOne_refines` transports them to the code) -/

/-- The executor of one operation has the documented effect, makes the documented API calls and
reports the documented failure. -/
theorem execOne_effect (pf : PatchFn) (op : Op) (st : St) (h : op.intTyped = false) :
    (execOne pf op st).1.cluster = (Spec.effect pf op st.cluster).1 ∧
    (execOne pf op st).1.log = st.log ++ Spec.calls pf op st.cluster ∧
    ((execOne pf op st).2 = .err ↔ (Spec.effect pf op st.cluster).2 = true) ∧
    (execOne pf op st).2 ≠ .panic := by
  rw [execOne_refines pf op st h]
  cases (Spec.effect pf op st.cluster).2 <;> simp [resOf]

/-- Three create variants on an absent key: all create the object. -/
theorem create_absent (pf : PatchFn) (ign upd : Bool) (k : Key) (o : Obj) (r : NumRep) (c : Cluster)
    (h : aget c k = none) :
    let e := Spec.effect pf (.create ign upd (.good k true o r)) c
    aget e.1 k = some o ∧ e.2 = false ∧ ∀ k', k' ≠ k → aget e.1 k' = aget c k' := by
  simp [Spec.effect, h, aget_aset_same]
  intro k' hk; exact aget_aset_other c k k' o hk

/-- `Create` on a present key: AlreadyExists, nothing changes. -/
theorem create_present (pf : PatchFn) (k : Key) (o o0 : Obj) (r : NumRep) (c : Cluster)
    (h : aget c k = some o0) :
    Spec.effect pf (.create false false (.good k true o r)) c = (c, true) := by
  simp [Spec.effect, h]

/-- `CreateIfNotExists` on a present key: no error, nothing changes. -/
theorem createIfNotExists_present (pf : PatchFn) (upd : Bool) (k : Key) (o o0 : Obj) (r : NumRep)
    (c : Cluster) (h : aget c k = some o0) :
    Spec.effect pf (.create true upd (.good k true o r)) c = (c, false) := by
  simp [Spec.effect, h]

/-- `CreateOrUpdate` on a present key: the object is replaced, nothing else changes. -/
theorem createOrUpdate_present (pf : PatchFn) (k : Key) (o o0 : Obj) (r : NumRep) (c : Cluster)
    (h : aget c k = some o0) :
    let e := Spec.effect pf (.create false true (.good k true o r)) c
    aget e.1 k = some o ∧ e.2 = false ∧ ∀ k', k' ≠ k → aget e.1 k' = aget c k' := by
  simp [Spec.effect, h, aget_aset_same]
  intro k' hk; exact aget_aset_other c k k' o hk

/-- The three delete modes: the object is gone, nothing else changes, never an error for a
resolvable kind — in particular deleting an absent object is a no-op (idempotent). -/
theorem delete_effect (pf : PatchFn) (p : Propagation) (k : Key) (sub : Sub) (c : Cluster) :
    let e := Spec.effect pf (.delete p k true sub) c
    aget e.1 k = none ∧ e.2 = false ∧ (∀ k', k' ≠ k → aget e.1 k' = aget c k') ∧
    (aget c k = none → e.1 = c) := by
  simp only [Spec.effect]
  refine ⟨aget_aerase_same c k, by simp, fun k' hk => aget_aerase_other c k k' hk, fun h => ?_⟩
  simpa using aerase_of_absent c k h

theorem delete_idempotent (pf : PatchFn) (p q : Propagation) (k : Key) (sub : Sub) (c : Cluster) :
    let c1 := (Spec.effect pf (.delete p k true sub) c).1
    Spec.effect pf (.delete q k true sub) c1 = (c1, false) := by
  simp only [Spec.effect]
  have := aerase_of_absent (aerase c k) k (aget_aerase_same c k)
  simp [this]

/-- Patches on a missing object: an error unless `ignoreMissingObject`; nothing changes. -/
theorem patch_missing (pf : PatchFn) (kind : PatchKind) (k : Key) (sub : Sub) (im ihe : Bool)
    (b : Body) (c : Cluster) (h : aget c k = none) :
    Spec.effect pf (.patch kind k true sub im ihe (some b)) c = (c, !im) := by
  cases kind <;> simp [Spec.effect, h]

/-- Merge / JSON patches on a present object: the object becomes what the evaluator returns,
nothing else changes; an evaluator error fails the operation and changes nothing. -/
theorem patch_present (pf : PatchFn) (kind : PatchKind) (hk : kind ≠ .jq) (k : Key) (sub : Sub)
    (im ihe : Bool) (b : Body) (o : Obj) (c : Cluster) (h : aget c k = some o) :
    let e := Spec.effect pf (.patch kind k true sub im ihe (some b)) c
    match pf kind b o with
    | none => e = (c, true)
    | some o' => aget e.1 k = some o' ∧ e.2 = false ∧ ∀ k', k' ≠ k → aget e.1 k' = aget c k' := by
  cases hp : pf kind b o with
  | none => cases kind <;> simp_all [Spec.effect]
  | some o' =>
    cases kind
    · simp [Spec.effect, h, hp, aget_aset_same]; intro k' hk'; exact aget_aset_other c k k' o' hk'
    · simp [Spec.effect, h, hp, aget_aset_same]; intro k' hk'; exact aget_aset_other c k k' o' hk'
    · exact absurd rfl hk

/-- jq patch on a present object: as above, and an unchanged object is not written. -/
theorem jqpatch_present (pf : PatchFn) (k : Key) (sub : Sub) (im ihe : Bool) (b : Body) (o o' : Obj)
    (c : Cluster) (h : aget c k = some o) (hp : pf .jq b o = some o') :
    let e := Spec.effect pf (.patch .jq k true sub im ihe (some b)) c
    e.2 = false ∧ (objEqb o o' = true → e.1 = c) ∧
    (objEqb o o' = false → aget e.1 k = some o' ∧ ∀ k', k' ≠ k → aget e.1 k' = aget c k') := by
  cases he : objEqb o o'
  · simp [Spec.effect, h, hp, he, aget_aset_same]; intro k' hk'; exact aget_aset_other c k k' o' hk'
  · simp [Spec.effect, h, hp, he]

/-- Subresource routing: the mutating API call of a patch (`Patch` / `Update`) carries the
document's subresource; the `Get` of a jq patch never does. -/
theorem subresource_routing (pf : PatchFn) (kind : PatchKind) (k : Key) (g : Bool) (sub : Sub)
    (im ihe : Bool) (body : Option Body) (c : Cluster) :
    ∀ a ∈ Spec.calls pf (.patch kind k g sub im ihe body) c,
      a.key = k ∧ (a.verb = .get → a.sub = 0) ∧ (a.verb ≠ .get → a.sub = sub) := by
  intro a ha
  simp only [Spec.calls] at ha
  split at ha
  · simp at ha
  · split at ha
    · simp at ha
    · split at ha
      · split at ha
        · simp at ha; subst ha; simp
        · split at ha
          · simp at ha; subst ha; simp
          · split at ha
            · simp at ha; subst ha; simp
            · simp at ha; rcases ha with rfl | rfl <;> simp
      · simp at ha; subst ha
        cases kind <;> simp

/-- No operation issues more than three API calls (create + get + update is the longest). -/
theorem calls_bounded (pf : PatchFn) (op : Op) (c : Cluster) :
    (Spec.calls pf op c).length ≤ 3 := by
  cases op with
  | create ign upd src =>
    cases src with
    | bad => simp [Spec.calls]
    | good k g o r =>
      simp only [Spec.calls]
      split
      · simp
      · split
        · simp
        · split
          · simp
          · split <;> simp
  | delete p k g s =>
    simp only [Spec.calls]
    split
    · simp
    · split <;> simp
  | patch kind k g s im ihe b =>
    simp only [Spec.calls]
    split
    · simp
    · split
      · simp
      · split
        · split
          · simp
          · split
            · simp
            · split <;> simp
        · simp

/-! ## the source tables the model documents (tie T1: regenerated from `operation.go` on every run) -/

/-- `NewFromOperationSpec`: one constructor per documented operation name; only the three patch
operations forward `subresource`, `ignoreMissingObject`, `ignoreHookError` (creates and deletes take
no option — the model's `Op.create` has no subresource, `Op.delete` always carries `sub = 0`). -/
theorem operation_table :
    ShellOp.Facts.c13OperationTable =
      [("Create", "NewCreateOperation", []),
       ("CreateIfNotExists", "NewCreateIfNotExistsOperation", []),
       ("CreateOrUpdate", "NewCreateOrUpdateOperation", []),
       ("Delete", "NewDeleteOperation", []),
       ("DeleteInBackground", "NewDeleteInBackgroundOperation", []),
       ("DeleteNonCascading", "NewDeleteNonCascadingOperation", []),
       ("JQPatch", "NewPatchWithJQOperation", ["WithSubresource", "withIgnoreMissingObject", "withIgnoreHookError"]),
       ("MergePatch", "NewMergePatchOperation", ["WithSubresource", "withIgnoreMissingObject", "withIgnoreHookError"]),
       ("JSONPatch", "NewJSONPatchOperation", ["WithSubresource", "withIgnoreMissingObject", "withIgnoreHookError"])] ∧
    ShellOp.Facts.c13FactsStale = false := by decide

/-- The three delete propagation modes: Delete = Foreground, DeleteInBackground = Background,
DeleteNonCascading = Orphan. -/
theorem delete_propagation_table :
    ShellOp.Facts.c13DeletePropagation =
      [("NewDeleteOperation", "metav1.DeletePropagationForeground"),
       ("NewDeleteInBackgroundOperation", "metav1.DeletePropagationBackground"),
       ("NewDeleteNonCascadingOperation", "metav1.DeletePropagationOrphan")] := by decide

/-- The three create variants: Create sets no flag, CreateOrUpdate sets `updateIfExists`,
CreateIfNotExists sets `ignoreIfExists`. -/
theorem create_flags_table :
    ShellOp.Facts.c13CreateFlags =
      [("Create", []), ("CreateOrUpdate", ["op.updateIfExists=true"]),
       ("CreateIfNotExists", ["op.ignoreIfExists=true"])] := by decide

/-! ## non-vacuity and witnesses -/

def cm1 : Obj := [(1, .s 5)]
def dep1 : Obj := [(1, .i 1)]

/-- A stream mixing the operation families, an existing object, an order dependence
(create → patch → delete → patch with ignoreMissingObject). -/
def sampleDocs : List Doc :=
  [⟨true, .create false true (.good 1 true dep1 .f64), true⟩,
   ⟨true, .patch .merge 1 true 2 false false (some [.set 2 (.i 7)]), true⟩,
   ⟨true, .patch .jq 3 true 0 false false (some [.set 1 (.s 9)]), false⟩,
   ⟨true, .delete .foreground 1 true 0, true⟩,
   ⟨true, .patch .json 1 true 0 true false (some [.replace 1 (.i 2)]), true⟩,
   ⟨true, .create false false (.good 3 true cm1 .f64), false⟩]

example :
    let r := handle concretePf true .yaml (.docs sampleDocs) ⟨[(3, cm1)], []⟩
    r.failed = true ∧ r.executed = true ∧ r.nerr = 1 ∧ r.st.cluster = [(3, [(1, .s 9)])] ∧
    r.st.log.length = 8 := by decide

/-- Non-vacuity of `all_or_nothing`: the fifth of six documents is invalid; nothing is applied. -/
example :
    handle concretePf true .json
      (.docs (sampleDocs.take 4 ++ [⟨false, .delete .orphan 3 true 0, true⟩] ++ sampleDocs.drop 4))
      ⟨[(3, cm1)], []⟩ = ⟨⟨[(3, cm1)], []⟩, true, false, 0, false⟩ := by decide

/-- Order matters (non-vacuity of "in document order"): the same two operations, swapped. -/
example :
    (Spec.run concretePf [.create false false (.good 1 true cm1 .f64), .delete .background 1 true 0] ⟨[], [], 0⟩).cluster = [] ∧
    (Spec.run concretePf [.delete .background 1 true 0, .create false false (.good 1 true cm1 .f64)] ⟨[], [], 0⟩).cluster = [(1, cm1)] := by
  decide

/-- Regression witness for the repaired defect: without the normalisation in `helpers.go`, the same
Create document with an integer field (`replicas: 1`) gives different operations through the two
decoders, and the YAML form panics (`cannot deep copy int`) where the JSON form creates the object. -/
theorem yaml_int_unrepaired_witness :
    let d : Doc := ⟨true, .create false false (.good 1 true dep1 .f64), true⟩
    parse false .yaml (.docs [d]) ≠ parse false .json (.docs [d]) ∧
    (handle concretePf false .yaml (.docs [d]) {}).panicked = true ∧
    (handle concretePf false .json (.docs [d]) {}) = ⟨⟨[(1, dep1)], [⟨.create, 1, 0⟩]⟩, false, true, 0, false⟩ := by
  decide

/-! ## histories: other writers between a Get and an Update (optimistic lock) -/

/-- All-or-nothing holds in every history. -/
theorem all_or_nothing_any_history (pf : PatchFn) (nz : Bool) (f : Form) (s : Stream) (st : St) (ws : Writers)
    (h : s = .garbled ∨ ∃ ds, s = .docs ds ∧ ∃ d ∈ ds, d.valid = false) :
    handleH pf nz f s st ws = ⟨st, true, false, 0, false⟩ := by
  rcases h with rfl | ⟨ds, rfl, hd⟩
  · simp [handleH, parse]
  · have := parseLoop_some_invalid nz f ds [] hd
    simp only [handleH, parse]
    generalize parseLoop nz f ds [] = r at this
    obtain ⟨ops, e⟩ := r
    simp only at this
    subst this
    rfl

/-- **C13 in every history (against all cluster states, other writers included).** Whatever the
other clients of the API server do between a Get and an Update of this client (`ws`: any number of
changes to any objects), the observable outcome of applying a patch file is `Spec.expectedH`: every
operation once, in order, each with its documented effect ON THE OBJECT AS IT IS WHEN ITS WRITE
SUCCEEDS; an operation that loses `retrySteps` times in a row fails and the later ones still run. -/
theorem handle_meets_spec_any_history (pf : PatchFn) (f : Form) (ds : List Doc) (c : Cluster) (ws : Writers) :
    let r := handleH pf true f (.docs ds) ⟨c, []⟩ ws
    (r.failed, r.executed, r.st.cluster, r.st.log) = Spec.expectedH pf false ds c ws ∧ r.panicked = false := by
  by_cases hv : ∃ d ∈ ds, d.valid = false
  · have := all_or_nothing_any_history pf true f (.docs ds) ⟨c, []⟩ ws (Or.inr ⟨ds, rfl, hv⟩)
    obtain ⟨d, hd, hdv⟩ := hv
    have hany : ds.any (fun d => !d.valid) = true := by
      simp only [List.any_eq_true]; exact ⟨d, hd, by simp [hdv]⟩
    simp [this, Spec.expectedH, hany]
  · have hall : ∀ d ∈ ds, d.valid = true := by
      intro d hd
      cases hdv : d.valid
      · exact absurd ⟨d, hd, hdv⟩ hv
      · rfl
    have hany : ds.any (fun d => !d.valid) = false := by
      simp only [List.any_eq_false]; intro d hd; simp [hall d hd]
    have hops : ∀ op ∈ ds.map (opOf true f), op.intTyped = false := by
      intro op hop
      simp only [List.mem_map] at hop
      obtain ⟨d, _, rfl⟩ := hop
      have : repOf true f d.inline = .f64 := by cases f <;> simp [repOf]
      simp [opOf, this, intTyped_withRep_f64]
    have hmap : ds.map (opOf true f) = (ds.map (·.op)).map (Op.withRep .f64) := by
      simp only [List.map_map]
      apply List.map_congr_left
      intro d _
      have : repOf true f d.inline = .f64 := by cases f <;> simp [repOf]
      simp [opOf, this]
    simp only [handleH, parse_valid true f ds hall, executeH_refines pf _ ⟨c, []⟩ ws 0 hops,
      Spec.expectedH, hany]
    rw [hmap, runH_withRep]
    simp

/-- The history-aware Spec is a conservative extension: with no other writers it is `Spec.expected`. -/
theorem expectedH_no_writers (pf : PatchFn) (g : Bool) (ds : List Doc) (c : Cluster) :
    Spec.expectedH pf g ds c [] = Spec.expected pf g ds c := by
  simp [Spec.expectedH, Spec.expected, runH_no_writers]

/-- **No lost update (jq patch).** Somebody else changes the object (`w`) between the Get and the
Update of a jq patch: the Update is refused, the filter is evaluated again on the changed object, and
what ends up in the cluster is the filter applied to THE OTHER WRITER'S VERSION — never the filter's
result on the stale copy. -/
theorem jqpatch_no_lost_update (pf : PatchFn) (k : Key) (sub : Sub) (im ihe : Bool) (b w : Body)
    (o o' o1' : Obj) (c : Cluster) (lg : List Action)
    (hg : aget c k = some o) (hf : pf .jq b o = some o') (hne : objEqb o o' = false)
    (hf1 : pf .jq b (landed w o) = some o1') (hne1 : objEqb (landed w o) o1' = false) :
    execOneH pf (.patch .jq k true sub im ihe (some b)) ⟨c, lg⟩ [(k, w)] =
      (⟨aset (aset c k (landed w o)) k o1',
        lg ++ [⟨.get, k, 0⟩, ⟨.update, k, sub⟩, ⟨.get, k, 0⟩, ⟨.update, k, sub⟩]⟩, [], .ok) := by
  have hrs : retrySteps = 2 + 1 + 1 := rfl
  simp [execOneH, execFilterH, hrs, filterAttempts, apiGet, apiUpdateH, popWriter, St.call, hg, hf,
    hne, hf1, hne1, aget_aset_same]

/-- **No lost update (CreateOrUpdate).** The hook's object replaces whatever is there, also when
somebody else got in first: one refused Update, one more Get … Update, no second Create. -/
theorem createOrUpdate_conflict (pf : PatchFn) (k : Key) (o o0 : Obj) (w : Body) (c : Cluster) (lg : List Action)
    (hg : aget c k = some o0) :
    execOneH pf (.create false true (.good k true o .f64)) ⟨c, lg⟩ [(k, w)] =
      (⟨aset (aset c k (landed w o0)) k o,
        lg ++ [⟨.create, k, 0⟩, ⟨.get, k, 0⟩, ⟨.update, k, 0⟩, ⟨.get, k, 0⟩, ⟨.update, k, 0⟩]⟩, [], .ok) := by
  have hrs : retrySteps = 2 + 1 + 1 := rfl
  simp [execOneH, execCreateH, hrs, updateAttempts, apiCreate, apiGet, apiUpdateH, popWriter, St.call, hg,
    aget_aset_same]

/-- Non-vacuity of `jqpatch_no_lost_update` / of the history dimension: the other writer adds field 3
while the jq patch sets field 2; both survive. The stale-result variant (filter evaluated once) would
end with `[(2, s4), (1, s1)]`. -/
example :
    (handleH concretePf true .json
      (.docs [⟨true, .patch .jq 1 true 0 false false (some [.set 2 (.s 4)]), false⟩])
      ⟨[(1, [(1, .s 1)])], []⟩ [(1, [.set 3 (.s 7)])]).st.cluster = [(1, [(2, .s 4), (3, .s 7), (1, .s 1)])] := by
  decide

/-- The retry budget: four other writers in a row and the jq patch fails; their changes stay. -/
example :
    let r := handleH concretePf true .json
      (.docs [⟨true, .patch .jq 1 true 0 false false (some [.set 2 (.s 4)]), false⟩])
      ⟨[(1, [(1, .s 1)])], []⟩ [(1, [.set 1 (.s 2)]), (1, [.set 1 (.s 3)]), (1, [.set 1 (.s 4)]), (1, [.set 1 (.s 5)])]
    r.failed = true ∧ r.nerr = 1 ∧ r.st.cluster = [(1, [(1, .s 5)])] ∧ r.st.log.length = 8 := by
  decide


/-! ## the hook run: a failed hook (operator.go:660-670), overlapping runs of one hook -/

/-- **All or nothing, also when the hook fails.** Whatever `Hook.Run` hands over after a failed
process (nothing, as the pinned `Run` does, or the bytes of the file): if the stream does not decode
or any document is invalid, nothing is applied — not even a valid `/status` patch marked
`ignoreHookError` in front of the invalid document — and the execution fails. -/
theorem failed_hook_all_or_nothing (pf : PatchFn) (nz : Bool) (f : Form) (ss : Sub) (bytes : Option Stream)
    (st : St) (ws : Writers)
    (h : bytes = none ∨ bytes = some .garbled ∨ ∃ ds, bytes = some (.docs ds) ∧ ∃ d ∈ ds, d.valid = false) :
    handleRun pf nz f ss false bytes st ws = ⟨st, true, false, 0, false⟩ := by
  rcases h with rfl | rfl | ⟨ds, rfl, hd⟩
  · simp [handleRun]
  · simp [handleRun, parse]
  · have := parseLoop_some_invalid nz f ds [] hd
    simp only [handleRun, parse]
    generalize parseLoop nz f ds [] = r at this
    obtain ⟨ops, e⟩ := r
    simp only at this
    subst this
    simp

/-- **C13 for one execution of a hook (both branches of `handleRunHook`).** For every stream, every
cluster, every history of other writers, whether the hook process succeeded or failed, and whether or
not `Run` hands over the file of a failed process: what the execution shows is accepted by
`Spec.acceptRun` — a successful hook: `Spec.expectedH`; a failed hook: the execution fails, nothing is
applied if any document is invalid, otherwise nothing or exactly the on-hook-error operations once
each in document order. -/
theorem handleRun_meets_spec {α : Type} [DecidableEq α] (view : Cluster → List Action → α)
    (pf : PatchFn) (f : Form) (ss : Sub) (ds : List Doc) (c : Cluster)
    (ws : Writers) (hookOk rd : Bool) :
    let r := handleRun pf true f ss hookOk (runBytes rd hookOk (.docs ds)) ⟨c, []⟩ ws
    Spec.acceptRun view pf ss false ds c ws hookOk (r.failed, view r.st.cluster r.st.log) = true ∧
    r.panicked = false := by
  cases hookOk with
  | true =>
    obtain ⟨h1, h5⟩ := handle_meets_spec_any_history pf f ds c ws
    simp only [handleRun, runBytes, Spec.acceptRun, Bool.true_or, ↓reduceIte, ← h1]
    exact ⟨by simp, h5⟩
  | false =>
    cases rd with
    | false => simp [handleRun, runBytes, Spec.acceptRun]
    | true =>
      by_cases hv : ∃ d ∈ ds, d.valid = false
      · have := failed_hook_all_or_nothing pf true f ss (some (.docs ds)) ⟨c, []⟩ ws
          (Or.inr (Or.inr ⟨ds, rfl, hv⟩))
        obtain ⟨d, hd, hdv⟩ := hv
        have hany : ds.any (fun d => !d.valid) = true := by
          simp only [List.any_eq_true]; exact ⟨d, hd, by simp [hdv]⟩
        simp [runBytes, this, Spec.acceptRun, hany]
      · have hall : ∀ d ∈ ds, d.valid = true := by
          intro d hd
          cases hdv : d.valid
          · exact absurd ⟨d, hd, hdv⟩ hv
          · rfl
        have hany : ds.any (fun d => !d.valid) = false := by
          simp only [List.any_eq_false]; intro d hd; simp [hall d hd]
        have hmap : ds.map (opOf true f) = (ds.map (·.op)).map (Op.withRep .f64) := by
          simp only [List.map_map]
          apply List.map_congr_left
          intro d _
          have : repOf true f d.inline = .f64 := by cases f <;> simp [repOf]
          simp [opOf, this]
        have hops : ∀ op ∈ onHookError ss (ds.map (opOf true f)), op.intTyped = false := by
          intro op hop
          rw [hmap, onHookError_withRep] at hop
          simp only [List.mem_map] at hop
          obtain ⟨o, _, rfl⟩ := hop
          exact intTyped_withRep_f64 o
        simp only [handleRun, runBytes, Bool.false_or, Bool.false_eq_true, ↓reduceIte,
          parse_valid true f ds hall, executeH_refines pf _ ⟨c, []⟩ ws 0 hops, Spec.acceptRun, hany]
        rw [hmap, onHookError_withRep, runH_withRep]
        simp

/-- Non-vacuity: a failed hook whose file is [valid `/status` merge patch with `ignoreHookError`,
invalid document] — even a `Run` that hands the file over applies nothing; with the invalid document
left out exactly that patch is applied. -/
example :
    let p : Doc := ⟨true, .patch .merge 1 true 2 false true (some [.set 1 (.s 7)]), true⟩
    let q : Doc := ⟨true, .create false false (.good 3 true [] .f64), true⟩
    let bad : Doc := ⟨false, .delete .background 1 true 0, true⟩
    handleRun concretePf true .yaml 2 false (runBytes true false (.docs [p, bad])) ⟨[(1, [])], []⟩ [] =
      ⟨⟨[(1, [])], []⟩, true, false, 0, false⟩ ∧
    (handleRun concretePf true .yaml 2 false (runBytes true false (.docs [p, q])) ⟨[(1, [])], []⟩ []).st =
      ⟨[(1, [(1, .s 7)])], [⟨.patchMerge, 1, 2⟩]⟩ ∧
    handleRun concretePf true .yaml 2 false (runBytes false false (.docs [p, q])) ⟨[(1, [])], []⟩ [] =
      ⟨⟨[(1, [])], []⟩, true, false, 0, false⟩ := by decide

/-- **Applied once each, also when runs of one hook overlap.** Any number of runs, any interleaving
of their file steps (prepare / the process writes / read back / remove): if every run has its own
file name (`prepareObjectPatchFile`: a fresh uuid per call), what a run reads back — and so what it
parses and applies — is what it would have read running alone: the documents its own process wrote. -/
theorem overlapping_runs_read_own (path : Nat → Path) (hinj : ∀ a b, path a = path b → a = b)
    (sched : List (Nat × FStep)) (r : Nat) :
    aget (frun path sched {}).got r = aget (frun path (sched.filter (fun e => e.1 == r)) {}).got r :=
  (frun_own path hinj r sched {} {} rfl rfl).2

/-- A complete run alone reads exactly what its process wrote last. -/
theorem run_alone_reads_what_it_wrote (path : Nat → Path) (r : Nat) (ds : Content) :
    aget (frun path [(r, .prepare), (r, .write ds), (r, .read), (r, .remove)] {}).got r = some (some ds) ∧
    aget (frun path [(r, .prepare), (r, .read), (r, .remove)] {}).got r = some (some []) := by
  simp [frun, fstep, aget_aset_same]

/-- Non-vacuity / witness: with ONE file name per hook (a name memoised in the `Hook`) two
overlapping runs of the hook lose or swap their documents: run 0 wrote `[1]`, run 1 starts
(truncates), writes `[2]`, reads `[2]`, removes the file; run 0 then finds no file. With a name per
run both read their own documents in the same interleaving. -/
theorem memoised_path_witness :
    let sched : List (Nat × FStep) := [(0, .prepare), (0, .write [1]), (1, .prepare), (1, .write [2]),
      (1, .read), (1, .remove), (0, .read), (0, .remove)]
    (frun (fun _ => 0) sched {}).got = [(0, none), (1, some [2])] ∧
    (frun (fun r => r) sched {}).got = [(0, some [1]), (1, some [2])] := by decide

/-- **Successive executions.** The patch files of any number of executions handled one after the
other on one cluster by the operator's single `ObjectPatcher` (any streams, any cluster, any
history of other writers during each): every execution has exactly the outcome the property gives
for its file on the state the executions before it left (`Spec.runs`) - nothing but the cluster
survives from one execution to the next - and none panics. -/
theorem successive_executions_meet_spec (pf : PatchFn) (f : Form) (runs : List (List Doc × Writers)) :
    ∀ c : Cluster,
    (handleSeq pf true f (runs.map (fun r => (Stream.docs r.1, r.2))) c).map
        (fun r => (r.failed, r.executed, r.st.cluster, r.st.log))
      = Spec.runs pf (runs.map (fun r => (false, r.1, r.2))) c
    ∧ ∀ r ∈ handleSeq pf true f (runs.map (fun r => (Stream.docs r.1, r.2))) c, r.panicked = false := by
  induction runs with
  | nil => intro c; simp [handleSeq, Spec.runs]
  | cons r rest ih =>
    intro c
    obtain ⟨ds, ws⟩ := r
    have h := handle_meets_spec_any_history pf f ds c ws
    simp only at h
    obtain ⟨h1, h2⟩ := h
    have hc : (handleH pf true f (.docs ds) ⟨c, []⟩ ws).st.cluster = (Spec.expectedH pf false ds c ws).2.2.1 := by
      rw [← h1]
    simp only [List.map_cons, handleSeq, Spec.runs]
    obtain ⟨i1, i2⟩ := ih (handleH pf true f (.docs ds) ⟨c, []⟩ ws).st.cluster
    refine ⟨?_, ?_⟩
    · rw [h1, i1, hc]
    · intro r hr
      simp only [List.mem_cons] at hr
      rcases hr with rfl | hr
      · exact h2
      · exact i2 r hr

/-- Non-vacuity: execution 1 creates object 1 and patches it, execution 2 (an invalid document in
its file) applies nothing and fails, execution 3 deletes the object: three outcomes, each on the
state left by the one before. -/
example :
    let mk : Doc := ⟨true, .create false false (.good 1 true [(1, .s 1)] .f64), true⟩
    let pt : Doc := ⟨true, .patch .merge 1 true 0 false false (some [.set 2 (.s 2)]), true⟩
    let bad : Doc := ⟨false, .delete .background 1 true 0, true⟩
    let del : Doc := ⟨true, .delete .background 1 true 0, true⟩
    handleSeq concretePf true .yaml [(.docs [mk, pt], []), (.docs [del, bad], []), (.docs [del], [])] [] =
      [⟨⟨[(1, [(2, .s 2), (1, .s 1)])], [⟨.create, 1, 0⟩, ⟨.patchMerge, 1, 0⟩]⟩, false, true, 0, false⟩,
       ⟨⟨[(1, [(2, .s 2), (1, .s 1)])], []⟩, true, false, 0, false⟩,
       ⟨⟨[], [⟨.delete, 1, 0⟩]⟩, false, true, 0, false⟩] := by
  decide

/-- **Every operation reaches the object it names.** Over all operations of all executions a patcher
handles (any discovery, any sequence of coordinates - the same kind at several versions of its
group, the same name under several kinds, omitted and explicit apiVersions): the pinned executors
ask `GroupVersionResource` once per operation (`targets`, by definition `target` of each), and a
patcher that remembers resolved resources is indistinguishable from them whenever its memo key
determines group, version and kind. -/
theorem every_operation_reaches_the_object_it_names (kf : Coord → Nat) (d : Discovery)
    (hk : ∀ c c', kf c = kf c' → c.group = c'.group ∧ c.version = c'.version ∧ c.kind = c'.kind)
    (cs : List Coord) : targetsMemo kf d [] cs = cs.map (target d) ∧ targets d cs = cs.map (target d) :=
  ⟨targetsMemo_sound kf d hk cs [] (by intro c r h; simp [aget] at h), rfl⟩

/-- Witness (and non-vacuity): a memo keyed by group and kind only - the version dropped - sends the
operation on `<group>/<version 2> Kind` to the resource of version 1, remembered from the operation
before it; one lookup per operation reaches both objects. -/
theorem memo_by_group_kind_witness :
    let d : Discovery := fun g v k => some (100 * g + 10 * v + k)
    let byGroupKind : Coord → Nat := fun c => 10 * c.group + c.kind
    let cs : List Coord := [⟨1, 1, 1, 0, 0⟩, ⟨1, 2, 1, 0, 0⟩]
    targets d cs = [some ⟨111, 0, 0⟩, some ⟨121, 0, 0⟩] ∧
    targetsMemo byGroupKind d [] cs = [some ⟨111, 0, 0⟩, some ⟨111, 0, 0⟩] := by
  decide

/-! ## the physical layout of the patch file (sixth wave)

What `Run` hands to `ParseOperations` is what the process wrote, line for line, whatever the lengths
of the lines (`readWhole`, = `os.ReadFile`); a line-wise reader with a token limit is the same reader
exactly on the files all of whose lines are shorter than the limit, and on every other file it hands
over a proper prefix: the line that does not fit and everything behind it - documents that are then
neither validated nor applied - are missing. -/

theorem readLines_prefix (limit : Nat) (ls : List Line) :
    ∃ tail, ls = readLines limit ls ++ tail := by
  induction ls with
  | nil => exact ⟨[], rfl⟩
  | cons l rest ih =>
    obtain ⟨t, ht⟩ := ih
    by_cases h : l.length < limit
    · refine ⟨t, ?_⟩
      simp only [readLines, h, if_true, List.cons_append]
      exact congrArg (List.cons l) ht
    · exact ⟨l :: rest, by simp [readLines, h]⟩

/-- ∀ limits, ∀ files: the line-wise reader hands over what `Run` hands over iff no line reaches the limit. -/
theorem line_reader_transparent_iff (limit : Nat) (ls : List Line) :
    readLines limit ls = readWhole ls ↔ ∀ l ∈ ls, l.length < limit := by
  unfold readWhole
  induction ls with
  | nil => simp [readLines]
  | cons l rest ih =>
    by_cases h : l.length < limit
    · simp [readLines, h, ih]
    · simp [readLines, h]

/-- ∀ files: with a line that reaches the limit, the line-wise reader loses that line and all behind it. -/
theorem line_reader_loses_the_tail (limit : Nat) (before rest : List Line) (long : Line)
    (hb : ∀ l ∈ before, l.length < limit) (hl : limit ≤ long.length) :
    readLines limit (before ++ long :: rest) = before ∧
    readWhole (before ++ long :: rest) = before ++ long :: rest := by
  refine ⟨?_, rfl⟩
  induction before with
  | nil => simp [readLines, Nat.not_lt.mpr hl]
  | cons l bs ih =>
    have h1 : l.length < limit := hb l (List.mem_cons_self ..)
    have h2 : ∀ x ∈ bs, x.length < limit := fun x hx => hb x (List.mem_cons_of_mem _ hx)
    simp [readLines, h1, ih h2]

/-- Non-vacuity / witness: three one-line documents, the second one longer than the buffer. -/
theorem line_reader_witness :
    readLines 4 [[1, 2], [1, 2, 3, 4, 5], [3]] = [[1, 2]] ∧
    readWhole [[1, 2], [1, 2, 3, 4, 5], [3]] = [[1, 2], [1, 2, 3, 4, 5], [3]] ∧
    readLines 4 [[1, 2], [1, 2, 3], [3]] = [[1, 2], [1, 2, 3], [3]] := by decide

example : ∃ ls : List Line, (∀ l ∈ ls, l.length < 65536) ∧ ls ≠ [] ∧ readLines 65536 ls = readWhole ls :=
  ⟨[[1], [2]], by decide, by decide, by decide⟩

end ShellOp.Patch.C13
