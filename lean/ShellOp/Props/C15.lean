import ShellOp.Model.Conversion
namespace ShellOp.Conversion.C15
end ShellOp.Conversion.C15
