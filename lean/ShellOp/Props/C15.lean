import ShellOp.Proofs.Conversion
import ShellOp.Proofs.ConversionOverlap
import ShellOp.Model.ConversionGlue
import ShellOp.Model.BindingContext
/-!
# C15 — conversion: a valid rule chain is found iff one exists, applied step by step

Property theorems over `Model/Conversion` (the code-shaped model of `chain.go`,
`conversionEventHandler`, `handleReviewRequest`). Quantifiers: every list of declared rules (any
graph: forks, diamonds, cycles, self loops, duplicate rules in other spellings), every history of
earlier queries on the same stateful cache, every (from,to), every map iteration order (`Order`),
every script of hook outcomes.

`Matched` is the code's and the documentation's "same version" (`VersionsMatched`: equal, or one
spelling is the other without its group); `SameShort` is "equal after dropping the group".
-/
namespace ShellOp.Conversion.C15
open ShellOp.Conversion

/-! ## invariants of the cache -/

/-- every cached path is a chain (up to the group) between the versions of its key -/
structure CacheOK (rules : List Rule) (c : Chain) : Prop where
  base_sub : ∀ r ∈ c.base, r ∈ rules
  entries : ∀ e ∈ c.cache, IsChain SameShort rules e.1.src e.1.dst e.2

/-- every declared rule is indexed and is a key of the cache; all keys are spelled within `U` -/
structure CacheFull (rules : List Rule) (U : List Ver) (c : Chain) : Prop where
  base_all : ∀ r ∈ rules, r ∈ c.base
  keys : ∀ r ∈ c.base, HasKey c.cache r
  inU : ∀ e ∈ c.cache, e.1.src ∈ U ∧ e.1.dst ∈ U

/-- the cache after one more pass of the loop body -/
def pass (ord : Order) (n : Nat) (c : Chain) (rule : Rule) : Chain :=
  { c with cache := mergeAll c.cache (mergeAll [] (candidates ord n c rule)) }

theorem mem_pass {ord : Order} {n : Nat} {c : Chain} {rule : Rule} {x : Entry}
    (h : x ∈ (pass ord n c rule).cache) : x ∈ c.cache ∨ x ∈ candidates ord n c rule := by
  rcases mem_mergeAll h with h | h
  · exact Or.inl h
  · rcases mem_mergeAll h with h | h
    · cases h
    · exact Or.inr h

theorem pass_ok {ord : Order} {n : Nat} {rules : List Rule} {c : Chain} {rule : Rule}
    (h : CacheOK rules c) : CacheOK rules (pass ord n c rule) := by
  refine ⟨h.base_sub, ?_⟩
  intro x hx
  rcases mem_pass hx with hx | hx
  · exact h.entries x hx
  · obtain ⟨e, he, nx, hnx, h1, h3, _, rfl⟩ := mem_candidates hx
    have hs : SameShort e.1.dst nx.src := by
      rcases h3 with h3 | h3
      · rw [h3]; exact SameShort.rfl'
      · exact (matched_sameShort h3).symm'
    exact ((h.entries e he).respell (matched_sameShort h1).symm' SameShort.rfl').extend
      (h.base_sub nx hnx) hs

theorem pass_full {ord : Order} {n : Nat} {rules : List Rule} {U : List Ver} {c : Chain} {rule : Rule}
    (hok : CacheOK rules c) (h : CacheFull rules U c) (hA : rule.src ∈ U)
    (hrU : ∀ r ∈ rules, r.src ∈ U ∧ r.dst ∈ U) : CacheFull rules U (pass ord n c rule) := by
  refine ⟨h.base_all, fun r hr => hasKey_mergeAll_old (h.keys r hr), ?_⟩
  intro x hx
  rcases mem_pass hx with hx | hx
  · exact h.inU x hx
  · obtain ⟨e, _, nx, hnx, _, _, _, rfl⟩ := mem_candidates hx
    exact ⟨hA, (hrU nx (hok.base_sub nx hnx)).2⟩

/-- What the loop leaves behind, for any invariant `P` of one pass: `found p` is a non-empty cached
path returned by `SearchPathForRule`; `notFound` means the search for the rule came back empty and
the pass found nothing new. -/
theorem findLoop_spec (ord : Order) (rule : Rule) (P : Chain → Prop)
    (hstep : ∀ n c, P c → P (pass ord n c rule)) :
    ∀ n c, P c →
      P (findLoop ord rule n c).1 ∧
      (∀ p, (findLoop ord rule n c).2 = .found p →
        p ≠ [] ∧ ∃ m, p = searchPath (ord.perm m (findLoop ord rule n c).1.cache) rule) ∧
      ((findLoop ord rule n c).2 = .notFound →
        ∃ m k, searchPath (ord.perm m (findLoop ord rule n c).1.cache) rule = [] ∧
          candidates ord k (findLoop ord rule n c).1 rule = []) := by
  intro n
  induction n with
  | zero => intro c hc; simp [findLoop, hc]
  | succ n ih =>
    intro c hc
    simp only [findLoop]
    split
    · rename_i hp
      refine ⟨hc, ?_, by simp⟩
      intro p hpe
      simp only [Outcome.found.injEq] at hpe
      subst hpe
      exact ⟨hp, 4 * n, rfl⟩
    · rename_i hp
      split
      · rename_i hnp
        refine ⟨hc, by simp, fun _ => ⟨4 * n, n, ?_, mergeAll_eq_nil hnp⟩⟩
        simpa using hp
      · exact ih _ (hstep n c hc)

/-! ## the loops as written refine to the forms the theorems are about -/

/-- `FindConversionChain` written loop by loop as in chain.go (`searchScan`/`pickScan` with their
`return`s and slices, `passLoop` with the `newPaths` map filled inside the nested ranges) computes
exactly `find`; every theorem below therefore holds of `findCode`, which is what the driver runs. -/
theorem code_loops_refine (ord : Order) (c : Chain) (rule : Rule) :
    findCode ord c rule = find ord c rule ∧
    (∀ entries, searchPathLoop entries rule = searchPath entries rule) ∧
    (∀ n, passLoop ord n c rule = mergeAll [] (candidates ord n c rule)) :=
  ⟨findCode_eq ord c rule, fun e => searchPathLoop_eq e rule, fun n => passLoop_eq ord n c rule⟩

/-! ## C15.1 soundness -/

theorem found_is_chain {ord : Order} {m : Nat} {rules : List Rule} {c : Chain} {rule : Rule}
    (h : CacheOK rules c) (hp : searchPath (ord.perm m c.cache) rule ≠ []) :
    IsChain SameShort rules rule.src rule.dst (searchPath (ord.perm m c.cache) rule) := by
  obtain ⟨e, he, hk, hpe⟩ := searchPath_sound hp
  have hec : e ∈ c.cache := ((ord.isPerm _ _).mem_iff).1 he
  simp only [keyMatches, Bool.and_eq_true] at hk
  rw [hpe]
  exact (h.entries e hec).respell (matched_sameShort hk.2) (matched_sameShort hk.1).symm'

/-- one query keeps the invariant, and what it returns is a chain -/
theorem find_ok (ord : Order) (rules : List Rule) (c : Chain) (rule : Rule) (h : CacheOK rules c) :
    CacheOK rules (find ord c rule).1 ∧
    ∀ p, (find ord c rule).2 = .found p → IsChain SameShort rules rule.src rule.dst p := by
  unfold find
  split
  · exact ⟨h, by simp⟩
  · obtain ⟨h1, h2, _⟩ := findLoop_spec ord rule (CacheOK rules) (fun _ _ => pass_ok) _ c h
    refine ⟨h1, fun p hp => ?_⟩
    obtain ⟨hne, m, rfl⟩ := h2 p hp
    exact found_is_chain h1 hne

/-- the cache after the rules were registered (`Chain.Put` for every declared rule) -/
theorem put_ok {rules : List Rule} {c : Chain} {r : Rule} (h : CacheOK rules c) (hr : r ∈ rules) :
    CacheOK rules (c.put r) := by
  refine ⟨?_, ?_⟩
  · intro x hx
    simp only [Chain.put] at hx
    split at hx
    · exact h.base_sub x hx
    · rcases List.mem_append.1 hx with hx | hx
      · exact h.base_sub x hx
      · simp at hx; exact hx ▸ hr
  · intro e he
    rcases mem_cacheSet he with he | he
    · subst he
      exact ⟨by simp, by simp [hr], ⟨SameShort.rfl', trivial⟩, SameShort.rfl'⟩
    · exact h.entries e he

theorem foldl_put_ok {rules : List Rule} : ∀ (rs : List Rule) (c : Chain), CacheOK rules c →
    (∀ r ∈ rs, r ∈ rules) → CacheOK rules (rs.foldl Chain.put c)
  | [], _, h, _ => h
  | r :: rs, c, h, hr =>
    foldl_put_ok rs (c.put r) (put_ok h (hr r (by simp))) (fun x hx => hr x (by simp [hx]))

theorem ofRules_ok (rules : List Rule) : CacheOK rules (Chain.ofRules rules) :=
  foldl_put_ok rules {} ⟨by simp, by simp⟩ (fun _ h => h)

/-- the storage after any history of earlier queries -/
def afterQueries (ord : Order) (c : Chain) (qs : List Rule) : Chain :=
  qs.foldl (fun c q => (find ord c q).1) c

theorem afterQueries_ok (ord : Order) (rules : List Rule) :
    ∀ (qs : List Rule) (c : Chain), CacheOK rules c → CacheOK rules (afterQueries ord c qs)
  | [], _, h => h
  | q :: qs, c, h => afterQueries_ok ord rules qs _ (find_ok ord rules c q h).1

/-- **C15.1 (`chain_sound`, unconditional form).** Whatever rules were declared, whatever was asked
before on the same cache, in whatever order the maps are iterated: a chain returned for (a,b) is a
non-empty sequence of declared rules that starts at a, ends at b and whose steps connect — where two
spellings are the same version when they are equal after dropping the group. -/
theorem chain_sound_short (ord : Order) (rules : List Rule) (history : List Rule) (a b : Ver) (p : Path)
    (h : (find ord (afterQueries ord (Chain.ofRules rules) history) ⟨a, b⟩).2 = .found p) :
    IsChain SameShort rules a b p :=
  (find_ok ord rules _ ⟨a, b⟩ (afterQueries_ok ord rules history _ (ofRules_ok rules))).2 p h

/-- the versions the rules mention -/
def versionsOf (rules : List Rule) : List Ver := rules.flatMap (fun r => [r.src, r.dst])

theorem versionsOf_mem {rules : List Rule} {r : Rule} (h : r ∈ rules) :
    r.src ∈ versionsOf rules ∧ r.dst ∈ versionsOf rules := by
  simp only [versionsOf, List.mem_flatMap]
  exact ⟨⟨r, h, by simp⟩, ⟨r, h, by simp⟩⟩

/-- **C15.1 (`chain_sound`).** … and it is a chain for the code's own `VersionsMatched` as soon as no
short version is qualified by two different groups among the spellings of the rules and of the
request (one CRD has one group). Earlier queries may have used any spelling. -/
theorem chain_sound (ord : Order) (rules : List Rule) (history : List Rule) (a b : Ver) (p : Path)
    (hU : Coherent (a :: b :: versionsOf rules))
    (h : (find ord (afterQueries ord (Chain.ofRules rules) history) ⟨a, b⟩).2 = .found p) :
    IsChain Matched rules a b p :=
  (chain_sound_short ord rules history a b p h).matched hU
    (fun _ hr => ⟨by simp [(versionsOf_mem hr).1], by simp [(versionsOf_mem hr).2]⟩)
    (by simp) (by simp)

/-! ## C15.3 termination -/

/-- number of declared rules whose target is not yet a key `(from, target)` of the cache -/
def missing (c : Chain) (rule : Rule) : Nat :=
  (c.base.filter (fun r => !hasKey c.cache ⟨rule.src, r.dst⟩)).length

theorem missing_pass_lt {ord : Order} {n : Nat} {rules : List Rule} {c : Chain} {rule : Rule}
    (h : CacheOK rules c) (hnp : mergeAll [] (candidates ord n c rule) ≠ []) :
    missing (pass ord n c rule) rule < missing c rule := by
  obtain ⟨x, hx⟩ := List.exists_mem_of_ne_nil _ hnp
  have hxc : x ∈ candidates ord n c rule := by
    rcases mem_mergeAll hx with h | h
    · cases h
    · exact h
  obtain ⟨e, _, nx, hnx, _, _, hsp, hxe⟩ := mem_candidates hxc
  unfold missing
  refine filter_length_lt _ _ c.base ?_ hnx ?_ ?_
  · intro r _ hq
    simp only [Bool.not_eq_true', ← Bool.not_eq_true, hasKey_iff] at hq ⊢
    exact fun hk => hq (hasKey_mergeAll_old hk)
  · simp only [Bool.not_eq_true', ← Bool.not_eq_true, hasKey_iff]
    intro ⟨e', he', hk⟩
    refine searchPath_complete (entries := ord.perm (4 * n + 3) c.cache) ?_
      (((ord.isPerm _ _).mem_iff).2 he') ?_ hsp
    · intro y hy
      exact (h.entries y (((ord.isPerm _ _).mem_iff).1 hy)).nonempty
    · simp [keyMatches, hk, versionsMatched_refl]
  · simp only [Bool.not_eq_false', hasKey_iff]
    have := hasKey_mergeAll_new (cache := c.cache) hx
    rw [hxe] at this
    exact this

theorem findLoop_terminates (ord : Order) (rules : List Rule) (rule : Rule) :
    ∀ n c, CacheOK rules c → missing c rule < n → (findLoop ord rule n c).2 ≠ .outOfFuel := by
  intro n
  induction n with
  | zero => intro c _ h; omega
  | succ n ih =>
    intro c hc hm
    simp only [findLoop]
    split
    · simp
    · split
      · simp
      · rename_i hnp
        have := missing_pass_lt (ord := ord) (n := n) (rule := rule) hc hnp
        exact ih (pass ord n c rule) (pass_ok hc) (by omega)

/-- **C15.3 (`termination`).** The search loop of `FindConversionChain` stops: every pass that does
not end the loop adds a key `(from, target of a declared rule)` that was missing, so after at most
`#rules` passes the loop has returned. The bound of the model is never reached. -/
theorem find_terminates (ord : Order) (rules : List Rule) (history : List Rule) (a b : Ver) :
    (find ord (afterQueries ord (Chain.ofRules rules) history) ⟨a, b⟩).2 ≠ .outOfFuel := by
  have hok := afterQueries_ok ord rules history _ (ofRules_ok rules)
  unfold find
  split
  · simp
  · refine findLoop_terminates ord rules _ _ _ hok ?_
    unfold missing
    exact Nat.lt_succ_of_le (List.length_filter_le _ _)

/-! ## C15.2 completeness -/

theorem put_full {c : Chain} {r : Rule}
    (h : ∀ x ∈ c.base, HasKey c.cache x) : ∀ x ∈ (c.put r).base, HasKey (c.put r).cache x := by
  intro x hx
  simp only [Chain.put] at hx ⊢
  split at hx
  · exact hasKey_cacheSet_old (h x hx)
  · rcases List.mem_append.1 hx with hx | hx
    · exact hasKey_cacheSet_old (h x hx)
    · simp at hx; subst hx; exact ⟨_, self_mem_cacheSet _ _ _, rfl⟩

theorem foldl_put_base : ∀ (rs : List Rule) (c : Chain),
    (∀ x ∈ c.base, x ∈ (rs.foldl Chain.put c).base) ∧ ∀ r ∈ rs, r ∈ (rs.foldl Chain.put c).base
  | [], _ => ⟨fun _ h => h, by simp⟩
  | r :: rs, c => by
    obtain ⟨h1, h2⟩ := foldl_put_base rs (c.put r)
    have hr : r ∈ (c.put r).base := by
      simp only [Chain.put]; split <;> simp_all
    have hold : ∀ x ∈ c.base, x ∈ (c.put r).base := by
      intro x hx; simp only [Chain.put]; split <;> simp_all
    refine ⟨fun x hx => h1 x (hold x hx), ?_⟩
    intro x hx
    rcases List.mem_cons.1 hx with hx | hx
    · subst hx; exact h1 _ hr
    · exact h2 x hx

theorem foldl_put_keys : ∀ (rs : List Rule) (c : Chain), (∀ x ∈ c.base, HasKey c.cache x) →
    ∀ x ∈ (rs.foldl Chain.put c).base, HasKey (rs.foldl Chain.put c).cache x
  | [], _, h => h
  | r :: rs, c, h => foldl_put_keys rs (c.put r) (put_full h)

theorem foldl_put_inU {U : List Ver} : ∀ (rs : List Rule) (c : Chain),
    (∀ e ∈ c.cache, e.1.src ∈ U ∧ e.1.dst ∈ U) → (∀ r ∈ rs, r.src ∈ U ∧ r.dst ∈ U) →
    ∀ e ∈ (rs.foldl Chain.put c).cache, e.1.src ∈ U ∧ e.1.dst ∈ U
  | [], _, h, _ => h
  | r :: rs, c, h, hr => by
    refine foldl_put_inU rs (c.put r) ?_ (fun x hx => hr x (by simp [hx]))
    intro e he
    rcases mem_cacheSet he with he | he
    · subst he; exact hr r (by simp)
    · exact h e he

theorem ofRules_full (rules : List Rule) (U : List Ver) (hrU : ∀ r ∈ rules, r.src ∈ U ∧ r.dst ∈ U) :
    CacheFull rules U (Chain.ofRules rules) :=
  ⟨(foldl_put_base rules {}).2, foldl_put_keys rules {} (by simp),
    foldl_put_inU rules {} (by simp) hrU⟩

theorem find_full (ord : Order) (rules : List Rule) (U : List Ver) (c : Chain) (rule : Rule)
    (hok : CacheOK rules c) (h : CacheFull rules U c) (hA : rule.src ∈ U)
    (hrU : ∀ r ∈ rules, r.src ∈ U ∧ r.dst ∈ U) : CacheFull rules U (find ord c rule).1 := by
  unfold find
  split
  · exact h
  · exact (findLoop_spec ord rule (fun c => CacheOK rules c ∧ CacheFull rules U c)
      (fun _ _ hc => ⟨pass_ok hc.1, pass_full hc.1 hc.2 hA hrU⟩) _ c ⟨hok, h⟩).1.2

theorem afterQueries_full (ord : Order) (rules : List Rule) (U : List Ver)
    (hrU : ∀ r ∈ rules, r.src ∈ U ∧ r.dst ∈ U) :
    ∀ (qs : List Rule) (c : Chain), CacheOK rules c → CacheFull rules U c → (∀ q ∈ qs, q.src ∈ U) →
      CacheFull rules U (afterQueries ord c qs)
  | [], _, _, h, _ => h
  | q :: qs, c, hok, h, hq =>
    afterQueries_full ord rules U hrU qs _ (find_ok ord rules c q hok).1
      (find_full ord rules U c q hok h (hq q (by simp)) hrU) (fun x hx => hq x (by simp [hx]))

/-- When a pass finds nothing new, the versions reachable from `A` over declared rules are all
reached by a cached path (or are `A` itself). -/
theorem reach_closed {ord : Order} {k : Nat} {rules : List Rule} {U : List Ver} {c : Chain} {A B : Ver}
    (_hok : CacheOK rules c) (hfull : CacheFull rules U c) (hU : Coherent U) (hA : A ∈ U)
    (hrU : ∀ r ∈ rules, r.src ∈ U ∧ r.dst ∈ U) (hc : candidates ord k c ⟨A, B⟩ = []) :
    ∀ (p : Path) (x : Ver), Linked SameShort x p → (∀ r ∈ p, r ∈ rules) →
      (SameShort x A ∨ ∃ e ∈ c.cache, SameShort e.1.src A ∧ SameShort e.1.dst x) →
      (SameShort (endOf x p) A ∨ ∃ e ∈ c.cache, SameShort e.1.src A ∧ SameShort e.1.dst (endOf x p)) := by
  intro p
  induction p with
  | nil => intro x _ _ h; exact h
  | cons r rs ih =>
    intro x hl hd hx
    have hr := hd r (by simp)
    refine ih r.dst hl.2 (fun y hy => hd y (by simp [hy])) ?_
    by_cases hrA : SameShort r.dst A
    · exact Or.inl hrA
    · right
      by_cases hxA : SameShort x A
      · -- the rule itself is a key of the cache and starts at A
        obtain ⟨e, he, hk⟩ := hfull.keys r (hfull.base_all r hr)
        exact ⟨e, he, by rw [hk]; exact (hl.1.symm').trans' hxA, by rw [hk]; exact SameShort.rfl'⟩
      · rcases hx with hx | ⟨e, he, h1, h2⟩
        · exact absurd hx hxA
        · -- the pass would have recorded (A, r.dst) unless a similar key is already there
          have hne : searchPath (ord.perm (4 * k + 3) c.cache) ⟨A, r.dst⟩ ≠ [] := by
            intro h5
            have hin := candidates_mem (ord := ord) (n := k) (c := c) (rule := ⟨A, B⟩) he
              (hfull.base_all r hr)
              (hU.matched (hfull.inU e he).1 hA h1)
              (fun h => hxA (h2.symm'.trans' h))
              (Or.inr (hU.matched (hrU r hr).1 (hfull.inU e he).2 (hl.1.symm'.trans' h2.symm')))
              hrA h5
            rw [hc] at hin; cases hin
          obtain ⟨e', he', hk, _⟩ := searchPath_sound hne
          simp only [keyMatches, Bool.and_eq_true] at hk
          exact ⟨e', ((ord.isPerm _ _).mem_iff).1 he', (matched_sameShort hk.2).symm',
            (matched_sameShort hk.1).symm'⟩

theorem endOf_last {rules : List Rule} : ∀ (p : Path) (a : Ver), p ≠ [] → (∀ r ∈ p, r ∈ rules) →
    ∃ r ∈ rules, endOf a p = r.dst
  | [], _, h, _ => absurd rfl h
  | [q], _, _, h2 => ⟨q, h2 q (by simp), rfl⟩
  | q :: q' :: qs, _, _, h2 =>
    endOf_last (q' :: qs) q.dst (by simp) (fun r hr => h2 r (by simp [hr]))

theorem chain_last {S : Ver → Ver → Prop} {rules : List Rule} {a b : Ver} {p : Path}
    (h : IsChain S rules a b p) : ∃ r ∈ rules, endOf a p = r.dst :=
  endOf_last p a h.nonempty h.declared

/-- one query on a cache that satisfies the invariants -/
theorem find_complete (ord : Order) (rules : List Rule) (U : List Ver) (c : Chain) (a b : Ver)
    (hok : CacheOK rules c) (hfull : CacheFull rules U c) (hU : Coherent U) (ha : a ∈ U) (hb : b ∈ U)
    (hrU : ∀ r ∈ rules, r.src ∈ U ∧ r.dst ∈ U) (hab : ¬ SameShort a b)
    (hex : ∃ p, IsChain SameShort rules a b p) :
    ∃ p, (find ord c ⟨a, b⟩).2 = .found p := by
  obtain ⟨p, hp⟩ := hex
  have hterm : (find ord c ⟨a, b⟩).2 ≠ .outOfFuel := by
    unfold find
    split
    · simp
    · exact findLoop_terminates ord rules _ _ _ hok
        (Nat.lt_succ_of_le (List.length_filter_le _ _))
  unfold find at hterm ⊢
  have htarget : hasTarget c.base b = true := by
    obtain ⟨r, hr, hend⟩ := chain_last hp
    simp only [hasTarget, List.any_eq_true]
    exact ⟨r, hfull.base_all r hr, hU.matched hb (hrU r hr).2 (by rw [← hend]; exact hp.ends.symm')⟩
  simp only [htarget, Bool.not_true, Bool.false_eq_true, if_false] at hterm ⊢
  obtain ⟨⟨hok', hfull'⟩, _, h3⟩ := findLoop_spec ord ⟨a, b⟩
    (fun c => CacheOK rules c ∧ CacheFull rules U c)
    (fun _ _ hc => ⟨pass_ok hc.1, pass_full hc.1 hc.2 ha hrU⟩) (c.base.length + 1) c ⟨hok, hfull⟩
  generalize hres : findLoop ord ⟨a, b⟩ (c.base.length + 1) c = res at *
  obtain ⟨c', out⟩ := res
  cases out with
  | found q => exact ⟨q, rfl⟩
  | outOfFuel => exact absurd rfl hterm
  | notFound =>
    exfalso
    obtain ⟨m, k, hs, hcand⟩ := h3 rfl
    have := reach_closed hok' hfull' hU ha hrU hcand p a hp.linked hp.declared (Or.inl SameShort.rfl')
    rcases this with h | ⟨e, he, h1, h2⟩
    · exact hab (h.symm'.trans' hp.ends)
    · refine searchPath_complete (entries := ord.perm m c'.cache) ?_
        (((ord.isPerm _ _).mem_iff).2 he) ?_ hs
      · intro y hy
        exact (hok'.entries y (((ord.isPerm _ _).mem_iff).1 hy)).nonempty
      · simp only [keyMatches, Bool.and_eq_true]
        exact ⟨hU.matched hb (hfull'.inU e he).2 (hp.ends.symm'.trans' h2.symm'),
          hU.matched ha (hfull'.inU e he).1 h1.symm'⟩

/-- **C15.2 (`chain_complete`).** If some sequence of declared rules leads from a to b (steps
connecting by `VersionsMatched`), the search returns a chain — on the fresh storage and after any
history of earlier queries, for every map iteration order — provided (1) among the spellings used by
the rules, the earlier queries and the request no short version is qualified by two groups, and
(2) a and b are not the same version. Both excluded points are run on the code (scope=multi,
scope=same). -/
theorem chain_complete (ord : Order) (rules : List Rule) (history : List Rule) (a b : Ver)
    (hU : Coherent (a :: b :: (history.map (·.src) ++ versionsOf rules)))
    (hab : ¬ SameShort a b) (hex : ∃ p, IsChain Matched rules a b p) :
    ∃ p, (find ord (afterQueries ord (Chain.ofRules rules) history) ⟨a, b⟩).2 = .found p := by
  have hrU : ∀ r ∈ rules, r.src ∈ a :: b :: (history.map (·.src) ++ versionsOf rules) ∧
      r.dst ∈ a :: b :: (history.map (·.src) ++ versionsOf rules) :=
    fun _ hr => ⟨by simp [(versionsOf_mem hr).1], by simp [(versionsOf_mem hr).2]⟩
  obtain ⟨p, hp⟩ := hex
  refine find_complete ord rules _ _ a b (afterQueries_ok ord rules history _ (ofRules_ok rules))
    (afterQueries_full ord rules _ hrU history _ (ofRules_ok rules) (ofRules_full rules _ hrU) ?_)
    hU (by simp) (by simp) hrU hab
    ⟨p, hp.nonempty, hp.declared, Linked.mono (fun _ _ h => matched_sameShort h) _ _ hp.linked,
      matched_sameShort hp.ends⟩
  intro q hq
  have : q.src ∈ history.map (·.src) := List.mem_map.2 ⟨q, hq, rfl⟩
  simp [this]

/-! ## when the hypothesis of `chain_sound`/`chain_complete` holds -/

/-- every group-qualified spelling in `U` is `g/<short version>` for one and the same group `g`
(the CRD's group) -/
def SingleGroup (g : Ver) (U : List Ver) : Prop :=
  ∀ v ∈ U, ∀ s, afterSlash v = some s → v = g ++ '/' :: s

/-- with a single group, `VersionsMatched` is "same short version" on `U` -/
theorem singleGroup_coherent (g : Ver) (U : List Ver) (h : SingleGroup g U) : Coherent U := by
  intro x hx y hy hxy
  unfold trimGroup at hxy
  unfold versionsMatched
  by_cases he : x = y
  · simp [he]
  · simp only [he, if_false]
    cases hax : afterSlash x with
    | none =>
      cases hay : afterSlash y with
      | none => simp [hax, hay] at hxy; exact absurd hxy he
      | some s1 => simp [hax, hay] at hxy; simp [hxy]
    | some s0 =>
      cases hay : afterSlash y with
      | none => simp [hax, hay] at hxy; simp [hxy]
      | some s1 =>
        simp [hax, hay] at hxy
        exact absurd (by rw [h x hx s0 hax, h y hy s1 hay, hxy]) he

/-- `chain_complete` for a CRD with one group -/
theorem chain_complete_singleGroup (ord : Order) (rules : List Rule) (history : List Rule) (a b g : Ver)
    (hg : SingleGroup g (a :: b :: (history.map (·.src) ++ versionsOf rules)))
    (hab : ¬ SameShort a b) (hex : ∃ p, IsChain Matched rules a b p) :
    ∃ p, (find ord (afterQueries ord (Chain.ofRules rules) history) ⟨a, b⟩).2 = .found p :=
  chain_complete ord rules history a b (singleGroup_coherent g _ hg) hab hex

/-! ## the not-found oracle of the driver decides existence -/

theorem reach_sound (rules : List Rule) (a : Ver) :
    ∀ r ∈ reachFrom versionsMatched rules a,
      ∃ p, p ≠ [] ∧ (∀ x ∈ p, x ∈ rules) ∧ Linked Matched a p ∧ endOf a p = r.dst := by
  unfold reachFrom
  have hstep : ∀ (l : List Nat) (seen : List Rule),
      (∀ r ∈ seen, ∃ p, p ≠ [] ∧ (∀ x ∈ p, x ∈ rules) ∧ Linked Matched a p ∧ endOf a p = r.dst) →
      ∀ r ∈ l.foldl (fun seen _ => reachStep versionsMatched rules seen) seen,
        ∃ p, p ≠ [] ∧ (∀ x ∈ p, x ∈ rules) ∧ Linked Matched a p ∧ endOf a p = r.dst := by
    intro l
    induction l with
    | nil => intro seen h; exact h
    | cons n ns ih =>
      intro seen h
      apply ih
      intro r hr
      unfold reachStep at hr
      rcases List.mem_append.1 hr with hr | hr
      · exact h r hr
      · obtain ⟨hr1, hr2⟩ := List.mem_filter.1 hr
        simp only [Bool.and_eq_true, List.any_eq_true] at hr2
        obtain ⟨_, s, hs, hsame⟩ := hr2
        obtain ⟨p, hp1, hp2, hp3, hp4⟩ := h s hs
        refine ⟨p ++ [r], by simp, ?_, ?_, endOf_append a p r⟩
        · intro x hx
          rcases List.mem_append.1 hx with hx | hx
          · exact hp2 x hx
          · simp at hx; exact hx ▸ hr1
        · exact (linked_append _ _ _ _).2 ⟨hp3, by rw [hp4]; exact hsame⟩
  apply hstep
  intro r hr
  obtain ⟨hr1, hr2⟩ := List.mem_filter.1 hr
  exact ⟨[r], by simp, by simp [hr1], ⟨hr2, trivial⟩, rfl⟩

theorem chainExistsB_sound {rules : List Rule} {a b : Ver}
    (h : chainExistsB versionsMatched rules a b = true) : ∃ p, IsChain Matched rules a b p := by
  simp only [chainExistsB, List.any_eq_true] at h
  obtain ⟨r, hr, hb⟩ := h
  obtain ⟨p, h1, h2, h3, h4⟩ := reach_sound rules a r hr
  exact ⟨p, h1, h2, h3, by rw [h4]; exact hb⟩

/-- The driver's answer to "does a valid chain exist" is right: within the scope of
`chain_complete` (coherent spellings, a and b different versions) `chainExistsDec` is true exactly
when a valid chain exists; outside that scope a `true` is still always right. -/
theorem chainExistsDec_iff (rules : List Rule) (a b : Ver)
    (hU : Coherent (a :: b :: versionsOf rules)) (hab : ¬ SameShort a b) :
    chainExistsDec rules a b = true ↔ ∃ p, IsChain Matched rules a b p := by
  constructor
  · intro h
    simp only [chainExistsDec, Bool.or_eq_true] at h
    rcases h with h | h
    · exact chainExistsB_sound h
    · cases hf : (find Order.ident (Chain.ofRules rules) ⟨a, b⟩).2 with
      | found p => exact ⟨p, chain_sound Order.ident rules [] a b p hU hf⟩
      | notFound => simp [hf, Outcome.isFound] at h
      | outOfFuel => simp [hf, Outcome.isFound] at h
  · intro hex
    obtain ⟨p, hp⟩ := chain_complete Order.ident rules [] a b (by simpa using hU) hab hex
    simp only [chainExistsDec, Bool.or_eq_true]
    right
    simp only [afterQueries, List.foldl_nil] at hp
    simp [hp, Outcome.isFound]

theorem chainExistsDec_sound (rules : List Rule) (a b : Ver)
    (hU : Coherent (a :: b :: versionsOf rules)) (h : chainExistsDec rules a b = true) :
    ∃ p, IsChain Matched rules a b p := by
  simp only [chainExistsDec, Bool.or_eq_true] at h
  rcases h with h | h
  · exact chainExistsB_sound h
  · cases hf : (find Order.ident (Chain.ofRules rules) ⟨a, b⟩).2 with
    | found p => exact ⟨p, chain_sound Order.ident rules [] a b p hU hf⟩
    | notFound => simp [hf, Outcome.isFound] at h
    | outOfFuel => simp [hf, Outcome.isFound] at h

/-! ## C15.4 application, step by step -/

theorem linked_prefix {S : Ver → Ver → Prop} : ∀ (p q : Path) (a : Ver), q <+: p → Linked S a p → Linked S a q
  | _, [], _, _, _ => trivial
  | [], _ :: _, _, h, _ => by simp at h
  | r :: rs, r' :: qs, _, h, hl => by
    obtain ⟨h1, h2⟩ := List.cons_prefix_cons.1 h
    subst h1
    exact ⟨hl.1, linked_prefix rs qs _ h2 hl.2⟩

/-- `ExtractAPIVersions` keeps what it has collected and collects the version of every object -/
theorem extractVersions_foldl_mem (objs : List Obj) : ∀ (acc : List Ver),
    (∀ v ∈ acc, v ∈ objs.foldl (fun acc o => if acc.contains o.ver then acc else acc ++ [o.ver]) acc) ∧
    (∀ o ∈ objs, o.ver ∈ objs.foldl (fun acc o => if acc.contains o.ver then acc else acc ++ [o.ver]) acc) := by
  induction objs with
  | nil => intro acc; exact ⟨fun v hv => hv, fun o ho => by simp at ho⟩
  | cons x xs ih =>
    intro acc
    simp only [List.foldl_cons]
    obtain ⟨h1, h2⟩ := ih (if acc.contains x.ver then acc else acc ++ [x.ver])
    have hx : x.ver ∈ (if acc.contains x.ver then acc else acc ++ [x.ver]) := by
      by_cases hc : acc.contains x.ver = true
      · simp only [hc, if_true]; exact List.contains_iff_mem.1 hc
      · rw [if_neg hc]; exact List.mem_append_right _ (List.mem_singleton.2 rfl)
    refine ⟨fun v hv => h1 v ?_, fun o ho => ?_⟩
    · by_cases hc : acc.contains x.ver = true
      · rw [if_pos hc]; exact hv
      · rw [if_neg hc]; exact List.mem_append_left _ hv
    · rcases List.mem_cons.1 ho with rfl | ho
      · exact h1 _ hx
      · exact h2 o ho

/-- every object's apiVersion is among the versions `ExtractAPIVersions` reports -/
theorem extractVersions_mem {objs : List Obj} {o : Obj} (h : o ∈ objs) : o.ver ∈ extractVersions objs :=
  (extractVersions_foldl_mem objs []).2 o h

/-- the handler's test "the versions of the output are exactly [desired]" means: every object, one by
one, is at the desired version -/
theorem extractVersions_single {objs : List Obj} {v : Ver} (h : extractVersions objs = [v]) :
    objs.all (fun o => o.ver == v) = true := by
  simp only [List.all_eq_true, beq_iff_eq]
  intro o ho
  have := extractVersions_mem ho
  rw [h] at this
  simpa using this

/-- `ExtractAPIVersions` on the raw objects (a fresh `TypeMeta` per object) is `extractVersions` on the
decoded objects: `null`, `{}` and objects without `apiVersion` count as the empty version wherever
they stand -/
theorem extractVersionsRaw_eq (raws : List RawObj) :
    extractVersionsRaw raws = extractVersions (raws.map RawObj.decode) := by
  unfold extractVersionsRaw extractVersions
  rw [List.foldl_map]
  congr 1
  funext acc o
  cases o with
  | null => rfl
  | obj id v => cases v <;> rfl

/-- an object that decodes to a non-empty version carries that `apiVersion` itself -/
theorem decode_ver_eq {o : RawObj} {v : Ver} (hv : v ≠ []) (h : o.decode.ver = v) :
    ∃ id, o = .obj id (some v) := by
  cases o with
  | null => exact absurd h.symm hv
  | obj id w =>
    cases w with
    | none => exact absurd h.symm hv
    | some w => exact ⟨id, by simp [RawObj.decode] at h; rw [h]⟩

/-- the handler's test on a raw hook answer: "the versions are exactly [desired]" holds only if every
element is a JSON object with `apiVersion: desired` — no `null`, `{}`, version-less or older object in
any position -/
theorem extractVersionsRaw_single {raws : List RawObj} {v : Ver} (hv : v ≠ [])
    (h : extractVersionsRaw raws = [v]) : ∀ o ∈ raws, ∃ id, o = .obj id (some v) := by
  intro o ho
  rw [extractVersionsRaw_eq] at h
  have hall := extractVersions_single h
  simp only [List.all_eq_true, beq_iff_eq] at hall
  exact decode_ver_eq hv (hall _ (List.mem_map_of_mem ho))

/-- what the way the inner loop ended says about the outcome of the last hook run -/
def EndOK (desired : Ver) : PathEnd → List Obj → Option HookOut → Prop
  | .done, o, lo => lo = some (.resp "" o) ∧ extractVersions o = [desired]
  | .exhausted, _, lo => ∀ msg out, lo = some (.resp msg out) → msg = ""
  | .ret (.err _), _, lo => ∀ msg out, lo = some (.resp msg out) → msg = ""
  | .ret (.resp (some m) _), _, lo => ∀ msg out, lo = some (.resp msg out) → msg ≠ "" → m = .own msg
  | .ret (.resp none _), _, _ => False

theorem EndOK.after_ok {desired : Ver} {e : PathEnd} {o out : List Obj}
    (h : EndOK desired e o none) : EndOK desired e o (some (.resp "" out)) := by
  cases e with
  | done => simp [EndOK] at h
  | exhausted => intro msg out' h'; simp at h'; exact h'.1
  | ret r =>
    cases r with
    | err m => intro msg out' h'; simp at h'; exact h'.1
    | resp f objs =>
      cases f with
      | none => exact h
      | some m => intro msg out' h' hne; simp at h'; exact absurd h'.1 hne

theorem lastOutcome_cons (script : Script) (i : Nat) (t : Invocation) (ts : List Invocation) :
    lastOutcome script i (t :: ts) =
      if ts = [] then some (script i t.rule t.input) else lastOutcome script (i + 1) ts := by
  cases ts with
  | nil => simp [lastOutcome]
  | cons t' ts' => simp [lastOutcome]

/-- The inner loop, from any point of the run on: the runs it adds serve a prefix of the chain, in
order; each receives the previous output; nothing runs after a run that did not succeed; and the way
the loop ends matches the outcome of the last run. -/
theorem runPath_spec (links : Rule → Bool) (script : Script) (desired : Ver) :
    ∀ (p : Path) (objs : List Obj) (inv0 : List Invocation),
      ∃ tr, (runPath links script desired p objs inv0).2.2 = inv0 ++ tr ∧
        tr.map (·.rule) <+: p ∧
        pipeCheck script inv0.length objs tr = none ∧
        EndOK desired (runPath links script desired p objs inv0).1
          (runPath links script desired p objs inv0).2.1 (lastOutcome script inv0.length tr) := by
  intro p
  induction p with
  | nil =>
    intro objs inv0
    exact ⟨[], by simp [runPath], by simp, by simp [pipeCheck], by simp [runPath, EndOK, lastOutcome]⟩
  | cons r rs ih =>
    intro objs inv0
    simp only [runPath]
    by_cases hl : links r = true
    · simp only [hl, Bool.not_true, Bool.false_eq_true, if_false]
      cases hs : script inv0.length r objs with
      | exitFail =>
        refine ⟨[⟨r, objs⟩], rfl, by simp, ?_, ?_⟩
        · simp [pipeCheck, hs, HookOut.okOut]
        · simp [EndOK, lastOutcome, hs]
      | noResponse =>
        refine ⟨[⟨r, objs⟩], rfl, by simp, ?_, ?_⟩
        · simp [pipeCheck, hs, HookOut.okOut]
        · simp [EndOK, lastOutcome, hs]
      | resp msg out =>
        by_cases hm : msg = ""
        · subst hm
          simp only [ne_eq, not_true_eq_false, if_false]
          by_cases hd : extractVersions out = [desired]
          · simp only [hd, if_true]
            refine ⟨[⟨r, objs⟩], rfl, by simp, ?_, ?_⟩
            · simp [pipeCheck, hs, HookOut.okOut]
            · simp [EndOK, lastOutcome, hs, hd]
          · simp only [hd, if_false]
            obtain ⟨tr, h1, h2, h3, h4⟩ := ih out (inv0 ++ [⟨r, objs⟩])
            refine ⟨⟨r, objs⟩ :: tr, by simp [h1], ?_, ?_, ?_⟩
            · simp only [List.map_cons]; exact List.cons_prefix_cons.2 ⟨rfl, h2⟩
            · simp only [List.length_append, List.length_cons, List.length_nil] at h3
              simp [pipeCheck, hs, HookOut.okOut, h3]
            · simp only [List.length_append, List.length_cons, List.length_nil] at h4
              rw [lastOutcome_cons]
              by_cases htr : tr = []
              · subst htr
                simp only [if_true, hs]
                exact EndOK.after_ok (by simpa [lastOutcome] using h4)
              · simp only [htr, if_false]; exact h4
        · simp only [ne_eq, hm, not_false_eq_true, if_true]
          refine ⟨[⟨r, objs⟩], rfl, by simp, ?_, ?_⟩
          · simp [pipeCheck, hs, HookOut.okOut, hm]
          · intro msg' out' h' _
            simp [lastOutcome, hs] at h'
            rw [h'.1]
    · simp only [hl, Bool.not_false, if_true]
      exact ⟨[], by simp, by simp, by simp [pipeCheck], by simp [EndOK, lastOutcome]⟩

/-- the reply built from the way the inner loop ended (single source version: the outer loop has
nothing left after this path) -/
def replyOf (requested : Nat) (r : PathEnd × List Obj × List Invocation) : Reply :=
  match r.1 with
  | .done => review requested (.resp none r.2.1)
  | .ret x => review requested x
  | .exhausted => review requested (.resp (some .notSuccessful) [])

/-- **C15.4 (`apply_chain`), for any chain handed to the handler.** With `p` a sequence of declared
rules linked from the source version `a`, for every script of hook outcomes: the property of the
application phase (`applyCheck`: chain order, each step receives the previous output, `Success` with
the requested number of objects only if every step succeeded, the failing hook's own message is
relayed, no step after a failed one) holds of what the handler does. -/
theorem apply_path (links : Rule → Bool) (script : Script) (rules : List Rule) (desired a : Ver)
    (objs : List Obj) (p : Path) (hv : extractVersions objs = [a])
    (hd : ∀ r ∈ p, r ∈ rules) (hl : Linked Matched a p) :
    applyCheck rules desired objs script (runPath links script desired p objs []).2.2
      (replyOf objs.length (runPath links script desired p objs [])) = none := by
  obtain ⟨tr, h1, h2, h3, h4⟩ := runPath_spec links script desired p objs []
  simp only [List.nil_append, List.length_nil] at h1 h3 h4
  generalize hres : runPath links script desired p objs [] = res at *
  obtain ⟨e, o, inv⟩ := res
  simp only at h1 h4
  subst h1
  have hdecl : (inv.map (·.rule)).all (fun r => rules.contains r) = true := by
    simp only [List.all_eq_true, List.contains_iff_mem]
    intro r hr
    exact hd r (h2.subset hr)
  have hlink : linkedB versionsMatched a (inv.map (·.rule)) = true :=
    (linkedB_iff _ _).2 (linked_prefix p _ a h2 hl)
  simp only [applyCheck, hv, List.headD_cons, hdecl, hlink, h3, Bool.not_true, Bool.false_eq_true, if_false]
  cases e with
  | done =>
    obtain ⟨hlo, hver⟩ := h4
    by_cases hlen : objs.length = o.length
    · have hall := extractVersions_single hver
      simp [replyOf, review, hlen, hlo, HookOut.okOut, hver, hall]
    · simp [replyOf, review, hlen, hlo]
  | exhausted =>
    simp only [replyOf, review]
    split
    · rename_i msg out hlo
      have := h4 msg out hlo
      simp [this]
    · rfl
  | ret x =>
    cases x with
    | err m =>
      simp only [replyOf, review]
      split
      · rename_i msg out hlo
        have := h4 msg out hlo
        simp [this]
      · rfl
    | resp f objs' =>
      cases f with
      | none => exact absurd h4 (by simp [EndOK])
      | some m =>
        simp only [replyOf, review]
        split
        · rename_i msg out hlo
          by_cases hm : msg = ""
          · simp [hm]
          · have := h4 msg out hlo hm
            simp [this]
        · rfl

/-- the handler on a request whose objects share one source version -/
theorem convert_eq (ord : Order) (links : Rule → Bool) (script : Script) (c : Chain) (desired a : Ver)
    (objs : List Obj) (hv : extractVersions objs = [a]) :
    convert ord links script c desired objs =
      match (find ord c ⟨a, desired⟩).2 with
      | .found p => (replyOf objs.length (runPath links script desired p objs []),
                     (runPath links script desired p objs []).2.2)
      | _ => (.failed .notSuccessful, []) := by
  simp only [convert, eventHandler, hv, eventLoop]
  generalize find ord c ⟨a, desired⟩ = fr
  obtain ⟨c', out⟩ := fr
  cases out with
  | found p =>
    simp only
    generalize runPath links script desired p objs [] = rp
    obtain ⟨e, o, inv⟩ := rp
    cases e <;> simp [replyOf, review]
  | notFound => simp [review]
  | outOfFuel => simp [review]

/-- **C15.4 (`apply_chain`).** End to end — search on the stateful cache after any history, then the
application — for every script of hook outcomes and every iteration order, on a request whose
objects share the source version `a`. -/
theorem apply_chain (ord : Order) (links : Rule → Bool) (script : Script) (rules history : List Rule)
    (desired a : Ver) (objs : List Obj) (hv : extractVersions objs = [a])
    (hU : Coherent (a :: desired :: versionsOf rules)) :
    applyCheck rules desired objs script
      (convert ord links script (afterQueries ord (Chain.ofRules rules) history) desired objs).2
      (convert ord links script (afterQueries ord (Chain.ofRules rules) history) desired objs).1 = none := by
  rw [convert_eq ord links script _ desired a objs hv]
  cases hf : (find ord (afterQueries ord (Chain.ofRules rules) history) ⟨a, desired⟩).2 with
  | found p =>
    have hc := chain_sound ord rules history a desired p hU hf
    exact apply_path links script rules desired a objs p hv hc.declared hc.linked
  | notFound => simp [applyCheck, hv, linkedB, pipeCheck, lastOutcome]
  | outOfFuel => simp [applyCheck, hv, linkedB, pipeCheck, lastOutcome]

/-- what `applyCheck` (the predicate of the `oracle e2e` line) demands of a `Success`: as many objects
as were requested, every one of them at the desired apiVersion, and they are the output of a last run
that succeeded -/
theorem applyCheck_success {rules : List Rule} {desired : Ver} {objs : List Obj} {script : Script}
    {inv : List Invocation} {robjs : List Obj}
    (h : applyCheck rules desired objs script inv (.success robjs) = none) :
    robjs.length = objs.length ∧ (∀ o ∈ robjs, o.ver = desired) ∧
      (lastOutcome script 0 inv).bind HookOut.okOut = some robjs := by
  unfold applyCheck at h
  simp only at h
  split at h
  · exact absurd h (by simp)
  · split at h
    · exact absurd h (by simp)
    · split at h
      · exact absurd h (by simp)
      · split at h
        · exact absurd h (by simp)
        · rename_i o hlo
          split at h
          · exact absurd h (by simp)
          · rename_i out hout
            split at h
            · exact absurd h (by simp)
            · rename_i hro
              split at h
              · exact absurd h (by simp)
              · rename_i hlen
                split at h
                · exact absurd h (by simp)
                · split at h
                  · exact absurd h (by simp)
                  · rename_i hall
                    refine ⟨by simpa using hlen, ?_, ?_⟩
                    · simp only [Bool.not_eq_true, Bool.not_eq_false', ] at hall
                      simpa [List.all_eq_true] using hall
                    · have : robjs = out := by simpa using hro
                      rw [hlo, this]; simpa using hout

/-- **C15.4c (`success_objects_converted`): `Success` means every object was converted.** Whatever the
hooks hand back — `null`, `{}`, objects without apiVersion or left at an older version, in any
position, at any step — the answer is `Success` only with as many objects as were requested and every
returned object, one by one, at the desired apiVersion. -/
theorem success_objects_converted (ord : Order) (links : Rule → Bool) (script : Script)
    (rules history : List Rule) (desired a : Ver) (objs robjs : List Obj)
    (hv : extractVersions objs = [a]) (hU : Coherent (a :: desired :: versionsOf rules))
    (h : (convert ord links script (afterQueries ord (Chain.ofRules rules) history) desired objs).1
      = .success robjs) :
    robjs.length = objs.length ∧ ∀ o ∈ robjs, o.ver = desired := by
  have := apply_chain ord links script rules history desired a objs hv hU
  rw [h] at this
  exact ⟨(applyCheck_success this).1, (applyCheck_success this).2.1⟩

/-! ## C15.4b served whenever a chain exists: a `Failed` needs a reason -/

theorem lastOutcome_none (script : Script) : ∀ (tr : List Invocation) (i : Nat),
    lastOutcome script i tr = none → tr = []
  | [], _, _ => rfl
  | [_], _, h => by simp [lastOutcome] at h
  | _ :: t :: ts, i, h => by
    simp only [lastOutcome] at h
    exact absurd (lastOutcome_none script (t :: ts) (i + 1) h) (by simp)

/-- how the inner loop may end when every rule of the chain has a hook, in terms of the runs `tr`
it made and the outcome `lo` of the last of them -/
def ServedEnd (desired : Ver) (p : Path) (tr : List Invocation) : PathEnd → List Obj → Option HookOut → Prop
  | .done, o, lo => lo = some (.resp "" o) ∧ extractVersions o = [desired]
  | .exhausted, _, lo => tr.map (·.rule) = p ∧
      ∀ out, lo.bind HookOut.okOut = some out → extractVersions out ≠ [desired]
  | .ret _, _, lo => lo ≠ none ∧ lo.bind HookOut.okOut = none

/-- The inner loop when every rule of the chain is registered by a hook: it stops early only at a
run that did not succeed (or at objects of exactly the desired version); otherwise it walks the
whole chain. -/
theorem runPath_served (links : Rule → Bool) (script : Script) (desired : Ver) :
    ∀ (p : Path) (_ : ∀ r ∈ p, links r = true) (objs : List Obj) (inv0 : List Invocation),
      ∃ tr, (runPath links script desired p objs inv0).2.2 = inv0 ++ tr ∧
        ServedEnd desired p tr (runPath links script desired p objs inv0).1
          (runPath links script desired p objs inv0).2.1 (lastOutcome script inv0.length tr) := by
  intro p
  induction p with
  | nil =>
    intro _ objs inv0
    exact ⟨[], by simp [runPath], by simp [runPath, ServedEnd, lastOutcome]⟩
  | cons r rs ih =>
    intro hlk objs inv0
    have hl : links r = true := hlk r (by simp)
    have hrs : ∀ r' ∈ rs, links r' = true := fun r' h => hlk r' (by simp [h])
    simp only [runPath, hl, Bool.not_true, Bool.false_eq_true, if_false]
    cases hs : script inv0.length r objs with
    | exitFail =>
      exact ⟨[⟨r, objs⟩], rfl, by simp [ServedEnd, lastOutcome, hs, HookOut.okOut]⟩
    | noResponse =>
      exact ⟨[⟨r, objs⟩], rfl, by simp [ServedEnd, lastOutcome, hs, HookOut.okOut]⟩
    | resp msg out =>
      by_cases hm : msg = ""
      · subst hm
        simp only [ne_eq, not_true_eq_false, if_false]
        by_cases hd : extractVersions out = [desired]
        · simp only [hd, if_true]
          exact ⟨[⟨r, objs⟩], rfl, by simp [ServedEnd, lastOutcome, hs, hd]⟩
        · simp only [hd, if_false]
          obtain ⟨tr, h1, h2⟩ := ih hrs out (inv0 ++ [⟨r, objs⟩])
          refine ⟨⟨r, objs⟩ :: tr, by simp [h1], ?_⟩
          simp only [List.length_append, List.length_cons, List.length_nil] at h2
          rw [lastOutcome_cons]
          generalize runPath links script desired rs out (inv0 ++ [⟨r, objs⟩]) = res at h2
          obtain ⟨e, o, inv⟩ := res
          simp only at h2 ⊢
          by_cases htr : tr = []
          · subst htr
            simp only [if_true, hs]
            cases e with
            | done => simp [ServedEnd, lastOutcome] at h2
            | ret x => simp [ServedEnd, lastOutcome] at h2
            | exhausted =>
              simp only [ServedEnd, List.map_nil] at h2
              refine ⟨by simp [← h2.1], ?_⟩
              intro out' ho
              simp only [Option.bind_some, HookOut.okOut, if_true, Option.some.injEq] at ho
              subst ho
              exact hd
          · simp only [htr, if_false]
            cases e with
            | done => exact h2
            | ret x => exact h2
            | exhausted => exact ⟨by simp [h2.1], h2.2⟩
      · simp only [ne_eq, hm, not_false_eq_true, if_true]
        exact ⟨[⟨r, objs⟩], rfl, by simp [ServedEnd, lastOutcome, hs, HookOut.okOut, hm]⟩

theorem Coherent.subset {U V : List Ver} (hU : Coherent U) (h : ∀ x ∈ V, x ∈ U) : Coherent V :=
  fun x hx y hy e => hU x (h x hx) y (h y hy) e

/-- `servedCheck` for any chain handed to the handler whose rules all have a hook -/
theorem served_path (links : Rule → Bool) (script : Script) (rules : List Rule) (desired a : Ver)
    (objs : List Obj) (p : Path) (hv : extractVersions objs = [a])
    (hc : IsChain Matched rules a desired p) :
    servedCheck rules links desired objs script (runPath links script desired p objs []).2.2
      (replyOf objs.length (runPath links script desired p objs [])) = none := by
  by_cases hall : rules.all links = true
  · have hlk : ∀ r ∈ p, links r = true := fun r hr => (List.all_eq_true.1 hall) r (hc.declared r hr)
    obtain ⟨tr, h1, h2⟩ := runPath_served links script desired p hlk objs []
    simp only [List.nil_append, List.length_nil] at h1 h2
    generalize runPath links script desired p objs [] = res at *
    obtain ⟨e, o, inv⟩ := res
    simp only at h1 h2
    subst h1
    cases e with
    | done =>
      obtain ⟨hlo, hver⟩ := h2
      by_cases hlen : objs.length = o.length
      · simp [replyOf, review, hlen, servedCheck]
      · have hlen' : ¬ o.length = objs.length := fun h => hlen h.symm
        simp [replyOf, review, hlen, servedCheck, hv, hall, hlo, HookOut.okOut, hver, hlen']
    | exhausted =>
      obtain ⟨hw, hne⟩ := h2
      have hends : versionsMatched (endOf a (inv.map (·.rule))) desired = true := by
        rw [hw]; exact hc.ends
      simp only [replyOf, review, servedCheck, hv, hall, Bool.not_true, Bool.false_eq_true, if_false]
      split
      · rfl
      · cases hlo : lastOutcome script 0 inv with
        | none =>
          have := lastOutcome_none script inv 0 hlo
          subst this
          exact absurd hw.symm hc.nonempty
        | some x =>
          simp only
          cases hok : x.okOut with
          | none => rfl
          | some out =>
            have := hne out (by simp [hlo, hok])
            simp [this]
    | ret x =>
      obtain ⟨hnn, hno⟩ := h2
      cases hlo : lastOutcome script 0 inv with
      | none => exact absurd hlo hnn
      | some y =>
        have hy : y.okOut = none := by simpa [hlo] using hno
        simp only [servedCheck, hv, hlo, hy]
        split <;> (try rfl)
        split <;> (try rfl)
        split <;> rfl
  · simp only [servedCheck, hv, hall, Bool.not_false, if_true]
    split <;> (try rfl)
    split <;> rfl

/-- **C15.4b (`apply_served`).** "… is served by a sequence of declared rules whenever such a
sequence exists": end to end — search on the stateful cache after any history, then the application,
every script of hook outcomes, every iteration order, objects of one source version `a` — the answer
is `Failed` only for a reason (`servedCheck`): a run that did not succeed; objects that are not as
requested after the chain was walked to the desired version; or no declared chain from `a` to the
desired version. In particular, when every declared rule has a hook, a chain exists and every hook
succeeds with the requested objects, the answer is not `Failed`. Scope of `chain_complete`
(coherent spellings; `a` and the desired version differ — otherwise `servedCheck` demands nothing). -/
theorem apply_served (ord : Order) (links : Rule → Bool) (script : Script) (rules history : List Rule)
    (desired a : Ver) (objs : List Obj) (hv : extractVersions objs = [a])
    (hU : Coherent (a :: desired :: (history.map (·.src) ++ versionsOf rules))) :
    servedCheck rules links desired objs script
      (convert ord links script (afterQueries ord (Chain.ofRules rules) history) desired objs).2
      (convert ord links script (afterQueries ord (Chain.ofRules rules) history) desired objs).1 = none := by
  have hU' : Coherent (a :: desired :: versionsOf rules) :=
    Coherent.subset hU (by intro x hx; simp at hx ⊢; rcases hx with h | h | h <;> simp [h])
  rw [convert_eq ord links script _ desired a objs hv]
  have hnone : ∀ m, (find ord (afterQueries ord (Chain.ofRules rules) history) ⟨a, desired⟩).2 ≠ .found m →
      (∀ p, (find ord (afterQueries ord (Chain.ofRules rules) history) ⟨a, desired⟩).2 ≠ .found p) →
      servedCheck rules links desired objs script [] (.failed .notSuccessful) = none := by
    intro _ _ hnf
    simp only [servedCheck, hv, lastOutcome]
    split
    · rfl
    · rename_i hab
      split
      · rfl
      · cases hdec : chainExistsDec rules a desired with
        | false => rfl
        | true =>
          obtain ⟨p, hp⟩ := chain_complete ord rules history a desired hU hab
            ((chainExistsDec_iff rules a desired hU' hab).1 hdec)
          exact absurd hp (hnf p)
  cases hf : (find ord (afterQueries ord (Chain.ofRules rules) history) ⟨a, desired⟩).2 with
  | found p =>
    exact served_path links script rules desired a objs p hv (chain_sound ord rules history a desired p hU' hf)
  | notFound => exact hnone [] (by simp [hf]) (by simp [hf])
  | outOfFuel => exact hnone [] (by simp [hf]) (by simp [hf])

/-! ## several requests in flight (`Model/ConversionOverlap`) -/

section Overlap
open ShellOp.Conversion.Overlap

/-- **Requests in flight do not disturb each other.** Any number of requests, each with the chain
found for it, every interleaving `acts` of their steps ("task of the next step built" / "hook of the
built task run"), every script of hook outcomes per request: when the loop of request `i` has ended,
it has ended the way the sequential loop (`runPath`) ends on request `i` alone — the same hook runs
with the same inputs, the same objects, the same result. (The code allocates the review envelope of a
step per step: `Overlap.fresh`.) -/
theorem overlap_isolated (links : Rule → Bool) (script : Nat → Script) (desired : Nat → Ver)
    (path0 : Nat → Path) (objs0 : Nat → List Obj) (acts : List Act) (i : Nat) (e : PathEnd)
    (h : ((exec links script desired fresh acts (init path0 objs0)).fl i).fin = some e) :
    (e, ((exec links script desired fresh acts (init path0 objs0)).fl i).objs,
        ((exec links script desired fresh acts (init path0 objs0)).fl i).inv)
      = runPath links (script i) (desired i) (path0 i) (objs0 i) [] :=
  (good_exec acts good_init).fin i e h

/-- every hook run is handed the review of the request it is made for: in every reachable state the
envelope a built task's binding context points to holds its own request -/
theorem overlap_handed (links : Rule → Bool) (script : Nat → Script) (desired : Nat → Ver)
    (path0 : Nat → Path) (objs0 : Nat → List Obj) (acts : List Act) (i : Nat) (r : Rule) (env : Nat)
    (hf : ((exec links script desired fresh acts (init path0 objs0)).fl i).fin = none)
    (hb : ((exec links script desired fresh acts (init path0 objs0)).fl i).built = some (r, env)) :
    (exec links script desired fresh acts (init path0 objs0)).heap env = i :=
  ((good_exec (links := links) (script := script) (desired := desired) acts good_init).busy i r env hf hb).2.2.1

/-- **C15 application clause for every request in flight** (`applyCheck`, the predicate of the
`oracle e2e` line, on the request's own observation): whatever the other requests do in between, the
hooks of request `i` run in chain order, each receives the previous output OF REQUEST `i`, nothing
runs after a failed run, `Success` only with `i`'s requested number of objects, all converted, the
failing hook's own message relayed. `path0 i` is any chain of declared rules linked from the source
version (what `chain_sound` gives for the chain found on the cache as it was then). -/
theorem overlap_apply (links : Rule → Bool) (script : Nat → Script) (desired : Nat → Ver)
    (path0 : Nat → Path) (objs0 : Nat → List Obj) (acts : List Act) (i : Nat) (e : PathEnd)
    (rules : List Rule) (a : Ver) (hv : extractVersions (objs0 i) = [a])
    (hd : ∀ r ∈ path0 i, r ∈ rules) (hl : Linked Matched a (path0 i))
    (h : ((exec links script desired fresh acts (init path0 objs0)).fl i).fin = some e) :
    applyCheck rules (desired i) (objs0 i) (script i)
      ((exec links script desired fresh acts (init path0 objs0)).fl i).inv
      (replyOf (objs0 i).length
        (e, ((exec links script desired fresh acts (init path0 objs0)).fl i).objs,
            ((exec links script desired fresh acts (init path0 objs0)).fl i).inv)) = none := by
  have hiso := overlap_isolated links script desired path0 objs0 acts i e h
  have hinv : ((exec links script desired fresh acts (init path0 objs0)).fl i).inv
      = (runPath links (script i) (desired i) (path0 i) (objs0 i) []).2.2 := by rw [← hiso]
  rw [hiso, hinv]
  exact apply_path links (script i) rules (desired i) a (objs0 i) (path0 i) hv hd hl

/-- … with the chain the search returned for request `i`: the searches of the requests are serialised
by the lock of `ChainStorage` (`FindConversionChain` holds `cs.mu`), so request `i` finds the cache as
some history of earlier queries left it; whatever that history and the map iteration order, and
whatever the other requests do between `i`'s steps, the application clause holds of `i`'s run. -/
theorem overlap_apply_chain (ord : Order) (links : Rule → Bool) (script : Nat → Script) (desired : Nat → Ver)
    (path0 : Nat → Path) (objs0 : Nat → List Obj) (acts : List Act) (i : Nat) (e : PathEnd)
    (rules history : List Rule) (a : Ver) (hv : extractVersions (objs0 i) = [a])
    (hU : Coherent (a :: desired i :: versionsOf rules))
    (hfound : (find ord (afterQueries ord (Chain.ofRules rules) history) ⟨a, desired i⟩).2 = .found (path0 i))
    (h : ((exec links script desired fresh acts (init path0 objs0)).fl i).fin = some e) :
    applyCheck rules (desired i) (objs0 i) (script i)
      ((exec links script desired fresh acts (init path0 objs0)).fl i).inv
      (replyOf (objs0 i).length
        (e, ((exec links script desired fresh acts (init path0 objs0)).fl i).objs,
            ((exec links script desired fresh acts (init path0 objs0)).fl i).inv)) = none :=
  have hc := chain_sound ord rules history a (desired i) (path0 i) hU hfound
  overlap_apply links script desired path0 objs0 acts i e rules a hv hc.declared hc.linked h

end Overlap

/-! ## non-vacuity and regression witnesses -/

section Examples

private def R (a b : String) : Rule := ⟨a.toList, b.toList⟩
private def V (a : String) : Ver := a.toList

/-- a stem of three steps, then a fork; mixed spellings; a cycle back to the start -/
private def forkRules : List Rule :=
  [R "a" "g.io/b", R "b" "c", R "g.io/c" "d", R "d" "e", R "g.io/d" "f", R "f" "g.io/a"]

/-- `chain_sound`/`chain_complete`/`find_terminates` are not vacuous: after two earlier queries, with
the maps iterated backwards, the request a→f (asked with the group) is answered by a four-step chain. -/
example : (find Order.rev (afterQueries Order.rev (Chain.ofRules forkRules) [R "a" "e", R "g.io/b" "d"])
    (R "g.io/a" "f")).2 = .found [R "a" "g.io/b", R "b" "c", R "g.io/c" "d", R "g.io/d" "f"] := by decide

example : Coherent (V "g.io/a" :: V "f" :: ([R "a" "e", R "g.io/b" "d"].map (·.src) ++ versionsOf forkRules)) := by
  unfold Coherent; decide

example : ∃ p, IsChain Matched forkRules (V "g.io/a") (V "f") p :=
  ⟨[R "a" "g.io/b", R "b" "c", R "g.io/c" "d", R "g.io/d" "f"], (isChainB_iff _ _ _ _).1 (by decide)⟩

/-- no chain: the answer is `notFound`, not a chain and not an exhausted bound -/
example : (find Order.ident (Chain.ofRules forkRules) (R "e" "a")).2 = .notFound := by decide

private def twoStep : List Rule := [R "v1" "v2", R "g.io/v2" "v3"]
private def objsV1 : List Obj := [⟨1, V "g.io/v1"⟩, ⟨2, V "g.io/v1"⟩]

/-- `apply_chain` is not vacuous: two steps that succeed … -/
example : convert Order.ident (fun _ => true)
    (fun i _ inp => .resp "" (inp.map fun o => ⟨o.id, if i = 0 then V "g.io/v2" else V "g.io/v3"⟩))
    (Chain.ofRules twoStep) (V "g.io/v3") objsV1
    = (.success [⟨1, V "g.io/v3"⟩, ⟨2, V "g.io/v3"⟩],
       [⟨R "v1" "v2", objsV1⟩, ⟨R "g.io/v2" "v3", [⟨1, V "g.io/v2"⟩, ⟨2, V "g.io/v2"⟩]⟩]) := by decide

/-- … and a first step that answers with its own message: relayed, the second step is not run -/
example : convert Order.ident (fun _ => true) (fun _ _ _ => .resp "boom" [])
    (Chain.ofRules twoStep) (V "g.io/v3") objsV1
    = (.failed (.own "boom"), [⟨R "v1" "v2", objsV1⟩]) := by decide

private def okScript : Script :=
  fun i _ inp => .resp "" (inp.map fun o => ⟨o.id, if i = 0 then V "g.io/v2" else V "g.io/v3"⟩)

/-- `apply_served` is not vacuous: `servedCheck` rejects a `Failed` that has no reason. A hook
controller that keeps only the links of the last of two bindings of one CRD (`v1→v2` declared in
`up`, `g.io/v2→v3` in the binding after it: the link of `v1→v2` is lost) answers `Failed`
("no hook found") without running anything, although a chain of declared rules exists and every
hook would succeed … -/
theorem split_bindings_witness :
    convert Order.ident (fun r => r == R "g.io/v2" "v3") okScript (Chain.ofRules twoStep) (V "g.io/v3") objsV1
      = (.failed .noHook, []) ∧
    servedCheck twoStep (fun _ => true) (V "g.io/v3") objsV1 okScript [] (.failed .noHook)
      = some "a-chain-of-declared-rules-exists-but-no-hook-was-run" := by decide

/-- … or, the other way round, after the first step has run -/
example :
    convert Order.ident (fun r => r == R "v1" "v2") okScript (Chain.ofRules twoStep) (V "g.io/v3") objsV1
      = (.failed .noHook, [⟨R "v1" "v2", objsV1⟩]) ∧
    servedCheck twoStep (fun _ => true) (V "g.io/v3") objsV1 okScript [⟨R "v1" "v2", objsV1⟩] (.failed .noHook)
      = some "failed-before-the-end-of-the-chain-though-every-run-succeeded" := by decide

/-- … while a `Failed` after a run that exits non-zero, and a `Failed` when no chain exists, are accepted -/
example : servedCheck twoStep (fun _ => true) (V "g.io/v3") objsV1 (fun _ _ _ => .exitFail)
    [⟨R "v1" "v2", objsV1⟩] (.failed .hookFailed) = none := by decide
example : servedCheck twoStep (fun _ => true) (V "g.io/v0") objsV1 okScript [] (.failed .notSuccessful) = none := by
  decide

private def objs3 : List Obj := [⟨1, V "g.io/v1"⟩, ⟨2, V "g.io/v1"⟩, ⟨3, V "g.io/v1"⟩]
/-- the last step hands back the middle object without apiVersion (`[]` = the empty version) -/
private def holeScript : Script :=
  fun i _ inp => .resp "" (inp.map fun o =>
    ⟨o.id, if i = 0 then V "g.io/v2" else if o.id = 2 then [] else V "g.io/v3"⟩)
private def holeInv : List Invocation :=
  [⟨R "v1" "v2", objs3⟩, ⟨R "g.io/v2" "v3", [⟨1, V "g.io/v2"⟩, ⟨2, V "g.io/v2"⟩, ⟨3, V "g.io/v2"⟩]⟩]

/-- `success_objects_converted` is not vacuous: the model answers `Failed` when the last step leaves one
object (here the middle one) without apiVersion, and `applyCheck` rejects a `Success` carrying that
output (what a handler that judges the output by the versions of the other objects would answer) … -/
theorem unconverted_object_witness :
    convert Order.ident (fun _ => true) holeScript (Chain.ofRules twoStep) (V "g.io/v3") objs3
      = (.failed .notSuccessful, holeInv) ∧
    applyCheck twoStep (V "g.io/v3") objs3 holeScript holeInv
      (.success [⟨1, V "g.io/v3"⟩, ⟨2, []⟩, ⟨3, V "g.io/v3"⟩])
      = some "success-though-a-returned-object-is-not-at-the-desired-version" := by decide

/-- the zero value per object matters: with one `TypeMeta` shared by all objects a `null` or a
version-less object after a converted one would pass for converted -/
theorem shared_decode_witness :
    extractVersionsRaw [.obj 1 (some (V "g.io/v3")), .null, .obj 3 none] = [V "g.io/v3", []] ∧
    extractVersionsShared [.obj 1 (some (V "g.io/v3")), .null, .obj 3 none] = [V "g.io/v3"] := by decide

/-- … while the `Success` of a run in which every object was converted is accepted -/
example : applyCheck twoStep (V "g.io/v3") objsV1 okScript
    [⟨R "v1" "v2", objsV1⟩, ⟨R "g.io/v2" "v3", [⟨1, V "g.io/v2"⟩, ⟨2, V "g.io/v2"⟩]⟩]
    (.success [⟨1, V "g.io/v3"⟩, ⟨2, V "g.io/v3"⟩]) = none := by decide

/-! ### requests in flight -/

section OverlapExamples
open ShellOp.Conversion.Overlap

private def oneRule : List Rule := [R "v1" "v2"]
/-- request 0 brings object 1, every other request object 101 -/
private def objsOf (i : Nat) : List Obj := if i = 0 then [⟨1, V "g.io/v1"⟩] else [⟨101, V "g.io/v1"⟩]
private def convScript : Nat → Script := fun _ _ r inp => .resp "" (inp.map fun o => ⟨o.id, V "g.io/" ++ r.dst⟩)
/-- A's task built, B's task built, A's hook runs, B's hook runs -/
private def abab : List Act := [.build 0, .build 1, .run 0, .run 1]

/-- `overlap_isolated` / `overlap_apply` are not vacuous: with an envelope per step both requests end
`done`, each with its own object … -/
example :
    let s := exec (fun _ => true) convScript (fun _ => V "g.io/v2") fresh abab (init (fun _ => oneRule) objsOf)
    (s.fl 0).fin = some .done ∧ (s.fl 0).inv = [⟨R "v1" "v2", objsOf 0⟩] ∧ (s.fl 0).objs = [⟨1, V "g.io/v2"⟩] ∧
    (s.fl 1).fin = some .done ∧ (s.fl 1).inv = [⟨R "v1" "v2", objsOf 1⟩] ∧ (s.fl 1).objs = [⟨101, V "g.io/v2"⟩] := by
  decide

/-- … while a controller that keeps one envelope per link and refills it hands A's hook the objects of
B (B's `HandleEvent` came between A's `HandleEvent` and A's hook run): A is answered `Success` with
B's object, and `applyCheck` on A's own observation rejects it -/
theorem shared_envelope_witness :
    let s := exec (fun _ => true) convScript (fun _ => V "g.io/v2") (perLink oneRule) abab (init (fun _ => oneRule) objsOf)
    (s.fl 0).fin = some .done ∧ (s.fl 0).inv = [⟨R "v1" "v2", objsOf 1⟩] ∧ (s.fl 0).objs = [⟨101, V "g.io/v2"⟩] ∧
    applyCheck oneRule (V "g.io/v2") (objsOf 0) (convScript 0) (s.fl 0).inv
      (replyOf (objsOf 0).length (.done, (s.fl 0).objs, (s.fl 0).inv))
      = some "a-step-did-not-receive-the-previous-output" ∧
    handedCheck "uid-a" ["uid-b"] = some "a-hook-run-was-handed-the-review-of-another-request" ∧
    handedCheck "uid-a" ["uid-a", "uid-a"] = none := by
  decide

end OverlapExamples

/-! ### the four repaired defects: the unrepaired variants violate the property -/

/-- substring matching in `NextRules`: `v1` is found inside `v1alpha1`, the "chain" does not connect -/
theorem substring_witness :
    Unrepaired.find Unrepaired.nextRules [R "v1beta1" "v1", R "v1alpha1" "v2"] (R "v1beta1" "v2")
      = [R "v1beta1" "v1", R "v1alpha1" "v2"] ∧
    isChainB versionsMatched [R "v1beta1" "v1", R "v1alpha1" "v2"] (V "v1beta1") (V "v2")
      [R "v1beta1" "v1", R "v1alpha1" "v2"] = false := by decide

/-- `append(chain.PathsCache[k], next)` on a slice with spare capacity (length 3, capacity 4): the two
branches of a fork after three steps share one backing array; the chain returned for a→e ends in d→f -/
theorem aliasing_witness :
    Unrepaired.find nextRules [R "a" "b", R "b" "c", R "c" "d", R "d" "e", R "d" "f"] (R "a" "e")
      = [R "a" "b", R "b" "c", R "c" "d", R "d" "f"] ∧
    isChainB versionsMatched [R "a" "b", R "b" "c", R "c" "d", R "d" "e", R "d" "f"] (V "a") (V "e")
      [R "a" "b", R "b" "c", R "c" "d", R "d" "f"] = false := by decide

/-- `response.FailedMessage` ignored: the next step runs (on zero objects) after the failed one -/
theorem failedMessage_witness :
    let script : Script := fun i _ inp => if i = 0 then .resp "my own message" [] else .resp "" inp
    let r := Unrepaired.runPath (fun _ => true) script (V "g.io/v3") twoStep objsV1 []
    r.2.2.length = 2 ∧
    applyCheck twoStep (V "g.io/v3") objsV1 script r.2.2 (replyOf 2 r)
      = some "a-later-step-ran-after-a-failed-step" := by decide

/-- the object count compared after `request.Objects` was overwritten: 2 requested, 1 returned, `Success` -/
theorem objectCount_witness :
    let script : Script := fun _ _ inp => .resp "" ((inp.take 1).map fun o => ⟨o.id, V "g.io/v3"⟩)
    let r := runPath (fun _ => true) script (V "g.io/v3") [R "g.io/v2" "v3"]
      [⟨1, V "g.io/v2"⟩, ⟨2, V "g.io/v2"⟩] []
    Unrepaired.review 2 (.resp none r.2.1) = .success [⟨1, V "g.io/v3"⟩] ∧
    applyCheck [R "g.io/v2" "v3"] (V "g.io/v3") [⟨1, V "g.io/v2"⟩, ⟨2, V "g.io/v2"⟩] script r.2.2
      (Unrepaired.review 2 (.resp none r.2.1)) = some "success-with-a-wrong-number-of-objects" := by decide

/-- the excluded points of `chain_complete`, as facts about the model: a request for the version the
objects already have is not served through a cycle … -/
theorem same_version_witness :
    (find Order.ident (Chain.ofRules [R "v1" "v2", R "v2" "v1"]) (R "v1" "g.io/v1")).2 = .notFound ∧
    isChainB versionsMatched [R "v1" "v2", R "v2" "v1"] (V "v1") (V "g.io/v1") [R "v1" "v2", R "v2" "v1"] = true := by
  decide

/-- … and with two groups qualifying one short version, a chain cached for `v1` is handed out for
`h.io/v1` although its first rule starts at `g.io/v1` (sound only up to the group). -/
theorem two_groups_witness :
    (find Order.ident (afterQueries Order.ident (Chain.ofRules [R "g.io/v1" "v2", R "v2" "v3"]) [R "v1" "v3"])
      (R "h.io/v1" "v3")).2 = .found [R "g.io/v1" "v2", R "v2" "v3"] ∧
    isChainB versionsMatched [R "g.io/v1" "v2", R "v2" "v3"] (V "h.io/v1") (V "v3")
      [R "g.io/v1" "v2", R "v2" "v3"] = false := by decide

end Examples

/-! ## Sixth wave: the glue around the search and the handler loop (`Model/ConversionGlue.lean`) -/
section GlueProps
open ShellOp.Conversion.Glue

theorem put_mem (s : Storage) (crd : String) (r x : Rule) (c : String) :
    x ∈ s.put crd r c ↔ x ∈ s c ∨ (c = crd ∧ x = r) := by
  unfold Storage.put
  by_cases hc : c = crd
  · subst hc
    rw [if_pos rfl]
    by_cases hr : r ∈ s c
    · rw [if_pos hr]
      constructor
      · intro h; exact Or.inl h
      · intro h
        rcases h with h | ⟨_, h⟩
        · exact h
        · rw [h]; exact hr
    · rw [if_neg hr]
      simp
  · rw [if_neg hc]
    simp [hc]

theorem fileBinding_mem (b : Binding) (s : Storage) (x : Rule) (c : String) :
    x ∈ fileBinding s b c ↔ x ∈ s c ∨ (c = b.crd ∧ x ∈ b.rules) := by
  unfold fileBinding
  generalize b.rules = rs
  induction rs generalizing s with
  | nil => simp
  | cons r rs ih =>
    simp only [List.foldl_cons, List.mem_cons]
    rw [ih, put_mem]
    constructor
    · intro h
      rcases h with (h | ⟨h1, h2⟩) | ⟨h1, h2⟩
      · exact Or.inl h
      · exact Or.inr ⟨h1, Or.inl h2⟩
      · exact Or.inr ⟨h1, Or.inr h2⟩
    · intro h
      rcases h with h | ⟨h1, h2 | h2⟩
      · exact Or.inl (Or.inl h)
      · exact Or.inl (Or.inr ⟨h1, h2⟩)
      · exact Or.inr ⟨h1, h2⟩

theorem fileHook_mem (h : List Binding) (s : Storage) (x : Rule) (c : String) :
    x ∈ fileHook s h c ↔ x ∈ s c ∨ ∃ b, b ∈ h ∧ b.crd = c ∧ x ∈ b.rules := by
  unfold fileHook
  induction h generalizing s with
  | nil => simp
  | cons b bs ih =>
    simp only [List.foldl_cons]
    rw [ih, fileBinding_mem]
    constructor
    · intro h
      rcases h with (h | ⟨h1, h2⟩) | ⟨b', hb, h1, h2⟩
      · exact Or.inl h
      · exact Or.inr ⟨b, List.mem_cons_self, h1.symm, h2⟩
      · exact Or.inr ⟨b', List.mem_cons_of_mem _ hb, h1, h2⟩
    · intro h
      rcases h with h | ⟨b', hb, h1, h2⟩
      · exact Or.inl (Or.inl h)
      · rcases List.mem_cons.mp hb with hb | hb
        · subst hb; exact Or.inl (Or.inr ⟨h1.symm, h2⟩)
        · exact Or.inr ⟨b', hb, h1, h2⟩

theorem foldHooks_mem (hooks : List (List Binding)) (s : Storage) (x : Rule) (c : String) :
    x ∈ hooks.foldl fileHook s c ↔ x ∈ s c ∨ ∃ h, h ∈ hooks ∧ ∃ b, b ∈ h ∧ b.crd = c ∧ x ∈ b.rules := by
  induction hooks generalizing s with
  | nil => simp
  | cons h hs ih =>
    simp only [List.foldl_cons]
    rw [ih, fileHook_mem]
    constructor
    · intro g
      rcases g with (g | g) | ⟨h', hh, g⟩
      · exact Or.inl g
      · exact Or.inr ⟨h, List.mem_cons_self, g⟩
      · exact Or.inr ⟨h', List.mem_cons_of_mem _ hh, g⟩
    · intro g
      rcases g with g | ⟨h', hh, g⟩
      · exact Or.inl (Or.inl g)
      · rcases List.mem_cons.mp hh with hh | hh
        · subst hh; exact Or.inl (Or.inr g)
        · exact Or.inr ⟨h', hh, g⟩

/-- **The rules of a CRD are the rules its own bindings declare**: after `UpdateConversionChains`, for
every set of hooks with any number of conversion bindings for any CRDs in any order, a rule is filed
under CRD `c` iff some binding of some hook with `crdName: c` declares it. (The searches, the handler
and all the theorems above are about "the declared rules" of one CRD: this is that list.) -/
theorem updateChains_mem (hooks : List (List Binding)) (x : Rule) (c : String) :
    x ∈ updateChains hooks c ↔ ∃ h, h ∈ hooks ∧ ∃ b, b ∈ h ∧ b.crd = c ∧ x ∈ b.rules := by
  unfold updateChains
  rw [foldHooks_mem]
  simp

/-- a chain over the filed rules of a CRD uses only rules declared for that CRD -/
theorem updateChains_path_declared (hooks : List (List Binding)) (c : String) (p : Path)
    (hp : ∀ r, r ∈ p → r ∈ updateChains hooks c) :
    ∀ r, r ∈ p → ∃ h, h ∈ hooks ∧ ∃ b, b ∈ h ∧ b.crd = c ∧ r ∈ b.rules :=
  fun r hr => (updateChains_mem hooks r c).mp (hp r hr)

/-- **When a step has succeeded**: the handler sees converted objects of a run iff the hook process ended
well AND its object patches were applied AND its metrics were accepted AND its response carries no
`failedMessage`. A run the operator fails after the hook wrote its response has not succeeded. -/
theorem stepOut_ok_iff (r : RawRun) (out : List Obj) :
    (stepOut r).okOut = some out ↔
      r.exitOk = true ∧ r.patchOk = true ∧ r.metricsOk = true ∧ r.resp = some ("", out) := by
  rcases r with ⟨e, p, m, resp⟩
  cases e <;> cases p <;> cases m <;>
    simp [stepOut, stepOutWith, handleRunHook, HookOut.okOut]
  cases resp with
  | none => simp
  | some mo =>
    rcases mo with ⟨msg, o⟩
    by_cases hm : msg = ""
    · simp [hm]
    · simp [hm]

/-- a run whose patches or metrics are refused is a failed run (`Hook failed to convert …`), whatever
the hook wrote into its response file -/
theorem stepOut_late_failure (r : RawRun) (h : r.patchOk = false ∨ r.metricsOk = false) :
    stepOut r = .exitFail := by
  rcases r with ⟨e, p, m, resp⟩
  cases e <;> cases p <;> cases m <;> simp_all [stepOut, stepOutWith, handleRunHook]

/-- nothing runs after a run that did not succeed, and a `Success` comes after successful runs only:
if `pipeCheck` holds and the last run succeeded, every run succeeded. -/
theorem pipe_all_ok (script : Script) (inv : List Invocation) :
    ∀ (i : Nat) (cur out : List Obj), pipeCheck script i cur inv = none →
      (lastOutcome script i inv).bind HookOut.okOut = some out →
      ∀ (k : Nat) (t : Invocation), inv[k]? = some t → ((script (i + k) t.rule t.input).okOut).isSome = true := by
  induction inv with
  | nil => intro i cur out _ _ k t hk; simp at hk
  | cons t ts ih =>
    intro i cur out hp hl k u hk
    unfold pipeCheck at hp
    by_cases hin : t.input ≠ cur
    · simp [hin] at hp
    · simp only [hin, if_false] at hp
      cases hok : (script i t.rule t.input).okOut with
      | some o =>
        rw [hok] at hp
        cases k with
        | zero =>
          simp at hk; subst hk; simp [hok]
        | succ k =>
          cases ts with
          | nil => simp at hk
          | cons t2 ts2 =>
            have hl' : (lastOutcome script (i + 1) (t2 :: ts2)).bind HookOut.okOut = some out := by
              simpa [lastOutcome] using hl
            have := ih (i + 1) o out hp hl' k u (by simpa using hk)
            simpa [Nat.add_assoc, Nat.add_comm 1 k] using this
      | none =>
        rw [hok] at hp
        cases ts with
        | nil =>
          simp [lastOutcome, hok] at hl
        | cons t2 ts2 => simp at hp

/-- **Success only if every step succeeded**, for the model of the handler: for every script, order,
history (scope of `apply_chain`), a `Success` answer means that every hook run that was made succeeded
(with `stepOut_ok_iff`: its process, its object patches, its metrics and its response). -/
theorem success_every_run_succeeded (ord : Order) (links : Rule → Bool) (script : Script) (rules history : List Rule)
    (desired a : Ver) (objs : List Obj) (hv : extractVersions objs = [a])
    (hU : Coherent (a :: desired :: versionsOf rules)) (robjs : List Obj)
    (hs : (convert ord links script (afterQueries ord (Chain.ofRules rules) history) desired objs).1 = .success robjs) :
    ∀ (k : Nat) (t : Invocation),
      (convert ord links script (afterQueries ord (Chain.ofRules rules) history) desired objs).2[k]? = some t →
      ((script k t.rule t.input).okOut).isSome = true := by
  have h := apply_chain ord links script rules history desired a objs hv hU
  rw [hs] at h
  generalize (convert ord links script (afterQueries ord (Chain.ofRules rules) history) desired objs).2 = inv at h
  unfold applyCheck at h
  simp only at h
  split at h
  · simp at h
  · split at h
    · simp at h
    · split at h
      · simp at h
      · rename_i hp
        split at h
        · simp at h
        · rename_i o hl
          split at h
          · simp at h
          · rename_i out ho
            intro k t hk
            have := pipe_all_ok script inv 0 objs out hp (by simp [hl, ho]) k t hk
            simpa using this
/-- **The conversion context is a conversion context whatever else the binding sets** (`MapV1`,
`Model/BindingContext.lean`): `group`, `includeSnapshotsFrom` … do not take `fromVersion`, `toVersion`
and the `review` (the request objects = the previous output) away from the hook. -/
theorem conversion_context_carries_review (c : BindingContext.Ctx) (h : c.btype = .conversion) :
    BindingContext.typePart c =
      [("type", .str "Conversion"), ("fromVersion", .str c.fromVersion), ("toVersion", .str c.toVersion),
       ("review", .str c.review)] := by
  simp [BindingContext.typePart, h]

theorem conversion_mapV1_review (c : BindingContext.Ctx) (h : c.btype = .conversion) :
    ("review", Json.J.str c.review) ∈ BindingContext.mapV1 c := by
  simp [BindingContext.mapV1, h, conversion_context_carries_review c h]

end GlueProps

namespace GlueExamples
open ShellOp.Conversion.Glue
def V (s : String) : Ver := s.toList
def R (a b : String) : Rule := ⟨V a, V b⟩

/-- one hook, bindings for two CRDs -/
def twoCrds : List (List Binding) :=
  [[⟨"widgets", [R "v1" "v2"]⟩, ⟨"gadgets", [R "v1" "v2", R "v2" "v3"]⟩]]

example : updateChains twoCrds "gadgets" = [R "v1" "v2", R "v2" "v3"] ∧
    updateChains twoCrds "widgets" = [R "v1" "v2"] := by decide

/-- fetched once per hook, the rules of the second CRD land under the first: `gadgets` has no rules
(v1→v3 not served although declared), `widgets` gets a rule nobody declared for it -/
theorem first_crd_witness :
    updateChainsFirstCrd twoCrds "gadgets" = [] ∧
    R "v2" "v3" ∈ updateChainsFirstCrd twoCrds "widgets" ∧
    ¬ R "v2" "v3" ∈ updateChains twoCrds "widgets" := by decide

/-- the response was written, then the metrics of the run were refused: the code sees a failed run;
with the prop stored first and failures allowed the handler would see converted objects -/
theorem late_failure_witness :
    let r : RawRun := ⟨true, true, false, some ("", [⟨1, V "g.io/v2"⟩])⟩
    stepOut r = .exitFail ∧
    stepOutWith handleRunHookPropFirst true r = .resp "" [⟨1, V "g.io/v2"⟩] ∧
    stepOutWith handleRunHookPropFirst false r = .exitFail ∧
    stepOutWith handleRunHook true r = .noResponse := by decide

example : (stepOut ⟨true, true, true, some ("", [⟨1, V "g.io/v2"⟩])⟩).okOut = some [⟨1, V "g.io/v2"⟩] := by decide

example : reviewCheck ["uid-1", "none"] = some "a-hook-run-found-no-review-in-its-binding-context" ∧
    reviewCheck ["uid-1", "uid-1"] = none := by decide

/-- a conversion binding with a group: the context still carries the review -/
def groupedCtx : BindingContext.Ctx :=
  { btype := .conversion, binding := "conv", group := "main", review := "uid-7", fromVersion := "v1", toVersion := "v2" }

example : BindingContext.typePart groupedCtx =
    [("type", .str "Conversion"), ("fromVersion", .str "v1"), ("toVersion", .str "v2"), ("review", .str "uid-7")] := by
  decide
end GlueExamples

end ShellOp.Conversion.C15
