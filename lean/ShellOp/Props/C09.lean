import ShellOp.Model.BindingContext
namespace ShellOp.BindingContext.C09
open ShellOp.Json ShellOp.Trigger ShellOp.BindingContext

theorem placeholder : True := trivial

end ShellOp.BindingContext.C09
