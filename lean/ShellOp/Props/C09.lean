import ShellOp.Model.BindingContext
/-!
# C09 — binding context JSON follows the documented contract, incl. filterResult

`mapV1` / `mapV0` / `OFR.map` / `updateSnapshots` / `mkCtx` are the code-shaped model of
binding_context.go, types.go and the controllers; `Spec.fieldsV1` / `Spec.fieldsV0` are the documented
contract in terms of the binding configuration and the event only. Quantifiers: every hook (any
bindings), every cluster content, every jq filter of the fragment, every context origin, every list
of contexts, both config versions.
-/
namespace ShellOp.BindingContext.C09
open ShellOp.Json ShellOp.Trigger ShellOp.BindingContext

/-! ## T1: the tables regenerated from the sources are the ones the model was written against -/

/-- `MapV1`: guarded assignments to `res`, in source order. -/
theorem mapV1_table : ShellOp.Facts.c09MapV1 =
  [("", "binding"),
   ("(bc.Metadata.BindingType == htypes.OnStartup)", "return"),
   ("(len(bc.Metadata.IncludeSnapshots) > 0 || bc.Metadata.IncludeAllSnapshots) && (len(bc.Snapshots) > 0)", "snapshots"),
   ("(len(bc.Metadata.IncludeSnapshots) > 0 || bc.Metadata.IncludeAllSnapshots) && (!(len(bc.Snapshots) > 0))", "snapshots"),
   ("(bc.Metadata.BindingType == htypes.KubernetesValidating)", "type"),
   ("(bc.Metadata.BindingType == htypes.KubernetesValidating)", "review"),
   ("(bc.Metadata.BindingType == htypes.KubernetesValidating)", "return"),
   ("(bc.Metadata.BindingType == htypes.KubernetesMutating)", "type"),
   ("(bc.Metadata.BindingType == htypes.KubernetesMutating)", "review"),
   ("(bc.Metadata.BindingType == htypes.KubernetesMutating)", "return"),
   ("(bc.Metadata.BindingType == htypes.KubernetesConversion)", "type"),
   ("(bc.Metadata.BindingType == htypes.KubernetesConversion)", "fromVersion"),
   ("(bc.Metadata.BindingType == htypes.KubernetesConversion)", "toVersion"),
   ("(bc.Metadata.BindingType == htypes.KubernetesConversion)", "review"),
   ("(bc.Metadata.BindingType == htypes.KubernetesConversion)", "return"),
   ("(bc.Metadata.Group != \"\")", "type"),
   ("(bc.Metadata.Group != \"\")", "groupName"),
   ("(bc.Metadata.Group != \"\")", "return"),
   ("(bc.Metadata.BindingType == htypes.Schedule)", "type"),
   ("(bc.Metadata.BindingType == htypes.Schedule)", "return"),
   ("(bc.Metadata.BindingType != htypes.OnKubernetesEvent || bc.Type == \"\")", "return"),
   ("", "type"),
   ("(bc.WatchEvent != \"\")", "watchEvent"),
   ("(bc.Type == kemtypes.TypeSynchronization) && (len(bc.Objects) == 0)", "objects"),
   ("(bc.Type == kemtypes.TypeSynchronization) && (!(len(bc.Objects) == 0))", "objects"),
   ("(bc.Type == kemtypes.TypeEvent) && (len(bc.Objects) == 0)", "object"),
   ("(bc.Type == kemtypes.TypeEvent) && (len(bc.Objects) == 0) && (bc.Metadata.JqFilter != \"\")", "filterResult"),
   ("(bc.Type == kemtypes.TypeEvent) && (!(len(bc.Objects) == 0))", "*objMap"),
   ("", "return")] := rfl

/-- `MapV0` (the v0 table). -/
theorem mapV0_table : ShellOp.Facts.c09MapV0 =
  [("", "binding"),
   ("(bc.Metadata.BindingType != htypes.OnKubernetesEvent)", "return"),
   ("", "resourceEvent"),
   ("(len(bc.Objects) > 0)", "resourceNamespace"),
   ("(len(bc.Objects) > 0)", "resourceKind"),
   ("(len(bc.Objects) > 0)", "resourceName"),
   ("", "return")] := rfl

/-- `ObjectAndFilterResult.Map`. -/
theorem objMap_table : ShellOp.Facts.c09ObjMap =
  [("(!o.Metadata.RemoveObject)", "object"),
   ("(o.Metadata.JqFilter == \"\" && o.FilterResult == nil)", "return"),
   ("(o.Metadata.JqFilter != \"\") && (!ok || filterResString == \"\")", "filterResult"),
   ("(o.Metadata.JqFilter != \"\") && (!ok || filterResString == \"\")", "return"),
   ("(o.Metadata.JqFilter != \"\") && (err != nil)", "filterResult"),
   ("(o.Metadata.JqFilter != \"\") && (err != nil)", "return"),
   ("", "filterResult"),
   ("", "return")] := rfl

/-- The binding type constants the contexts are classified by. -/
theorem binding_types_table : ShellOp.Facts.c09BindingTypes =
  [("Schedule", "schedule"), ("OnStartup", "onStartup"), ("OnKubernetesEvent", "kubernetes"),
   ("KubernetesConversion", "kubernetesCustomResourceConversion"),
   ("KubernetesValidating", "kubernetesValidating"), ("KubernetesMutating", "kubernetesMutating")] := rfl

/-! ## JSON objects built by assignment: keys and lookups -/

theorem keys_insertKey (a : String) (v : J) (l : List (String × J)) (k : String) :
    k ∈ (insertKey a v l).map Prod.fst ↔ k = a ∨ k ∈ l.map Prod.fst := by
  induction l with
  | nil => simp [insertKey]
  | cons kv rest ih =>
    obtain ⟨l0, w⟩ := kv
    unfold insertKey
    by_cases h1 : a < l0
    · simp [h1]
    · by_cases h2 : a = l0
      · subst h2; simp [h1]
      · simp only [h1, h2, if_false, List.map_cons, List.mem_cons, ih]
        constructor
        · rintro (h | h | h)
          · exact Or.inr (Or.inl h)
          · exact Or.inl h
          · exact Or.inr (Or.inr h)
        · rintro (h | h | h)
          · exact Or.inr (Or.inl h)
          · exact Or.inl h
          · exact Or.inr (Or.inr h)

theorem keys_foldl (l acc : List (String × J)) (k : String) :
    k ∈ (l.foldl (fun acc kv => insertKey kv.1 kv.2 acc) acc).map Prod.fst ↔
      k ∈ l.map Prod.fst ∨ k ∈ acc.map Prod.fst := by
  induction l generalizing acc with
  | nil => simp
  | cons kv rest ih =>
    simp only [List.foldl_cons, ih, keys_insertKey, List.map_cons, List.mem_cons]
    constructor
    · rintro (h | h | h)
      · exact Or.inl (Or.inr h)
      · exact Or.inl (Or.inl h)
      · exact Or.inr h
    · rintro ((h | h) | h)
      · exact Or.inr (Or.inl h)
      · exact Or.inl h
      · exact Or.inr (Or.inr h)

/-- The keys of an object built by assignments are exactly the assigned keys. -/
theorem mem_keys_mkObj (l : List (String × J)) (k : String) :
    k ∈ (J.mkObj l).keys ↔ k ∈ l.map Prod.fst := by
  unfold J.mkObj J.keys
  simpa using keys_foldl l [] k

theorem lookup_insertKey (a : String) (v : J) (l : List (String × J)) (k : String) :
    lookupKey k (insertKey a v l) = if k = a then some v else lookupKey k l := by
  induction l with
  | nil => simp [insertKey, lookupKey]
  | cons kv rest ih =>
    obtain ⟨l0, w⟩ := kv
    unfold insertKey
    by_cases h1 : a < l0
    · simp [h1, lookupKey]
    · by_cases h2 : a = l0
      · subst h2
        by_cases hk : k = a <;> simp [h1, lookupKey, hk]
      · simp only [h1, h2, if_false, lookupKey, ih]
        by_cases hk : k = l0
        · have : k ≠ a := fun e => h2 (e ▸ hk)
          simp [hk, Ne.symm h2]
        · simp [hk]

/-- The last assignment to a key. -/
def lastAssign (k : String) (init : Option J) (l : List (String × J)) : Option J :=
  l.foldl (fun r kv => if k = kv.1 then some kv.2 else r) init

theorem lookup_foldl (l acc : List (String × J)) (k : String) :
    lookupKey k (l.foldl (fun acc kv => insertKey kv.1 kv.2 acc) acc) = lastAssign k (lookupKey k acc) l := by
  induction l generalizing acc with
  | nil => simp [lastAssign]
  | cons kv rest ih =>
    simp only [List.foldl_cons, ih, lookup_insertKey, lastAssign]

/-- Reading a member of an object built by assignments gives the last value assigned to it. -/
theorem get_mkObj (l : List (String × J)) (k : String) :
    (J.mkObj l).get? k = lastAssign k none l := by
  unfold J.mkObj J.get?
  simpa [lookupKey] using lookup_foldl l [] k

/-! ## One object: what `applyFilter` stores is rendered as the documentation says -/

/-- `ObjectAndFilterResult.Map()` of what the informer stores = the documented view of the object
(`object` iff keepFullObjectsInMemory, `filterResult` iff jqFilter is set, equal to the jq result). -/
theorem ofr_map_eq_view (b : KBinding) (obj : J) :
    (ofrOf b.cfg obj).map = (Spec.viewOf b obj).fields := by
  unfold ofrOf OFR.map Spec.viewOf Spec.ObjView.fields
  cases hf : b.cfg.filter <;> cases hk : b.cfg.keep <;> simp [optJ]

theorem ofr_json_eq_view (b : KBinding) (obj : J) :
    OFR.json (ofrOf b.cfg obj) = Spec.ObjView.json (Spec.viewOf b obj) := by
  unfold OFR.json Spec.ObjView.json; rw [ofr_map_eq_view]

/-- … and so is the element a KubeEvent carries — including the bare result of a Deleted event whose
jqFilter failed on the last state of the object (`filterResult: null`, `object` iff the binding keeps
full objects: `RemoveFullObject` covers the fallback too). -/
theorem ofr_event_map_eq_view (b : KBinding) (obj : J) :
    (ofrEvent b.cfg obj).map = (Spec.viewOf b obj).fields := by
  have h0 := ofr_map_eq_view b obj
  unfold ofrEvent project
  cases hf : b.cfg.filter with
  | none => simpa [hf] using h0
  | some f =>
    cases he : f.eval obj with
    | none =>
      cases hk : b.cfg.keep <;>
        simp [ofrDeletedFallback, OFR.map, Spec.viewOf, Spec.ObjView.fields, hf, he, hk, optJ]
    | some v => simpa [hf, he] using h0

theorem ofrEvent_object (cfg : Cfg) (obj : J) :
    (ofrEvent cfg obj).object = if cfg.keep then some obj else none := by
  unfold ofrEvent
  cases project cfg obj <;> simp [ofrDeletedFallback, ofrOf]

theorem snapshot_json_eq (cl : Cluster) (b : KBinding) :
    (snapshotOf cl b).map OFR.json = (Spec.snapshotView cl b).map Spec.ObjView.json := by
  unfold snapshotOf Spec.snapshotView
  simp [List.map_map, Function.comp_def, ofr_json_eq_view]


/-! ## Contexts produced by the running code path -/

def btypeOf : OKind → BType
  | .schedule => .schedule | .validating => .validating | .mutating => .mutating | .conversion => .conversion

/-- Well-formed origin: a binding that includes snapshots belongs to a hook that has kubernetes
bindings (enforced by the loader); a kubernetes binding is a binding of the hook; and — only for a
Synchronization context, whose `objects` `UpdateSnapshots` refreshes through `SnapshotsFor(name)` — the
kubernetes binding is found under its own name.
Bindings of one type may share a name (every unnamed schedule binding is called "schedule"): the
context carries the include list of its own binding and `UpdateSnapshots` (repaired) prefers it to the
lookup by name, so nothing is asked of schedule / admission / conversion / Event origins.
The last conjunct excludes exactly the class of the recorded finding `same-name-bindings` (two
*kubernetes* bindings that share a name, e.g. two unnamed ones: both are called "kubernetes");
the theorems that need it are named `…_partial`, the excluded point is `same_name_witness`. -/
def WF (h : Hook) : Origin → Prop
  | .onStartup => True
  | .other b _ => b.inc ≠ [] → h.kbs ≠ []
  | .kubeSync b => findKB h b.name = some b
  | .kubeEvent b _ _ => b ∈ h.kbs

theorem snapshotsJ_eq (h : Hook) (cl : Cluster) (inc : List String) :
    snapshotsJ (inc.map (fun n => (n, (snapshotsFor h cl n).getD []))) =
    J.mkObj (inc.map (fun n =>
      (n, J.arr (((findKB h n).map (fun b => (Spec.snapshotView cl b).map Spec.ObjView.json)).getD [])))) := by
  unfold snapshotsJ
  congr 1
  rw [List.map_map]
  apply List.map_congr_left
  intro n _
  simp only [Function.comp_def, snapshotsFor]
  cases findKB h n with
  | none => simp
  | some b => simp [snapshot_json_eq]

theorem updateSnapshots_fields (h : Hook) (cl : Cluster) (c : Ctx) :
    (updateSnapshots h cl c).btype = c.btype ∧ (updateSnapshots h cl c).binding = c.binding ∧
    (updateSnapshots h cl c).group = c.group ∧ (updateSnapshots h cl c).type = c.type ∧
    (updateSnapshots h cl c).watchEvent = c.watchEvent ∧ (updateSnapshots h cl c).review = c.review ∧
    (updateSnapshots h cl c).fromVersion = c.fromVersion ∧ (updateSnapshots h cl c).toVersion = c.toVersion ∧
    (updateSnapshots h cl c).jqSet = c.jqSet ∧
    (updateSnapshots h cl c).includeSnapshots = c.includeSnapshots ∧
    (updateSnapshots h cl c).includeAll = c.includeAll := by
  unfold updateSnapshots
  by_cases hkb : h.kbs.isEmpty
  · simp [hkb]
  · by_cases hs : c.btype = BType.kubernetes ∧ c.type = "Synchronization" <;> simp [hkb, hs]

theorem updateSnapshots_snapshots (h : Hook) (cl : Cluster) (c : Ctx) (hkb : h.kbs.isEmpty = false) :
    (updateSnapshots h cl c).snapshots =
      (if c.includeSnapshots.length = 0 then includeOf h c.btype c.binding else c.includeSnapshots).map
        (fun name => (name, (snapshotsFor h cl name).getD [])) := by
  unfold updateSnapshots
  by_cases hs : c.btype = BType.kubernetes ∧ c.type = "Synchronization" <;> simp [hkb, hs]

/-- The "snapshots" step after `UpdateSnapshots` = the documented `snapshots` field. -/
theorem snapPart_eq (h : Hook) (cl : Cluster) (c : Ctx) (inc : List String)
    (hinc : c.includeSnapshots = inc) (hall : c.includeAll = false) (hk : inc ≠ [] → h.kbs ≠ []) :
    snapPart (updateSnapshots h cl c) = Spec.snapshotsField h cl inc := by
  obtain ⟨_, _, _, _, _, _, _, _, _, hi, ha⟩ := updateSnapshots_fields h cl c
  unfold snapPart Spec.snapshotsField
  rw [hi, ha, hinc, hall]
  cases inc with
  | nil => simp
  | cons n rest =>
    have hkb : h.kbs.isEmpty = false := by
      have := hk (by simp)
      cases hh : h.kbs with
      | nil => exact absurd hh this
      | cons _ _ => rfl
    rw [updateSnapshots_snapshots h cl c hkb, hinc]
    simp only [List.length_cons, Nat.zero_lt_succ, decide_true, Bool.or_false, if_true, List.isEmpty_cons,
      Bool.false_eq_true, if_false, List.length_map, Nat.succ_ne_zero]
    rw [snapshotsJ_eq]

theorem updateSnapshots_objects_event (h : Hook) (cl : Cluster) (c : Ctx) (ht : c.type ≠ "Synchronization") :
    (updateSnapshots h cl c).objects = c.objects := by
  unfold updateSnapshots
  by_cases hkb : h.kbs.isEmpty
  · simp [hkb]
  · simp [hkb, ht]

theorem updateSnapshots_objects_sync (h : Hook) (cl : Cluster) (c : Ctx) (b : KBinding)
    (hb : c.btype = .kubernetes) (ht : c.type = "Synchronization") (hf : findKB h c.binding = some b) :
    (updateSnapshots h cl c).objects = snapshotOf cl b := by
  have hkb : h.kbs.isEmpty = false := by
    cases hh : h.kbs with
    | nil => simp [findKB, hh] at hf
    | cons _ _ => rfl
  unfold updateSnapshots
  simp [hkb, hb, ht, snapshotsFor, hf]

/-- **C09 refinement (v1).** For every hook, every cluster content and every context the controllers
produce, the fields `MapV1` assigns after `UpdateSnapshots` are exactly the documented fields with
the documented values. -/
theorem mapV1_eq_spec_partial (h : Hook) (cl : Cluster) (o : Origin) (hwf : WF h o) :
    mapV1 (updateSnapshots h cl (mkCtx o)) = Spec.fieldsV1 h cl o := by
  obtain ⟨h1, h2, h3, h4, h5, h6, h7, h8, h9, _, _⟩ := updateSnapshots_fields h cl (mkCtx o)
  cases o with
  | onStartup =>
    unfold mapV1; rw [h1, h2]; simp [mkCtx, Spec.fieldsV1]
  | other b uid =>
    have hk := hwf
    obtain ⟨kind, name, group, inc, fromV, toV⟩ := b
    cases kind with
    | schedule =>
      have hsnap := snapPart_eq h cl (mkCtx (.other ⟨.schedule, name, group, inc, fromV, toV⟩ uid)) inc rfl rfl hk
      unfold mapV1 typePart
      rw [hsnap, h1, h2, h3, h4, h6, h7, h8]
      simp only [mkCtx, Spec.fieldsV1, Spec.groupFields]
      by_cases hg : group = "" <;> simp [hg]
    | validating =>
      have hsnap := snapPart_eq h cl (mkCtx (.other ⟨.validating, name, group, inc, fromV, toV⟩ uid)) inc rfl rfl hk
      unfold mapV1 typePart
      rw [hsnap, h1, h2, h3, h4, h6, h7, h8]
      simp only [mkCtx, Spec.fieldsV1]
      simp
    | mutating =>
      have hsnap := snapPart_eq h cl (mkCtx (.other ⟨.mutating, name, group, inc, fromV, toV⟩ uid)) inc rfl rfl hk
      unfold mapV1 typePart
      rw [hsnap, h1, h2, h3, h4, h6, h7, h8]
      simp only [mkCtx, Spec.fieldsV1]
      simp
    | conversion =>
      have hsnap := snapPart_eq h cl (mkCtx (.other ⟨.conversion, name, group, inc, fromV, toV⟩ uid)) inc rfl rfl hk
      unfold mapV1 typePart
      rw [hsnap, h1, h2, h3, h4, h6, h7, h8]
      simp only [mkCtx, Spec.fieldsV1]
      simp
  | kubeSync b =>
    have hf : findKB h b.name = some b := hwf
    have hkne : b.inc ≠ [] → h.kbs ≠ [] := by
      intro _ hh; simp [findKB, hh] at hf
    have hsnap := snapPart_eq h cl (mkCtx (.kubeSync b)) b.inc rfl rfl hkne
    have hobj := updateSnapshots_objects_sync h cl (mkCtx (.kubeSync b)) b rfl rfl (by simpa [mkCtx] using hf)
    unfold mapV1 typePart
    rw [hsnap, h1, h2, h3, h4, h5, hobj]
    unfold Spec.fieldsV1 Spec.groupFields
    by_cases hg : b.group = ""
    · simp only [mkCtx, hg]
      by_cases hl : (snapshotOf cl b).length = 0
      · have : snapshotOf cl b = [] := List.eq_nil_of_length_eq_zero hl
        have h2' : Spec.snapshotView cl b = [] := by
          have := snapshot_json_eq cl b; rw [‹snapshotOf cl b = []›] at this
          simpa using this.symm
        simp [this, h2']
      · simp [hl, snapshot_json_eq]
    · simp [mkCtx, hg]
  | kubeEvent b we obj =>
    have hf : b ∈ h.kbs := hwf
    have hkne : b.inc ≠ [] → h.kbs ≠ [] := by
      intro _ hh; simp [hh] at hf
    have hsnap := snapPart_eq h cl (mkCtx (.kubeEvent b we obj)) b.inc rfl rfl hkne
    have hobj := updateSnapshots_objects_event h cl (mkCtx (.kubeEvent b we obj)) (by simp [mkCtx])
    unfold mapV1 typePart
    rw [hsnap, h1, h2, h3, h4, h5, hobj]
    unfold Spec.fieldsV1 Spec.groupFields
    by_cases hg : b.group = ""
    · have hwe : we.toString ≠ "" := by cases we <;> simp [WatchEvent.toString]
      simp [mkCtx, hg, hwe, ofr_event_map_eq_view]
    · simp [mkCtx, hg]


/-- **C09 (v1 items).** Every context of the running code path renders as the documented item. -/
theorem render_v1_eq_expected_partial (h : Hook) (cl : Cluster) (o : Origin) (hwf : WF h o) :
    render .v1 (updateSnapshots h cl (mkCtx o)) = some (Spec.expected .v1 h cl o) := by
  simp only [render, Spec.expected, mapV1_eq_spec_partial h cl o hwf]

/-- **C09 list_is_array_in_order.** The file is a JSON array with one item per context, in the
order of the contexts (`ConvertBindingContextList` + `Json()`), each item being the rendering of
that context. -/
theorem list_is_array_in_order (v : Version) (cs : List Ctx) (js : List J) (hr : renderAll v cs = some js) :
    renderList v cs = some (.arr js) ∧ js.length = cs.length ∧
    ∀ i (hi : i < cs.length) (hj : i < js.length), render v cs[i] = some js[i] := by
  refine ⟨by simp [renderList, hr], ?_⟩
  induction cs generalizing js with
  | nil => simp [renderAll] at hr; subst hr; simp
  | cons c rest ih =>
    unfold renderAll at hr
    cases hc : render v c with
    | none => simp [hc] at hr
    | some j =>
      cases hrest : renderAll v rest with
      | none => simp [hc, hrest] at hr
      | some js' =>
        simp only [hc, hrest, Option.some.injEq] at hr
        subst hr
        obtain ⟨hl, hi⟩ := ih js' hrest
        refine ⟨by simp [hl], ?_⟩
        intro i hi1 hj1
        cases i with
        | zero => simpa using hc
        | succ k => simpa using hi k (by simpa using hi1) (by simpa using hj1)

/-- **C09 (the whole file, v1).** For every hook, cluster content and list of contexts the file
written for a hook run is the documented file. -/
theorem run_file_v1_eq_expected_partial (h : Hook) (cl : Cluster) (os : List Origin) (hwf : ∀ o ∈ os, WF h o) :
    runFile .v1 h cl os = some (Spec.expectedFile .v1 h cl os) := by
  unfold runFile renderList Spec.expectedFile
  suffices hh : renderAll .v1 (os.map (fun o => updateSnapshots h cl (mkCtx o))) =
      some (os.map (Spec.expected .v1 h cl)) by simp [hh]
  induction os with
  | nil => rfl
  | cons o rest ih =>
    have h1 := render_v1_eq_expected_partial h cl o (hwf o (by simp))
    have h2 := ih (fun o' ho' => hwf o' (by simp [ho']))
    simp only [List.map_cons, renderAll, h1, h2]

/-- **C09 v0 table.** A v0 hook gets `binding` only, and for a kubernetes event the legacy
`resourceEvent` / `resourceNamespace` / `resourceKind` / `resourceName` of that object — provided
the full object is kept (the repaired v0 loader always keeps it). -/
theorem mapV0_eq_spec (h : Hook) (cl : Cluster) (o : Origin)
    (hns : ∀ b, o ≠ .kubeSync b) (hkeep : ∀ b we obj, o = .kubeEvent b we obj → b.cfg.keep = true) :
    mapV0 (updateSnapshots h cl (mkCtx o)) = some (Spec.fieldsV0 o) := by
  obtain ⟨h1, h2, _, _, h5, _, _, _, _, _, _⟩ := updateSnapshots_fields h cl (mkCtx o)
  cases o with
  | onStartup => unfold mapV0; rw [h1, h2]; simp [mkCtx, Spec.fieldsV0]
  | other b uid =>
    obtain ⟨kind, name, group, inc, fromV, toV⟩ := b
    cases kind <;> (unfold mapV0; rw [h1, h2]; simp [mkCtx, Spec.fieldsV0])
  | kubeSync b => exact absurd rfl (hns b)
  | kubeEvent b we obj =>
    have hk := hkeep b we obj rfl
    have hobj := updateSnapshots_objects_event h cl (mkCtx (.kubeEvent b we obj)) (by simp [mkCtx])
    unfold mapV0
    rw [h1, h2, h5, hobj]
    simp [mkCtx, Spec.fieldsV0, ofrEvent_object, hk]

/-- Regression witness for the repaired v0 defect: with the full object dropped (what the
unrepaired v0 loader configured), `MapV0` dereferences a nil object — a panic. -/
theorem v0_unrepaired_witness :
    mapV0 (mkCtx (.kubeEvent { name := "k1", ns := "ns", cfg := { types := [.added], filter := none, keep := false } }
      .added (.obj [("kind", .str "ConfigMap")]))) = none := by decide

/-! ## The clauses of the property, read off the documented item -/

/-- The documented field names of an item, by the kind of context. -/
def docKeys : Origin → List String
  | .onStartup => ["binding"]
  | .other b _ =>
    ["binding"] ++ (if b.inc.isEmpty then [] else ["snapshots"]) ++
    (match b.kind with
     | .validating => ["type", "review"]
     | .mutating => ["type", "review"]
     | .conversion => ["type", "fromVersion", "toVersion", "review"]
     | .schedule => if b.group ≠ "" then ["type", "groupName"] else ["type"])
  | .kubeSync b =>
    ["binding"] ++ (if b.inc.isEmpty then [] else ["snapshots"]) ++
    (if b.group ≠ "" then ["type", "groupName"] else ["type", "objects"])
  | .kubeEvent b _ _ =>
    ["binding"] ++ (if b.inc.isEmpty then [] else ["snapshots"]) ++
    (if b.group ≠ "" then ["type", "groupName"]
     else ["type", "watchEvent"] ++ (if b.cfg.keep then ["object"] else []) ++
          (if b.cfg.filter.isSome then ["filterResult"] else []))

theorem fieldsV1_keys (h : Hook) (cl : Cluster) (o : Origin) :
    (Spec.fieldsV1 h cl o).map Prod.fst = docKeys o := by
  cases o with
  | onStartup => rfl
  | other b uid =>
    obtain ⟨kind, name, group, inc, fromV, toV⟩ := b
    cases kind <;> cases inc <;> simp [Spec.fieldsV1, docKeys, Spec.snapshotsField, Spec.groupFields]
    all_goals (by_cases hg : group = "" <;> simp [hg])
  | kubeSync b =>
    cases hi : b.inc <;> by_cases hg : b.group = "" <;>
      simp [Spec.fieldsV1, docKeys, Spec.snapshotsField, Spec.groupFields, hi, hg]
  | kubeEvent b we obj =>
    cases hi : b.inc <;> by_cases hg : b.group = "" <;> cases hk : b.cfg.keep <;> cases hf : b.cfg.filter <;>
      simp [Spec.fieldsV1, docKeys, Spec.snapshotsField, Spec.groupFields, Spec.viewOf, Spec.ObjView.fields, hi, hg, hk, hf]

/-- **C09 fields_by_type_partial.** The keys of every rendered v1 item are exactly `binding` plus the
documented fields of its type (Synchronization: type, objects; Event: type, watchEvent, object iff
full objects are kept, filterResult iff jqFilter is set; Group: type, groupName; Schedule: type;
onStartup: nothing else; Validating/Mutating: type, review; Conversion: type, fromVersion, toVersion,
review) plus `snapshots` exactly when the binding includes snapshots. -/
theorem fields_by_type_partial (h : Hook) (cl : Cluster) (o : Origin) (hwf : WF h o) (j : J)
    (hr : render .v1 (updateSnapshots h cl (mkCtx o)) = some j) (k : String) :
    k ∈ j.keys ↔ k ∈ docKeys o := by
  rw [render_v1_eq_expected_partial h cl o hwf] at hr
  cases hr
  simp only [Spec.expected, mem_keys_mkObj, fieldsV1_keys]

/-- **C09 snapshots present iff included.** -/
theorem snapshots_iff_included (h : Hook) (cl : Cluster) (o : Origin) :
    "snapshots" ∈ (Spec.expected .v1 h cl o).keys ↔
      match o with
      | .onStartup => False
      | .other b _ => b.inc ≠ []
      | .kubeSync b => b.inc ≠ []
      | .kubeEvent b _ _ => b.inc ≠ [] := by
  simp only [Spec.expected, mem_keys_mkObj, fieldsV1_keys]
  cases o with
  | onStartup => simp [docKeys]
  | other b uid =>
    obtain ⟨kind, name, group, inc, fromV, toV⟩ := b
    cases kind <;> cases inc <;> simp [docKeys]
    all_goals (by_cases hg : group = "" <;> simp [hg])
  | kubeSync b => cases hi : b.inc <;> by_cases hg : b.group = "" <;> simp [docKeys, hi, hg]
  | kubeEvent b we obj =>
    cases hi : b.inc <;> by_cases hg : b.group = "" <;> cases hk : b.cfg.keep <;> cases hf : b.cfg.filter <;>
      simp [docKeys, hi, hg, hk, hf]

/-- **C09 full_object_iff_keep.** In `objects`, in every snapshot and in an Event context the full
object of an element is present exactly when keepFullObjectsInMemory is not false. -/
theorem full_object_iff_keep (b : KBinding) (obj : J) :
    "object" ∈ (OFR.json (ofrOf b.cfg obj)).keys ↔ b.cfg.keep = true := by
  rw [ofr_json_eq_view]
  unfold Spec.ObjView.json
  rw [mem_keys_mkObj]
  cases hk : b.cfg.keep <;> cases hf : b.cfg.filter <;> simp [Spec.viewOf, Spec.ObjView.fields, hk, hf]

/-- **C09 filter_result_faithful.** When jqFilter is set, the `filterResult` rendered for an object
(the same `Map()` serves `object`/`filterResult` of an Event, every element of `objects` and every
element of every snapshot) is the jq result for that very object; without jqFilter there is no
`filterResult`. -/
theorem filter_result_faithful (b : KBinding) (obj : J) :
    (OFR.json (ofrOf b.cfg obj)).get? "filterResult" =
      b.cfg.filter.map (fun f => (f.eval obj).getD .null) := by
  rw [ofr_json_eq_view]
  unfold Spec.ObjView.json
  rw [get_mkObj]
  cases hk : b.cfg.keep <;> cases hf : b.cfg.filter <;>
    simp [Spec.viewOf, Spec.ObjView.fields, hk, hf, lastAssign]

/-- … in particular in the Event item itself (non-grouped binding). -/
theorem event_filter_result (h : Hook) (cl : Cluster) (b : KBinding) (we : WatchEvent) (obj : J) (f : Prog)
    (v : J) (hg : b.group = "") (hf : b.cfg.filter = some f) (hv : f.eval obj = some v) :
    (Spec.expected .v1 h cl (.kubeEvent b we obj)).get? "filterResult" = some v := by
  simp only [Spec.expected, get_mkObj, Spec.fieldsV1, hg]
  cases hi : b.inc <;> cases hk : b.cfg.keep <;>
    simp [Spec.snapshotsField, Spec.viewOf, Spec.ObjView.fields, lastAssign, hk, hf, hv]

/-- **C09 event_object_iff_keep.** The element of an Event context — whatever the watch event, also
when the jqFilter fails on the object (a Deleted event is fired all the same) — carries the full
object exactly when keepFullObjectsInMemory is not false. -/
theorem event_object_iff_keep (b : KBinding) (obj : J) :
    "object" ∈ (OFR.json (ofrEvent b.cfg obj)).keys ↔ b.cfg.keep = true := by
  unfold OFR.json
  rw [ofr_event_map_eq_view, mem_keys_mkObj]
  cases hk : b.cfg.keep <;> cases hf : b.cfg.filter <;> simp [Spec.viewOf, Spec.ObjView.fields, hk, hf]

/-- **C09 event_filter_result_on_error.** A Deleted event for an object the jqFilter fails on: there is
no jq result, `filterResult` is rendered as `null` (and is present: jqFilter is set). -/
theorem event_filter_result_on_error (b : KBinding) (obj : J) (f : Prog)
    (hf : b.cfg.filter = some f) (he : f.eval obj = none) :
    (OFR.json (ofrEvent b.cfg obj)).get? "filterResult" = some .null := by
  unfold OFR.json
  rw [ofr_event_map_eq_view, get_mkObj]
  cases hk : b.cfg.keep <;> simp [Spec.viewOf, Spec.ObjView.fields, hk, hf, he, lastAssign]

def exFailCfg (keep : Bool) : Cfg :=
  { types := [.deleted], filter := some (.one (.path ["spec", "replicas", "x"])), keep := keep }
def exFailObj : J := .obj [("spec", .obj [("replicas", .num 5)])]

/-- Non-vacuity: `.spec.replicas.x` fails on `replicas: 5`; the Deleted item has no `object` when full
objects are dropped, has it when they are kept, and `filterResult` is null in both. -/
example : (exFailCfg false).filter.bind (fun f => f.eval exFailObj) = none
    ∧ (OFR.json (ofrEvent (exFailCfg false) exFailObj)).print = "{\"filterResult\":null}"
    ∧ (OFR.json (ofrEvent (exFailCfg true) exFailObj)).print =
        "{\"filterResult\":null,\"object\":{\"spec\":{\"replicas\":5}}}" := by decide

/-- Witness for the seeded change C09-m1 (the fallback result escapes `RemoveFullObject`): the item of
the Deleted event carries the full object although keepFullObjectsInMemory is false — replayed on the
real code by the corpus cases "Deleted after a failing filter". -/
theorem deleted_fallback_unstripped_witness :
    "object" ∈ (OFR.json (ofrDeletedFallbackUnstripped (exFailCfg false) exFailObj)).keys
    ∧ "object" ∉ (OFR.json (ofrEvent (exFailCfg false) exFailObj)).keys := by decide

/-- **C09 string results stay strings.** A jq result that is a string is rendered as that string, also
when its content is itself a JSON text (`"3"`, `"true"`, `"null"`, `"{\"a\":1}"`). -/
theorem filter_result_string_faithful (b : KBinding) (obj : J) (f : Prog) (s : String)
    (hf : b.cfg.filter = some f) (hv : f.eval obj = some (.str s)) :
    (OFR.json (ofrOf b.cfg obj)).get? "filterResult" = some (.str s) := by
  rw [filter_result_faithful, hf]; simp [hv]

example : (OFR.json (ofrOf { types := [], filter := some (.one (.path ["spec", "a"])), keep := false }
      (.obj [("spec", .obj [("a", .str "3")])]))).print = "{\"filterResult\":\"3\"}" := by decide

/-- Witness for the seeded change C09-m2 (the Go value of the jq result is stored, and `Map()` still
takes a Go string for "jq output as JSON text"): the stored string `3` decodes to the number 3, the
item shows `filterResult: 3` although the jq result for the object is the string `"3"`. -/
theorem string_result_reparsed_witness :
    (OFR.json { jqSet := true, removed := true, object := none,
                fr := .str false (.str "3") (some (.num 3)) }).get? "filterResult" = some (.num 3)
    ∧ (Prog.one (.path ["spec", "a"])).eval (.obj [("spec", .obj [("a", .str "3")])]) = some (.str "3") := by
  decide

/-- Regression witness for the repaired defect: with the Go value of `jq.ApplyFilter` stored instead
of the JSON text, `Map()` takes its `!ok` branch and renders `filterResult: null` — although the jq
result for the object is `{"r":1}`. -/
theorem filter_result_unrepaired_witness :
    (OFR.json (ofrOfUnrepaired { types := [], filter := some (.one (.mkObj [("r", .path ["spec", "replicas"])])), keep := true }
      (.obj [("spec", .obj [("replicas", .num 1)])]))).get? "filterResult" = some .null
    ∧ (OFR.json (ofrOf { types := [], filter := some (.one (.mkObj [("r", .path ["spec", "replicas"])])), keep := true }
      (.obj [("spec", .obj [("replicas", .num 1)])]))).get? "filterResult" = some (.obj [("r", .num 1)]) := by
  decide

/-! ## The object the filter sees is the object shown -/

mutual
/-- `deepCopy` (json.Unmarshal ∘ json.Marshal, modelled as the node-by-node copy) changes nothing: no
key of the object — `metadata.managedFields`, annotations, … — is lost or altered on the way to gojq. -/
theorem copyJ_eq : ∀ j : J, copyJ j = j
  | .null => rfl
  | .bool _ => rfl
  | .num _ => rfl
  | .str _ => rfl
  | .arr xs => by simp [copyJ, copyList_eq xs]
  | .obj kvs => by simp [copyJ, copyKvs_eq kvs]
theorem copyList_eq : ∀ xs : List J, copyList xs = xs
  | [] => rfl
  | x :: xs => by simp [copyList, copyJ_eq x, copyList_eq xs]
theorem copyKvs_eq : ∀ kvs : List (String × J), copyKvs kvs = kvs
  | [] => rfl
  | (k, v) :: kvs => by simp [copyKvs, copyJ_eq v, copyKvs_eq kvs]
end

/-- **C09 filter_input_is_object.** For every jq program and every object, what `ApplyFilterValue`
computes on its private copy is the jq result for the object itself. -/
theorem filter_input_is_object (f : Prog) (obj : J) : applyFilterValue f obj = f.eval obj := by
  simp [applyFilterValue, copyJ_eq]

theorem ofrOfRun_eq (cfg : Cfg) (obj : J) : ofrOfRun cfg obj = ofrOf cfg obj := by
  unfold ofrOfRun ofrOf
  cases hf : cfg.filter <;> simp [filter_input_is_object]

/-- **C09 shown_filter_result_clause.** Every element rendered with its full object (every binding that
keeps full objects, every object, every jq program; the same `Map()` serves the Event item, `objects[i]`
and the snapshot elements) shows exactly that object, and the `filterResult` next to it satisfies the
clause the `oracle fr` line evaluates: it is the jq result for the object shown (absent without jqFilter). -/
theorem shown_filter_result_clause (b : KBinding) (obj : J) (hk : b.cfg.keep = true) :
    (OFR.json (ofrOfRun b.cfg obj)).get? "object" = some obj
    ∧ Spec.filterResultClause b.cfg.filter obj ((OFR.json (ofrOfRun b.cfg obj)).get? "filterResult") = true := by
  rw [ofrOfRun_eq]
  refine ⟨?_, ?_⟩
  · rw [ofr_json_eq_view]
    unfold Spec.ObjView.json
    rw [get_mkObj]
    cases hf : b.cfg.filter <;> simp [Spec.viewOf, Spec.ObjView.fields, hk, hf, lastAssign]
  · rw [filter_result_faithful]
    simp [Spec.filterResultClause]

/-- … and so does the element of an Event context, also when the jqFilter fails on the object (Deleted). -/
theorem shown_filter_result_clause_event (b : KBinding) (obj : J) (hk : b.cfg.keep = true) :
    (OFR.json (ofrEvent b.cfg obj)).get? "object" = some obj
    ∧ Spec.filterResultClause b.cfg.filter obj ((OFR.json (ofrEvent b.cfg obj)).get? "filterResult") = true := by
  unfold OFR.json
  rw [ofr_event_map_eq_view, get_mkObj, get_mkObj]
  cases hf : b.cfg.filter <;> simp [Spec.viewOf, Spec.ObjView.fields, Spec.filterResultClause, hk, hf, lastAssign]

def exManagedCfg : Cfg := { types := [.added], filter := some (.one (.path ["metadata", "managedFields"])), keep := true }
def exManagedObj : J :=
  .obj [("metadata", .obj [("managedFields", .arr [.obj [("manager", .str "helm")]]), ("name", .str "o1")])]

/-- Non-vacuity: an object with `metadata.managedFields` and the filter `.metadata.managedFields`. -/
example : (OFR.json (ofrOfRun exManagedCfg exManagedObj)).print =
    "{\"filterResult\":[{\"manager\":\"helm\"}],\"object\":{\"metadata\":{\"managedFields\":[{\"manager\":\"helm\"}],\"name\":\"o1\"}}}" := by
  decide

/-- Witness for the seeded change C09-w6m3 (the jq program runs on a copy without
`metadata.managedFields`): the item shows the object with its managedFields and `filterResult: null` —
the clause fails on what is shown; replayed on the real code by the metadata sweep (cases 140–151). -/
theorem slim_copy_witness :
    (OFR.json (ofrOfSlim exManagedCfg exManagedObj)).get? "object" = some exManagedObj
    ∧ (OFR.json (ofrOfSlim exManagedCfg exManagedObj)).get? "filterResult" = some .null
    ∧ Spec.filterResultClause exManagedCfg.filter exManagedObj
        ((OFR.json (ofrOfSlim exManagedCfg exManagedObj)).get? "filterResult") = false := by
  decide

/-! Non-vacuity: a hook with a grouped binding, a self-including binding with a scalar filter and a
schedule including both; a cluster with two objects; one run rendering four contexts. -/
def exK1 : KBinding := { name := "k1", ns := "a", cfg := { types := [.added], filter := some (.one (.path ["spec", "replicas"])), keep := false },
                         inc := ["k1"] }
def exK2 : KBinding := { name := "k2", ns := "a", cfg := { types := [.added], filter := none, keep := true }, group := "g", inc := ["k2"] }
def exS : OBinding := { kind := .schedule, name := "s1", inc := ["k1", "k2"] }
def exHook : Hook := { kbs := [exK1, exK2], obs := [exS] }
def exCl : Cluster := [("a", "o1", .obj [("spec", .obj [("replicas", .num 3)])]), ("b", "o2", .obj [])]
def exOs : List Origin := [.onStartup, .kubeSync exK1, .kubeEvent exK2 .added (.obj []), .other exS ""]

theorem exWF : ∀ o ∈ exOs, WF exHook o := by
  intro o ho
  simp only [exOs, List.mem_cons, List.not_mem_nil, or_false] at ho
  rcases ho with rfl | rfl | rfl | rfl
  · trivial
  · rfl
  · simp [WF, exHook]
  · simp [WF, exHook]
example : runFile .v1 exHook exCl exOs = some (Spec.expectedFile .v1 exHook exCl exOs) :=
  run_file_v1_eq_expected_partial exHook exCl exOs exWF
example : (runFile .v1 exHook exCl [.kubeSync exK1]).map J.print =
    some "[{\"binding\":\"k1\",\"objects\":[{\"filterResult\":3}],\"snapshots\":{\"k1\":[{\"filterResult\":3}]},\"type\":\"Synchronization\"}]" := by
  decide


/-! ## `snapshots` is present exactly when the binding includes snapshots — on the rendered item, for
every hook and every origin, bindings sharing a name included -/

theorem ofr_map_no_snapshots (o : OFR) : "snapshots" ∉ o.map.map Prod.fst := by
  obtain ⟨jq, rem, ob, fr⟩ := o
  cases jq <;> cases rem <;> rcases fr with _ | ⟨_ | _, a, _ | d⟩ | v <;> simp [OFR.map]

/-- No branch of `MapV1` after the "snapshots" step assigns `snapshots`. -/
theorem typePart_no_snapshots (c : Ctx) : "snapshots" ∉ (typePart c).map Prod.fst := by
  unfold typePart
  repeat' split
  all_goals (first | (simp; done) | skip)
  all_goals
    rename_i o _ _
    have := ofr_map_no_snapshots o
    simp only [List.map_append, List.mem_append, not_or]
    exact ⟨by simp, this⟩

theorem mkCtx_include (o : Origin) : (mkCtx o).includeSnapshots = incOf o ∧ (mkCtx o).includeAll = false := by
  cases o with
  | onStartup => simp [mkCtx, incOf]
  | other b uid => obtain ⟨kind, name, group, inc, fromV, toV⟩ := b; cases kind <;> simp [mkCtx, incOf]
  | kubeSync b => simp [mkCtx, incOf]
  | kubeEvent b we obj => simp [mkCtx, incOf]

theorem mkCtx_onStartup_iff (o : Origin) : (mkCtx o).btype = .onStartup → incOf o = [] := by
  cases o with
  | onStartup => simp [incOf]
  | other b uid => obtain ⟨kind, name, group, inc, fromV, toV⟩ := b; cases kind <;> simp [mkCtx]
  | kubeSync b => simp [mkCtx]
  | kubeEvent b we obj => simp [mkCtx]

/-- **C09 snapshots present iff included, on the rendered item.** For every hook — bindings of one type
may share a name, the hook may have no kubernetes binding at all —, every cluster content and every
context the controllers produce: the item `MapV1` renders after `UpdateSnapshots` has the key
`snapshots` exactly when the binding the context comes from includes snapshots (its effective
includeSnapshotsFrom list is not empty). No well-formedness hypothesis: whatever the by-name fallback
of `UpdateSnapshots` puts into the `Snapshots` map, `MapV1` decides by the context's own metadata. -/
theorem rendered_snapshots_iff_included (h : Hook) (cl : Cluster) (o : Origin) :
    "snapshots" ∈ (J.mkObj (mapV1 (updateSnapshots h cl (mkCtx o)))).keys ↔ incOf o ≠ [] := by
  obtain ⟨h1, _, _, _, _, _, _, _, _, hi, ha⟩ := updateSnapshots_fields h cl (mkCtx o)
  obtain ⟨hinc, hall⟩ := mkCtx_include o
  rw [mem_keys_mkObj]
  unfold mapV1
  rw [h1]
  by_cases hs : (mkCtx o).btype = .onStartup
  · simp [hs, mkCtx_onStartup_iff o hs]
  · have hnt := typePart_no_snapshots (updateSnapshots h cl (mkCtx o))
    simp only [hs, if_false, List.map_append, List.mem_append, List.map_cons, List.map_nil, List.mem_cons,
      List.not_mem_nil, or_false, hnt]
    unfold snapPart
    rw [hi, ha, hinc, hall]
    cases hio : incOf o <;> simp

/-- The clause the driver evaluates on every item the implementation shows (`oracle snapshots`) holds
of the item the model renders — v1 … -/
theorem snapshots_clause_v1 (h : Hook) (cl : Cluster) (o : Origin) :
    Spec.snapshotsClause .v1 o
      (decide ("snapshots" ∈ (J.mkObj (mapV1 (updateSnapshots h cl (mkCtx o)))).keys)) = true := by
  have := rendered_snapshots_iff_included h cl o
  unfold Spec.snapshotsClause
  cases hi : incOf o with
  | nil => simp [hi] at this; simp [this]
  | cons n rest => simp [hi] at this; simp [this]

/-- … and v0: a v0 item never has `snapshots`. -/
theorem snapshots_clause_v0 (h : Hook) (cl : Cluster) (o : Origin) (l : List (String × J))
    (hm : mapV0 (updateSnapshots h cl (mkCtx o)) = some l) :
    Spec.snapshotsClause .v0 o (decide ("snapshots" ∈ (J.mkObj l).keys)) = true := by
  have hno : "snapshots" ∉ (J.mkObj l).keys := by
    rw [mem_keys_mkObj]
    unfold mapV0 at hm
    by_cases hb : (updateSnapshots h cl (mkCtx o)).btype ≠ .kubernetes
    · simp [hb] at hm; subst hm; simp
    · simp only [hb, if_false] at hm
      cases hobj : (updateSnapshots h cl (mkCtx o)).objects with
      | nil => simp [hobj] at hm; subst hm; simp
      | cons x rest =>
        simp only [hobj] at hm
        cases hx : x.object with
        | none => simp [hx] at hm
        | some obj => simp [hx] at hm; subst hm; simp
  simp [Spec.snapshotsClause, hno]

/-! Bindings of one type sharing a name: two unnamed schedule bindings (both are called "schedule"), the
first includes the snapshot of `pods`, the second includes nothing. -/
def shK : KBinding := { name := "pods", ns := "a", cfg := { types := [.added], filter := none, keep := true } }
def shS1 : OBinding := { kind := .schedule, name := "schedule", inc := ["pods"] }
def shS2 : OBinding := { kind := .schedule, name := "schedule" }
def shHook : Hook := { kbs := [shK], obs := [shS1, shS2] }
def shCl : Cluster := [("a", "o1", .obj [("n", .num 1)])]

/-- Non-vacuity: both contexts are well-formed origins, the whole file is the documented one, the second
item has no `snapshots` — although the by-name fallback of `UpdateSnapshots` did fill its `Snapshots`
map from the first binding called "schedule". -/
example : (∀ o ∈ [Origin.other shS2 "", .other shS1 ""], WF shHook o)
    ∧ (runFile .v1 shHook shCl [.other shS2 ""]).map J.print = some "[{\"binding\":\"schedule\",\"type\":\"Schedule\"}]"
    ∧ (runFile .v1 shHook shCl [.other shS1 ""]).map J.print =
        some "[{\"binding\":\"schedule\",\"snapshots\":{\"pods\":[{\"object\":{\"n\":1}}]},\"type\":\"Schedule\"}]"
    ∧ (updateSnapshots shHook shCl (mkCtx (.other shS2 ""))).snapshots.length = 1 := by
  refine ⟨?_, by decide, by decide, by decide⟩
  intro o ho
  simp only [List.mem_cons, List.not_mem_nil, or_false] at ho
  rcases ho with rfl | rfl <;> simp [WF, shHook]

example : runFile .v1 shHook shCl [.other shS2 "", .other shS1 ""] =
    some (Spec.expectedFile .v1 shHook shCl [.other shS2 "", .other shS1 ""]) :=
  run_file_v1_eq_expected_partial shHook shCl _ (by
    intro o ho
    simp only [List.mem_cons, List.not_mem_nil, or_false] at ho
    rcases ho with rfl | rfl <;> simp [WF, shHook])

/-- Witness for the seeded change C09-w3m2 (presence of `snapshots` read off the filled map): the
context of the second "schedule" binding gets `snapshots` although it includes none — replayed on the
real code by the corpus cases "bindings sharing a name". -/
theorem snapshots_from_filled_map_witness :
    (snapPartFromFilledMap (updateSnapshots shHook shCl (mkCtx (.other shS2 "")))).map Prod.fst = ["snapshots"]
    ∧ snapPart (updateSnapshots shHook shCl (mkCtx (.other shS2 ""))) = []
    ∧ incOf (.other shS2 "") = [] := by decide

/-! ## The excluded point: two bindings with the same name (finding `same-name-bindings`) -/

def dupK1 : KBinding := { name := "kubernetes", ns := "a", cfg := { types := [], filter := none, keep := true } }
def dupK2 : KBinding := { name := "kubernetes", ns := "b", cfg := { types := [], filter := none, keep := true } }
def dupHook : Hook := { kbs := [dupK1, dupK2] }
def dupCl : Cluster := [("a", "o1", .obj [("n", .num 1)]), ("b", "o2", .obj [("n", .num 2)])]

/-- Counterexample (kernel-checked, replayed on the real code by corpus case 6): a hook with two
unnamed kubernetes bindings watching different namespaces. `UpdateSnapshots` refreshes the `objects`
of a Synchronization context through `SnapshotsFor(bindingName)`, which finds the *first* binding
called "kubernetes": the second binding's Synchronization context lists the first binding's objects. -/
theorem same_name_witness :
    runFile .v1 dupHook dupCl [.kubeSync dupK2] ≠ some (Spec.expectedFile .v1 dupHook dupCl [.kubeSync dupK2])
    ∧ (runFile .v1 dupHook dupCl [.kubeSync dupK2]).map J.print =
        some "[{\"binding\":\"kubernetes\",\"objects\":[{\"object\":{\"n\":1}}],\"type\":\"Synchronization\"}]"
    ∧ (Spec.expectedFile .v1 dupHook dupCl [.kubeSync dupK2]).print =
        "[{\"binding\":\"kubernetes\",\"objects\":[{\"object\":{\"n\":2}}],\"type\":\"Synchronization\"}]" := by
  decide

/-! ## Fifth wave (a): conversion links -/

/-- What is true of every pair of the link map at any moment of `EnableConversionBindings`. -/
def LinkOK (bs : List ConvB) (kv : (String × String × String) × Link) : Prop :=
  ∃ b ∈ bs, ∃ r ∈ b.rules, kv.1 = (b.crd, r.1, r.2) ∧ kv.2 = linkOf b r

theorem enableRules_ok (bs : List ConvB) (b : ConvB) (hb : b ∈ bs) (m : Links) (hm : ∀ kv ∈ m, LinkOK bs kv) :
    ∀ kv ∈ enableRules b m, LinkOK bs kv := by
  unfold enableRules
  have : ∀ (rs : List (String × String)) (m : Links), (∀ r ∈ rs, r ∈ b.rules) → (∀ kv ∈ m, LinkOK bs kv) →
      ∀ kv ∈ rs.foldl (fun m r => ((b.crd, r.1, r.2), linkOf b r) :: m) m, LinkOK bs kv := by
    intro rs
    induction rs with
    | nil => intro m _ hm; simpa using hm
    | cons r rest ih =>
      intro m hrs hm
      simp only [List.foldl_cons]
      apply ih
      · intro r' hr'; exact hrs r' (List.mem_cons_of_mem _ hr')
      · intro kv hkv
        rcases List.mem_cons.mp hkv with rfl | hkv
        · exact ⟨b, hb, r, hrs r (List.mem_cons_self ..), rfl, rfl⟩
        · exact hm kv hkv
  exact this b.rules m (fun _ h => h) hm

theorem enableConversion_ok (bs : List ConvB) : ∀ kv ∈ enableConversion bs, LinkOK bs kv := by
  unfold enableConversion
  have : ∀ (l : List ConvB) (m : Links), (∀ b ∈ l, b ∈ bs) → (∀ kv ∈ m, LinkOK bs kv) →
      ∀ kv ∈ l.foldl (fun m b => enableRules b m) m, LinkOK bs kv := by
    intro l
    induction l with
    | nil => intro m _ hm; simpa using hm
    | cons b rest ih =>
      intro m hl hm
      simp only [List.foldl_cons]
      exact ih _ (fun b' hb' => hl b' (List.mem_cons_of_mem _ hb'))
        (enableRules_ok bs b (hl b (List.mem_cons_self ..)) m hm)
  exact this bs [] (fun _ h => h) (by simp)

/-- **Soundness of the links.** Whatever `HandleEvent` finds under (crd, rule) was stored for a binding
of the hook that lists this very rule, and is the link of that binding *for that rule*. -/
theorem enable_links_sound (bs : List ConvB) (crd : String) (r : String × String) (l : Link)
    (hf : (enableConversion bs).find crd r = some l) :
    ∃ b ∈ bs, r ∈ b.rules ∧ b.crd = crd ∧ l = linkOf b r := by
  unfold Links.find at hf
  cases hfind : (enableConversion bs).find? (fun kv => kv.1 = (crd, r.1, r.2)) with
  | none => simp [hfind] at hf
  | some kv =>
    simp [hfind] at hf
    have hmem := List.mem_of_find?_eq_some hfind
    have hkey := List.find?_some hfind
    obtain ⟨b, hb, r', hr', hk, hl⟩ := enableConversion_ok bs kv hmem
    simp only [decide_eq_true_eq] at hkey
    rw [hk] at hkey
    simp only [Prod.mk.injEq] at hkey
    have h1 : b.crd = crd := hkey.1
    have h2 : r' = r := Prod.ext hkey.2.1 hkey.2.2
    subst h2
    exact ⟨b, hb, hr', h1, by rw [← hf, hl]⟩

/-- **C09 conversion versions.** For every list of conversion bindings (any number of `conversions`
each, rules may even repeat between bindings) and every request: the link found for a rule carries
the fromVersion / toVersion of that rule. -/
theorem conversion_link_versions (bs : List ConvB) (crd : String) (r : String × String) (l : Link)
    (hf : (enableConversion bs).find crd r = some l) : l.fromV = r.1 ∧ l.toV = r.2 := by
  obtain ⟨b, _, _, _, hl⟩ := enable_links_sound bs crd r l hf
  subst hl; exact ⟨rfl, rfl⟩

theorem enableRules_mono (b : ConvB) (m : Links) (k : String × String × String)
    (hk : k ∈ m.map Prod.fst) : k ∈ (enableRules b m).map Prod.fst := by
  unfold enableRules
  have : ∀ (rs : List (String × String)) (m : Links), k ∈ m.map Prod.fst →
      k ∈ (rs.foldl (fun m r => ((b.crd, r.1, r.2), linkOf b r) :: m) m).map Prod.fst := by
    intro rs
    induction rs with
    | nil => intro m hm; simpa using hm
    | cons r rest ih => intro m hm; simp only [List.foldl_cons]; apply ih; simp [hm]
  exact this b.rules m hk

theorem enableRules_has (b : ConvB) (m : Links) (r : String × String) (hr : r ∈ b.rules) :
    (b.crd, r.1, r.2) ∈ (enableRules b m).map Prod.fst := by
  unfold enableRules
  have : ∀ (rs : List (String × String)) (m : Links), r ∈ rs →
      (b.crd, r.1, r.2) ∈ (rs.foldl (fun m r => ((b.crd, r.1, r.2), linkOf b r) :: m) m).map Prod.fst := by
    intro rs
    induction rs with
    | nil => intro m h; simp at h
    | cons r' rest ih =>
      intro m h
      simp only [List.foldl_cons]
      rcases List.mem_cons.mp h with rfl | h
      · have := enableRules_mono { b with rules := rest } (((b.crd, r.1, r.2), linkOf b r) :: m) (b.crd, r.1, r.2) (by simp)
        simp only [enableRules, linkOf] at this
        exact this
      · exact ih _ h
  exact this b.rules m hr

/-- **Completeness of the links.** Every rule of every binding can be handled. -/
theorem enable_links_complete (bs : List ConvB) (b : ConvB) (hb : b ∈ bs) (r : String × String) (hr : r ∈ b.rules) :
    ((enableConversion bs).find b.crd r).isSome = true := by
  have hkey : (b.crd, r.1, r.2) ∈ (enableConversion bs).map Prod.fst := by
    unfold enableConversion
    have : ∀ (l : List ConvB) (m : Links), (b ∈ l ∨ (b.crd, r.1, r.2) ∈ m.map Prod.fst) →
        (b.crd, r.1, r.2) ∈ (l.foldl (fun m b => enableRules b m) m).map Prod.fst := by
      intro l
      induction l with
      | nil => intro m h; rcases h with h | h; · simp at h
               · simpa using h
      | cons b' rest ih =>
        intro m h
        simp only [List.foldl_cons]
        apply ih
        rcases h with h | h
        · rcases List.mem_cons.mp h with rfl | h
          · exact Or.inr (enableRules_has b m r hr)
          · exact Or.inl h
        · exact Or.inr (enableRules_mono b' m _ h)
    exact this bs [] (Or.inl hb)
  unfold Links.find
  obtain ⟨kv, hkv, hk⟩ := List.mem_map.mp hkey
  cases hfind : (enableConversion bs).find? (fun kv => kv.1 = (b.crd, r.1, r.2)) with
  | some _ => simp
  | none =>
    have := List.find?_eq_none.mp hfind kv hkv
    simp [hk] at this

/-- **C09 Conversion contexts carry their documented fields — for every rule.** For every binding of the
hook and every one of its `conversions`, a request for that rule yields a context, and the context is
the one of a Conversion binding whose fromVersion / toVersion are those of the requested rule, with
the request's review (so `mapV1_eq_spec_partial` applies to it: the item shows `fromVersion`,
`toVersion`, `review`, `type: Conversion`). -/
theorem conversion_context_every_rule (bs : List ConvB) (b : ConvB) (hb : b ∈ bs) (r : String × String)
    (hr : r ∈ b.rules) (uid : String) :
    ∃ c, handleConversion (enableConversion bs) b.crd r uid = some c ∧
      c = mkCtx (.other { kind := .conversion, name := c.binding, group := c.group, inc := c.includeSnapshots,
                          fromV := r.1, toV := r.2 } uid) := by
  have hs := enable_links_complete bs b hb r hr
  cases hf : (enableConversion bs).find b.crd r with
  | none => simp [hf] at hs
  | some l =>
    obtain ⟨h1, h2⟩ := conversion_link_versions bs b.crd r l hf
    refine ⟨{ btype := .conversion, binding := l.binding, review := uid, fromVersion := l.fromV, toVersion := l.toV,
              includeSnapshots := l.inc, group := l.group }, by simp [handleConversion, hf], ?_⟩
    simp [mkCtx, h1, h2]

/-- When no other binding of the CRD lists the rule, the context is the one of *this* binding. -/
theorem conversion_context_owner (bs : List ConvB) (b : ConvB) (hb : b ∈ bs) (r : String × String)
    (hr : r ∈ b.rules) (uid : String)
    (huniq : ∀ b' ∈ bs, r ∈ b'.rules → b'.crd = b.crd → b' = b) :
    handleConversion (enableConversion bs) b.crd r uid =
      some (mkCtx (.other { kind := .conversion, name := b.name, group := b.group, inc := b.inc,
                            fromV := r.1, toV := r.2 } uid)) := by
  have hs := enable_links_complete bs b hb r hr
  cases hf : (enableConversion bs).find b.crd r with
  | none => simp [hf] at hs
  | some l =>
    obtain ⟨b', hb', hr', hc, hl⟩ := enable_links_sound bs b.crd r l hf
    have := huniq b' hb' hr' hc
    subst this
    simp [handleConversion, hf, hl, linkOf, mkCtx]

def exConv : ConvB := { name := "conv1", crd := "crd", inc := ["k1"], rules := [("v1alpha1", "v1beta1"), ("v1beta1", "v1")] }

example : (handleConversion (enableConversion [exConv]) "crd" ("v1alpha1", "v1beta1") "u").map
      (fun c => (c.binding, c.fromVersion, c.toVersion, c.review)) = some ("conv1", "v1alpha1", "v1beta1", "u")
    ∧ (handleConversion (enableConversion [exConv]) "crd" ("v1beta1", "v1") "u").map
      (fun c => (c.fromVersion, c.toVersion)) = some ("v1beta1", "v1") := by decide

/-- Witness for the seeded change C09-w5m1 (one link per binding shared by all its rules): the context
for the first rule of a two-rule binding carries the versions of the last rule. -/
theorem conversion_shared_link_witness :
    (handleConversion (enableConversionShared [exConv]) "crd" ("v1alpha1", "v1beta1") "u").map
      (fun c => (c.fromVersion, c.toVersion)) = some ("v1beta1", "v1") := by decide

/-! ## Fifth wave (b): the keys of `snapshots` -/

theorem mergeArrays_fold_mem (a1 a2 acc : List String) (x : String) :
    x ∈ a2.foldl (fun acc a => if a ∈ a1 ∨ a ∈ acc then acc else acc ++ [a]) acc ↔
      x ∈ acc ∨ (x ∈ a2 ∧ x ∉ a1) := by
  induction a2 generalizing acc with
  | nil => simp
  | cons a rest ih =>
    simp only [List.foldl_cons]
    rw [ih]
    by_cases h : a ∈ a1 ∨ a ∈ acc
    · simp only [h, if_true, List.mem_cons]
      constructor
      · rintro (h1 | ⟨h1, h2⟩)
        · exact Or.inl h1
        · exact Or.inr ⟨Or.inr h1, h2⟩
      · rintro (h1 | ⟨h1 | h1, h2⟩)
        · exact Or.inl h1
        · subst h1
          rcases h with h | h
          · exact absurd h h2
          · exact Or.inl h
        · exact Or.inr ⟨h1, h2⟩
    · simp only [h, if_false, List.mem_append, List.mem_cons, List.not_mem_nil, or_false]
      have hn1 : a ∉ a1 := fun e => h (Or.inl e)
      constructor
      · rintro ((h1 | h1) | ⟨h1, h2⟩)
        · exact Or.inl h1
        · subst h1; exact Or.inr ⟨Or.inl rfl, hn1⟩
        · exact Or.inr ⟨Or.inr h1, h2⟩
      · rintro (h1 | ⟨h1 | h1, h2⟩)
        · exact Or.inl (Or.inl h1)
        · exact Or.inl (Or.inr h1)
        · exact Or.inr ⟨h1, h2⟩

/-- `MergeArrays(a1, a2)` holds exactly the members of its two arguments. -/
theorem mem_mergeArrays (a1 a2 : List String) (x : String) : x ∈ mergeArrays a1 a2 ↔ x ∈ a1 ∨ x ∈ a2 := by
  unfold mergeArrays
  rw [List.mem_append, mergeArrays_fold_mem]
  by_cases h : x ∈ a1 <;> simp [h]

theorem groupKbs_eq (raw : List (String × String)) (g : String) : Spec.groupKbs raw g = groupSnapshots raw g := by
  unfold Spec.groupKbs groupSnapshots
  by_cases hg : g = "" <;> simp [hg]

theorem lastAssign_not_mem (k : String) (init : Option J) (l : List (String × J)) (h : k ∉ l.map Prod.fst) :
    lastAssign k init l = init := by
  unfold lastAssign
  induction l generalizing init with
  | nil => rfl
  | cons kv rest ih =>
    simp only [List.map_cons, List.mem_cons, not_or] at h
    simp only [List.foldl_cons, h.1, if_false]
    exact ih init h.2

theorem lastAssign_append (k : String) (init : Option J) (l1 l2 : List (String × J)) :
    lastAssign k init (l1 ++ l2) = lastAssign k (lastAssign k init l1) l2 := by
  unfold lastAssign; rw [List.foldl_append]

/-- **C09 the keys of `snapshots`.** For every hook that has kubernetes bindings, every cluster content
and every context the controllers produce whose binding includes snapshots: the rendered item has a
`snapshots` object and its keys are exactly the names of the binding's effective includeSnapshotsFrom
(no hypothesis on names: bindings may share them). -/
theorem rendered_snapshots_keys (h : Hook) (cl : Cluster) (o : Origin) (hk : h.kbs ≠ []) (hi : incOf o ≠ []) :
    ∃ j, (J.mkObj (mapV1 (updateSnapshots h cl (mkCtx o)))).get? "snapshots" = some j ∧
      ∀ k, k ∈ j.keys ↔ k ∈ incOf o := by
  obtain ⟨h1, _, _, _, _, _, _, _, _, hinc', hall'⟩ := updateSnapshots_fields h cl (mkCtx o)
  obtain ⟨hinc, hall⟩ := mkCtx_include o
  have hkb : h.kbs.isEmpty = false := by
    cases hh : h.kbs with
    | nil => exact absurd hh hk
    | cons _ _ => rfl
  have hs : (mkCtx o).btype ≠ .onStartup := fun e => hi (mkCtx_onStartup_iff o e)
  have hsn := updateSnapshots_snapshots h cl (mkCtx o) hkb
  have hlen : ¬ (incOf o).length = 0 := by
    cases hio : incOf o with
    | nil => exact absurd hio hi
    | cons _ _ => simp
  rw [hinc] at hsn
  simp only [hlen, if_false] at hsn
  refine ⟨snapshotsJ ((incOf o).map (fun name => (name, (snapshotsFor h cl name).getD []))), ?_, ?_⟩
  · rw [get_mkObj]
    unfold mapV1
    rw [h1]
    simp only [hs, if_false]
    rw [lastAssign_append, lastAssign_not_mem _ _ _ (typePart_no_snapshots _), lastAssign_append]
    unfold snapPart
    rw [hinc', hall', hinc, hall, hsn]
    have hpos : (incOf o).length > 0 := Nat.pos_of_ne_zero hlen
    simp [lastAssign, hpos]
  · intro k
    unfold snapshotsJ
    rw [mem_keys_mkObj]
    simp [List.map_map, Function.comp_def]

/-- An item whose binding includes no snapshots has no `snapshots` member. -/
theorem rendered_no_snapshots (h : Hook) (cl : Cluster) (o : Origin) (hi : incOf o = []) :
    (J.mkObj (mapV1 (updateSnapshots h cl (mkCtx o)))).get? "snapshots" = none := by
  have this : "snapshots" ∉ (J.mkObj (mapV1 (updateSnapshots h cl (mkCtx o)))).keys :=
    fun hm => ((rendered_snapshots_iff_included h cl o).mp hm) hi
  rw [mem_keys_mkObj] at this
  rw [get_mkObj, lastAssign_not_mem _ _ _ this]

/-- **The clause the driver evaluates on every item (`oracle snapkeys`) holds of the model's item**, for
every hook with kubernetes bindings, every binding configuration as written (`own` = its
includeSnapshotsFrom, `g` = its group, `raw` = the kubernetes bindings with their groups) once the loader
has merged the group (`incOf o = MergeArrays(own, groupSnapshots[g])`): the keys of `snapshots` are the
binding's own names plus the kubernetes bindings of its group — nobody else's, none missing — and the
member is absent exactly when both are empty. -/
theorem snap_keys_clause_v1 (h : Hook) (cl : Cluster) (o : Origin) (hk : h.kbs ≠ [])
    (raw : List (String × String)) (own : List String) (g : String)
    (heff : incOf o = mergeArrays own (groupSnapshots raw g)) :
    Spec.snapKeysClause own (Spec.groupKbs raw g)
      (((J.mkObj (mapV1 (updateSnapshots h cl (mkCtx o)))).get? "snapshots").map J.keys) = true := by
  rw [groupKbs_eq]
  have hmem : ∀ x, x ∈ incOf o ↔ x ∈ own ++ groupSnapshots raw g := by
    intro x; rw [heff, mem_mergeArrays, List.mem_append]
  by_cases hi : incOf o = []
  · rw [rendered_no_snapshots h cl o hi]
    have : own ++ groupSnapshots raw g = [] := by
      cases hw : own ++ groupSnapshots raw g with
      | nil => rfl
      | cons x rest =>
        have := (hmem x).mpr (by rw [hw]; exact List.mem_cons_self ..)
        rw [hi] at this; simp at this
    simp [Spec.snapKeysClause, this]
  · obtain ⟨j, hj, hkeys⟩ := rendered_snapshots_keys h cl o hk hi
    rw [hj]
    have hne : (own ++ groupSnapshots raw g).isEmpty = false := by
      cases hw : own ++ groupSnapshots raw g with
      | nil =>
        exfalso; apply hi
        cases hio : incOf o with
        | nil => rfl
        | cons x rest =>
          have := (hmem x).mp (by rw [hio]; exact List.mem_cons_self ..)
          rw [hw] at this; simp at this
      | cons _ _ => rfl
    simp only [Spec.snapKeysClause, Option.map_some, hne, Bool.not_false, Bool.true_and, Bool.and_eq_true,
      List.all_eq_true, List.contains_iff_mem]
    exact ⟨fun k hk' => (hmem k).mp ((hkeys k).mp hk'), fun k hk' => (hkeys k).mpr ((hmem k).mpr hk')⟩

/-! Non-vacuity: a group of three kubernetes bindings, two members with different extra lists. -/
def g3Raw : List (String × String) := [("x1", ""), ("x2", ""), ("k1", "g"), ("k2", "g"), ("k3", "g")]
def g3K (n : String) (g : String) (own : List String) : KBinding :=
  { name := n, ns := "a", cfg := { types := [], filter := none, keep := false }, group := g,
    inc := mergeArrays own (groupSnapshots g3Raw g) }
def g3S (own : List String) : OBinding := { kind := .schedule, name := "s", group := "g", inc := mergeArrays own (groupSnapshots g3Raw "g") }
def g3Hook : Hook := { kbs := [g3K "x1" "" [], g3K "x2" "" [], g3K "k1" "g" ["x1"], g3K "k2" "g" ["x2"], g3K "k3" "g" []] }

example : ((J.mkObj (mapV1 (updateSnapshots g3Hook [] (mkCtx (.other (g3S ["x1"]) ""))))).get? "snapshots").map J.keys
      = some ["k1", "k2", "k3", "x1"]
    ∧ ((J.mkObj (mapV1 (updateSnapshots g3Hook [] (mkCtx (.kubeSync (g3K "k2" "g" ["x2"])))))).get? "snapshots").map J.keys
      = some ["k1", "k2", "k3", "x2"]
    ∧ Spec.snapKeysClause ["x1"] (Spec.groupKbs g3Raw "g") (some ["k1", "k2", "k3", "x1"]) = true
    ∧ Spec.snapKeysClause ["x1"] (Spec.groupKbs g3Raw "g") (some ["k1", "k2", "k3", "x2"]) = false := by decide

/-- Seeded variant (C09-w5m3): `MergeArrays(groupSnapshots[g], own)` appending into the spare capacity of
the shared group slice — the last member's extra name replaces every earlier member's. What the first
member then shows violates the clause. -/
theorem shared_group_slice_witness :
    Spec.snapKeysClause ["x1"] (Spec.groupKbs g3Raw "g") (some ["k1", "k2", "k3", "x2"]) = false
    ∧ mergeArrays ["x1"] (groupSnapshots g3Raw "g") = ["x1", "k1", "k2", "k3"] := by decide

end ShellOp.BindingContext.C09
