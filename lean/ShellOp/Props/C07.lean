import ShellOp.Proofs.Combine
import ShellOp.Proofs.TransCombine
/-!
# C07 — combining adjacent tasks keeps every binding context, in order

Property theorems over `Model/Combine` (the code-shaped model of `combineBindingContextForHook`,
its exported twin and the combine decision of `taskHandleHookRun`) and the list specification
`Combine.Spec`. Quantifier: every queue layout (any sequence of tasks over hooks, task types,
metadata-less tasks, groups, monitor ids, any stop-combine predicate), any tasks appended to any
queue of the set between the `Iterate` and the `Filter` step. No bound on sizes.
-/
namespace ShellOp.Combine.C07

open ShellOp.Combine ShellOp.Combine.Spec

/-- What the property promises for the head task `t` of `t :: rest`, as one value. -/
def specOutcome (t : Task) (f : Option (Task → Bool)) (rest : List Task) : Outcome :=
  if merged t f rest = [] then .nil
  else .res (contexts t (merged t f rest)) (monitors t (merged t f rest))

theorem head_filter (t : Task) (rest : List Task) (nd : ((t :: rest).map (·.id)).Nodup) :
    (t :: rest).filter (fun x => x.id != t.id) = rest := by
  simp only [List.map_cons, List.nodup_cons, List.mem_map, not_exists, not_and] at nd
  rw [List.filter_cons]
  simp only [bne_self_eq_false, Bool.false_eq_true, if_false]
  rw [List.filter_eq_self]
  intro x hx
  have := nd.1 x hx
  simpa using this

/-- **C07.4 `concurrent_append_safe`** (and, with `apps = []`, C07.1): the head task `t` of its
queue is combined while other goroutines append tasks (fresh ids) to any queues of the set between
the `Iterate` and the `Filter` step. The hook receives the compaction of the concatenation, in
queue order, of the contexts of `t` and of the maximal run of combinable tasks right behind it;
the monitor ids are concatenated; exactly that run disappears from the queue; everything else,
including everything appended meanwhile, keeps its place. -/
theorem concurrent_append_safe (qs : QSet) (t : Task) (rest : List Task) (f : Option (Task → Bool))
    (apps : List (Nat × List Task))
    (hq : qs.get t.queue = some (t :: rest)) (hm : t.hasMeta = true)
    (nd : ((t :: rest).map (·.id)).Nodup)
    (fresh : ∀ a ∈ appsFor apps t.queue, a.id ∉ (t :: rest).map (·.id)) :
    combineGo qs (some t.queue) t f (appendEnv apps) =
      (specOutcome t f rest,
       if merged t f rest = [] then appendEnv apps qs
       else (appendEnv apps qs).set t.queue (remainder t f rest ++ appsFor apps t.queue)) := by
  have hit : iterate (t :: rest) t f = merged t f rest := by
    rw [iterate_eq, head_filter t rest nd]; rfl
  simp only [combineGo, Option.bind_some, hq, hm, hit, specOutcome]
  by_cases he : merged t f rest = []
  · simp [he]
  · have hlen : ((merged t f rest).length == 0) = false := by
      cases hmm : merged t f rest with
      | nil => exact absurd hmm he
      | cons a b => simp
    simp only [Bool.not_true, Bool.false_eq_true, if_false, hlen, he]
    rw [QSet.get_appendEnv, hq]
    simp only [Option.map_some]
    rw [filterStep_mkPlan, mkPlan_combined, mkPlan_mons, compactGo_eq]
    have hsplit : t :: rest ++ appsFor apps t.queue
        = [t] ++ merged t f rest ++ (rest.dropWhile (combinable t f) ++ appsFor apps t.queue) := by
      have := List.takeWhile_append_dropWhile (p := combinable t f) (l := rest)
      simp only [merged, List.cons_append, List.nil_append, ← List.append_assoc, this]
    have hmem : ∀ x ∈ merged t f rest, x ∈ rest := fun x hx => (takeWhile_mem hx).1
    simp only [List.map_cons, List.nodup_cons, List.mem_map, not_exists, not_and] at nd
    rw [hsplit, filter_mid]
    · simp [remainder, contexts, monitors]
    · intro x hx hmm
      simp only [List.mem_singleton] at hx
      obtain ⟨y, hy, hyx⟩ := List.mem_map.mp hmm
      exact nd.1 y (hmem y hy) (by rw [hyx, hx])
    · intro x hx hmm
      obtain ⟨y, hy, hyx⟩ := List.mem_map.mp hmm
      rcases List.mem_append.mp hx with hx | hx
      · -- x is behind the merged run in a queue without duplicate ids
        have hrest := nd.2
        have hs := List.takeWhile_append_dropWhile (p := combinable t f) (l := rest)
        rw [← hs, List.map_append, List.nodup_append] at hrest
        exact hrest.2.2 y.id (List.mem_map.mpr ⟨y, hy, rfl⟩) x.id (List.mem_map.mpr ⟨x, hx, rfl⟩) hyx
      · exact fresh x hx (by
          rw [← hyx]; simp only [List.map_cons, List.mem_cons, List.mem_map]
          exact Or.inr ⟨y, hmem y hy, rfl⟩)

example : ∃ (qs : QSet) (t : Task) (rest : List Task) (apps : List (Nat × List Task)), qs.get t.queue = some (t :: rest) ∧ t.hasMeta = true ∧
    ((t :: rest).map (·.id)).Nodup ∧ (∀ a ∈ appsFor apps t.queue, a.id ∉ (t :: rest).map (·.id)) ∧
    merged t none rest ≠ [] ∧ appsFor apps t.queue ≠ [] :=
  ⟨[(0, [{ id := 1 }, { id := 2 }, { id := 3, hook := 1 }])], { id := 1 },
   [{ id := 2 }, { id := 3, hook := 1 }], [(0, [{ id := 4 }])], by decide⟩

theorem appendEnv_nil (qs : QSet) : appendEnv [] qs = qs := by
  induction qs with
  | nil => rfl
  | cons p ps ih => obtain ⟨k, v⟩ := p; simp [appendEnv, appsFor, ih]

/-- **C07.1 `combine_result`**: without interference, for the head task `t` of its queue: the
returned contexts are `compact (t.ctxs ++ contexts of the takeWhile-run)`, the monitor ids the
concatenation, the queue afterwards `t :: dropWhile`; `nil` (nothing touched) when the run is empty. -/
theorem combine_result (qs : QSet) (t : Task) (rest : List Task) (f : Option (Task → Bool))
    (hq : qs.get t.queue = some (t :: rest)) (hm : t.hasMeta = true)
    (nd : ((t :: rest).map (·.id)).Nodup) :
    combineGo qs (some t.queue) t f id =
      (specOutcome t f rest,
       if merged t f rest = [] then qs else qs.set t.queue (remainder t f rest)) := by
  have h := concurrent_append_safe qs t rest f [] hq hm nd (by simp [appsFor])
  have he : appendEnv [] = (id : QSet → QSet) := by funext q; simp [appendEnv_nil]
  rw [he] at h
  rw [h]
  simp [appsFor]

example : combineGo [(0, [{ id := 1, ctxs := [⟨1, 1, 5⟩], mons := [7] },
      { id := 2, ctxs := [⟨2, 1, 5⟩, ⟨3, 1, 0⟩], mons := [8] },
      { id := 3, ctxs := [⟨4, 1, 0⟩] }, { id := 4, hook := 1 }, { id := 5 }])] (some 0)
      { id := 1, ctxs := [⟨1, 1, 5⟩], mons := [7] } none id
    = (.res [⟨2, 1, 5⟩, ⟨3, 1, 0⟩, ⟨4, 1, 0⟩] [7, 8],
       [(0, [{ id := 1, ctxs := [⟨1, 1, 5⟩], mons := [7] }, { id := 4, hook := 1 }, { id := 5 }])]) := by
  decide

/-- **C07.1, any position** (what the exported twin does for callers that pass a task which is not
the head — addon-operator): the tasks merged are the longest run of combinable tasks from the *start*
of the queue, the task itself skipped; exactly the tasks carrying their ids leave the queue. For a
task in the middle this merges tasks standing *before* it (their contexts come after its own) — the
property is stated for the head task, where this coincides with `combine_result`. -/
theorem combine_anywhere (qs : QSet) (items : List Task) (t : Task) (f : Option (Task → Bool))
    (hq : qs.get t.queue = some items) (hm : t.hasMeta = true) :
    combineGo qs (some t.queue) t f id =
      (let others := (items.filter (fun x => x.id != t.id)).takeWhile (combinable t f)
       if others = [] then (.nil, qs)
       else (.res (compact (t.ctxs ++ others.flatMap (·.ctxs))) (t.mons ++ others.flatMap (·.mons)),
             qs.set t.queue (items.filter (fun x => !(others.map (·.id)).contains x.id)))) := by
  simp only [combineGo, Option.bind_some, hq, hm, iterate_eq, id]
  by_cases he : (items.filter (fun x => x.id != t.id)).takeWhile (combinable t f) = []
  · simp [he]
  · have hlen : (((items.filter (fun x => x.id != t.id)).takeWhile (combinable t f)).length == 0) = false := by
      cases hmm : (items.filter (fun x => x.id != t.id)).takeWhile (combinable t f) with
      | nil => exact absurd hmm he
      | cons a b => simp
    simp only [Bool.not_true, Bool.false_eq_true, if_false, hlen, he, hq]
    rw [filterStep_mkPlan, mkPlan_combined, mkPlan_mons, compactGo_eq]

example : combineGo [(0, [{ id := 1 }, { id := 2 }, { id := 3 }])] (some 0) { id := 2 } none id
    = (.res [] [], [(0, [{ id := 2 }])]) := by decide

/-! ### C07.2 the compaction -/

/-- **C07.2 `compact_spec`** (a): the code's index loop computes `Spec.compact`. -/
theorem compact_loop_is_spec (l : List Ctx) : compactGo l = compact l := compactGo_eq l

/-- Successor view of a list: every element with the element behind it. -/
def withNext (l : List Ctx) : List (Ctx × Option Ctx) := l.zip (l.tail.map some ++ [none])

/-- **C07.2 `compact_spec`** (b): a context is left out iff its group is non-empty and the context
immediately behind it has the same group; nothing else changes (order, multiplicity). -/
theorem compact_drops_iff (l : List Ctx) :
    compact l = ((withNext l).filter (fun p =>
      !(p.1.group != 0 && (match p.2 with | some d => d.group == p.1.group | none => false)))).map (·.1) := by
  induction l using compact.induct with
  | case1 => simp [compact, withNext]
  | case2 c => simp [compact, withNext]
  | case3 c d rest h ih =>
    have e : withNext (c :: d :: rest) = (c, some d) :: withNext (d :: rest) := by simp [withNext]
    rw [e, List.filter_cons]
    have : (!(c.group != 0 && (d.group == c.group))) = false := by simp [h.1, h.2]
    simp only [this, Bool.false_eq_true, if_false]
    rw [compact, if_pos h]
    exact ih
  | case4 c d rest h ih =>
    have e : withNext (c :: d :: rest) = (c, some d) :: withNext (d :: rest) := by simp [withNext]
    rw [e, List.filter_cons]
    have : (!(c.group != 0 && (d.group == c.group))) = true := by
      simp only [not_and, ne_eq] at h
      by_cases hc : c.group = 0
      · simp [hc]
      · simp [hc, h hc]
    simp only [this, if_true, List.map_cons]
    rw [compact, if_neg h, ih]

/-- **C07.2** (c): the result is a sublist of the concatenation: nothing invented, nothing
reordered, nothing duplicated. -/
theorem compact_sublist (l : List Ctx) : (compact l).Sublist l := by
  induction l using compact.induct with
  | case1 => simp [compact]
  | case2 c => simp [compact]
  | case3 c d rest h ih => rw [compact, if_pos h]; exact ih.cons c
  | case4 c d rest h ih => rw [compact, if_neg h]; exact ih.cons₂ c

/-- **C07.2** (d): contexts without a group always survive, in order. -/
theorem compact_keeps_ungrouped (l : List Ctx) :
    (compact l).filter (·.group == 0) = l.filter (·.group == 0) := by
  induction l using compact.induct with
  | case1 => simp [compact]
  | case2 c => simp [compact]
  | case3 c d rest h ih =>
    rw [compact, if_pos h, ih]
    have : (c.group == 0) = false := by simpa using h.1
    rw [List.filter_cons (x := c)]
    simp [this]
  | case4 c d rest h ih =>
    rw [compact, if_neg h, List.filter_cons, ih, List.filter_cons (x := c)]

/-- **C07.2** (e): a whole run of one non-empty group collapses to its last context. -/
theorem compact_run_collapse (pre run post : List Ctx) (c : Ctx) (hc : c.group ≠ 0)
    (hrun : ∀ x ∈ run, x.group = c.group) :
    compact (pre ++ run ++ c :: post) = compact (pre ++ c :: post) := by
  induction run generalizing pre with
  | nil => simp
  | cons r rs ih =>
    have hr : r.group = c.group := hrun r (by simp)
    have hrs : ∀ x ∈ rs, x.group = c.group := fun x hx => hrun x (by simp [hx])
    -- drop `r` (its successor has its group), then go on
    have key : ∀ (pre : List Ctx) (nx : Ctx) (tl : List Ctx), nx.group = c.group →
        compact (pre ++ r :: nx :: tl) = compact (pre ++ nx :: tl) := by
      intro pre nx tl hnx
      induction pre using compact.induct with
      | case1 => simp [compact, hr, hnx, hc]
      | case2 a =>
        by_cases ha : a.group ≠ 0 ∧ r.group = a.group
        · have ha' : a.group ≠ 0 ∧ nx.group = a.group := ⟨ha.1, by rw [hnx, ← hr, ha.2]⟩
          simp [compact, ha, ha', hr, hnx, hc]
        · have ha' : ¬ (a.group ≠ 0 ∧ nx.group = a.group) := by rw [hnx, ← hr]; exact ha
          simp [compact, ha, ha', hr, hnx, hc]
      | case3 a b rest' h ih' => simpa [compact, h] using ih'
      | case4 a b rest' h ih' => simpa [compact, h] using ih'
    cases rs with
    | nil => simpa using key pre c post rfl
    | cons r2 rs2 =>
      have h2 : r2.group = c.group := hrs r2 (by simp)
      have := key pre r2 (rs2 ++ c :: post) h2
      have e : pre ++ (r :: r2 :: rs2) ++ c :: post = pre ++ r :: r2 :: (rs2 ++ c :: post) := by simp
      rw [e, this]
      have := ih pre hrs
      simpa using this

/-- **C07.2** (f): where no two neighbours share a non-empty group nothing is left out. -/
theorem compact_id_of_no_adjacent (l : List Ctx)
    (h : ∀ p ∈ withNext l, ∀ d, p.2 = some d → ¬ (p.1.group ≠ 0 ∧ d.group = p.1.group)) :
    compact l = l := by
  rw [compact_drops_iff]
  have : (withNext l).filter (fun p =>
      !(p.1.group != 0 && (match p.2 with | some d => d.group == p.1.group | none => false)))
      = withNext l := by
    rw [List.filter_eq_self]
    intro p hp
    rcases hn : p.2 with _ | d
    · simp
    · have := h p hp d hn
      simp only [ne_eq, not_and] at this
      by_cases hg : p.1.group = 0
      · simp [hg]
      · simp [hg, this hg]
  rw [this]
  show List.map Prod.fst (l.zip (l.tail.map some ++ [none])) = l
  apply List.map_fst_zip
  simp
  omega

example : compact [⟨1, 1, 5⟩, ⟨2, 1, 5⟩, ⟨3, 1, 0⟩, ⟨4, 1, 0⟩, ⟨5, 1, 6⟩, ⟨6, 1, 5⟩, ⟨7, 1, 5⟩]
    = [⟨2, 1, 5⟩, ⟨3, 1, 0⟩, ⟨4, 1, 0⟩, ⟨5, 1, 6⟩, ⟨7, 1, 5⟩] := by decide

/-! ### C07.3 other tasks -/

/-- **C07.3 `other_tasks_untouched`** (a): only tasks with metadata, of the same hook and the same
task type (and not vetoed by the stop predicate) are merged. -/
theorem merged_same_hook_and_type (t : Task) (f : Option (Task → Bool)) (rest : List Task) :
    ∀ o ∈ merged t f rest, o.hasMeta = true ∧ o.hook = t.hook ∧ o.typ = t.typ := by
  intro o ho
  have := (takeWhile_mem ho).2
  simp only [combinable, Bool.and_eq_true, beq_iff_eq] at this
  exact ⟨this.1.1.1, this.1.1.2, this.1.2.symm⟩

/-- (b): the merged tasks are exactly the ones immediately following the head; what remains is the
rest of the queue in its old order, starting with the first task that could not be merged. -/
theorem queue_split (t : Task) (f : Option (Task → Bool)) (rest : List Task) :
    t :: rest = t :: merged t f rest ++ (remainder t f rest).tail ∧
    ∀ x, (remainder t f rest).tail.head? = some x → combinable t f x = false := by
  refine ⟨by simp [merged, remainder], ?_⟩
  intro x hx
  simp only [remainder, List.tail_cons] at hx
  have := List.head?_dropWhile_not (combinable t f) rest
  rw [hx] at this
  simpa using this

/-- (c): queues other than the task's own are not touched. -/
theorem other_queues_untouched (qs : QSet) (t : Task) (rest : List Task) (f : Option (Task → Bool))
    (hq : qs.get t.queue = some (t :: rest)) (hm : t.hasMeta = true)
    (nd : ((t :: rest).map (·.id)).Nodup) (n : Nat) (hn : n ≠ t.queue) :
    (combineGo qs (some t.queue) t f id).2.get n = qs.get n := by
  rw [combine_result qs t rest f hq hm nd]
  by_cases he : merged t f rest = []
  · simp [he]
  · simp [he, QSet.get_set_other _ _ _ _ hn]

example : merged { id := 1 } none [{ id := 2 }, { id := 3, typ := 1 }, { id := 4 }] = [{ id := 2 }] := by
  decide

/-! ### C07.5 the exported twin -/

/-- **C07.5 `twin_agrees`**: `CombineBindingContextForHook` (operator.go) computes the same function
as the internal one when the queue set handed to the latter is `op.TaskQueues`. (That the two Go
bodies are the same text is checked by the skeleton tie; that each behaves like this model by the
correspondence runs of both.) -/
theorem twin_agrees (qs : QSet) (passed : Option Nat) (t : Task) (f : Option (Task → Bool))
    (env : QSet → QSet) : combineTwin qs passed t f env = combineGo qs passed t f env := rfl

/-- **C07.5 `twin_result_partial`**: the twin meets the specification under the hypothesis that the
queue passed is the queue named by the task (`hq` looks `t.queue` up). The excluded point — a task
whose `GetQueueName()` names another queue than the one passed — is run on the real code by the
harness (`foreign` cases) and compared with the model line by line. -/
theorem twin_result_partial (qs : QSet) (t : Task) (rest : List Task) (f : Option (Task → Bool))
    (hq : qs.get t.queue = some (t :: rest)) (hm : t.hasMeta = true)
    (nd : ((t :: rest).map (·.id)).Nodup) :
    combineTwin qs (some t.queue) t f id =
      (specOutcome t f rest,
       if merged t f rest = [] then qs else qs.set t.queue (remainder t f rest)) :=
  combine_result qs t rest f hq hm nd

/-- Witness for the excluded point: iterating queue 0 for a task that names queue 1 merges the
contexts of task 2 but leaves task 2 in queue 0 (it would be executed a second time). -/
theorem twin_foreign_queue_witness :
    combineTwin [(0, [{ id := 1, queue := 1 }, { id := 2 }]), (1, [{ id := 3 }])] (some 0)
      { id := 1, queue := 1 } none id
    = (.res [] [], [(0, [{ id := 1, queue := 1 }, { id := 2 }]), (1, [{ id := 3 }])]) := by decide

/-! ### C07.6 no combining for ungrouped Synchronization -/

/-- **C07.6 `no_combine_ungrouped_sync`**: a kubernetes Synchronization task without a group is
executed with its own contexts only and the queue is left alone, whatever follows it. -/
theorem no_combine_ungrouped_sync (stopOf : Task → Option (Task → Bool)) (version : Nat) (qs : QSet)
    (t : Task) (c : Ctx) (cs : List Ctx) (env : QSet → QSet)
    (hb : t.btype = 2) (hc : t.ctxs = c :: cs) (hs : c.typ = 0) (hg : t.group = 0) :
    prepareRun stopOf version qs t env = (some t, env qs) := by
  simp [prepareRun, shouldCombine, hb, hc, hs, hg]

/-- … and every other v1 hook run that is executed does combine (grouped Synchronization, Event,
Schedule, OnStartup): the executed task carries `Spec.contexts`. -/
theorem prepareRun_combines (stopOf : Task → Option (Task → Bool)) (qs : QSet) (t : Task)
    (rest : List Task) (hq : qs.get t.queue = some (t :: rest)) (hm : t.hasMeta = true)
    (nd : ((t :: rest).map (·.id)).Nodup) (hr : shouldRunHook 1 t = true) (hc : shouldCombine t = true)
    (hne : merged t (stopOf t) rest ≠ []) :
    prepareRun stopOf 1 qs t id =
      (some { t with ctxs := contexts t (merged t (stopOf t) rest),
                     mons := if (monitors t (merged t (stopOf t) rest)).length > 0
                             then monitors t (merged t (stopOf t) rest) else t.mons },
       qs.set t.queue (remainder t (stopOf t) rest)) := by
  simp [prepareRun, hr, hc, combine_result qs t rest (stopOf t) hq hm nd, specOutcome, hne]

example : shouldCombine { id := 1, btype := 2, ctxs := [⟨1, 0, 0⟩], group := 0 } = false ∧
    shouldCombine { id := 1, btype := 2, ctxs := [⟨1, 0, 3⟩], group := 3 } = true ∧
    shouldCombine { id := 1, btype := 2, ctxs := [⟨1, 1, 0⟩] } = true := by decide

/-! ### Every attempt: a combined run that fails and is retried

`taskHandleHookRun` writes the combine result back into the head task (`t.UpdateMetadata(hookMeta)`);
the merged tasks are gone from the queue by then. When the hook fails the same task is handled again,
possibly with new tasks behind it. -/

/-- `hookMeta.BindingContext = combineResult.BindingContexts; if len(MonitorIDs) > 0 {…};
t.UpdateMetadata(hookMeta)` — the head task as it stays in the queue; also what the hook is run with. -/
def writeBack (t : Task) : Outcome → Task
  | .res c m => { t with ctxs := c, mons := if m.length > 0 then m else t.mons }
  | _ => t

theorem combinable_writeBack (t : Task) (o : Outcome) (f : Option (Task → Bool)) :
    combinable (writeBack t o) f = combinable t f := by
  cases o <;> rfl

/-- **`retry_receives_all`**: the head task `t` of `t :: rest` was executed combined with a non-empty
run (first attempt), the result was written back, the hook failed; meanwhile the tasks `app` (fresh
ids) were appended. On the next attempt the hook receives the compaction of the concatenation, in
queue order, of the contexts of `t`, of the run merged by the first attempt and of the run merged
now — nothing merged earlier is lost, whether or not there is anything new to merge — and the queue
is the written-back head followed by what the second run leaves. -/
theorem retry_receives_all (qs qs2 : QSet) (t : Task) (rest app : List Task) (f : Option (Task → Bool))
    (hq : qs.get t.queue = some (t :: rest)) (hm : t.hasMeta = true)
    (nd : ((t :: (rest ++ app)).map (·.id)).Nodup)
    (hne : merged t f rest ≠ [])
    (hq2 : qs2.get t.queue =
      some (writeBack t (combineGo qs (some t.queue) t f id).1 :: (rest.dropWhile (combinable t f) ++ app))) :
    let t1 := writeBack t (combineGo qs (some t.queue) t f id).1
    let rest2 := rest.dropWhile (combinable t f) ++ app
    (writeBack t1 (combineGo qs2 (some t.queue) t1 f id).1).ctxs
        = compact (t.ctxs ++ (merged t f rest).flatMap (·.ctxs) ++ (merged t f rest2).flatMap (·.ctxs)) ∧
      (combineGo qs2 (some t.queue) t1 f id).2.get t.queue = some (t1 :: rest2.dropWhile (combinable t f)) := by
  have nd1 : ((t :: rest).map (·.id)).Nodup := by
    refine List.Nodup.sublist ?_ nd
    simp only [List.map_cons, List.map_append]
    exact List.Sublist.cons_cons _ (List.sublist_append_left _ _)
  have h1 := combine_result qs t rest f hq hm nd1
  intro t1 rest2
  have ht1 : t1 = writeBack t (specOutcome t f rest) := by
    show writeBack t (combineGo qs (some t.queue) t f id).1 = _
    rw [h1]
  have hspec : specOutcome t f rest = .res (contexts t (merged t f rest)) (monitors t (merged t f rest)) := by
    simp [specOutcome, hne]
  have hctx : t1.ctxs = compact (t.ctxs ++ (merged t f rest).flatMap (·.ctxs)) := by
    rw [ht1, hspec]; rfl
  have hqn : t1.queue = t.queue := by rw [ht1, hspec]; rfl
  have hid : t1.id = t.id := by rw [ht1, hspec]; rfl
  have hm1 : t1.hasMeta = true := by rw [ht1, hspec]; exact hm
  have hcomb : combinable t1 f = combinable t f := by rw [ht1]; exact combinable_writeBack t _ f
  have hmerged : merged t1 f rest2 = merged t f rest2 := by simp [merged, hcomb]
  have hr2 : rest2 = rest.dropWhile (combinable t f) ++ app := rfl
  have nd2 : ((t1 :: rest2).map (·.id)).Nodup := by
    refine List.Nodup.sublist ?_ nd
    simp only [List.map_cons, List.map_append, hid, hr2]
    exact List.Sublist.cons_cons _ (List.Sublist.append (List.Sublist.map _ (List.dropWhile_sublist _)) (List.Sublist.refl _))
  have hq2' : qs2.get t1.queue = some (t1 :: rest2) := by rw [hqn]; exact hq2
  have h2 := combine_result qs2 t1 rest2 f hq2' hm1 nd2
  rw [hqn] at h2
  rw [h2]
  by_cases he : merged t f rest2 = []
  · have he1 : merged t1 f rest2 = [] := by rw [hmerged]; exact he
    have hdw : rest2.dropWhile (combinable t f) = rest2 := by
      have := List.takeWhile_append_dropWhile (p := combinable t f) (l := rest2)
      simp only [merged] at he
      rw [he] at this
      simpa using this
    simp only [specOutcome, he1, if_true, writeBack, he, List.flatMap_nil, List.append_nil, hctx, hdw]
    exact ⟨trivial, hq2⟩
  · have he1 : merged t1 f rest2 ≠ [] := by rw [hmerged]; exact he
    refine ⟨?_, ?_⟩
    · simp only [specOutcome, hmerged, he, if_false, writeBack, contexts, hctx]
      rw [compact_append_compact]
    · simp only [he1, if_false]
      rw [QSet.get_set_same qs2 t.queue _ _ hq2]
      simp [remainder, hcomb]

example : ∃ (qs qs2 : QSet) (t : Task) (rest app : List Task),
    qs.get t.queue = some (t :: rest) ∧ merged t none rest ≠ [] ∧
    qs2.get t.queue = some (writeBack t (combineGo qs (some t.queue) t none id).1 :: (rest.dropWhile (combinable t none) ++ app)) ∧
    (writeBack (writeBack t (combineGo qs (some t.queue) t none id).1)
      (combineGo qs2 (some t.queue) (writeBack t (combineGo qs (some t.queue) t none id).1) none id).1).ctxs
      = [⟨2, 3, 1⟩, ⟨3, 3, 0⟩, ⟨5, 3, 1⟩] :=
  ⟨[(0, [{ id := 1, ctxs := [⟨1, 3, 1⟩] }, { id := 2, ctxs := [⟨2, 3, 1⟩] }, { id := 3, ctxs := [⟨3, 3, 0⟩] }])],
   [(0, [{ id := 1, ctxs := [⟨2, 3, 1⟩, ⟨3, 3, 0⟩] }, { id := 5, ctxs := [⟨5, 3, 1⟩] }, { id := 6, hook := 1 }])],
   { id := 1, ctxs := [⟨1, 3, 1⟩] },
   [{ id := 2, ctxs := [⟨2, 3, 1⟩] }, { id := 3, ctxs := [⟨3, 3, 0⟩] }],
   [{ id := 5, ctxs := [⟨5, 3, 1⟩] }, { id := 6, hook := 1 }], by decide⟩

/-! ### A run that is not a queue task merges nothing

The admission and conversion handlers run a hook through `taskHandleHookRun` with a task that is in
no queue and names none; the queue pointer is `GetByName` of that name: nil. -/

/-- `taskHandleHookRun`'s call `combineBindingContextForHook(tqs, tqs.GetByName(t.GetQueueName()), t, …)`
for a task whose queue name is no queue of the set: nothing is merged, every queue is left as it is
(whatever the queues hold — tasks of the same hook at their heads included). -/
theorem not_a_queue_task_merges_nothing (qs : QSet) (t : Task) (stop : Option (Task → Bool))
    (env : QSet → QSet) (h : qs.get t.queue = none) :
    combineGo qs ((qs.get t.queue).map fun _ => t.queue) t stop env = (.nil, qs) ∧
    combineTwin qs ((qs.get t.queue).map fun _ => t.queue) t stop env = (.nil, qs) := by
  simp [combineGo, combineTwin, h]

example : QSet.get [(1, [{ id := 5, hook := 1 }, { id := 6, hook := 1 }])]
    ({ id := 9, hook := 1, queue := 0 } : Task).queue = none := by decide

/-- **`webhook_run_takes_nothing`**: the hook run the operator makes for an admission / conversion
request (`webhookRun`: the task the event closure builds, handed to `taskHandleHookRun`) is executed
with exactly the binding contexts of the request, and the run takes no task out of any queue — the
queue set is the one it found, or that set after what other goroutines did to it meanwhile —
whatever the queues hold (tasks of the same hook at their heads included), whatever the hook
version, the stop rule, and whatever `BindingExecutionInfo.QueueName` says. Hypothesis: no queue of
the set is named by the empty string. -/
theorem webhook_run_takes_nothing (stopOf : Task → Option (Task → Bool))
    (version emptyName id hook btype : Nat) (info : ExecInfo) (qs : QSet) (env : QSet → QSet)
    (h : qs.get emptyName = none) :
    (webhookRun stopOf version emptyName id hook btype info qs env).1
        = some (webhookTask emptyName id hook btype info) ∧
    (webhookTask emptyName id hook btype info).ctxs = info.ctxs ∧
    ((webhookRun stopOf version emptyName id hook btype info qs env).2 = qs ∨
     (webhookRun stopOf version emptyName id hook btype info qs env).2 = env qs) := by
  have hq : (webhookTask emptyName id hook btype info).queue = emptyName := rfl
  refine ⟨?_, rfl, ?_⟩ <;>
    (unfold webhookRun prepareRun
     split
     · split
       · simp [combineGo, hq, h]
       · simp
     · simp)

example : (webhookRun (fun _ => none) 1 0 9 1 5 { ctxs := [⟨7, 9, 0⟩], queueName := 1 }
      [(1, [{ id := 5, hook := 1 }, { id := 6, hook := 1 }])] id)
    = (some (webhookTask 0 9 1 5 { ctxs := [⟨7, 9, 0⟩], queueName := 1 }),
       [(1, [{ id := 5, hook := 1 }, { id := 6, hook := 1 }])]) := by decide

/-! ### Tie T4: the compaction loop of the model is the code

`ShellOp.Trans.compactInt` / `compactTwin` are regenerated on every run from the index loop
`for i := 0; i < len(combinedContext); i++ { … combinedContext[i+1] … }` of
`combineBindingContextForHook` (combine_binding_context.go) and of its exported twin
`CombineBindingContextForHook` (operator.go) by `extract/translate.go`. -/

/-- The group-compaction loop as translated from the current source — both copies — computes, for
every list of contexts, what the model's `compactGo` computes (and therefore `Spec.compact`:
`Proofs.Combine.compactGo_eq`). -/
theorem translated_compaction_eq_model (l : List Ctx) :
    ShellOp.Trans.compactInt l = compactGo l ∧ ShellOp.Trans.compactTwin l = compactGo l :=
  ⟨ShellOp.Proofs.TransCombine.compactInt_eq l, ShellOp.Proofs.TransCombine.compactTwin_eq l⟩

example : ShellOp.Trans.compactInt [⟨1, 2, 1⟩, ⟨2, 2, 1⟩, ⟨3, 1, 0⟩, ⟨4, 2, 2⟩, ⟨5, 2, 1⟩]
    = [⟨2, 2, 1⟩, ⟨3, 1, 0⟩, ⟨4, 2, 2⟩, ⟨5, 2, 1⟩] := by decide

end ShellOp.Combine.C07
