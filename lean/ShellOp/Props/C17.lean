import ShellOp.Model.Worker
/-!
# C17 — shutdown stops the queues cleanly
-/
namespace ShellOp.Worker.C17

open ShellOp.Worker

/-- The schedule of the defect: a task fails, the worker sleeps in its back-off inside the wait loop,
shutdown is requested, the `select` takes the ticker branch although `ctx.Done()` is ready as well,
the wait has expired, the head task is returned and handed to the handler. -/
def raceSchedule : List Label :=
  [.newQueue 1 true, .startRead 0 1, .startSpawn 0, .startWrite 0, .deliver [(1, 5)],
   .w 1 0 .step, .w 1 0 .step, .w 1 0 .step, .w 1 0 .step,
   .handlerReturn 1 0 { status := .fail, backoff := 1 },
   .w 1 0 .step, .w 1 0 .step, .w 1 0 .step, .w 1 0 .step,     -- … parked before the select
   .stop,
   .w 1 0 .selTick, .w 1 0 .step, .w 1 0 (.tickStep true), .w 1 0 .step, .w 1 0 .step]

/-- **Witness (unrepaired code).** Without the context re-check in the ticker branch the schedule
above is executable and violates the first clause of C17: queue 1 starts a task after the stop
request although its worker had picked nothing (it was sleeping in the wait loop). -/
theorem unrepaired_starts_task_after_stop :
    ((run { fix := false } init raceSchedule).map fun s => cleanStop 1 s.log) = some false := by
  decide

end ShellOp.Worker.C17
