import ShellOp.Proofs.WorkerC17
import ShellOp.Proofs.HookQueues
import ShellOp.Proofs.ShutdownWait
import ShellOp.Proofs.SetContext
import ShellOp.Generated.Facts
/-!
# C17 — shutdown stops the queues cleanly

Property theorems over `Model/Worker` (worker loop of `task_queue.go`, queue set, consumer, shutdown
sequence of `operator.go`). Quantifier: every schedule — any interleaving of worker steps, handler
returns (any result), deliveries of events and ticks, Start() calls, queue creation — with the stop
request at any position. `fix = true` is the code as repaired (context re-check in the ticker branch
of the wait loop); the witness at the end is about the unrepaired code.
-/
namespace ShellOp.Worker.C17

open ShellOp.Worker

/-- **C17.1 at_most_one_more.** For every schedule and every queue: after the stop request the queue
starts at most one more task, and it starts one only if its worker had already picked it, i.e. had
passed its last context check before the request (`cleanStop`, the predicate the harness evaluates on
the real code's trace). -/
theorem at_most_one_more (cfg : Cfg) (hfix : cfg.fix = true) (ls : List Label) (hs : SingleStarter ls)
    (s : State) (h : run cfg init ls = some s) (q : QName) : cleanStop q s.log = true :=
  (log_facts s (run_inv cfg hfix ls hs init s init_inv h) q).1

/-- **C17.2 on the log.** After the stop request, once a handler of the queue has returned, its worker
only passes `afterHandler` and exits: it never comes back to the top of its loop, to a wait, or to
another task. -/
theorem exits_after_handler (cfg : Cfg) (hfix : cfg.fix = true) (ls : List Label) (hs : SingleStarter ls)
    (s : State) (h : run cfg init ls = some s) (q : QName) : promptExit q s.log = true :=
  (log_facts s (run_inv cfg hfix ls hs init s init_inv h) q).2.1

/-- Number of own steps (the handler's return counted as one) a worker still takes once the context is
cancelled. -/
def dist : Pc → Nat
  | .stopped => 0
  | .returned none => 1
  | .handled _ _ => 1
  | .loopTop _ => 2
  | .running _ => 2
  | .tickRecv _ _ => 2
  | .returned (some _) => 3
  | .waitLoop _ _ => 3
  | .apply _ _ => 3
  | .shortcut => 4
  | .waitGet _ => 4
  | .afterCheck1 _ => 5
  | .ticked _ _ => 5

/-- **C17.2 terminates_after_handler.** Once the stop is requested, from every position of the worker
loop — waiting on an empty queue, sleeping in a back-off, about to take a task, after the handler,
applying a result — every own step brings the worker strictly closer to its exit, whichever branch the
`select` takes; at most 5 own steps remain, 2 of them after the current handler returns. -/
theorem terminates_after_handler (cfg : Cfg) (hfix : cfg.fix = true) (q : QName) (qs qs' : QState)
    (pc pc' : Pc) (a : WAct) (evs : List Ev) (h : wstep cfg true q qs pc a = some (qs', pc', evs)) :
    dist pc' < dist pc ∧ dist pc ≤ 5 := by
  cases pc <;> cases a <;> simp [wstep, hfix] at h
  all_goals (repeat' split at h) <;> (try simp at h) <;> (try (obtain ⟨_, rfl, _⟩ := h)) <;>
    (try (rename_i t; cases t)) <;> simp_all [dist]
  all_goals (cases Queue.getFirst _ <;> simp)

/-- After the stop request a worker that is neither gone nor inside a handler always has an enabled
own step (it cannot get stuck short of its exit). -/
theorem progress_after_stop (cfg : Cfg) (q : QName) (qs : QState) (pc : Pc)
    (h1 : pc ≠ .stopped) (h2 : ∀ t, pc ≠ .running t) :
    ∃ a, (wstep cfg true q qs pc a).isSome = true := by
  cases pc with
  | stopped => exact absurd rfl h1
  | running t => exact absurd rfl (h2 t)
  | waitLoop sl o => exact ⟨.selDone, by simp [wstep]⟩
  | ticked sl o => refine ⟨.tickStep false, ?_⟩; simp only [wstep]; (repeat' split) <;> rfl
  | returned t => cases t <;> exact ⟨.step, by simp [wstep]⟩
  | afterCheck1 sl => refine ⟨.step, ?_⟩; simp only [wstep]; split <;> rfl
  | tickRecv sl o => refine ⟨.step, ?_⟩; simp only [wstep]; split <;> rfl
  | _ => exact ⟨.step, by simp [wstep]⟩

example : dist (.running 7) = 2 ∧ dist (.handled 7 {}) = 1 := ⟨rfl, rfl⟩

/-- **C17.3 no_execution_from_late_events.** Once the worker of a queue has exited, nothing that
happens later — events and ticks delivered by the consumer, further Start() calls, anything — makes
that queue execute a task again. (For a worker that has not exited yet, `at_most_one_more` bounds what
late events can cause: the one task it had picked.) -/
theorem no_execution_from_late_events (cfg : Cfg) (hfix : cfg.fix = true) (ls ls' : List Label)
    (hs : SingleStarter ls) (hs' : SingleStarter ls') (s s' : State)
    (h : run cfg init ls = some s) (h' : run cfg s ls' = some s') (q : QName)
    (hx : exited q s.log = true) : starts q s'.log = starts q s.log := by
  have inv := run_inv cfg hfix ls hs init s init_inv h
  have inv' := run_inv cfg hfix ls' hs' s s' inv h'
  obtain ⟨new, hn⟩ := run_log cfg ls' s s' h'
  have hf := (log_facts s' inv' q).2.2
  rw [hn] at hf ⊢
  exact starts_of_quiet q new s.log (quiet_after_exit q new s.log hf hx)

/-- **C17.3, sources.** After `ScheduleManager.Stop()` has taken effect (its goroutine has stopped the
cron) no schedule tick reaches the consumer; after `PauseHandleEvents()` no cluster event does; after
`TaskQueueSet.Stop()` the context stays cancelled — and none of this is ever undone. -/
theorem sources_stay_stopped (cfg : Cfg) (s s' : State) (l : Label) (h : step cfg s l = some s') :
    (s.cronRunning = false → s'.cronRunning = false ∧ ∀ ts, l ≠ .cronFire ts) ∧
    (s.kubePaused = true → s'.kubePaused = true ∧ ∀ ts, l ≠ .kubeEvent ts) ∧
    (s.cancelled = true → s'.cancelled = true) := by
  cases l <;> simp only [step] at h
  case deliver ts => simp at h; subst h; have := deliverAll_flags s ts; simp_all
  case cronFire ts =>
    split at h <;> simp at h
    subst h; have := deliverAll_flags s ts; simp_all
  case kubeEvent ts =>
    split at h <;> simp at h
    subst h; have := deliverAll_flags s ts; simp_all
  all_goals (repeat' split at h) <;> (try simp at h) <;> (try subst h) <;> simp_all

/-- The shutdown sequence of `operator.go` (`ScheduleManager.Stop`, its goroutine, `PauseHandleEvents`,
`TaskQueueSet.Stop`) leaves every source closed and the context cancelled. -/
theorem shutdown_sequence (cfg : Cfg) (s s' : State)
    (h : run cfg s [.schedStop, .schedStopper, .kubePause, .stop] = some s') :
    s'.cronRunning = false ∧ s'.kubePaused = true ∧ s'.cancelled = true := by
  simp [run, step] at h
  split at h
  · simp at h
  · rename_i s1 hs1
    split at hs1 <;> simp at hs1 <;> subst hs1 <;> simp at h <;> subst h <;> simp_all

/-- **C17, queue status.** In every schedule: when every queue of the set shows Status "stop" — the
condition on which `WaitStopWithTimeout` returns before its timeout — every queue's worker goroutine has
returned (and no queue is without a worker); conversely a worker that has returned shows "stop". -/
theorem waitStop_sound (cfg : Cfg) (hfix : cfg.fix = true) (ls : List Label) (hs : SingleStarter ls)
    (s : State) (h : run cfg init ls = some s) (hall : allStopped s = true)
    (q : QName) (hq : q ∈ s.names) (qs : QState) (hqs : s.qs q = some qs) :
    qs.workers = [.stopped] := by
  have inv := run_inv cfg hfix ls hs init s init_inv h
  have sinv := run_sinv cfg ls init s init_sinv h
  have hst : qs.status = .stop := by
    unfold allStopped at hall
    have := List.all_eq_true.mp hall q hq
    simp [hqs] at this
    exact this
  have hlen := QInv_len _ _ _ _ (inv.queues q qs hqs)
  have hok := sinv.status q qs hqs
  unfold StatusOk at hok
  match hw : qs.workers with
  | [] => rw [hw] at hok; exact absurd hst hok
  | [pc] => rw [hw] at hok; simp at hok; rw [hok.1.mp hst]
  | a :: b :: rest => rw [hw] at hlen; simp at hlen

/-- **C17.3, cluster events (tie T1).** `handleWatchEvent` begins with `if ei.stopped { … return }`: once
`PauseHandleEvents` has set the flag of an informer, its watch events produce nothing (the model's
`kubeEvent` step is disabled while `kubePaused`). -/
theorem watch_events_ignored_after_pause : Facts.c17_watchEventChecksStoppedFirst = true := by decide

/-! ### The stop request reaches every queue of the operator

The theorems above are about `Model/Worker`, which has one cancellation flag for all queues. That
is an assumption about the wiring in operator.go / queue_set.go; `Model/HookQueues` models that code
(bootstrapMainQueue, StartMain, initAndStartHookQueues, NewNamedQueue, Add, WithContext and the tree of
contexts Background ← op.ctx ← tqs.ctx) and the assumption is proved for it. -/

open ShellOp.HookQueues in
/-- **C17, quantifier "no queue / every queue worker".** For every set of hooks — any number of
schedule and kubernetes bindings, any queue names, shared or not — every queue the operator has after
`Start` (main included) is started and its context is cancelled by `TaskQueueSet.Stop()`, the stop
request of `Shutdown()`; and main and every queue a binding names, of either kind, is among them.
So the single `cancelled` flag of the worker model is what every worker of the operator sees. -/
theorem every_operator_queue_hears_stop (sched kube : List (List QName)) :
    (∀ q ∈ operatorQueues sched kube, hearsStop q = true ∧ q.started = true) ∧
    (∀ n, (n = 0 ∨ (∃ h ∈ sched, n ∈ h) ∨ (∃ h ∈ kube, n ∈ h)) →
      ∃ q ∈ operatorQueues sched kube, q.name = n) := by
  unfold operatorQueues initAndStartHookQueues
  obtain ⟨w1, keep1, has1⟩ := hooks_fold sched bootstrap bootstrap_wired
  obtain ⟨w2, keep2, has2⟩ := hooks_fold kube _ w1
  refine ⟨w2, ?_⟩
  rintro n (rfl | ⟨h, hh, hn⟩ | ⟨h, hh, hn⟩)
  · exact keep2 _ (keep1 _ bootstrap_has_main)
  · exact keep2 _ (has1 h hh n hn)
  · exact has2 h hh n hn

open ShellOp.HookQueues in
/-- Non-vacuity: a hook with a schedule binding in queue 1 and a kubernetes binding in queue 2 of its
own, another hook with a kubernetes binding in main: three queues, all started, all hear the stop. -/
example : ((operatorQueues [[1]] [[2], [0]]).map fun q => (q.name, q.started, hearsStop q))
    = [(2, true, true), (1, true, true), (0, true, true)] := by decide

open ShellOp.HookQueues in
/-- **Witness (what the theorem excludes).** `Shutdown()` cancels only `tqs.ctx`: a queue that is built
"in place" on the operator's context and registered with `Add` — for the kubernetes bindings only, the
schedule loop untouched — is in the set, is started, and never hears the stop request; a queue name the
two kinds of bindings share is still wired correctly (the schedule loop comes first), which is why only
a configuration with a queue named by kubernetes bindings alone shows it. -/
theorem queue_on_operator_context_misses_stop :
    let s := [[2], [1]].foldl (fun s h => h.foldl (ensureOn .op) s)
      ([[1]].foldl (fun s h => h.foldl ensure s) bootstrap)
    s.map (fun q => (q.name, q.started, hearsStop q)) = [(2, true, false), (1, true, true), (0, true, true)] := by
  decide

open ShellOp.HookQueues in
/-- Cancellation never goes upwards or sideways: cancelling `tqs.ctx` leaves `op.ctx`, `Background` and
everything derived from them alone, and reaches everything derived from `tqs.ctx`. -/
theorem stop_cancels_exactly_the_descendants_of_the_set_context (c : Ctx) :
    Ctx.cancelledBy .set (.derived c) = Ctx.cancelledBy .set c ∧
    Ctx.cancelledBy .set .op = false ∧ Ctx.cancelledBy .set .background = false ∧
    Ctx.cancelledBy .set .set = true := by
  refine ⟨?_, by decide, by decide, by decide⟩
  simp [Ctx.cancelledBy]

/-! ### The stop request at the very first point of a run, and queues nobody pre-created -/

open ShellOp.SetCtx in
/-- **C17, quantifier "shutdown requested at every point of a run" — the first point included.** For every
sequence of queue-set operations (`NewNamedQueue`, `Start` of a queue, `Stop()`) after `WithContext`, with the
stop request at any position — also before the first queue exists — once `Stop()` has been called the
cancellable context of the set is cancelled and every queue of the set, created before or after the request,
listens to exactly that context: a queue created after the request is born stopped (its worker leaves at its
first context check: `at_most_one_more` / `terminates_after_handler` with `cancelled = true` from the start).
This is what entitles `Model/Worker` to a `stop` label that is enabled in every state. -/
theorem stop_request_is_never_lost (ops : List Op) (h : Op.stop ∈ ops) :
    (SetCtx.run false (SetCtx.init false) ops).cancelled = true ∧
    ∀ q ∈ (SetCtx.run false (SetCtx.init false) ops).qs, hears (SetCtx.run false (SetCtx.init false) ops) q = true := by
  obtain ⟨_, h2, h3⟩ := run_good ops _ init_good
  have hc := h2 (run_requested false ops _ h)
  exact ⟨hc, fun q hq => by simp [hears, h3 q hq, hc]⟩

open ShellOp.SetCtx in
/-- Non-vacuity: the request finds the set empty; main and a hook queue are created and started afterwards —
both have heard it. And a request in the middle. -/
example : heardNames (SetCtx.run false (SetCtx.init false) [.stop, .new 0, .start 0, .new 1, .start 1]) = [1, 0] ∧
    heardNames (SetCtx.run false (SetCtx.init false) [.new 0, .start 0, .stop, .new 1, .start 1]) = [1, 0] := by decide

open ShellOp.SetCtx in
/-- **Witness (what the theorem excludes).** If the cancellable context is derived only when the first queue
needs it, a stop request that finds the set empty is lost (`tqs.cancel` is still nil): the queues created and
started afterwards run for ever. -/
theorem lazily_derived_set_context_loses_an_early_stop :
    let s := SetCtx.run true (SetCtx.init true) [.stop, .new 0, .start 0, .new 1, .start 1]
    s.requested = true ∧ s.cancelled = false ∧ heardNames s = [] ∧ s.qs.all (·.started) = true := by decide

open ShellOp.SetCtx in
/-- … and that is the only order of operations that shows it: from the first queue creation on, the lazy
variant is in the same state as the code for every continuation — why a harness that creates a queue before it
stops anything cannot tell them apart. -/
theorem lazy_variant_differs_only_before_the_first_queue (n : Nat) (ops : List Op) :
    SetCtx.run true (SetCtx.init true) (.new n :: ops) = SetCtx.run false (SetCtx.init false) (.new n :: ops) := by
  show SetCtx.run true (SetCtx.step true (SetCtx.init true) (.new n)) ops = SetCtx.run false (SetCtx.step false (SetCtx.init false) (.new n)) ops
  have : SetCtx.step true (SetCtx.init true) (.new n) = SetCtx.step false (SetCtx.init false) (.new n) := by simp [SetCtx.step, SetCtx.init]
  rw [this]
  exact run_lazy_eq ops _ (by simp [SetCtx.step, SetCtx.init])

open ShellOp.HookQueues in
/-- **Every queue a binding names exists before the first event**, so nothing has to be created on demand:
for every set of hooks and every queue name of a binding (names are compared exactly, as the Go map does —
`slow` and `Slow` are two queues and both are created), a "create if absent" on ANY context in the event
callbacks finds the queue and leaves the set as it is. -/
theorem no_queue_is_left_to_on_demand_creation (sched kube : List (List QName)) (parent : Ctx) (n : QName)
    (hn : n = 0 ∨ (∃ h ∈ sched, n ∈ h) ∨ (∃ h ∈ kube, n ∈ h)) :
    ensureOn parent (operatorQueues sched kube) n = operatorQueues sched kube := by
  have hhas := (every_operator_queue_hears_stop sched kube).2 n hn
  have := (getByName_isSome _ n).mpr hhas
  unfold ensureOn
  cases hg : getByName (operatorQueues sched kube) n with
  | none => simp [hg] at this
  | some q => simp

open ShellOp.HookQueues in
/-- **Witness (what the two theorems exclude together).** The "already created?" bookkeeping of
`initAndStartHookQueues` done under a key that identifies two names (here: modulo 10 — in the code it would be
`strings.ToLower`) skips the second of them; a create-if-absent in the event callbacks, which can only use the
operator's context, then builds it: in the set, started, deaf to `TaskQueueSet.Stop()`. With names that do not
collide under the key both edits are inert. -/
theorem folded_bookkeeping_plus_on_demand_creation_misses_stop :
    let key : QName → Nat := (· % 10)
    let pre := fun (names : List QName) => (names.foldl (fun (acc : QSet × List Nat) n =>
      if acc.2.contains (key n) then acc else (ensure acc.1 n, key n :: acc.2)) (bootstrap, [key 0])).1
    ((ensureOn .op (pre [1, 11]) 11).map fun q => (q.name, q.started, hearsStop q))
      = [(11, true, false), (1, true, true), (0, true, true)] ∧
    ((ensureOn .op (pre [1, 2]) 2).map fun q => (q.name, q.started, hearsStop q))
      = [(2, true, true), (1, true, true), (0, true, true)] := by decide

/-! ### `WaitStopWithTimeout` in every visiting order; `Shutdown()` against a monitor that is starting -/

/-- **C17, the wait of Shutdown(), every visiting order.** The check of `WaitStopWithTimeout` ranges over
the map of queues in an order Go chooses afresh each time. Whatever the order: the check answers "all
stopped" exactly when every queue shows "stop" (it does not depend on which queue is visited first or
last), and in every schedule, when a visit of all queues answers "all stopped" — the only way the wait
ends ahead of its timeout — the worker goroutine of every queue has returned. -/
theorem wait_ends_early_only_when_every_worker_exited (cfg : Cfg) (hfix : cfg.fix = true)
    (ls : List Label) (hs : SingleStarter ls) (s : State) (h : run cfg init ls = some s)
    (order : List QName) (hperm : order.Perm s.names)
    (hret : waitCheck (statusesIn s order) = true)
    (q : QName) (hq : q ∈ s.names) (qs : QState) (hqs : s.qs q = some qs) : qs.workers = [.stopped] :=
  waitStop_sound cfg hfix ls hs s h (allStopped_of_waitCheck s order hperm hret) q hq qs hqs

/-- The check itself is order-independent and is the conjunction over all queues. -/
theorem waitCheck_every_order (l₁ l₂ : List QStatus) (h : l₁.Perm l₂) :
    waitCheck l₁ = waitCheck l₂ ∧ (waitCheck l₁ = true ↔ ∀ st ∈ l₁, st = .stop) :=
  ⟨waitCheck_perm h, waitCheck_true_iff l₁⟩

/-- Non-vacuity: three queues, each of them in turn the busy one, every visiting order of a rotation. -/
example : waitCheck [.run, .stop, .stop] = false ∧ waitCheck [.stop, .run, .stop] = false ∧
    waitCheck [.stop, .stop, .run] = false ∧ waitCheck [.stop, .stop, .stop] = true := by decide

/-- **Witness (what the theorem excludes).** A check that keeps only the status of the queue visited last
(`stopped = q.Status == "stop"` without accumulation) answers "all stopped" while an earlier-visited
queue is in the middle of its handler — and its answer depends on the visiting order. -/
theorem last_one_wins_ends_the_wait_with_a_busy_worker :
    waitCheckLast [.run, .stop] = true ∧ waitCheckLast [.stop, .run] = false ∧
    waitCheck [.run, .stop] = false ∧ waitCheck [.stop, .run] = false := by decide

open Lk in
/-- **C17, the stop request gets through while a monitor is starting.** `Shutdown()` reaches
`TaskQueues.Stop()` only after `KubeEventsManager.PauseHandleEvents()`, which needs the read lock of the
monitor index. In the code (`StartMonitor`: RLock, look-up, RUnlock, then `monitor.Start`) this never
depends on the API server: in every reachable state — the handler thread anywhere inside
`StartMonitor`, the API server having answered or not — once shutdown is requested the Shutdown()
thread's next step is enabled and brings it closer to the cancellation of the queues' context (at most
4 own steps). -/
theorem shutdown_request_reaches_queues_whatever_the_api_does (ls : List Lk.Label) (s : Lk.St)
    (h : Lk.run false {} ls = some s) (hreq : s.sd ≠ .idle) (hnc : s.sd ≠ .cancelled) :
    ∃ l s', sdNext s.sd = some l ∧ Lk.step false s l = some s' ∧ sdDist s'.sd < sdDist s.sd ∧ sdDist s.sd ≤ 4 := by
  have hw := run_code_writer ls {} s h rfl
  obtain ⟨sm, sd, readers, writer, smHolds, api⟩ := s
  simp at hw; subst hw
  cases sd <;> simp_all [sdNext, Lk.step, sdDist]

open Lk in
/-- Non-vacuity: the handler thread is inside `monitor.Start`, the API server silent; shutdown is
requested and runs to the cancellation. -/
example : ((Lk.run false {} [.smLock, .smUnlock, .smStart, .sdRequest, .sdSchedStop, .sdPauseLock,
    .sdPauseUnlock, .sdCancel]).map fun s => (s.sm, s.sd, s.apiAnswered)) = some (.starting, .cancelled, false) := by
  decide

open Lk in
/-- **Witness (what the theorem excludes).** If `StartMonitor` keeps the (write) lock over
`monitor.Start`, a shutdown requested while the monitor waits for the API server stands before
`PauseHandleEvents` and stays there — no step of any thread changes that — until the API server
answers: `TaskQueues.Stop()` is not reached, the queues keep executing. -/
theorem lock_held_over_monitor_start_blocks_shutdown (ls : List Lk.Label) (hl : ∀ l ∈ ls, l ≠ .apiAnswer)
    (s0 s : Lk.St) (h0 : Lk.run true {} [.smLock, .smStart, .sdRequest, .sdSchedStop] = some s0)
    (h : Lk.run true s0 ls = some s) : s.sd = .schedStopped ∧ Lk.step true s .sdPauseLock = none := by
  have hs0 : Stuck s0 := by
    simp [Lk.run, Lk.step] at h0; subst h0; simp [Stuck]
  have hs := run_stuck ls s0 s hl h hs0
  obtain ⟨_, h2, _, h4⟩ := hs
  exact ⟨h4, by simp [Lk.step, h2, h4]⟩

/-! ### Non-vacuity and witnesses -/

/-- The schedule of the defect: a task fails, the worker sleeps in its back-off inside the wait loop,
shutdown is requested, the `select` takes the ticker branch although `ctx.Done()` is ready as well,
the wait has expired, the head task is returned and handed to the handler. -/
def raceSchedule : List Label :=
  [.newQueue 1 true, .startRead 0 1, .startSpawn 0 1, .startWrite 0 1, .deliver [(1, 5)],
   .w 1 0 .step, .w 1 0 .step, .w 1 0 .step, .w 1 0 .step,
   .handlerReturn 1 0 { status := .fail, backoff := 1 },
   .w 1 0 .step, .w 1 0 .step, .w 1 0 .step, .w 1 0 .step,     -- … parked before the select
   .stop,
   .w 1 0 .selTick, .w 1 0 .step, .w 1 0 (.tickStep true), .w 1 0 .step, .w 1 0 .step]

/-- **Witness (unrepaired code).** Without the context re-check in the ticker branch the schedule
above is executable and violates the first clause of C17: queue 1 starts a task after the stop
request although its worker had picked nothing (it was sleeping in the wait loop). -/
theorem unrepaired_starts_task_after_stop :
    ((run { fix := false } init raceSchedule).map fun s => cleanStop 1 s.log) = some false := by
  decide

/-- The repaired code stops on the same schedule prefix: after the ticker branch the re-check sees
the cancelled context, the worker exits, the log is clean. -/
example :
    ((run { fix := true } init (raceSchedule.take 17 ++ [.w 1 0 .step])).map fun s =>
      (cleanStop 1 s.log, exited 1 s.log, startsAfterStop 1 s.log)) = some (true, true, 0) := by
  decide

/-- **Witness (unrepaired code), termination.** Without the re-check a worker waiting on an empty queue
can take the ticker branch again and again after the stop request and come back to the same position:
its exit is not bounded. -/
theorem unrepaired_wait_loop_can_spin :
    (wstep { fix := false } true 1 {} (.waitLoop 0 .idle) .selTick).map (·.2.1) = some (.tickRecv 0 .idle) ∧
    (wstep { fix := false } true 1 {} (.tickRecv 0 .idle) .step).map (·.2.1) = some (.ticked 0 .idle) ∧
    (wstep { fix := false } true 1 {} (.ticked 0 .idle) (.tickStep false)).map (·.2.1) = some (.waitLoop 0 .idle) := by
  decide

/-- The bound of `at_most_one_more` is attained: the stop request finds the worker past its first
context check, heading for the head task; it runs that one task and exits. -/
example :
    ((run {} init [.newQueue 1 true, .startRead 0 1, .startSpawn 0 1, .startWrite 0 1, .deliver [(1, 5), (1, 6)],
      .w 1 0 .step, .stop, .deliver [(1, 7)], .w 1 0 .step, .w 1 0 .step, .w 1 0 .step,
      .handlerReturn 1 0 {}, .w 1 0 .step]).map fun s =>
      (startsAfterStop 1 s.log, cleanStop 1 s.log, promptExit 1 s.log, exited 1 s.log))
      = some (1, true, true, true) := by
  decide

end ShellOp.Worker.C17
