import ShellOp.Proofs.Schedule
/-!
# C11 — schedules: one task per binding per tick; crontabs are reference-counted

Property theorems over `Model/Schedule` (the code-shaped model of `scheduleManager.Add/Remove`,
`scheduleBindingsController`, `HandleScheduleEvent`, the operator's schedule callback and the placement
loop) and the specification `Spec` (the set of registered (crontab, id) pairs; one task per enabled
binding). Quantifiers: every finite history of add/remove of (crontab, id) pairs (repeats, unknown pairs,
unparsable crontabs included); every configuration of hooks (sharing or not sharing crontabs and queues),
every history of whole-hook enable/disable, every Go map iteration order.
-/
namespace ShellOp.Schedule.C11

open ShellOp.Schedule

/-- **C11.1 (reference counting)** After every history of `Add`/`Remove` calls the number of live cron
registrations of a crontab is 1 if the crontab parses and some id is registered for it, else 0. -/
theorem refcount (valid : Crontab → Bool) (ops : List Op) (c : Crontab) :
    liveCount (run valid ops) c = Spec.wantLive valid (Spec.registered ops) c :=
  liveCount_of_good valid _ _ (good_run valid ops) c

/-- **C11.1** Registering the same crontab any number of times never produces duplicate firings. -/
theorem never_duplicate (valid : Crontab → Bool) (ops : List Op) (c : Crontab) :
    liveCount (run valid ops) c ≤ 1 := by
  rw [refcount]; unfold Spec.wantLive; split <;> omega

/-- **C11.1** A (parsable) crontab keeps firing exactly while at least one binding is registered for it. -/
theorem fires_iff_registered (valid : Crontab → Bool) (ops : List Op) (c : Crontab) (hv : valid c = true) :
    liveCount (run valid ops) c = 1 ↔ ∃ id, (c, id) ∈ Spec.registered ops := by
  rw [refcount, ← Spec.hasBinding_iff]
  unfold Spec.wantLive
  cases h : Spec.hasBinding (Spec.registered ops) c <;> simp [hv]

/-- **C11.1** It stops when the last one is removed (and an unparsable crontab never fires). -/
theorem stops_iff_none (valid : Crontab → Bool) (ops : List Op) (c : Crontab)
    (h : ¬ ∃ id, (c, id) ∈ Spec.registered ops) : liveCount (run valid ops) c = 0 := by
  rw [refcount]
  have : Spec.hasBinding (Spec.registered ops) c = false := by
    cases h' : Spec.hasBinding (Spec.registered ops) c with
    | false => rfl
    | true => exact absurd ((Spec.hasBinding_iff _ _).1 h') h
  simp [Spec.wantLive, this]

/-- The specification is the ordinary set: the last add/remove of a pair decides. -/
theorem registered_snoc_add (ops : List Op) (c : Crontab) (id : Id) :
    (c, id) ∈ Spec.registered (ops ++ [.add c id]) := by
  simp only [Spec.registered, List.foldl_append, List.foldl_cons, List.foldl_nil]
  rw [Spec.mem_step_add]; exact Or.inr rfl

theorem registered_snoc_remove (ops : List Op) (c : Crontab) (id : Id) :
    (c, id) ∉ Spec.registered (ops ++ [.remove c id]) := by
  simp only [Spec.registered, List.foldl_append, List.foldl_cons, List.foldl_nil]
  rw [Spec.mem_step_remove]; exact fun h => h.2 rfl

theorem registered_snoc_other (ops : List Op) (op : Op) (p : Crontab × Id)
    (h : op ≠ .add p.1 p.2 ∧ op ≠ .remove p.1 p.2) :
    p ∈ Spec.registered (ops ++ [op]) ↔ p ∈ Spec.registered ops := by
  simp only [Spec.registered, List.foldl_append, List.foldl_cons, List.foldl_nil]
  cases op with
  | add c id =>
    rw [Spec.mem_step_add]
    constructor
    · rintro (h' | rfl)
      · exact h'
      · exact absurd rfl h.1
    · exact Or.inl
  | remove c id =>
    rw [Spec.mem_step_remove]
    constructor
    · exact fun h' => h'.1
    · intro h'; refine ⟨h', ?_⟩
      rintro rfl; exact h.2 rfl

/-- Non-vacuity: repeats, an unknown pair, an unparsable crontab (3) added between valid ones, the same
id added twice and removed once. -/
example :
    let s := run (fun c => c != 3) [.add 1 10, .add 1 10, .add 3 10, .add 2 11, .remove 9 9, .add 1 12,
      .remove 1 10, .remove 3 10, .add 2 11, .remove 2 11]
    firing s = [1] ∧ liveCount s 1 = 1 ∧ liveCount s 2 = 0 ∧ liveCount s 3 = 0 := by decide

/-- **C11.2 (fan-out of one event, controller)** For every link map and every iteration order
`HandleEvent c` returns exactly one info per link with crontab `c` — a permutation of them — and none
for links with another crontab. -/
theorem tick_fanout (ord : Links → Links) (hord : ∀ l, (ord l).Perm l) (l : Links) (c : Crontab) :
    (handleEvent ord l c).Perm ((l.filter (fun p => p.2.crontab == c)).map (fun p => p.2.info)) :=
  handleEvent_perm ord hord l c

/-- **C11.2** Each info / task carries that binding's name, group, allowFailure, snapshot list and
queue (in the task metadata and in the binding context). -/
theorem task_carries_binding (h : Nat) (b : Binding) :
    Info.task h b.link.info = Spec.bindingTask h b ∧
    (Spec.bindingTask h b).binding = b.name ∧ (Spec.bindingTask h b).group = b.group ∧
    (Spec.bindingTask h b).allowFailure = b.allowFailure ∧ (Spec.bindingTask h b).ctxIncludes = b.includes ∧
    (Spec.bindingTask h b).ctxBinding = b.name ∧ (Spec.bindingTask h b).ctxGroup = b.group ∧
    (Spec.bindingTask h b).queue = b.queue := ⟨rfl, rfl, rfl, rfl, rfl, rfl, rfl, rfl⟩

/-- **C11.2 (end to end)** For every configuration of hooks (binding ids unique, as the generated
uuids are), every history of whole-hook enable/disable, every map iteration order and every parsable
crontab: the tasks produced by one wall-clock tick of the crontab — over *all* live cron registrations of
it — are a permutation of exactly one task per enabled schedule binding with that crontab, and nothing
else. -/
theorem tick_one_task_per_enabled_binding (valid : Crontab → Bool) (cfg : Nat → List Binding)
    (hooks : List Nat) (ord : Links → Links) (hord : ∀ l, (ord l).Perm l)
    (hnd : ∀ h, ((cfg h).map (·.id)).Nodup)
    (huniq : ∀ h h' b b', b ∈ cfg h → b' ∈ cfg h' → b.id = b'.id → h = h')
    (ops : List SysOp) (c : Crontab) (hv : valid c = true) :
    (tickTasks ord hooks (sysRun valid cfg ops) c).Perm
      (Spec.wantTasks cfg hooks (Spec.enabledAfter ops) c) := by
  obtain ⟨⟨r, gr, hr⟩, hl⟩ := sysGood_run valid cfg hnd huniq ops
  -- one event turned into tasks = the specification's list
  have hone : (scheduleTasks ord hooks (sysRun valid cfg ops).links c).Perm
      (Spec.wantTasks cfg hooks (Spec.enabledAfter ops) c) := by
    refine (scheduleTasks_perm ord hord hooks _ c).trans ?_
    unfold Spec.wantTasks
    apply perm_flatMap_left
    intro h _
    rw [hl h]
    cases he : Spec.enabledAfter ops h with
    | true =>
      simp only [if_true, List.filter_map, List.map_map]
      exact List.Perm.refl _
    | false => simp
  have hcount := liveCount_of_good valid _ _ gr c
  unfold tickTasks
  cases hb : Spec.hasBinding r c with
  | true =>
    have h1 : ((firing (sysRun valid cfg ops).sm).filter (fun c' => c' == c)) = [c] := by
      have hlen : ((firing (sysRun valid cfg ops).sm).filter (fun c' => c' == c)).length = 1 := by
        have : liveCount (sysRun valid cfg ops).sm c = 1 := by
          rw [hcount]; simp [Spec.wantLive, hv, hb]
        rw [← this]; simp [liveCount, firing, List.filter_map, Function.comp_def]
      match hf : (firing (sysRun valid cfg ops).sm).filter (fun c' => c' == c), hlen with
      | [x], _ =>
        have : x ∈ (firing (sysRun valid cfg ops).sm).filter (fun c' => c' == c) := by simp [hf]
        simp only [List.mem_filter, beq_iff_eq] at this
        rw [this.2]
    rw [h1]
    simpa using hone
  | false =>
    have h0 : ((firing (sysRun valid cfg ops).sm).filter (fun c' => c' == c)) = [] := by
      have : liveCount (sysRun valid cfg ops).sm c = 0 := by
        rw [hcount]; simp [Spec.wantLive, hb]
      apply List.eq_nil_of_length_eq_zero
      rw [← this]; simp [liveCount, firing, List.filter_map, Function.comp_def]
    rw [h0]
    simp only [List.flatMap_nil, List.nil_perm]
    unfold Spec.wantTasks
    rw [List.flatMap_eq_nil_iff]
    intro h _
    cases he : Spec.enabledAfter ops h with
    | false => simp
    | true =>
      simp only [if_true, List.map_eq_nil_iff, List.filter_eq_nil_iff, beq_iff_eq]
      intro b hbm hbc
      have : (c, b.id) ∈ r := (hr _).2 ⟨h, he, b, hbm, by simp [hbc]⟩
      have := (Spec.hasBinding_iff r c).2 ⟨_, this⟩
      simp [hb] at this

/-- **C11.2** In particular every enabled binding with that crontab gets its task, and no task is
produced for a binding with another crontab or a hook that is not enabled. -/
theorem tick_task_iff (valid : Crontab → Bool) (cfg : Nat → List Binding)
    (hooks : List Nat) (ord : Links → Links) (hord : ∀ l, (ord l).Perm l)
    (hnd : ∀ h, ((cfg h).map (·.id)).Nodup)
    (huniq : ∀ h h' b b', b ∈ cfg h → b' ∈ cfg h' → b.id = b'.id → h = h')
    (ops : List SysOp) (c : Crontab) (hv : valid c = true) (t : Task) :
    t ∈ tickTasks ord hooks (sysRun valid cfg ops) c ↔
      ∃ h ∈ hooks, Spec.enabledAfter ops h = true ∧ ∃ b ∈ cfg h, b.crontab = c ∧ t = Spec.bindingTask h b := by
  rw [(tick_one_task_per_enabled_binding valid cfg hooks ord hord hnd huniq ops c hv).mem_iff]
  simp only [Spec.wantTasks, List.mem_flatMap]
  constructor
  · rintro ⟨h, hh, hm⟩
    cases he : Spec.enabledAfter ops h with
    | false => simp [he] at hm
    | true =>
      simp only [he, if_true, List.mem_map, List.mem_filter, beq_iff_eq] at hm
      obtain ⟨b, ⟨hb, hc⟩, rfl⟩ := hm
      exact ⟨h, hh, he, b, hb, hc, rfl⟩
  · rintro ⟨h, hh, he, b, hb, hc, rfl⟩
    refine ⟨h, hh, ?_⟩
    simp only [he, if_true, List.mem_map, List.mem_filter, beq_iff_eq]
    exact ⟨b, ⟨hb, hc⟩, rfl⟩

/-- **C11.2 (one event)** One firing of a crontab is one event through `ScheduleCh`: whatever the cron
registrations are, the tasks the operator's callback creates for the event `c` are a permutation of exactly
one task per enabled schedule binding whose crontab is `c` (the string the job sent — compared with `==`,
nothing is normalised). -/
theorem event_one_task_per_enabled_binding (valid : Crontab → Bool) (cfg : Nat → List Binding)
    (hooks : List Nat) (ord : Links → Links) (hord : ∀ l, (ord l).Perm l)
    (hnd : ∀ h, ((cfg h).map (·.id)).Nodup)
    (huniq : ∀ h h' b b', b ∈ cfg h → b' ∈ cfg h' → b.id = b'.id → h = h')
    (ops : List SysOp) (c : Crontab) :
    (scheduleTasks ord hooks (sysRun valid cfg ops).links c).Perm
      (Spec.wantTasks cfg hooks (Spec.enabledAfter ops) c) := by
  obtain ⟨_, hl⟩ := sysGood_run valid cfg hnd huniq ops
  refine (scheduleTasks_perm ord hord hooks _ c).trans ?_
  unfold Spec.wantTasks
  apply perm_flatMap_left
  intro h _
  rw [hl h]
  cases he : Spec.enabledAfter ops h with
  | true =>
    simp only [if_true, List.filter_map, List.map_map]
    exact List.Perm.refl _
  | false => simp

/-- **C11.2 (crontabs due at the same instant)** When several crontabs `cs` are due at one wall-clock
instant — different spellings of one schedule (`7 3 1 1 *`, `7  3 1 1 *`, `0 7 3 1 JAN ?` are three
crontabs for the manager), or schedules that coincide — all their live registrations fire; the tasks of
that instant are a permutation of exactly one task per enabled binding per listed crontab it has: each
binding is triggered by its own spelling only, never by a sibling spelling. -/
theorem simultaneous_ticks_one_task_per_enabled_binding (valid : Crontab → Bool) (cfg : Nat → List Binding)
    (hooks : List Nat) (ord : Links → Links) (hord : ∀ l, (ord l).Perm l)
    (hnd : ∀ h, ((cfg h).map (·.id)).Nodup)
    (huniq : ∀ h h' b b', b ∈ cfg h → b' ∈ cfg h' → b.id = b'.id → h = h')
    (ops : List SysOp) (cs : List Crontab) (hv : ∀ c ∈ cs, valid c = true) :
    (cs.flatMap (tickTasks ord hooks (sysRun valid cfg ops))).Perm
      (cs.flatMap (Spec.wantTasks cfg hooks (Spec.enabledAfter ops))) :=
  perm_flatMap_left cs _ _
    (fun c hc => tick_one_task_per_enabled_binding valid cfg hooks ord hord hnd huniq ops c (hv c hc))

/-- … so a task is produced at that instant iff it is the task of an enabled binding whose crontab is one
of the crontabs due. -/
theorem simultaneous_ticks_task_iff (valid : Crontab → Bool) (cfg : Nat → List Binding)
    (hooks : List Nat) (ord : Links → Links) (hord : ∀ l, (ord l).Perm l)
    (hnd : ∀ h, ((cfg h).map (·.id)).Nodup)
    (huniq : ∀ h h' b b', b ∈ cfg h → b' ∈ cfg h' → b.id = b'.id → h = h')
    (ops : List SysOp) (cs : List Crontab) (hv : ∀ c ∈ cs, valid c = true) (t : Task) :
    t ∈ cs.flatMap (tickTasks ord hooks (sysRun valid cfg ops)) ↔
      ∃ h ∈ hooks, Spec.enabledAfter ops h = true ∧ ∃ b ∈ cfg h, b.crontab ∈ cs ∧ t = Spec.bindingTask h b := by
  simp only [List.mem_flatMap]
  constructor
  · rintro ⟨c, hc, ht⟩
    obtain ⟨h, hh, he, b, hb, hbc, rfl⟩ :=
      (tick_task_iff valid cfg hooks ord hord hnd huniq ops c (hv c hc) t).1 ht
    exact ⟨h, hh, he, b, hb, hbc ▸ hc, rfl⟩
  · rintro ⟨h, hh, he, b, hb, hbc, rfl⟩
    exact ⟨b.crontab, hbc,
      (tick_task_iff valid cfg hooks ord hord hnd huniq ops b.crontab (hv _ hbc) _).2 ⟨h, hh, he, b, hb, rfl, rfl⟩⟩

/-- Non-vacuity: crontabs 1 and 3 are two spellings of one schedule used by two hooks, crontab 2 is
another schedule; at the instant 1 and 3 are due each binding gets its one task from its own spelling. -/
example :
    let cfg : Nat → List Binding := fun h =>
      if h = 0 then [⟨100, 1, 3, [], false, 7, 0⟩, ⟨101, 2, 2, [], true, 8, 0⟩]
      else if h = 1 then [⟨102, 4, 1, [5], false, 7, 6⟩] else []
    let s := sysRun (fun _ => true) cfg [.enable 0, .enable 1]
    firing s.sm = [3, 2, 1] ∧
    [1, 3].flatMap (tickTasks id [0, 1] s) =
      [Spec.bindingTask 1 ⟨102, 4, 1, [5], false, 7, 6⟩, Spec.bindingTask 0 ⟨100, 1, 3, [], false, 7, 0⟩] := by
  decide

/-- `EnableScheduleBindings` with the link's crontab passed through some rewriting `norm` (the manager
still being given the crontab as configured) — NOT the code; the variant the next theorem is about. -/
def enableLoopNorm (norm : Crontab → Crontab) (valid : Crontab → Bool) (sm : State) (l : Links) :
    List Binding → State × Links
  | [] => (sm, l)
  | b :: bs => enableLoopNorm norm valid (add valid sm b.crontab b.id)
      (linkPut l b.id { b.link with crontab := norm b.crontab }) bs

/-- Witness: the link must hold the crontab exactly as it is handed to the manager. For EVERY rewriting
`norm` and every crontab it changes (say, one written with two blanks, "normalised" to one), a hook whose
only binding has that crontab is registered, its crontab fires, and the firing produces no task — and
with `norm = id` the variant is the code (`enableLoop`). -/
theorem normalised_link_witness (norm : Crontab → Crontab) (c : Crontab) (hne : norm c ≠ c) :
    let b : Binding := ⟨100, 1, c, [], false, 7, 0⟩
    let r := enableLoopNorm norm (fun _ => true) {} [] [b]
    firing r.1 = [c] ∧ scheduleTasks id [0] (fun _ => r.2) c = [] ∧
    Spec.wantTasks (fun _ => [b]) [0] (fun _ => true) c = [Spec.bindingTask 0 b] := by
  refine ⟨?_, ?_, ?_⟩
  · simp [enableLoopNorm, add, firing, Cron.addFunc, setInsert]
  · simp [enableLoopNorm, scheduleTasks, canHandle, linkPut, Binding.link, hne]
  · simp [Spec.wantTasks]

theorem enableLoopNorm_id (valid : Crontab → Bool) (sm : State) (l : Links) (bs : List Binding) :
    enableLoopNorm id valid sm l bs = enableLoop valid sm l bs := by
  induction bs generalizing sm l with
  | nil => rfl
  | cons b bs ih => simp only [enableLoopNorm, enableLoop, id]; exact ih _ _

/-- **C11.2 (placement)** Every task is appended to the queue named by its binding's queue, in order,
and to no other queue. -/
theorem placed_in_binding_queue (queues : List (Nat × List Task)) (ts : List Task) :
    place queues ts = queues.map (fun q => (q.1, q.2 ++ ts.filter (fun t => q.1 == t.queue))) :=
  place_eq queues ts

/-- **C11.3 (enable / disable)** Live cron registrations after any enable/disable history: one for a
parsable crontab iff an enabled binding has it. -/
theorem live_iff_enabled_binding (valid : Crontab → Bool) (cfg : Nat → List Binding)
    (hnd : ∀ h, ((cfg h).map (·.id)).Nodup)
    (huniq : ∀ h h' b b', b ∈ cfg h → b' ∈ cfg h' → b.id = b'.id → h = h')
    (ops : List SysOp) (c : Crontab) :
    (valid c = true → (∃ h, Spec.enabledAfter ops h = true ∧ ∃ b ∈ cfg h, b.crontab = c) →
      liveCount (sysRun valid cfg ops).sm c = 1) ∧
    ((¬ ∃ h, Spec.enabledAfter ops h = true ∧ ∃ b ∈ cfg h, b.crontab = c) →
      liveCount (sysRun valid cfg ops).sm c = 0) := by
  obtain ⟨⟨r, gr, hr⟩, _⟩ := sysGood_run valid cfg hnd huniq ops
  rw [liveCount_of_good valid _ _ gr c]
  constructor
  · rintro hv ⟨h, he, b, hb, rfl⟩
    have := (Spec.hasBinding_iff r b.crontab).2 ⟨b.id, (hr _).2 ⟨h, he, b, hb, rfl⟩⟩
    simp [Spec.wantLive, hv, this]
  · intro hno
    have : Spec.hasBinding r c = false := by
      cases h' : Spec.hasBinding r c with
      | false => rfl
      | true =>
        obtain ⟨id, hm⟩ := (Spec.hasBinding_iff _ _).1 h'
        obtain ⟨h, he, b, hb, hp⟩ := (hr _).1 hm
        simp only [Prod.mk.injEq] at hp
        exact absurd ⟨h, he, b, hb, hp.1⟩ hno
    simp [Spec.wantLive, this]

/-- **C11.3** The link map of a hook holds exactly its bindings while it is enabled and is empty
otherwise (so `Enable` twice = once, `Enable; Disable` = nothing). -/
theorem links_iff_enabled (valid : Crontab → Bool) (cfg : Nat → List Binding)
    (hnd : ∀ h, ((cfg h).map (·.id)).Nodup)
    (huniq : ∀ h h' b b', b ∈ cfg h → b' ∈ cfg h' → b.id = b'.id → h = h')
    (ops : List SysOp) (h : Nat) :
    (sysRun valid cfg ops).links h = if Spec.enabledAfter ops h then (cfg h).map pair else [] :=
  (sysGood_run valid cfg hnd huniq ops).links h

/-- **C11.3** `EnableScheduleBindings` followed by `DisableScheduleBindings` of a hook that was not
enabled is the identity on cron registrations and links. -/
theorem enable_disable (valid : Crontab → Bool) (cfg : Nat → List Binding)
    (hnd : ∀ h, ((cfg h).map (·.id)).Nodup)
    (huniq : ∀ h h' b b', b ∈ cfg h → b' ∈ cfg h' → b.id = b'.id → h = h')
    (ops : List SysOp) (h : Nat) (hoff : Spec.enabledAfter ops h = false) (c : Crontab) (h' : Nat) :
    liveCount (sysRun valid cfg (ops ++ [.enable h, .disable h])).sm c = liveCount (sysRun valid cfg ops).sm c ∧
    (sysRun valid cfg (ops ++ [.enable h, .disable h])).links h' = (sysRun valid cfg ops).links h' := by
  have hen : Spec.enabledAfter (ops ++ [.enable h, .disable h]) = Spec.enabledAfter ops := by
    funext x
    simp only [Spec.enabledAfter, List.foldl_append, List.foldl_cons, List.foldl_nil, Spec.enStep]
    by_cases hx : x = h
    · subst hx; simp only [if_true]; exact hoff.symm
    · simp [hx]
  refine ⟨?_, ?_⟩
  · have a := live_iff_enabled_binding valid cfg hnd huniq (ops ++ [.enable h, .disable h]) c
    have b := live_iff_enabled_binding valid cfg hnd huniq ops c
    rw [hen] at a
    by_cases hex : ∃ h, Spec.enabledAfter ops h = true ∧ ∃ b ∈ cfg h, b.crontab = c
    · cases hv : valid c with
      | true => rw [a.1 hv hex, b.1 hv hex]
      | false =>
        -- an unparsable crontab never has a live registration
        obtain ⟨⟨r1, g1, _⟩, _⟩ := sysGood_run valid cfg hnd huniq (ops ++ [.enable h, .disable h])
        obtain ⟨⟨r2, g2, _⟩, _⟩ := sysGood_run valid cfg hnd huniq ops
        rw [liveCount_of_good valid _ _ g1 c, liveCount_of_good valid _ _ g2 c]
        simp [Spec.wantLive, hv]
    · rw [a.2 hex, b.2 hex]
  · rw [links_iff_enabled valid cfg hnd huniq, links_iff_enabled valid cfg hnd huniq, hen]

/-- Non-vacuity: two hooks sharing crontab 1 and queue 7, a third on another crontab; hook 0 is enabled
twice, hook 1 enabled and disabled; map order reversed. -/
example :
    let cfg : Nat → List Binding := fun h =>
      if h = 0 then [⟨100, 1, 1, [5], true, 7, 0⟩, ⟨101, 2, 2, [], false, 8, 3⟩]
      else if h = 1 then [⟨102, 1, 1, [], false, 7, 0⟩] else if h = 2 then [⟨103, 4, 1, [6], false, 9, 2⟩] else []
    let s := sysRun (fun _ => true) cfg [.enable 0, .enable 1, .enable 0, .disable 1, .enable 2]
    firing s.sm = [1, 2] ∧
    tickTasks List.reverse [0, 1, 2] s 1 =
      [Spec.bindingTask 0 ⟨100, 1, 1, [5], true, 7, 0⟩, Spec.bindingTask 2 ⟨103, 4, 1, [6], false, 9, 2⟩] := by
  decide

/-- No two live cron registrations send the same crontab string, after any enable/disable history. -/
theorem firing_nodup (valid : Crontab → Bool) (cfg : Nat → List Binding)
    (hnd : ∀ h, ((cfg h).map (·.id)).Nodup)
    (huniq : ∀ h h' b b', b ∈ cfg h → b' ∈ cfg h' → b.id = b'.id → h = h')
    (ops : List SysOp) : (firing (sysRun valid cfg ops).sm).Nodup := by
  obtain ⟨⟨r, gr, _⟩, _⟩ := sysGood_run valid cfg hnd huniq ops
  rw [List.nodup_iff_count]
  intro c
  have h := liveCount_of_good valid _ _ gr c
  have h2 : List.count c (firing (sysRun valid cfg ops).sm) = liveCount (sysRun valid cfg ops).sm c := by
    simp [liveCount, firing, List.count_eq_length_filter, List.filter_map, Function.comp_def]
  rw [h2, h]; unfold Spec.wantLive; split <;> omega

/-- **C11.2 (wall clock, any spelling)** Let `sched` be any reading of crontab strings as schedules (the
cron parser's). At an instant at which schedule `σ` is due every live registration whose string parses to
`σ` fires. The tasks of that instant are — over the pairwise distinct crontab strings `due` that spell `σ`
and have an enabled binding, each fired exactly once — a permutation of one task per enabled binding with
that string: every enabled binding whose crontab means `σ`, however it is spelled, gets exactly one task,
from the firing of its own spelling. -/
theorem wallclock_tick_one_task_per_enabled_binding (sched : Crontab → Nat) (valid : Crontab → Bool)
    (cfg : Nat → List Binding)
    (hooks : List Nat) (ord : Links → Links) (hord : ∀ l, (ord l).Perm l)
    (hnd : ∀ h, ((cfg h).map (·.id)).Nodup)
    (huniq : ∀ h h' b b', b ∈ cfg h → b' ∈ cfg h' → b.id = b'.id → h = h')
    (hv : ∀ h, ∀ b ∈ cfg h, valid b.crontab = true)
    (ops : List SysOp) (σ : Nat) :
    ∃ due : List Crontab, due.Nodup ∧
      (∀ c, c ∈ due ↔ sched c = σ ∧ ∃ h, Spec.enabledAfter ops h = true ∧ ∃ b ∈ cfg h, b.crontab = c) ∧
      (wallTickTasks sched ord hooks (sysRun valid cfg ops) σ).Perm
        (due.flatMap (Spec.wantTasks cfg hooks (Spec.enabledAfter ops))) := by
  refine ⟨(firing (sysRun valid cfg ops).sm).filter (fun c' => sched c' == σ), ?_, ?_, ?_⟩
  · exact (firing_nodup valid cfg hnd huniq ops).filter _
  · intro c
    have hl := live_iff_enabled_binding valid cfg hnd huniq ops c
    have hmem : c ∈ firing (sysRun valid cfg ops).sm ↔ liveCount (sysRun valid cfg ops).sm c ≠ 0 := by
      have h2 : List.count c (firing (sysRun valid cfg ops).sm) = liveCount (sysRun valid cfg ops).sm c := by
        simp [liveCount, firing, List.count_eq_length_filter, List.filter_map, Function.comp_def]
      rw [← h2]; exact (List.count_pos_iff.symm).trans (Nat.pos_iff_ne_zero)
    simp only [List.mem_filter, beq_iff_eq]
    constructor
    · rintro ⟨hm, hs⟩
      refine ⟨hs, ?_⟩
      apply Classical.byContradiction; intro hno
      exact (hmem.1 hm) (hl.2 hno)
    · rintro ⟨hs, hex⟩
      refine ⟨hmem.2 ?_, hs⟩
      obtain ⟨h, he, b, hb, rfl⟩ := hex
      rw [hl.1 (hv h b hb) ⟨h, he, b, hb, rfl⟩]; omega
  · unfold wallTickTasks
    exact perm_flatMap_left _ _ _
      (fun c _ => event_one_task_per_enabled_binding valid cfg hooks ord hord hnd huniq ops c)

/-- Non-vacuity: strings 1 and 3 spell schedule 0, string 2 spells schedule 1. -/
example :
    let cfg : Nat → List Binding := fun h =>
      if h = 0 then [⟨100, 1, 3, [], false, 7, 0⟩, ⟨101, 2, 2, [], true, 8, 0⟩]
      else if h = 1 then [⟨102, 4, 1, [5], false, 7, 6⟩] else []
    let s := sysRun (fun _ => true) cfg [.enable 0, .enable 1]
    wallTickTasks (fun c => if c = 2 then 1 else 0) id [0, 1] s 0 =
      [Spec.bindingTask 0 ⟨100, 1, 3, [], false, 7, 0⟩, Spec.bindingTask 1 ⟨102, 4, 1, [5], false, 7, 6⟩] := by
  decide

/-- Witness for the uniqueness hypothesis (ids are generated uuids in the code): with one id shared by
two hooks on one crontab, disabling one hook silences the other — the hypothesis is needed. -/
theorem shared_id_witness :
    let cfg : Nat → List Binding := fun h => if h ≤ 1 then [⟨100, 1, 1, [], false, 7, 0⟩] else []
    let s := sysRun (fun _ => true) cfg [.enable 0, .enable 1, .disable 1]
    liveCount s.sm 1 = 0 ∧ Spec.enabledAfter [.enable 0, .enable 1, .disable 1] 0 = true := by decide

/-! ## "That binding's queue / name / group / snapshot list" is what the hook DECLARED

The theorems above speak about the effective bindings (`htypes.ScheduleConfig`) the controller is given.
The property speaks about the bindings of the hooks, i.e. the `schedule:` entries of their `--config`
output — in the v1 format or in the legacy v0 format. `load` models `config_v0.go` / `config_v1.go`
(`ConvertSchedule`, the group pass of `ConvertAndCheck`, `MergeArrays`). -/

/-- **C11.5 (loading)** Every entry of every declared `schedule:` list, in either format, with any
kubernetes bindings / groups around it, reaches the controller as the binding it declares: same id
position, crontab and allowFailure, the declared name (`schedule` when absent), the declared queue (`main`
when absent — always `main` in the v0 format), the declared group, and a snapshot list that is the
declared one followed by the not yet listed names of the group's kubernetes bindings, each once. -/
theorem loaded_binding_is_declared (df : Defaults) (v0 : Bool) (kubes : List KubeDecl)
    (ds : List (Id × Decl)) :
    load df v0 kubes ds = ds.map (fun p => loadOne df v0 kubes p.1 p.2) ∧
    ∀ p ∈ ds, Spec.declaredAs df v0 kubes p.1 p.2 (loadOne df v0 kubes p.1 p.2) = true :=
  ⟨load_eq_map df v0 kubes ds, fun p _ => loadOne_declaredAs df v0 kubes p.1 p.2⟩

/-- The queue a declaration names: `main` unless a v1 entry has a `queue`. -/
def declaredQueue (df : Defaults) (v0 : Bool) (d : Decl) : Nat :=
  if v0 then df.mainQueue else d.queue.getD df.mainQueue

/-- **C11.5 (queue)** The task of a declared entry names the declared queue. -/
theorem declared_task_queue (df : Defaults) (v0 : Bool) (kubes : List KubeDecl) (h : Nat) (id : Id) (d : Decl) :
    (Spec.bindingTask h (loadOne df v0 kubes id d)).queue = declaredQueue df v0 d := by
  cases v0
  · simp only [loadOne, Bool.false_eq_true, if_false, declaredQueue, Spec.bindingTask, mergeGroup]
    cases groupSnaps df kubes (convertV1 df id d).group <;> cases hq : d.queue <;> simp [convertV1, hq]
  · rfl

/-- One task per enabled DECLARED entry with that crontab. -/
def wantDeclaredTasks (df : Defaults) (v0 : Nat → Bool) (kubes : Nat → List KubeDecl)
    (decls : Nat → List (Id × Decl)) (hooks : List Nat) (en : Nat → Bool) (c : Crontab) : List Task :=
  hooks.flatMap (fun h =>
    if en h then ((decls h).filter (fun p => p.2.crontab == c)).map
      (fun p => Spec.bindingTask h (loadOne df (v0 h) (kubes h) p.1 p.2)) else [])

/-- **C11.2 from the declarations (end to end)** For every set of hooks, each declaring its schedule
entries in the v1 or in the v0 format (ids pairwise distinct), every enable/disable history, every map
order and every parsable crontab: the tasks of one wall-clock tick are a permutation of exactly one
task per enabled declared entry with that crontab; that task carries what the entry declares
(`loaded_binding_is_declared`) and is placed in `declaredQueue` (`declared_task_queue`,
`placed_in_binding_queue`). -/
theorem declared_tick_one_task_per_enabled_binding (df : Defaults) (v0 : Nat → Bool)
    (kubes : Nat → List KubeDecl) (decls : Nat → List (Id × Decl))
    (valid : Crontab → Bool) (hooks : List Nat) (ord : Links → Links) (hord : ∀ l, (ord l).Perm l)
    (hnd : ∀ h, ((decls h).map (·.1)).Nodup)
    (huniq : ∀ h h' p p', p ∈ decls h → p' ∈ decls h' → p.1 = p'.1 → h = h')
    (ops : List SysOp) (c : Crontab) (hv : valid c = true) :
    (tickTasks ord hooks (sysRun valid (fun h => load df (v0 h) (kubes h) (decls h)) ops) c).Perm
      (wantDeclaredTasks df v0 kubes decls hooks (Spec.enabledAfter ops) c) := by
  have hcfg : ∀ h, load df (v0 h) (kubes h) (decls h) =
      (decls h).map (fun p => loadOne df (v0 h) (kubes h) p.1 p.2) := fun h => load_eq_map _ _ _ _
  have hids : ∀ h, (load df (v0 h) (kubes h) (decls h)).map (·.id) = (decls h).map (·.1) := by
    intro h
    rw [hcfg h, List.map_map]
    apply List.map_congr_left
    intro p _
    exact loadOne_id _ _ _ _ _
  have key := tick_one_task_per_enabled_binding valid (fun h => load df (v0 h) (kubes h) (decls h)) hooks ord hord
    (fun h => by rw [hids h]; exact hnd h)
    (by
      intro h h' b b' hb hb' hid
      rw [hcfg h, List.mem_map] at hb
      rw [hcfg h', List.mem_map] at hb'
      obtain ⟨p, hp, rfl⟩ := hb
      obtain ⟨p', hp', rfl⟩ := hb'
      rw [loadOne_id, loadOne_id] at hid
      exact huniq h h' p p' hp hp' hid)
    ops c hv
  refine key.trans ?_
  unfold Spec.wantTasks wantDeclaredTasks
  have : ∀ h, (if Spec.enabledAfter ops h = true then
        ((load df (v0 h) (kubes h) (decls h)).filter (fun b => b.crontab == c)).map (Spec.bindingTask h) else []) =
      (if Spec.enabledAfter ops h = true then ((decls h).filter (fun p => p.2.crontab == c)).map
        (fun p => Spec.bindingTask h (loadOne df (v0 h) (kubes h) p.1 p.2)) else []) := by
    intro h
    split
    · rw [hcfg h, List.filter_map, List.map_map]
      congr 1
      apply List.filter_congr
      intro p _
      simp [Function.comp, loadOne_crontab]
    · rfl
  simp only [this]
  exact List.Perm.refl _

/-- Non-vacuity: a legacy (v0) hook with an unnamed entry and a v1 hook with a queue and a group, both
enabled, crontab 1 fires: one task each, the v0 task in queue `main` (= 7) under the name `schedule`
(= 9), the v1 task in its queue 8 with the group's kubernetes binding 5 in the snapshot list. -/
example :
    let df : Defaults := ⟨9, 7, 0⟩
    let decls : Nat → List (Id × Decl) := fun h =>
      if h = 0 then [(100, ⟨none, 1, [], true, none, 0⟩)]
      else if h = 1 then [(101, ⟨some 4, 1, [], false, some 8, 6⟩)] else []
    let v0 : Nat → Bool := fun h => h == 0
    let kubes : Nat → List KubeDecl := fun h => if h = 1 then [⟨5, 6⟩, ⟨3, 0⟩] else []
    tickTasks id [0, 1] (sysRun (fun _ => true) (fun h => load df (v0 h) (kubes h) (decls h)) [.enable 0, .enable 1]) 1 =
      [⟨0, 9, 0, true, 9, [], 0, 7⟩, ⟨1, 4, 6, false, 4, [5], 6, 8⟩] := by
  decide

/-- The loader variant of the sixth-wave seeded change (v0 entries converted by a v1 converter that no
longer defaults the queue, the default applied in the v1 group pass only) — NOT the code. -/
def convertV0NoDefault (df : Defaults) (emptyQ : Nat) (id : Id) (d : Decl) : Binding :=
  { convertV0 df id d with queue := emptyQ }

/-- Witness: that variant hands the controller a binding that is not the declared one (its queue is the
queue named "" and not `main`) — `Spec.declaredAs` is falsifiable, for every declaration. -/
theorem v0_queue_default_witness (df : Defaults) (emptyQ : Nat) (kubes : List KubeDecl) (id : Id) (d : Decl)
    (hne : emptyQ ≠ df.mainQueue) :
    Spec.declaredAs df true kubes id d (convertV0NoDefault df emptyQ id d) = false := by
  simp [Spec.declaredAs, convertV0NoDefault, convertV0, hne]

end ShellOp.Schedule.C11
