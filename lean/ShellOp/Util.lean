/-
Shared helpers for the line-protocol drivers (core Lean only: every `Drv`/`Model` module must stay
free of Mathlib so that the per-suite drivers link as `lean_exe`).
-/
namespace ShellOp.Util

/-- Split a protocol line into blank-separated tokens. -/
def tokens (line : String) : List String :=
  (line.trimAscii.toString.splitOn " ").filter (· ≠ "")

/-- Parse `a,b,c` (or `-` / empty for the empty list) into naturals; `none` on any malformed item. -/
def natList? (s : String) : Option (List Nat) :=
  if s == "-" || s == "" then some [] else (s.splitOn ",").mapM String.toNat?

def strList (s : String) : List String :=
  if s == "-" || s == "" then [] else s.splitOn ","

def showNats (l : List Nat) : String :=
  if l.isEmpty then "-" else String.intercalate "," (l.map toString)

def showStrs (l : List String) : String :=
  if l.isEmpty then "-" else String.intercalate "," l

def showOptNat : Option Nat → String
  | none => "nil"
  | some n => toString n

/-- `k=v` argument lookup among tokens. -/
def kv? (key : String) : List String → Option String
  | [] => none
  | t :: ts =>
    if t.startsWith (key ++ "=") then some (t.drop (key.length + 1)).toString else kv? key ts

def showBool (b : Bool) : String := if b then "true" else "false"

def int? (s : String) : Option Int :=
  if s.startsWith "-" then (s.drop 1).toString.toNat?.map (fun n => - (Int.ofNat n))
  else s.toNat?.map Int.ofNat

/-- A driver suite: pure state machine over token lists. -/
structure Suite (σ : Type) where
  init : σ
  step : σ → List String → σ × String

/-- Generic loop: `case …` lines reset the state and are echoed; everything else goes to `step`. -/
partial def Suite.loop {σ : Type} (s : Suite σ) (inp out : IO.FS.Stream) (st : σ) : IO Unit := do
  let line ← inp.getLine
  if line.isEmpty then
    out.flush
    return ()
  let toks := tokens line
  match toks with
  | [] => out.putStrLn "bad-op"; s.loop inp out st
  | "case" :: _ =>
    out.putStrLn (String.intercalate " " toks)
    s.loop inp out s.init
  | _ =>
    let (st', o) := s.step st toks
    out.putStrLn o
    s.loop inp out st'

def Suite.main {σ : Type} (s : Suite σ) : IO Unit := do
  let inp ← IO.getStdin
  let out ← IO.getStdout
  s.loop inp out s.init

end ShellOp.Util
