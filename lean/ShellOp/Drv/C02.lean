import ShellOp.Util
import ShellOp.Model.Snapshot
import ShellOp.Model.FactoryStore
import ShellOp.Model.SnapFilter
import ShellOp.Model.BindingLookup
import ShellOp.Drv.JsonParse
/-! Line-protocol suite for C02 (snapshots). Core-only. -/
namespace ShellOp.Drv.C02
open ShellOp ShellOp.Util ShellOp.Snapshot ShellOp.Json ShellOp.SnapFilter ShellOp.BindingLookup

structure MonSt where
  id : Nat
  mc : MonCfg
  m : Monitor := {}
  added : Bool := false
  started : Bool := false
  prog : Option (List Term) := none   -- the binding's jqFilter (FilterFunc: the program it computes)

/-- a `Snapshot()` call in progress (controlled schedule): monitor, next static informer to read,
objects collected so far, the worlds the cluster went through since the call began -/
structure Conc where
  id : Nat
  next : Nat := 0
  acc : List Entry := []
  worlds : List World := []

structure St where
  w : World := {}
  mons : List MonSt := []
  rid : List (Key × Nat) := []
  hook : HookDecl := {}
  conc : Option Conc := none
  heap : Heap Entry := {}                 -- backing arrays of the slices handed out by Snapshot()
  held : List (Nat × Slice) := []         -- snapshots an execution keeps holding, by monitor id
  kbinds : List (KBind String) := []      -- kubernetes bindings of the hook: name (hex of its bytes) ↦ monitor

def ridOf (st : St) (k : Key) : Nat :=
  match st.rid.find? (fun p => p.1 == k) with
  | some p => p.2
  | none => 0

/-- content = lbl·10000 + a·100 + b: the part of the object the generated programs can see -/
def objOf (c : Nat) : J :=
  .obj [("data", .obj [("a", .str (toString (c / 100 % 100))), ("b", .str (toString (c % 100)))]),
        ("metadata", .obj (if c / 10000 == 1 then [("labels", .obj [("sel", .str "yes")])] else []))]

/-- the filter result as the protocol carries it: the JSON text, as a number -/
def fltOf (p : List Term) (c : Nat) : Nat :=
  match runProg p (objOf c) with
  | some outs => encStr (applyFilterValue outs).print
  | none => 0

/-- without a program (no filter) the projection is not used -/
def theCfg (keep flt : Bool) (prog : Option (List Term) := none) : Cfg :=
  { keepFull := keep, chk := id, hasFilter := flt,
    flt := match prog with
      | some p => fltOf p
      | none => fun c => c / 100 % 100 }

/-- Term encoding: a filter AST of `JsonParse`, `{"e":[]}` = `empty`, `{"it":[keys]}` = `.keys[]`;
a program is `{"c":[term,…]}`. -/
def term? : J → Option Term
  | .obj [("e", _)] => some .empty
  | .obj [("it", ks)] => (ShellOp.Drv.JsonParse.strs? ks).map .iter
  | j => (ShellOp.Drv.JsonParse.filter? j).map .one

def progOf? (s : String) : Option (List Term) :=
  match ShellOp.Drv.JsonParse.json? s with
  | some (.obj [("c", .arr ts)]) => ts.mapM term?
  | _ => none

partial def decStr (n : Nat) (acc : List Char := []) : String :=
  if n ≤ 1 then String.ofList acc else decStr (n / 256) (Char.ofNat (n % 256) :: acc)

/-- `oracle filt`: every element that belongs to an object of the cluster carries the documented
result of the binding's program on THAT object (`frDocumented`, spec level: it does not use
`applyFilterValue`). -/
def filtExact (p : List Term) (w : World) (got : List Entry) : Bool :=
  got.all (fun e =>
    match w.objs.find? (fun o => o.key == e.key) with
    | none => true
    | some o =>
      match runProg p (objOf o.content), ShellOp.Drv.JsonParse.json? (decStr e.fr) with
      | some outs, some r => frDocumented outs r
      | _, _ => false)

/-- the caches `Snapshot()` reads, in reading order -/
def cachesOf (m : Monitor) : List (List Entry) :=
  m.static.map (·.cache) ++ m.varying.flatMap (fun p => p.2.map (·.cache))

/-- one `Snapshot()` call of the monitor on the driver's heap -/
def snapCall (st : St) (ms : MonSt) : St × Slice :=
  let r := snapshotCall (modelSort (ridOf st)) { caches := cachesOf ms.m, heap := st.heap }
  ({ st with heap := r.1.heap }, r.2)

def showEntry (e : Entry) : String :=
  let o := match e.obj with | some c => toString c | none => "-"
  s!"{e.key.ns}.{e.key.name}:{o}:{e.fr}"

def showSnap (l : List Entry) : String :=
  if l.isEmpty then "-" else String.intercalate "," (l.map showEntry)

def parseEntry (kind : Nat) (s : String) : Option Entry :=
  match s.splitOn ":" with
  | [k, o, f] =>
    match k.splitOn "." with
    | [ns, nm] => do
      let ns ← ns.toNat?
      let nm ← nm.toNat?
      let f ← f.toNat?
      let o ← if o == "-" then some none else o.toNat?.map some
      some { key := ⟨ns, kind, nm⟩, obj := o, fr := f, sum := 0 }
    | _ => none
  | _ => none

def parseSnap (kind : Nat) (s : String) : Option (List Entry) :=
  (strList s).mapM (parseEntry kind)

def boolOf (s : String) : Bool := s == "1"

def parseMon (id : Nat) (rest : List String) : Option MonSt := do
  let kind ← (kv? "kind" rest).bind String.toNat?
  let names ← natList? ((kv? "names" rest).getD "-")
  let nss ← natList? ((kv? "nss" rest).getD "-")
  let excl ← match kv? "excl" rest with
    | none => some none
    | some "-" => some none
    | some x => x.toNat?.map some
  let flt := boolOf ((kv? "flt" rest).getD "0")
  let prog ← if flt then (kv? "prog" rest).bind (fun s => (progOf? s).map some) else some none
  some { id := id, prog := prog,
         mc := { cfg := theCfg (boolOf ((kv? "keep" rest).getD "0")) flt prog,
                 kind := kind, names := names, nss := nss,
                 nsSel := boolOf ((kv? "nssel" rest).getD "0"),
                 lblSel := boolOf ((kv? "lsel" rest).getD "0"), exclName := excl } }

def updMon (st : St) (id : Nat) (f : MonSt → MonSt) : St :=
  { st with mons := st.mons.map (fun x => if x.id == id then f x else x) }

def getMon (st : St) (id : Nat) : Option MonSt := st.mons.find? (·.id == id)

/-- a cluster operation on objects reaches every added monitor -/
def worldObj (st : St) (op : COp) : St :=
  let w' : World := { st.w with objs := applyOp st.w.objs op }
  { st with w := w', conc := st.conc.map (fun c => { c with worlds := c.worlds ++ [w'] }), mons := st.mons.map (fun x =>
      if x.added then { x with m := (objStep x.mc st.w x.m op).2 } else x) }

def worldNs (st : St) (n : Nat) (lbl : Option Nat) : St :=
  let w' := (nsStep { cfg := theCfg false false, kind := 0 } false st.w {} n lbl).1
  { st with w := w', mons := st.mons.map (fun x =>
      if x.added then { x with m := (nsStep x.mc x.started st.w x.m n lbl).2 } else x) }

def btype? : String → Option BType
  | "k" => some .kubernetes | "s" => some .schedule | "v" => some .validating
  | "m" => some .mutating | "c" => some .conversion | _ => none

def parseDecl (s : String) : Option Decl :=
  match s.splitOn ":" with
  | [n, g, i] => do
    let n ← n.toNat?
    let g ← g.toNat?
    let i ← if i == "-" || i == "" then some [] else (i.splitOn "+").mapM String.toNat?
    some { name := n, group := g, incl := i }
  | _ => none

def parseDecls (s : String) : Option (List Decl) :=
  if s == "-" || s == "" then some [] else (s.splitOn ";").mapM parseDecl

/-- snapshot identity ↦ opaque snapshot -/
def snapOfId (n : Nat) : Snap := if n == 0 then [] else [⟨⟨0, 0, 0⟩, none, n, n⟩]
def idOfSnap : Snap → Nat
  | [] => 0
  | e :: _ => e.fr

/-- `binding:type:sync:objectsId:declIndex` — the context carries the effective include list of the
declaration that emitted it (what the controllers put into `Metadata.IncludeSnapshots`) -/
def parseCtx (h : HookDecl) (s : String) : Option (List (BC × Nat)) :=
  if s == "-" || s == "" then some [] else
  (s.splitOn ";").mapM (fun x =>
    match x.splitOn ":" with
    | [b, t, sy, o, d] => do
      let b ← b.toNat?
      let t ← btype? t
      let o ← o.toNat?
      let d ← d.toNat?
      let incl := match (h.ofType t)[d]? with
        | some decl => effectiveInclude h.kube decl
        | none => []
      some ({ binding := b, btype := t, isSync := sy == "1", objects := snapOfId o, metaIncl := incl }, d)
    | _ => none)

/-- `name=id` / `name=nil` in call order -/
def parseReads (s : String) : Option (List (Nat × Option Snap)) :=
  if s == "-" || s == "" then some [] else
  (s.splitOn ";").mapM (fun x =>
    match x.splitOn "=" with
    | [n, v] => do
      let n ← n.toNat?
      if v == "nil" then some (n, none) else do
        let v ← v.toNat?
        some (n, some (snapOfId v))
    | _ => none)

def readOf (calls : List (Nat × Option Snap)) (n t : Nat) : Option Snap :=
  match calls[t]? with
  | some (n', r) => if n' == n then r else none
  | none => none

def showPairs (l : List (Nat × Snap)) : String :=
  if l.isEmpty then "-" else
    String.intercalate "+" (l.map (fun p => s!"{p.1}={idOfSnap p.2}"))

/-- keys sorted (the implementation's map has no order) -/
def sortPairs (l : List (Nat × Snap)) : List (Nat × Snap) :=
  l.mergeSort (fun a b => a.1 ≤ b.1)

def showBC (bc : BC) : String :=
  s!"{bc.binding}:o={idOfSnap bc.objects}:s={showPairs (sortPairs (visibleSnapshots bc))}"

def parseObs (ctx : List (BC × Nat)) (s : String) : Option (List ExecObs) :=
  let parts := if s == "-" || s == "" then [] else s.splitOn ";"
  if parts.length != ctx.length then none else
  (ctx.zip parts).mapM (fun p =>
    match p.2.splitOn ":" with
    | [b, o, sn] => do
      let b ← b.toNat?
      let o ← (o.drop 2).toString.toNat?
      let sn := (sn.drop 2).toString
      let pairs ← if sn == "-" then some [] else
        (sn.splitOn "+").mapM (fun y => match y.splitOn "=" with
          | [n, v] => do some ((← n.toNat?), snapOfId (← v.toNat?))
          | _ => none)
      some { binding := b, btype := p.1.1.btype, decl := p.1.2, isSync := p.1.1.isSync, objects := snapOfId o, snapshots := pairs }
    | _ => none)

def step (st : St) (toks : List String) : St × String :=
  match toks with
  | ["rid", tbl] =>
    let ents := (strList tbl).mapM (fun x =>
      match x.splitOn "=" with
      | [k, r] =>
        match k.splitOn "." with
        | [a, b, c] => do some ((⟨← a.toNat?, ← b.toNat?, ← c.toNat?⟩ : Key), ← r.toNat?)
        | _ => none
      | _ => none)
    match ents with
    | some e => ({ st with rid := e }, "ok")
    | none => (st, "bad-op")
  | "mon" :: id :: rest =>
    match id.toNat?.bind (fun i => parseMon i rest) with
    | some ms => ({ st with mons := st.mons.filter (·.id != ms.id) ++ [ms] }, "ok")
    | none => (st, "bad-op")
  | ["nsset", n, l] =>
    match n.toNat?, l.toNat? with
    | some n, some l => (worldNs st n (some l), "ok")
    | _, _ => (st, "bad-op")
  | ["nsdel", n] =>
    match n.toNat? with
    | some n => (worldNs st n none, "ok")
    | none => (st, "bad-op")
  | ["set", ns, kind, nm, a, b, l] =>
    match ns.toNat?, kind.toNat?, nm.toNat?, a.toNat?, b.toNat?, l.toNat? with
    | some ns, some kind, some nm, some a, some b, some l =>
      (worldObj st (.set ⟨⟨ns, kind, nm⟩, l * 10000 + a * 100 + b, l⟩), "ok")
    | _, _, _, _, _, _ => (st, "bad-op")
  | ["del", ns, kind, nm] =>
    match ns.toNat?, kind.toNat?, nm.toNat? with
    | some ns, some kind, some nm => (worldObj st (.del ⟨ns, kind, nm⟩), "ok")
    | _, _, _ => (st, "bad-op")
  | ["add", id] =>
    match id.toNat?.bind (getMon st) with
    | some ms => (updMon st ms.id (fun x => { x with m := createInformers x.mc st.w, added := true, started := false }), "ok")
    | none => (st, "bad-op")
  | ["start", id] =>
    match id.toNat?.bind (getMon st) with
    | some ms =>
      if !ms.added then (st, "bad-op") else
      (updMon st ms.id (fun x => { x with m := startMonitor x.mc st.w x.m, started := true }), "ok")
    | none => (st, "bad-op")
  | ["cfgnames", l] =>
    match natList? l with
    | some l => (st, showNats ({ cfg := theCfg false false, kind := 0, names := l : MonCfg }).namesEff)
    | none => (st, "bad-op")
  | ["cfgnss", sel, l] =>
    match natList? l with
    | some l =>
      let r := ({ cfg := theCfg false false, kind := 0, nss := l, nsSel := boolOf sel : MonCfg }).namespaces
      (st, if r.isEmpty then "nil" else showNats (r.map (fun x => x.getD 0)))
    | none => (st, "bad-op")
  | "oracle" :: "uniq" :: rest =>
    match (kv? "in" rest).bind natList?, (kv? "got" rest).bind natList? with
    | some inp, some got => (st, if uniqExact inp got then "true" else "false")
    | _, _ => (st, "bad-op")
  | ["cleanup", _, _] =>
    -- which of the two free orders the harness chose for the clean-up goroutines of stopped
    -- informers (before / after the registration of the new ones): no model state depends on it
    (st, "ok")
  | ["stop", id] =>
    -- StopMonitor: the binding is gone (its snapshot is not observed any more); the other monitors
    -- of the case are untouched — that is the claim the `oracle snap` lines of the survivors test
    match id.toNat?.bind (getMon st) with
    | some ms => ({ st with mons := st.mons.filter (·.id != ms.id) }, "ok")
    | none => (st, "bad-op")
  | ["snap", id] =>
    match id.toNat?.bind (getMon st) with
    | some ms =>
      -- while some reader holds a snapshot the call goes through the heap (it allocates)
      if st.held.isEmpty then (st, showSnap (ms.m.snapshot (modelSort (ridOf st)))) else
      let (st', sl) := snapCall st ms
      (st', showSnap (st'.heap.read sl))
    | none => (st, "bad-op")
  | ["hold", id] =>
    -- an execution reads the binding's snapshot and keeps the slice
    match id.toNat?.bind (getMon st) with
    | some ms =>
      let (st', sl) := snapCall st ms
      ({ st' with held := st'.held.filter (·.1 != ms.id) ++ [(ms.id, sl)] }, showSnap (st'.heap.read sl))
    | none => (st, "bad-op")
  | ["held", id] =>
    -- the execution looks at the slice it holds once more
    match id.toNat?.bind (fun i => st.held.find? (·.1 == i)) with
    | some (i, sl) => ({ st with held := st.held.filter (·.1 != i) }, showSnap (st.heap.read sl))
    | none => (st, "bad-op")
  | "oracle" :: "held" :: id :: rest =>
    match id.toNat?.bind (getMon st) with
    | some ms =>
      match (kv? "first" rest).bind (parseSnap ms.mc.kind), (kv? "again" rest).bind (parseSnap ms.mc.kind) with
      | some first, some again =>
        (st, if again == first && (again.map (·.key)).eraseDups.length == again.length then "true" else "false")
      | _, _ => (st, "bad-op")
    | none => (st, "bad-op")
  | "oracle" :: "same" :: rest =>
    -- execution level: the rendered contexts an execution holds, as first seen / as seen again
    match kv? "first" rest, kv? "again" rest with
    | some a, some b => (st, if a == b then "true" else "false")
    | _, _ => (st, "bad-op")
  | "oracle" :: "filt" :: id :: rest =>
    match id.toNat?.bind (getMon st) with
    | some ms =>
      match ms.prog, (kv? "got" rest).bind (parseSnap ms.mc.kind) with
      | some p, some got => (st, if filtExact p st.w got then "true" else "false")
      | _, _ => (st, "bad-op")
    | none => (st, "bad-op")
  | ["cbegin", id] =>
    match id.toNat?.bind (getMon st) with
    | some ms => ({ st with conc := some { id := ms.id, worlds := [st.w] } }, "ok")
    | none => (st, "bad-op")
  | ["cread", id] =>
    match id.toNat?.bind (getMon st), st.conc with
    | some ms, some c =>
      if c.id != ms.id then (st, "bad-op") else
      match ms.m.static[c.next]? with
      | some inf => ({ st with conc := some { c with next := c.next + 1, acc := c.acc ++ inf.cache } }, "ok")
      | none => (st, "no-informer")
    | _, _ => (st, "bad-op")
  | ["cend", id] =>
    match id.toNat?.bind (getMon st), st.conc with
    | some ms, some c =>
      if c.id != ms.id then (st, "bad-op") else
      if c.next != ms.m.static.length then (st, s!"reads={c.next}/{ms.m.static.length}") else
      (st, showSnap (modelSort (ridOf st) c.acc))
    | _, _ => (st, "bad-op")
  | "oracle" :: "conc" :: id :: rest =>
    match id.toNat?.bind (getMon st), st.conc with
    | some ms, some c =>
      match (kv? "got" rest).bind (parseSnap ms.mc.kind) with
      | some got =>
        ({ st with conc := none }, if concExact (ridOf st) ms.mc c.worlds got then "true" else "false")
      | none => (st, "bad-op")
    | _, _ => (st, "bad-op")
  | "oracle" :: "snap" :: id :: rest =>
    match id.toNat?.bind (getMon st) with
    | some ms =>
      match (kv? "got" rest).bind (parseSnap ms.mc.kind) with
      | some got =>
        if snapshotExact (ridOf st) ms.mc st.w got then (st, "true")
        else (st, s!"false want={showSnap (modelSort (ridOf st) ((specMatching ms.mc st.w).map (mkEntry ms.mc.cfg)))}")
      | none => (st, "bad-op")
    | none => (st, "bad-op")
  | ["kbinds", l] =>
    let ents := (strList l).mapM (fun x =>
      match x.splitOn "=" with
      | [n, m] => do some ({ name := n, monitor := ← m.toNat? } : KBind String)
      | _ => none)
    match ents with
    | some e => ({ st with kbinds := e }, "ok")
    | none => (st, "bad-op")
  | "lookup" :: nm :: rest =>
    -- the name → monitor glue (`SnapshotsFor`): which monitor is read for this name
    match natList? ((kv? "has" rest).getD "-") with
    | some has =>
      (st, match snapshotsFor st.kbinds (has.contains ·) nm with
        | some m => toString m
        | none => "-")
    | none => (st, "bad-op")
  | "oracle" :: "lookup" :: nm :: rest =>
    match natList? ((kv? "has" rest).getD "-"), (kv? "got" rest) with
    | some has, some g =>
      let got : Option (Option Nat) := if g == "-" then some none else g.toNat?.map some
      match got with
      | some got => (st, showBool (lookupExact st.kbinds (has.contains ·) nm got))
      | none => (st, "false")
    | _, _ => (st, "bad-op")
  | "hook" :: rest =>
    let g := fun k => parseDecls ((kv? k rest).getD "-")
    match g "kube", g "sched", g "val", g "mut", g "conv" with
    | some k, some s, some v, some m, some c =>
      ({ st with hook := { kube := k, sched := s, validating := v, mutating := m, conversion := c } }, "ok")
    | _, _, _, _, _ => (st, "bad-op")
  | "exec" :: rest =>
    match parseCtx st.hook ((kv? "ctx" rest).getD "-"), parseReads ((kv? "reads" rest).getD "-") with
    | some ctx, some calls =>
      let out := updateSnapshots st.hook.effective (readOf calls) (ctx.map (·.1))
      (st, if out.isEmpty then "-" else String.intercalate ";" (out.map showBC))
    | _, _ => (st, "bad-op")
  | "oracle" :: "exec" :: rest =>
    match parseCtx st.hook ((kv? "ctx" rest).getD "-"), parseReads ((kv? "reads" rest).getD "-") with
    | some ctx, some reads =>
      match parseObs ctx ((kv? "got" rest).getD "-") with
      | some obs => if execExact st.hook reads obs then (st, "true") else (st, "false")
      | none => (st, "bad-op")
    | _, _ => (st, "bad-op")
  | _ => (st, "bad-op")

def suite : Suite St := { init := {}, step := step }

end ShellOp.Drv.C02
