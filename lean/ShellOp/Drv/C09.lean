import ShellOp.Util
import ShellOp.Model.BindingContext
import ShellOp.Drv.JsonParse
/-! Line-protocol suite for C09 (binding context JSON). Core-only.

Ordinary lines: the code-shaped model (`mkCtx` → `updateSnapshots` → `renderList`; the events a
cluster change causes come from the C08 model `Trigger.handle`). `oracle run` lines: the documented
contract (`Spec.expectedFile`) compared with the file the implementation wrote. -/
namespace ShellOp.Drv.C09
open ShellOp ShellOp.Util ShellOp.Json ShellOp.Trigger ShellOp.BindingContext ShellOp.Drv.JsonParse

structure RawB where
  name : String
  group : String
  inc : List String

structure St where
  version : Version := .v1
  hook : Hook := {}
  rawK : List RawB := []
  cluster : Cluster := []
  caches : List (String × Cache String) := []     -- per kubernetes binding (by name)
  synced : Bool := false
  origins : Array Origin := #[]                   -- what the code-shaped model of the controllers built (`run`)
  sorigins : Array Origin := #[]                  -- the same contexts in terms of the configuration and the request (oracles)
  okeys : Array (List String × List String) := #[]  -- per context: includeSnapshotsFrom as written, kubernetes bindings of the group
  rawO : List RawB := []                          -- the `ob` bindings as written
  obRules : List (List (String × String)) := []   -- per `ob` binding: its conversion rules

def cks (j : J) : String := j.print

def dash (s : String) : String := if s == "-" then "" else s
def undash (s : String) : String := if s == "" then "-" else s

def crdName : String := "crontabs.stable.example.com"

def okindOrd : OKind → Nat
  | .schedule => 0 | .validating => 1 | .mutating => 2 | .conversion => 3

def okind? : String → Option OKind
  | "schedule" => some .schedule | "validating" => some .validating
  | "mutating" => some .mutating | "conversion" => some .conversion | _ => none

def insertObj (ns name : String) (o : J) : Cluster → Cluster
  | [] => [(ns, name, o)]
  | (n2, m2, o2) :: rest =>
    if ns < n2 ∨ (ns = n2 ∧ name < m2) then (ns, name, o) :: (n2, m2, o2) :: rest
    else if ns = n2 ∧ name = m2 then (ns, name, o) :: rest
    else (n2, m2, o2) :: insertObj ns name o rest

def findObj (ns name : String) (cl : Cluster) : Option J :=
  (cl.find? (fun x => x.1 = ns ∧ x.2.1 = name)).map (·.2.2)

def nameId (name : String) : Nat := (name.drop 1).toString.toNat?.getD 0 + (if name.startsWith "o" then 0 else 1000)

def getCache (st : St) (b : String) : Cache String := ((st.caches.find? (·.1 == b)).map (·.2)).getD []
def setCache (st : St) (b : String) (c : Cache String) : List (String × Cache String) :=
  (b, c) :: st.caches.filter (·.1 != b)

/-- One cluster change seen by every started monitor, in binding order. -/
def rawPairs (st : St) : List (String × String) := st.rawK.map (fun r => (r.name, r.group))

/-- What the configuration, as written, says about a binding's `snapshots`: own list, group members. -/
def kbSpec (st : St) (name : String) : List String × List String :=
  match st.rawK.find? (·.name == name) with
  | some r => (r.inc, Spec.groupKbs (rawPairs st) r.group)
  | none => ([], [])

def obSpec (st : St) (k : Nat) : List String × List String :=
  match st.rawO[k]? with
  | some r => (r.inc, Spec.groupKbs (rawPairs st) r.group)
  | none => ([], [])

def pushO (st : St) (o so : Origin) (keys : List String × List String) : St :=
  { st with origins := st.origins.push o, sorigins := st.sorigins.push so, okeys := st.okeys.push keys }

def deliver (st : St) (ns name : String) (we : WatchEvent) (obj : J) : St × List String :=
  st.hook.kbs.foldl (fun (acc : St × List String) b =>
    if b.ns != ns then acc else
    let st := acc.1
    let r := handle b.cfg cks (getCache st b.name) we (nameId name) obj
    let st := { st with caches := setCache st b.name r.1 }
    match r.2 with
    | none => (st, acc.2)
    | some _ => (pushO st (.kubeEvent b we obj) (.kubeEvent b we obj) (kbSpec st b.name), acc.2 ++ [s!"{b.name}:{we.toString}"]))
    (st, [])

def origin? (st : St) (i : Nat) : Option Origin := st.origins[i]?
def sorigin? (st : St) (i : Nat) : Option Origin := st.sorigins[i]?

/-- The conversion bindings of the hook as the controller receives them (effective include lists). -/
def convBs (st : St) : List ConvB :=
  (st.hook.obs.zip st.obRules).filterMap (fun (b, rs) =>
    if b.kind == .conversion then some { name := b.name, crd := crdName, group := b.group, inc := b.inc, rules := rs } else none)

def step (st : St) (toks : List String) : St × String :=
  match toks with
  | ["hook", v] =>
    match kv? "version" [v] with
    | some "v1" => ({ version := .v1 }, "ok")
    | some "v0" => ({ version := .v0 }, "ok")
    | _ => (st, "bad-op")
  | "kb" :: rest =>
    match kv? "name" rest, kv? "ns" rest, (kv? "ast" rest).bind optFilter?, kv? "keep" rest, kv? "group" rest,
          kv? "inc" rest, kv? "types" rest with
    | some name, some ns, some f, some keep, some g, some inc, some ts =>
      let types := if ts == "default" then some defaultTypes else (strList ts).mapM WatchEvent.ofString?
      match types with
      | none => (st, "bad-op")
      | some types =>
        -- the v0 loader has no keepFullObjectsInMemory / group / includeSnapshotsFrom
        let b : KBinding := { name := name, ns := ns, cfg := { types := types, filter := f, keep := keep == "1" },
                              group := dash g, inc := strList inc }
        ({ st with hook := { st.hook with kbs := st.hook.kbs ++ [b] },
                   rawK := st.rawK ++ [{ name := name, group := dash g, inc := strList inc }] }, "ok")
    | _, _, _, _, _, _, _ => (st, "bad-op")
  | "ob" :: rest =>
    match (kv? "kind" rest).bind okind?, kv? "name" rest, kv? "group" rest, kv? "inc" rest, kv? "from" rest, kv? "to" rest with
    | some k, some name, some g, some inc, some fr, some to =>
      -- from= / to=: the conversion rules of the binding (two parallel lists)
      let rules := (strList fr).zip (strList to)
      if (strList fr).length != (strList to).length || (k == .conversion && rules.isEmpty) then (st, "bad-op") else
      let b : OBinding := { kind := k, name := name, group := dash g, inc := strList inc,
                            fromV := ((rules.head?).map (·.1)).getD "", toV := ((rules.head?).map (·.2)).getD "" }
      ({ st with hook := { st.hook with obs := st.hook.obs ++ [b] },
                 rawO := st.rawO ++ [{ name := name, group := dash g, inc := strList inc }],
                 obRules := st.obRules ++ [rules] }, "ok")
    | _, _, _, _, _, _ => (st, "bad-op")
  | ["effective"] =>
    -- the loader merges, per binding with a group, the names of the kubernetes bindings of that group
    let raw := st.rawK.map (fun r => (r.name, r.group))
    let kbs := st.hook.kbs.map (fun b => { b with inc := mergeArrays b.inc (groupSnapshots raw b.group) })
    let obs := st.hook.obs.map (fun b => { b with inc := mergeArrays b.inc (groupSnapshots raw b.group) })
    let obsSorted := [OKind.schedule, .validating, .mutating, .conversion].flatMap (fun k => obs.filter (·.kind == k))
    let out := kbs.map (fun b => s!"{b.name}={showStrs b.inc}") ++ obsSorted.map (fun b => s!"{b.name}={showStrs b.inc}")
    ({ st with hook := { kbs := kbs, obs := obs } }, String.intercalate " " out)
  | ["put", ns, name, o] =>
    match json? o with
    | none => (st, "bad-op")
    | some obj =>
      let existed := (findObj ns name st.cluster).isSome
      let st := { st with cluster := insertObj ns name obj st.cluster }
      if !st.synced then (st, "events=-") else
      let (st, evs) := deliver st ns name (if existed then .modified else .added) obj
      (st, "events=" ++ showStrs evs)
  | ["del", ns, name] =>
    match findObj ns name st.cluster with
    | none => (st, "bad-op")
    | some obj =>
      let st := { st with cluster := st.cluster.filter (fun x => ¬ (x.1 = ns ∧ x.2.1 = name)) }
      if !st.synced then (st, "events=-") else
      let (st, evs) := deliver st ns name .deleted obj
      (st, "events=" ++ showStrs evs)
  | ["sync"] =>
    -- AddMonitor (initial list) + StartMonitor + the Synchronization context, per binding
    let st := st.hook.kbs.foldl (fun (st : St) b =>
      let objs := (st.cluster.filter (fun o => o.1 = b.ns)).map (fun o => (nameId o.2.1, o.2.2))
      let c := (load b.cfg cks objs).getD []
      pushO { st with caches := setCache st b.name c } (.kubeSync b) (.kubeSync b) (kbSpec st b.name)) st
    ({ st with synced := true }, s!"ctx={st.hook.kbs.length}")
  | ["mk", "onStartup"] => (pushO st .onStartup .onStartup ([], []), "ctx=1")
  -- bindings of one type may share a name (every unnamed schedule binding is "schedule"): a context is
  -- attributed to its binding by the position `k` of the binding among the `ob` lines
  | ["mk", "schedule", name, k] =>
    match k.toNat?.bind (fun k => st.hook.obs[k]?) with
    | some b =>
      if b.kind == .schedule && b.name == name then (pushO st (.other b "") (.other b "") (obSpec st (k.toNat?.getD 0)), "ctx=1")
      else (st, "bad-op")
    | none => (st, "bad-op")
  -- a conversion request served by rule `r` of the `i`-th binding. Code-shaped side (answer, `run`): the
  -- link `EnableConversionBindings` stored under the rule and the context `HandleEvent` builds from it;
  -- oracle side: the binding as written and the rule the request is for
  | ["mk", "conversion", name, uid, i, r] =>
    match i.toNat?, r.toNat? with
    | some i, some r =>
      match st.hook.obs[i]?, (st.obRules[i]?).bind (fun rs => rs[r]?) with
      | some b, some rule =>
        if !(b.kind == .conversion && b.name == name) then (st, "bad-op") else
        match handleConversion (enableConversion (convBs st)) crdName rule s!"review:{uid}" with
        | none => (st, "ctx=0")
        | some c =>
          let o : Origin := .other { kind := .conversion, name := c.binding, group := c.group, inc := c.includeSnapshots,
                                     fromV := c.fromVersion, toV := c.toVersion } c.review
          let so : Origin := .other { b with fromV := rule.1, toV := rule.2 } s!"review:{uid}"
          (pushO st o so (obSpec st i), s!"ctx=1 binding={c.binding} from={undash c.fromVersion} to={undash c.toVersion}")
      | _, _ => (st, "bad-op")
    | _, _ => (st, "bad-op")
  | ["mk", k, name, uid, i] =>
    match okind? k, i.toNat?.bind (fun i => st.hook.obs[i]?) with
    | some kind, some b =>
      if b.kind == kind && b.name == name && (kind == .validating || kind == .mutating) then
        (pushO st (.other b s!"review:{uid}") (.other b s!"review:{uid}") (obSpec st (i.toNat?.getD 0)), "ctx=1")
      else (st, "bad-op")
    | _, _ => (st, "bad-op")
  | ["run", idx] =>
    match (natList? idx).bind (fun is => is.mapM (origin? st)) with
    | none => (st, "bad-op")
    | some os =>
      match runFile st.version st.hook st.cluster os with
      | some j => (st, "json=" ++ j.print)
      | none => (st, "panic")
  | ["oracle", "run", idx, got] =>
    match (natList? idx).bind (fun is => is.mapM (sorigin? st)) with
    | none => (st, "bad-op")
    | some os =>
      let want := (Spec.expectedFile st.version st.hook st.cluster os).print
      match json? got with
      | some g => if g.print == want then (st, "true") else (st, "false want=" ++ want)
      | none => (st, "false want=" ++ want)
  | ["oracle", "snapshots", idx, bits] =>
    -- the clause "`snapshots` is present exactly when the binding includes snapshots", item by item
    match (natList? idx).bind (fun is => is.mapM (sorigin? st)), natList? bits with
    | some os, some bs =>
      if os.length != bs.length then (st, s!"false items={bs.length} want={os.length}") else
      let bad := (List.range os.length).filter (fun i =>
        match os[i]?, bs[i]? with
        | some o, some b => !(Spec.snapshotsClause st.version o (b != 0))
        | _, _ => true)
      match bad with
      | [] => (st, "true")
      | i :: _ => (st, s!"false item={i} has-snapshots={bs[i]?.getD 0} includes=" ++ showStrs (((os[i]?).map incOf).getD []))
    | _, _ => (st, "bad-op")
  | ["oracle", "snapkeys", idx, shown] =>
    -- the keys of `snapshots`, item by item (`!` = no `snapshots`): exactly the names in the binding's own
    -- includeSnapshotsFrom plus the kubernetes bindings of its group, as the configuration is written
    match (natList? idx).bind (fun is => is.mapM (fun i => st.okeys[i]?)) with
    | none => (st, "bad-op")
    | some ks =>
      let items := shown.splitOn "|"
      if items.length != ks.length then (st, s!"false items={items.length} want={ks.length}") else
      let bad := (List.range ks.length).filter (fun i =>
        match ks[i]?, items[i]? with
        | some (own, grp), some it =>
          let sh : Option (List String) := if it == "!" then none else some (strList it)
          match st.version with
          | .v1 => !(Spec.snapKeysClause own grp sh)
          | .v0 => sh.isSome
        | _, _ => true)
      match bad with
      | [] => (st, "true")
      | i :: _ =>
        let (own, grp) := (ks[i]?).getD ([], [])
        (st, s!"false item={i} snapshots-keys={(items[i]?).getD "?"} own-includeSnapshotsFrom={showStrs own} group-kubernetes-bindings={showStrs grp}")
  | ["oracle", "fr", shown] =>
    -- the clause "filterResult equal to the jq result for that very object": every element the file shows
    -- with its full object, `[binding, object]` or `[binding, object, filterResult]`, judged by the jqFilter
    -- of the kubernetes binding of that name as configured - on the object SHOWN, not on the model's cluster
    match json? shown with
    | some (.arr ts) =>
      let verdicts := ts.map (fun t =>
        match t with
        | .arr [.str b, obj] => (st.hook.kbs.find? (·.name == b)).map (fun kb => (b, obj, (none : Option J), kb.cfg.filter))
        | .arr [.str b, obj, fr] => (st.hook.kbs.find? (·.name == b)).map (fun kb => (b, obj, some fr, kb.cfg.filter))
        | _ => none)
      if verdicts.any (·.isNone) then (st, "bad-op") else
      match (verdicts.filterMap id).find? (fun (_, obj, fr, f) => !(Spec.filterResultClause f obj fr)) with
      | none => (st, "true")
      | some (b, obj, fr, f) =>
        (st, s!"false binding={b} filterResult={showOptJ fr} jq-result-for-the-object-shown={showOptJ (f.map (fun p => (p.eval obj).getD .null))} object={obj.print}")
    | _ => (st, "bad-op")
  | _ => (st, "bad-op")

def suite : Suite St := { init := {}, step := step }

end ShellOp.Drv.C09
