import ShellOp.Drv.Worker
/-! Line-protocol suite for C17: the shared worker suite (`Drv/Worker`). -/
namespace ShellOp.Drv.C17
def suite := ShellOp.Drv.Worker.suite
end ShellOp.Drv.C17
