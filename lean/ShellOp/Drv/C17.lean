import ShellOp.Drv.Worker
import ShellOp.Model.HookQueues
import ShellOp.Model.SetContext
/-! Line-protocol suite for C17: the shared worker suite (`Drv/Worker`) plus the lines of the
whole-operator cases with cluster events (queue wiring, stop request heard, late cluster events). -/
namespace ShellOp.Drv.C17
open ShellOp ShellOp.Util ShellOp.HookQueues

def step (st : Worker.St) (toks : List String) : Worker.St × String :=
  match toks with
  | "hookqueues" :: args =>
    -- model of bootstrapMainQueue/StartMain/initAndStartHookQueues: which queues exist (all started),
    -- which of them hear TaskQueueSet.Stop(); queue names of the bindings in hook order, 0 = main
    match (kv? "sched" args).bind natList?, (kv? "kube" args).bind natList? with
    | some sched, some kube =>
      let s := operatorQueues [sched] [kube]
      let names := sortedNames ((s.filter (·.started)).map (·.name))
      let heard := sortedNames ((s.filter hearsStop).map (·.name))
      (st, s!"queues={showNats names} heard={showNats heard}")
    | _, _ => (st, "bad-op")
  | "setctx" :: args =>
    -- model of WithContext / Stop / NewNamedQueue / Start over the operations of the case so far (S = Stop(),
    -- nK = NewNamedQueue(K), sK = Start of K): which queues of the set hear the stop request
    match kv? "ops" args with
    | some ops =>
      let parsed : Option (List SetCtx.Op) := (strList ops).foldr (fun t acc =>
        match acc with
        | none => none
        | some l =>
          if t == "S" then some (SetCtx.Op.stop :: l)
          else if t.startsWith "n" then (t.drop 1).toString.toNat?.map fun k => SetCtx.Op.new k :: l
          else if t.startsWith "s" then (t.drop 1).toString.toNat?.map fun k => SetCtx.Op.start k :: l
          else none) (some [])
      match parsed with
      | some l =>
        let s := SetCtx.run false (SetCtx.init false) l
        (st, s!"requested={s.requested} heard={showNats (sortedNames (SetCtx.heardNames s))}")
      | none => (st, "bad-op")
    | none => (st, "bad-op")
  | "oracle" :: "stopheard" :: args =>
    -- the stop request reached (the context of) main and every queue a binding names
    match (kv? "want" args).bind natList?, (kv? "heard" args).bind natList? with
    | some want, some heard =>
      let bad := want.filter fun q => !(heard.contains q)
      if bad.isEmpty then (st, "true")
      else (st, s!"false the-stop-request-of-Shutdown-did-not-reach-queues-{showNats bad}")
    | _, _ => (st, "bad-op")
  | "oracle" :: "latecluster" :: args =>
    -- no object created in the cluster after Shutdown() returned appears in any hook execution
    match kv? "late" args, kv? "seen" args with
    | some late, some seen =>
      let bad := (strList late).filter fun o => (strList seen).contains o
      if bad.isEmpty then (st, "true")
      else (st, s!"false cluster-events-after-Shutdown-led-to-executions-for-objects-{showStrs bad}")
    | _, _ => (st, "bad-op")
  | "oracle" :: "shutdownreturns" :: args =>
    -- Shutdown() was requested while a queue handler was waiting for the API server: the request must get
    -- through to the queues (and the call come back after its wait) without the API server's answer
    match kv? "returned" args with
    | some "true" => (st, "true")
    | some _ => (st, "false Shutdown()-did-not-return-while-a-queue-handler-was-waiting-for-the-API-server")
    | none => (st, "bad-op")
  | "oracle" :: "shutdownwaits" :: args =>
    -- workers of the queues `busy` were inside their handlers during the whole Shutdown() call: the wait for
    -- the queues must not have ended ahead of its timeout
    match (kv? "busy" args).bind natList?, kv? "early" args with
    | some busy, some early =>
      if busy.isEmpty || early == "false" then (st, "true")
      else (st, s!"false Shutdown()-returned-ahead-of-its-timeout-while-workers-were-inside-handlers-in-queues-{showNats busy}")
    | _, _ => (st, "bad-op")
  | _ => Worker.step st toks

def suite : Suite Worker.St := { init := {}, step := step }
end ShellOp.Drv.C17
