import ShellOp.Util
import ShellOp.Model.Json
/-! Driver plumbing shared by the C08 and C09 suites: a reader for compact JSON text (integers
only; a fraction or exponent makes the line `bad-op`) and the decoder of the filter AST the harness
ships next to the jq text. Core-only. Not part of any model. -/
namespace ShellOp.Drv.JsonParse
open ShellOp.Json

def hexVal (c : Char) : Option Nat :=
  if '0' ≤ c ∧ c ≤ '9' then some (c.toNat - '0'.toNat)
  else if 'a' ≤ c ∧ c ≤ 'f' then some (c.toNat - 'a'.toNat + 10)
  else if 'A' ≤ c ∧ c ≤ 'F' then some (c.toNat - 'A'.toNat + 10)
  else none

partial def parseStrBody (acc : List Char) : List Char → Option (String × List Char)
  | '"' :: rest => some (String.ofList acc.reverse, rest)
  | '\\' :: 'u' :: a :: b :: c :: d :: rest => do
    let n := (← hexVal a) * 4096 + (← hexVal b) * 256 + (← hexVal c) * 16 + (← hexVal d)
    parseStrBody (Char.ofNat n :: acc) rest
  | '\\' :: 'n' :: rest => parseStrBody ('\n' :: acc) rest
  | '\\' :: 't' :: rest => parseStrBody ('\t' :: acc) rest
  | '\\' :: 'r' :: rest => parseStrBody ('\r' :: acc) rest
  | '\\' :: c :: rest => parseStrBody (c :: acc) rest
  | c :: rest => parseStrBody (c :: acc) rest
  | [] => none

def takeDigits : List Char → List Char × List Char
  | c :: rest => if c.isDigit then let (d, r) := takeDigits rest; (c :: d, r) else ([], c :: rest)
  | [] => ([], [])

def parseNum (cs : List Char) : Option (J × List Char) :=
  let (neg, cs) := match cs with | '-' :: r => (true, r) | _ => (false, cs)
  let (ds, rest) := takeDigits cs
  if ds.isEmpty then none else
  match rest with
  | '.' :: _ => none
  | 'e' :: _ => none
  | 'E' :: _ => none
  | _ =>
    let n := ds.foldl (fun a c => a * 10 + (c.toNat - '0'.toNat)) 0
    some (.num (if neg then - (Int.ofNat n) else Int.ofNat n), rest)

mutual
partial def parseVal : List Char → Option (J × List Char)
  | 'n' :: 'u' :: 'l' :: 'l' :: rest => some (.null, rest)
  | 't' :: 'r' :: 'u' :: 'e' :: rest => some (.bool true, rest)
  | 'f' :: 'a' :: 'l' :: 's' :: 'e' :: rest => some (.bool false, rest)
  | '"' :: rest => (parseStrBody [] rest).map (fun (s, r) => (.str s, r))
  | '[' :: ']' :: rest => some (.arr [], rest)
  | '[' :: rest => parseItems [] rest
  | '{' :: '}' :: rest => some (.obj [], rest)
  | '{' :: rest => parseMembers [] rest
  | cs => parseNum cs
partial def parseItems (acc : List J) (cs : List Char) : Option (J × List Char) := do
  let (v, rest) ← parseVal cs
  match rest with
  | ',' :: rest => parseItems (v :: acc) rest
  | ']' :: rest => some (.arr (v :: acc).reverse, rest)
  | _ => none
partial def parseMembers (acc : List (String × J)) (cs : List Char) : Option (J × List Char) := do
  match cs with
  | '"' :: rest =>
    let (k, rest) ← parseStrBody [] rest
    match rest with
    | ':' :: rest =>
      let (v, rest) ← parseVal rest
      match rest with
      | ',' :: rest => parseMembers ((k, v) :: acc) rest
      | '}' :: rest => some (J.mkObj ((k, v) :: acc).reverse, rest)
      | _ => none
    | _ => none
  | _ => none
end

/-- Whole-token JSON. -/
def json? (s : String) : Option J :=
  match parseVal s.toList with
  | some (v, []) => some v
  | _ => none

def strs? : J → Option (List String)
  | .arr xs => xs.mapM (fun (x : J) => match x with | J.str s => some s | _ => none)
  | _ => none

/-- Filter AST encoding: `{"p":[keys]}` path, `{"l":v}` literal, `{"o":[[key,f],…]}` object
construction, `{"a":[f,…]}` array construction, `{"alt":[f,g]}` alternative. -/
partial def filter? : J → Option Filter
  | .obj [("p", ks)] => (strs? ks).map .path
  | .obj [("l", v)] => some (.lit v)
  | .obj [("o", .arr fs)] =>
    (fs.mapM (fun (x : J) => match x with
      | J.arr [J.str k, f] => (filter? f).map (fun g => (k, g))
      | _ => none)).map Filter.mkObj
  | .obj [("a", .arr fs)] => (fs.mapM filter?).map .mkArr
  | .obj [("alt", .arr [a, b])] => do some (.alt (← filter? a) (← filter? b))
  | _ => none

/-- A program: `{"c":[f,g,…]}` = `f, g, …` at top level, anything else one expression. -/
def prog? : J → Option Prog
  | .obj [("c", .arr fs)] => (fs.mapM filter?).map Prog.many
  | j => (filter? j).map Prog.one

/-- `-` = no filter. -/
def optFilter? (s : String) : Option (Option Prog) :=
  if s == "-" then some none else (json? s).bind (fun j => (prog? j).map some)

def showOptJ : Option J → String
  | none => "-"
  | some j => j.print

end ShellOp.Drv.JsonParse
