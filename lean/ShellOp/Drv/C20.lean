import ShellOp.Util
import ShellOp.Model.Discovery
/-! Line-protocol suite for C20 (hook discovery). Core-only.

```
env hooksdir=<name> tmpdir=<path>   the other settings of the start (the hook set does not depend on them) -> ok
tree <rootName> <preorder tokens: d <name> … u | f <name> <octal mode> <outcome> | l <name> <outcome>>
                      outcome = ok[:<class>] | invalid[:<class>] | fail:<exitN|sigN|nostart…>:<none|valid>
                      (`l`: a symbolic link to an executable file; `fail`: how the --config run ended and
                       whether it had printed a valid configuration — the outcome comes from `loadOutcome`)
                      (a case may contain several `tree` lines: the hooks directory as it is at each
                       start of a hook manager in the same process; each replaces the model's tree)
                      -> walk=<relative paths in the order RecursiveGetExecutablePaths returned them>
oracle discover got=<…>       the property: got is exactly the set of hook paths (documented literals)
init                  -> names=<GetHookNames> asked=<--config invocation log> err=<hook named by the error>
oracle load failed=<0|1> names=<…> asked=<…> err=<…>
```
-/
namespace ShellOp.Drv.C20
open ShellOp ShellOp.Util ShellOp.Discovery

structure St where
  root : Option (Path × Tree) := none
  proc : ProcState := procInit     -- what earlier starts of this case left behind in the process
  silent : List Name := []         -- relative names of the files that cannot write the invocation log

/-- `ok | fail | invalid`, optionally followed by `:<what the hook prints / does>` (the catalogue class
of the configuration: the concrete input of the replay; the model only needs the outcome) -/
def runEnd? (s : String) : Option RunEnd :=
  if s.startsWith "nostart" then some .notStarted
  else if s.startsWith "exit" then (s.drop 4).toString.toNat?.map .exited
  else if s.startsWith "sig" then (s.drop 3).toString.toNat?.map .signaled
  else none

def outcome? (s : String) : Option Outcome :=
  match s.splitOn ":" with
  | "ok" :: _ => some .ok
  | "invalid" :: _ => some .invalid
  | ["fail", e, o] => do
    let e ← runEnd? e
    if o == "valid" then some (loadOutcome e true)
    else if o == "none" then some (loadOutcome e false)
    else none
  | _ => none

def octal? (s : String) : Option Nat :=
  if s.isEmpty then none else
  s.toList.foldl (fun acc c => acc.bind fun a =>
    if '0' ≤ c && c ≤ '7' then some (a * 8 + (c.toNat - '0'.toNat)) else none) (some 0)

/-- parse the preorder token list with an explicit stack of open directories -/
def parseTree : List String → List (Name × List Tree) → Option Tree
  | [], _ => none
  | "f" :: n :: m :: o :: rest, (dn, cs) :: st => do
    let m ← octal? m
    let o ← outcome? o
    parseTree rest ((dn, Tree.file (bytesOf n) m o :: cs) :: st)
  | "l" :: n :: o :: rest, (dn, cs) :: st => do
    let o ← outcome? o
    parseTree rest ((dn, Tree.link (bytesOf n) o :: cs) :: st)
  | "d" :: n :: rest, st => parseTree rest ((bytesOf n, []) :: st)
  | "u" :: rest, (dn, cs) :: st =>
    let t := Tree.dir dn cs.reverse
    match st with
    | [] => if rest.isEmpty then some t else none
    | (pn, pcs) :: st' => parseTree rest ((pn, t :: pcs) :: st')
  | _, _ => none

/-- a `--config` run that cannot be started (`fail:nostart…`) never executes a line of the file: the
invocation log, which the generated hooks write themselves, cannot contain it. This is a limit of the
observation `asked`, not of the property; everything else (Init fails, the error names the hook, the
hooks before it were asked once, none after it) is still judged. -/
def isSilent (o : String) : Bool := o.startsWith "fail:nostart"

def relOf (stack : List String) (n : String) : Name := bytesOf ("/".intercalate (stack.reverse ++ [n]))

/-- relative names of the silent files of a token list (same positional reading as `parseTree`) -/
def silentNames : List String → List String → List Name
  | "f" :: n :: _ :: o :: rest, stack => (if isSilent o then [relOf stack n] else []) ++ silentNames rest stack
  | "l" :: n :: o :: rest, stack => (if isSilent o then [relOf stack n] else []) ++ silentNames rest stack
  | "d" :: n :: rest, stack => silentNames rest (n :: stack)
  | "u" :: rest, _ :: stack => silentNames rest stack
  | _, _ => []

def showPaths (rp : Path) (ps : List Path) : String :=
  showStrs (ps.map (fun p => strOf (relName rp p)))

def parseNames (s : String) : List Name := (strList s).map bytesOf

def sameSet (a b : List Name) : Bool := a.all (b.contains ·) && b.all (a.contains ·)

def nodupB : List Name → Bool
  | [] => true
  | a :: l => !l.contains a && nodupB l

def strictSorted : List Name → Bool
  | a :: b :: l => decide (a < b) && strictSorted (b :: l)
  | _ => true

def step (st : St) (toks : List String) : St × String :=
  match toks with
  | "env" :: _ => (st, "ok")
  | "tree" :: rn :: rest =>
    match parseTree ("d" :: rn :: rest) [] with
    | some t =>
      let rp := bytesOf rn
      let r := startOnce rp st.proc t
      ({ root := some (rp, t), proc := r.1, silent := silentNames rest [] }, s!"walk={showPaths rp r.2.1}")
    | none => (st, "bad-op")
  | ["init"] =>
    match st.root with
    | none => (st, "bad-op")
    | some (rp, t) =>
      let r := (startOnce rp st.proc t).2.2
      let err := match r.err with | some p => strOf (relName rp p) | none => "-"
      let heard := r.asked.filter (fun p => !st.silent.contains (relName rp p))
      (st, s!"names={showStrs (r.loaded.map strOf)} asked={showPaths rp heard} err={err}")
  | "oracle" :: "discover" :: rest =>
    match st.root, kv? "got" rest with
    | some (rp, t), some got =>
      -- the property itself: the returned set is exactly the set of hook paths, each once
      let want := (specPaths rp t).map (relName rp)
      let got := parseNames got
      if nodupB got && sameSet got want then (st, "true")
      else (st, s!"false want-set={showStrs ((sortPaths want).map strOf)}")
    | _, _ => (st, "bad-op")
  | "oracle" :: "load" :: rest =>
    match st.root, kv? "failed" rest, kv? "names" rest, kv? "asked" rest, kv? "err" rest with
    | some (rp, t), some failed, some names, some asked, some err =>
      let spec := specPaths rp t
      let order := sortPaths spec      -- the lexical order of the hook paths
      let rel := fun (ps : List Path) => ps.map (relName rp)
      let names := parseNames names
      let asked := parseNames asked
      let err := parseNames err
      let okB := fun p => outcomeAt rp t p == Outcome.ok
      match order.find? (fun p => !okB p) with
      | none =>
        -- every hook loaded: names = the hook set in lexical order, each asked once in that order
        if failed == "0" && strictSorted names && sameSet names (rel spec) && asked == names && err.isEmpty
        then (st, "true")
        else (st, s!"false want failed=0 names=asked={showStrs ((rel order).map strOf)} err=-")
      | some b =>
        -- initialization fails, the error names the first bad hook, nothing after it was asked
        let wantAsked := (rel (order.takeWhile okB ++ [b])).filter (fun n => !st.silent.contains n)
        if failed == "1" && asked == wantAsked && err.contains (relName rp b) then (st, "true")
        else (st, s!"false want failed=1 asked={showStrs (wantAsked.map strOf)} err∋{strOf (relName rp b)}")
    | _, _, _, _, _ => (st, "bad-op")
  | _ => (st, "bad-op")

def suite : Suite St := { init := {}, step := step }

end ShellOp.Drv.C20
